//go:build verif

// Package vclientv3 stands in for go.etcd.io/etcd/client/v3 in repository files that dial
// etcd themselves (clientv3.New): identical types and helpers (aliases), but New can be
// redirected to a client of /verif's fake etcd. Only the identifiers those files use are
// re-exported.
package vclientv3

import (
	"sync/atomic"

	clientv3 "go.etcd.io/etcd/client/v3"
)

type (
	Config   = clientv3.Config
	Client   = clientv3.Client
	Cmp      = clientv3.Cmp
	Op       = clientv3.Op
	OpOption = clientv3.OpOption
)

var (
	Compare        = clientv3.Compare
	Version        = clientv3.Version
	ModRevision    = clientv3.ModRevision
	CreateRevision = clientv3.CreateRevision
	Value          = clientv3.Value
	OpPut          = clientv3.OpPut
	OpGet          = clientv3.OpGet
	OpDelete       = clientv3.OpDelete
	WithPrefix     = clientv3.WithPrefix
	WithRev        = clientv3.WithRev
	WithLease      = clientv3.WithLease
)

var hook atomic.Pointer[func(Config) (*Client, error)]

// SetNew redirects New (nil restores the real dial).
func SetNew(f func(Config) (*Client, error)) {
	if f == nil {
		hook.Store(nil)
		return
	}
	hook.Store(&f)
}

func New(cfg Config) (*Client, error) {
	if f := hook.Load(); f != nil {
		return (*f)(cfg)
	}
	return clientv3.New(cfg)
}
