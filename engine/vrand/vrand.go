//go:build verif

// Package vrand stands in for math/rand in repo files whose "random" values must be
// chosen by an explorer (registry key "shim": {"<file>": {"math/rand": "vrand"}}; the
// file then imports this package under the name rand).
//
// It re-exports exactly the math/rand API used by the shimmed files
// (pkg/broker/coordinator.go: rand.Int63 in newMemberID). Every function consults a
// package-level hook first and falls back to the real math/rand when the hook is nil
// or declines, so a binary that contains the shim but no explorer behaves as before.
package vrand

import (
	"math/rand"
	"runtime"
)

// Int63Hook, when non-nil, supplies the next value of Int63. It returns ok=false to
// decline (the real generator is used). The hook is process-global while explorers run
// replays on many goroutines in parallel: a hook that needs per-replay state either
// serialises the calls that reach it (the caller holds a mutex around the shimmed call
// and publishes "whose turn it is"), or looks the replay up by GoID() (slow, see there).
// The shimmed code calls Int63 synchronously on the caller's goroutine.
var Int63Hook func() (v int64, ok bool)

// Int63 mirrors math/rand.Int63.
func Int63() int64 {
	if h := Int63Hook; h != nil {
		if v, ok := h(); ok {
			return v
		}
	}
	return rand.Int63()
}

// GoID returns the id of the calling goroutine, parsed from the header of runtime.Stack.
// runtime.Stack walks and formats the whole stack under the runtime's global print lock:
// several µs per call and a serialisation point for parallel workers - do not call it on
// a hot path.
func GoID() int64 {
	var buf [64]byte
	n := runtime.Stack(buf[:], false)
	// "goroutine 123 [running]:..."
	var id int64
	for i := len("goroutine "); i < n; i++ {
		c := buf[i]
		if c < '0' || c > '9' {
			break
		}
		id = id*10 + int64(c-'0')
	}
	return id
}

// The rest of the math/rand surface is passed through unchanged so that a changed file
// which starts using more of the package still builds under the shim. Values drawn from a
// private generator (rand.New) are not explorer decisions: they are whatever the real
// generator yields.
type (
	Rand   = rand.Rand
	Source = rand.Source
)

func New(src Source) *Rand            { return rand.New(src) }
func NewSource(seed int64) Source     { return rand.NewSource(seed) }
func Seed(seed int64)                 { rand.Seed(seed) }
func Int() int                        { return rand.Int() }
func Intn(n int) int                  { return rand.Intn(n) }
func Int31() int32                    { return rand.Int31() }
func Int31n(n int32) int32            { return rand.Int31n(n) }
func Int63n(n int64) int64            { return rand.Int63n(n) }
func Uint32() uint32                  { return rand.Uint32() }
func Uint64() uint64                  { return rand.Uint64() }
func Float64() float64                { return rand.Float64() }
func Float32() float32                { return rand.Float32() }
func Perm(n int) []int                { return rand.Perm(n) }
func Shuffle(n int, f func(i, j int)) { rand.Shuffle(n, f) }
