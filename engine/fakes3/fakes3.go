//go:build verif

// Package fakes3 is an in-memory storage.S3Client whose every operation is a
// scheduling point and may be made to fail (or the process to crash) by an
// explorer decision. Range semantics mirror storage.MemoryS3Client.
package fakes3

import (
	"context"
	"errors"
	"fmt"
	"sort"
	"strings"
	"sync"

	"github.com/KafScale/platform/internal/verif/sched"
	"github.com/KafScale/platform/pkg/storage"
)

// ErrInjected is returned by operations the explorer decided to fail.
var ErrInjected = errors.New("verif: injected s3 failure")

// ErrInjectedCancel is logged (and wrapped in the returned error) for an upload the
// explorer made fail because the request context of the caller ended (client went away /
// request deadline): the fake cancels that request context before it returns.
var ErrInjectedCancel = errors.New("verif: injected s3 failure (request context cancelled)")

// Canceller is stored by a harness in a request context under CancelKey{} so that the
// fake can end that request when Client.CancelOnFail is set. Contexts derived from the
// request context (errgroup) inherit the value.
type Canceller struct {
	Ctx    context.Context // the request context itself
	Cancel context.CancelFunc
}

// CancelKey is the context key of the *Canceller.
type CancelKey struct{}

// ErrCrashed is returned once the owning broker incarnation has crashed.
var ErrCrashed = errors.New("verif: broker crashed")

// Op is one logged call.
type Op struct {
	Who  string
	Name string
	Key  string
	Err  string
	Size int
}

// Bucket is the shared durable state. Objects live in a preallocated slice that is
// scanned linearly by norace functions: no maps (the runtime instruments map accesses
// for the race detector even inside norace code) and no visible lock, because real S3
// does not synchronise its clients' memory.
type Bucket struct {
	mu   sync.Mutex
	objs []*object
	Log  []Op
}

type object struct {
	key   string
	index bool
	data  []byte
	live  bool
}

// lock/unlock hide the fake's own mutex from the race detector.
//
//go:norace
func (b *Bucket) lock() { sched.RaceOff(); b.mu.Lock() }

//go:norace
func (b *Bucket) unlock() { b.mu.Unlock(); sched.RaceOn() }

func NewBucket() *Bucket {
	return &Bucket{objs: make([]*object, 0, 512), Log: make([]Op, 0, 4096)}
}

//go:norace
func (b *Bucket) find(key string, index bool) *object {
	for _, o := range b.objs {
		if o.live && o.index == index && o.key == key {
			return o
		}
	}
	return nil
}

//go:norace
func (b *Bucket) put(key string, index bool, data []byte) {
	cp := append([]byte(nil), data...)
	b.lock()
	if o := b.find(key, index); o != nil {
		o.data = cp
	} else {
		b.objs = append(b.objs, &object{key: key, index: index, data: cp, live: true})
	}
	b.unlock()
}

//go:norace
func (b *Bucket) get(key string, index bool) ([]byte, bool) {
	b.lock()
	defer b.unlock()
	if o := b.find(key, index); o != nil {
		return o.data, true
	}
	return nil, false
}

//go:norace
func (b *Bucket) del(key string, index bool) {
	b.lock()
	if o := b.find(key, index); o != nil {
		o.live = false
	}
	b.unlock()
}

// Client is one broker incarnation's view of the bucket.
type Client struct {
	B        *Bucket
	Who      string
	FailOn   map[string]bool // op names for which a failure decision is offered
	CrashOn  map[string]bool // op names before which a crash decision is offered
	NoPoints bool            // do not take scheduling points
	// CancelOnFail (default off): an injected upload failure whose ctx carries a live
	// *Canceller is followed by one more decision (deviation cost 0): plain failure, or
	// failure because the request context ended (the fake cancels it, then returns its error).
	CancelOnFail bool
	crashed  bool
	cmu      sync.Mutex
	OnCrash  func()
}

func New(b *Bucket, who string) *Client {
	return &Client{B: b, Who: who, FailOn: map[string]bool{}, CrashOn: map[string]bool{}}
}

// Crashed reports whether this incarnation has crashed.
//
//go:norace
func (c *Client) Crashed() bool {
	sched.RaceOff()
	c.cmu.Lock()
	v := c.crashed
	c.cmu.Unlock()
	sched.RaceOn()
	return v
}

// Crash marks this incarnation dead: every later operation fails without effect.
//
//go:norace
func (c *Client) Crash() {
	sched.RaceOff()
	c.cmu.Lock()
	was := c.crashed
	c.crashed = true
	c.cmu.Unlock()
	sched.RaceOn()
	if !was && c.OnCrash != nil {
		c.OnCrash()
	}
}

func (c *Client) pre(op, key string) error { return c.preCtx(nil, op, key) }

func (c *Client) preCtx(ctx context.Context, op, key string) error {
	if !c.NoPoints {
		sched.Env("s3." + op)
	}
	if c.Crashed() {
		return ErrCrashed
	}
	if c.CrashOn[op] && sched.Choose(2, "crash before "+op) == 1 {
		c.Crash()
		return ErrCrashed
	}
	if c.FailOn[op] && sched.Choose(2, "fail "+op) == 1 {
		if c.CancelOnFail && ctx != nil {
			if cc, ok := ctx.Value(CancelKey{}).(*Canceller); ok && cc != nil && cc.Ctx.Err() == nil &&
				sched.ChooseCost(2, 0, "request ctx cancelled at failing "+op) == 1 {
				cc.Cancel()
				c.log(op, key, ErrInjectedCancel, 0)
				return fmt.Errorf("%w: %w", ErrInjectedCancel, cc.Ctx.Err())
			}
		}
		c.log(op, key, ErrInjected, 0)
		return ErrInjected
	}
	return nil
}

//go:norace
func (c *Client) log(op, key string, err error, size int) {
	e := ""
	if err != nil {
		e = err.Error()
	}
	c.B.lock()
	c.B.Log = append(c.B.Log, Op{Who: c.Who, Name: op, Key: key, Err: e, Size: size})
	c.B.unlock()
}

func (c *Client) UploadSegment(ctx context.Context, key string, body []byte) error {
	if err := c.preCtx(ctx, "UploadSegment", key); err != nil {
		return err
	}
	if err := ctx.Err(); err != nil {
		return err
	}
	c.B.put(key, false, body)
	c.log("UploadSegment", key, nil, len(body))
	return nil
}

func (c *Client) UploadIndex(ctx context.Context, key string, body []byte) error {
	if err := c.preCtx(ctx, "UploadIndex", key); err != nil {
		return err
	}
	if err := ctx.Err(); err != nil {
		return err
	}
	c.B.put(key, true, body)
	c.log("UploadIndex", key, nil, len(body))
	return nil
}

func (c *Client) DeleteSegment(ctx context.Context, key string) error {
	if err := c.pre("DeleteSegment", key); err != nil {
		return err
	}
	c.B.del(key, false)
	c.log("DeleteSegment", key, nil, 0)
	return nil
}

func (c *Client) DeleteIndex(ctx context.Context, key string) error {
	if err := c.pre("DeleteIndex", key); err != nil {
		return err
	}
	c.B.del(key, true)
	c.log("DeleteIndex", key, nil, 0)
	return nil
}

func (c *Client) DownloadSegment(ctx context.Context, key string, rng *storage.ByteRange) ([]byte, error) {
	if err := c.pre("DownloadSegment", key); err != nil {
		return nil, err
	}
	data, ok := c.B.get(key, false)
	if !ok {
		c.log("DownloadSegment", key, storage.ErrNotFound, 0)
		return nil, fmt.Errorf("%w: segment %s", storage.ErrNotFound, key)
	}
	c.log("DownloadSegment", key, nil, len(data))
	if rng == nil {
		return append([]byte(nil), data...), nil
	}
	start := rng.Start
	end := rng.End
	if start < 0 {
		start = 0
	}
	if start > int64(len(data)) {
		return []byte{}, nil
	}
	if end >= int64(len(data)) {
		end = int64(len(data)) - 1
	}
	if end < start {
		return []byte{}, nil
	}
	return append([]byte(nil), data[start:end+1]...), nil
}

func (c *Client) DownloadIndex(ctx context.Context, key string) ([]byte, error) {
	if err := c.pre("DownloadIndex", key); err != nil {
		return nil, err
	}
	data, ok := c.B.get(key, true)
	if !ok {
		c.log("DownloadIndex", key, storage.ErrNotFound, 0)
		return nil, fmt.Errorf("%w: index %s", storage.ErrNotFound, key)
	}
	c.log("DownloadIndex", key, nil, len(data))
	return append([]byte(nil), data...), nil
}

func (c *Client) ListSegments(ctx context.Context, prefix string) ([]storage.S3Object, error) {
	if err := c.pre("ListSegments", prefix); err != nil {
		return nil, err
	}
	out := c.B.list(prefix)
	return out, nil
}

func (c *Client) EnsureBucket(ctx context.Context) error { return nil }

//go:norace
func (b *Bucket) list(prefix string) []storage.S3Object {
	b.lock()
	defer b.unlock()
	var out []storage.S3Object
	for _, o := range b.objs {
		if o.live && strings.HasPrefix(o.key, prefix) {
			out = append(out, storage.S3Object{Key: o.key, Size: int64(len(o.data))})
		}
	}
	sort.Slice(out, func(i, j int) bool { return out[i].Key < out[j].Key })
	return out
}

// Snapshot returns copies of both object maps.
//
//go:norace
func (b *Bucket) Snapshot() (segs, idx map[string][]byte) {
	b.lock()
	defer b.unlock()
	segs = map[string][]byte{}
	idx = map[string][]byte{}
	for _, o := range b.objs {
		if !o.live {
			continue
		}
		if o.index {
			idx[o.key] = append([]byte(nil), o.data...)
		} else {
			segs[o.key] = append([]byte(nil), o.data...)
		}
	}
	return
}

// Keys returns all object keys, sorted.
//
//go:norace
func (b *Bucket) Keys() []string {
	b.lock()
	defer b.unlock()
	var out []string
	for _, o := range b.objs {
		if o.live {
			out = append(out, o.key)
		}
	}
	sort.Strings(out)
	return out
}

// Ops returns a copy of the operation log.
//
//go:norace
func (b *Bucket) Ops() []Op {
	b.lock()
	defer b.unlock()
	return append([]Op(nil), b.Log...)
}
