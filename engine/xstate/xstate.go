//go:build verif

// Package xstate is an explicit-state breadth-first search whose states are event
// histories replayed on fresh real objects (live objects cannot be cloned).
// Successor = Build(); replay history; apply one more event. States are merged by
// a caller-provided canonical key; the step oracle runs on every transition.
//
// Determinism: replays run on parallel workers, but which history represents a
// canonical state, the order in which violations are delivered and the examples kept
// do not depend on worker timing: within one depth the representative of a new key is
// the transition with the smallest (parent position, event position), and violations
// are delivered sorted the same way after the depth completes. Only a deadline /
// MaxStates cap makes a run timing-dependent (it is then reported in Stats.Capped).
package xstate

import (
	"crypto/sha256"
	"fmt"
	"runtime"
	"sort"
	"sync"
	"sync/atomic"
	"time"
)

// System is a fresh instance of the real objects under test plus the reference model.
type System[E any] interface {
	// Enabled lists the events offered in the current state (small finite menu, simplest first).
	Enabled() []E
	// Apply executes one event on the real implementation, checks the step oracle and
	// returns an observation string (part of the trace) and violations found on this step.
	Apply(e E) (obs string, viol []Violation)
	// Canon returns the canonical key of the current state (sorted, property-relevant fields only).
	Canon() string
	// Close releases background goroutines.
	Close()
}

// Replayer is optionally implemented by a System. When present the engine calls
// Replay for the events of the prefix (state reconstruction: execute the event and
// update the reference model, but skip expensive step oracles) and Apply only for the
// last event of a history, the one being judged. Replay must leave the system in
// exactly the state Apply would.
type Replayer[E any] interface {
	Replay(e E) (obs string)
}

// Violation found on a transition or in a state.
type Violation struct {
	Key    string
	Detail string
}

// Found is a violation with the history that reaches it.
type Found[E any] struct {
	Violation
	History []E
	Obs     []string
}

// Config bounds the search.
type Config struct {
	MaxDepth   int
	MaxStates  int
	Deadline   time.Time
	Workers    int  // parallel replays (0 = GOMAXPROCS); every replay runs wholly on one goroutine (inside wrap)
	NoMerge    bool // do not merge states by canonical key (every history is its own state)
	Shard      int
	NShards    int  // >1: the events of the initial state are partitioned over shards (states reached by several shards are expanded by each)
	StopAtViol bool // do not expand states reached through a violating transition
}

// Stats of a finished search.
type Stats struct {
	States      int // distinct canonical states (histories when NoMerge), including the initial state
	Transitions int // executed (state, event) pairs == histories replayed on the implementation
	MaxDepth    int
	Capped      string
	Outcomes    map[string]struct{} // distinct observation strings of judged events
	Levels      []int               // new states per depth (Levels[0] == 1)
	Replays     int                 // replays executed (== Transitions + 1)
	Events      int64               // events executed on the implementation, prefix events included
}

// Example is one kept history (the representative of a new state).
type Example[E any] struct {
	History []E
	Obs     []string
	Key     string
}

// Options is the full form of the search parameters (Explore is the short form).
type Options[E any] struct {
	Config
	// Build returns a fresh system (called inside Wrap).
	Build func() System[E]
	// Wrap, if non-nil, runs one replay inside an environment (e.g. a synctest bubble);
	// it must call its argument exactly once, on the goroutine that is to own the replay.
	Wrap func(func())
	// Found receives violations in deterministic order after each depth completes.
	Found func(Found[E])
	// Transition, if non-nil, is called once per executed transition (serialised, order not deterministic).
	Transition func(hist []E, obs []string, key string, newState bool)
	// Examples keeps the histories of the first N new states of every depth.
	Examples int
	// CollectKeys records every canonical key reached (also under NoMerge) with its minimal depth.
	CollectKeys bool
}

// Result of Run.
type Result[E any] struct {
	Stats
	Examples []Example[E]
	Keys     map[string]int
}

// Explore runs the BFS. build returns a fresh system. wrap, if non-nil, runs one
// replay inside an environment (e.g. a synctest bubble): wrap(func()) must call its
// argument exactly once. sample, if non-nil, is called for every executed transition
// (serialised; order not deterministic).
func Explore[E any](cfg Config, build func() System[E], wrap func(func()), found func(Found[E]), sample func(hist []E, obs []string)) Stats {
	o := Options[E]{Config: cfg, Build: build, Wrap: wrap, Found: found}
	if sample != nil {
		o.Transition = func(hist []E, obs []string, _ string, _ bool) { sample(hist, obs) }
	}
	return Run(o).Stats
}

type hkey [16]byte

func hashKey(s string) hkey {
	sum := sha256.Sum256([]byte(s))
	var k hkey
	copy(k[:], sum[:16])
	return k
}

// Run runs the BFS described by o.
func Run[E any](o Options[E]) Result[E] {
	cfg := o.Config
	res := Result[E]{Stats: Stats{Outcomes: map[string]struct{}{}}}
	st := &res.Stats
	if o.CollectKeys {
		res.Keys = map[string]int{}
	}
	if cfg.NShards <= 0 {
		cfg.NShards = 1
	}
	workers := cfg.Workers
	if workers <= 0 {
		workers = runtime.GOMAXPROCS(0)
	}
	run := func(f func()) {
		if o.Wrap != nil {
			o.Wrap(f)
		} else {
			f()
		}
	}
	type node struct {
		hist   []E
		events []E
	}
	// result of one transition that reached a so far unseen key
	type cand struct {
		ni, ei int
		events []E
		obs    []string
		key    string
	}
	type foundAt struct {
		ni, ei int
		f      Found[E]
	}
	seen := map[hkey]struct{}{}

	// initial state
	var root node
	var initKey string
	run(func() {
		s := o.Build()
		initKey = s.Canon()
		root.events = s.Enabled()
		s.Close()
	})
	st.Replays++
	seen[hashKey(initKey)] = struct{}{}
	if res.Keys != nil {
		res.Keys[initKey] = 0
	}
	st.States = 1
	st.Levels = append(st.Levels, 1)
	frontier := []node{root}

	var mu sync.Mutex
	for depth := 0; depth < cfg.MaxDepth && len(frontier) > 0; depth++ {
		// flatten (node, event) pairs
		type job struct{ ni, ei int }
		var jobs []job
		for ni, n := range frontier {
			for ei := range n.events {
				if depth == 0 && cfg.NShards > 1 && ei%cfg.NShards != cfg.Shard {
					continue
				}
				jobs = append(jobs, job{ni, ei})
			}
		}
		cands := map[hkey]*cand{}
		var founds []foundAt
		var next atomic.Int64
		var capped atomic.Value
		var events atomic.Int64
		var wg sync.WaitGroup
		for w := 0; w < workers && w < len(jobs); w++ {
			wg.Add(1)
			go func() {
				defer wg.Done()
				for {
					j := int(next.Add(1)) - 1
					if j >= len(jobs) {
						return
					}
					if capped.Load() != nil {
						return
					}
					if j%64 == 0 && !cfg.Deadline.IsZero() && time.Now().After(cfg.Deadline) {
						capped.Store(fmt.Sprintf("deadline at depth %d (%d of %d transitions of this depth done)", depth+1, j, len(jobs)))
						return
					}
					n := frontier[jobs[j].ni]
					ev := n.events[jobs[j].ei]
					var key string
					obsAll := make([]string, 0, len(n.hist)+1)
					var viol []Violation
					var childEvents []E
					run(func() {
						s := o.Build()
						rp, canReplay := s.(Replayer[E])
						for _, e := range n.hist {
							var ob string
							if canReplay {
								ob = rp.Replay(e)
							} else {
								ob, _ = s.Apply(e)
							}
							obsAll = append(obsAll, ob)
						}
						ob, v := s.Apply(ev)
						obsAll = append(obsAll, ob)
						viol = v
						key = s.Canon()
						childEvents = s.Enabled()
						s.Close()
					})
					events.Add(int64(len(n.hist) + 1))
					hist := make([]E, len(n.hist)+1)
					copy(hist, n.hist)
					hist[len(n.hist)] = ev

					mu.Lock()
					st.Transitions++
					st.Replays++
					st.Outcomes[obsAll[len(obsAll)-1]] = struct{}{}
					if len(hist) > st.MaxDepth {
						st.MaxDepth = len(hist)
					}
					for _, v := range viol {
						founds = append(founds, foundAt{jobs[j].ni, jobs[j].ei, Found[E]{Violation: v, History: hist, Obs: obsAll}})
					}
					if res.Keys != nil {
						if _, ok := res.Keys[key]; !ok {
							res.Keys[key] = depth + 1
						}
					}
					mkey := key
					if cfg.NoMerge {
						mkey = fmt.Sprintf("%d/%d/%d", depth, jobs[j].ni, jobs[j].ei)
					}
					hk := hashKey(mkey)
					newState := false
					if _, ok := seen[hk]; !ok && !(cfg.StopAtViol && len(viol) > 0) {
						c := cands[hk]
						if c == nil {
							newState = true
							cands[hk] = &cand{jobs[j].ni, jobs[j].ei, childEvents, obsAll, key}
						} else if jobs[j].ni < c.ni || (jobs[j].ni == c.ni && jobs[j].ei < c.ei) {
							*c = cand{jobs[j].ni, jobs[j].ei, childEvents, obsAll, key}
						}
					}
					if o.Transition != nil {
						o.Transition(hist, obsAll, key, newState)
					}
					if cfg.MaxStates > 0 && st.States+len(cands) >= cfg.MaxStates {
						capped.CompareAndSwap(nil, fmt.Sprintf("max states %d at depth %d", cfg.MaxStates, depth+1))
					}
					mu.Unlock()
				}
			}()
		}
		wg.Wait()
		st.Events += events.Load()

		// deterministic delivery
		sort.SliceStable(founds, func(a, b int) bool {
			if founds[a].ni != founds[b].ni {
				return founds[a].ni < founds[b].ni
			}
			return founds[a].ei < founds[b].ei
		})
		if o.Found != nil {
			for _, f := range founds {
				o.Found(f.f)
			}
		}
		cl := make([]*cand, 0, len(cands))
		for hk, c := range cands {
			seen[hk] = struct{}{}
			cl = append(cl, c)
		}
		sort.Slice(cl, func(a, b int) bool {
			if cl[a].ni != cl[b].ni {
				return cl[a].ni < cl[b].ni
			}
			return cl[a].ei < cl[b].ei
		})
		nextFrontier := make([]node, 0, len(cl))
		for i, c := range cl {
			p := frontier[c.ni]
			hist := make([]E, len(p.hist)+1)
			copy(hist, p.hist)
			hist[len(p.hist)] = p.events[c.ei]
			nextFrontier = append(nextFrontier, node{hist: hist, events: c.events})
			if i < o.Examples {
				res.Examples = append(res.Examples, Example[E]{History: hist, Obs: c.obs, Key: c.key})
			}
		}
		st.States += len(cl)
		st.Levels = append(st.Levels, len(cl))
		if c := capped.Load(); c != nil {
			st.Capped = c.(string)
			break
		}
		frontier = nextFrontier
	}
	return res
}
