//go:build verif

// Package xstate is an explicit-state breadth-first search whose states are event
// histories replayed on fresh real objects (live objects cannot be cloned).
// Successor = Build(); replay history; apply one more event. States are merged by
// a caller-provided canonical key; the step oracle runs on every transition.
//
// Determinism: replays run on parallel workers, but which history represents a
// canonical state, the order in which violations are delivered and the examples kept
// do not depend on worker timing: within one depth the representative of a new key is
// the transition with the smallest (parent position, event position), and violations
// are delivered sorted the same way after the depth completes. Only a deadline /
// MaxStates cap makes a run timing-dependent (it is then reported in Stats.Capped).
//
// Parallelism: Config.Workers goroutines inside one process, and/or several processes
// (vcheck "shards") cooperating through Config.ExchangeDir as one BFS (see Config).
// Replays that live inside testing/synctest bubbles scale badly over the Ps of one
// process (every event hands control between the bubble's goroutines); for those use
// shards with GOMAXPROCS=1 each ("gomaxprocs": 1 in the registry).
package xstate

import (
	"crypto/sha256"
	"encoding/binary"
	"fmt"
	"os"
	"path/filepath"
	"runtime"
	"sort"
	"sync"
	"sync/atomic"
	"time"
)

// System is a fresh instance of the real objects under test plus the reference model.
type System[E any] interface {
	// Enabled lists the events offered in the current state (small finite menu, simplest first).
	Enabled() []E
	// Apply executes one event on the real implementation, checks the step oracle and
	// returns an observation string (part of the trace) and violations found on this step.
	Apply(e E) (obs string, viol []Violation)
	// Canon returns the canonical key of the current state (sorted, property-relevant fields only).
	Canon() string
	// Close releases background goroutines.
	Close()
}

// Replayer is optionally implemented by a System. When present the engine calls
// Replay for the events of the prefix (state reconstruction: execute the event and
// update the reference model, but skip expensive step oracles) and Apply only for the
// last event of a history, the one being judged. Replay must leave the system in
// exactly the state Apply would.
type Replayer[E any] interface {
	Replay(e E) (obs string)
}

// Violation found on a transition or in a state.
type Violation struct {
	Key    string
	Detail string
}

// Found is a violation with the history that reaches it.
type Found[E any] struct {
	Violation
	History []E
	Obs     []string
}

// Config bounds the search.
type Config struct {
	MaxDepth   int
	MaxStates  int
	Deadline   time.Time
	Workers    int  // parallel replays (0 = GOMAXPROCS); every replay runs wholly on one goroutine (inside wrap)
	NoMerge    bool // do not merge states by canonical key (every history is its own state)
	Shard      int
	NShards    int  // >1 without ExchangeDir: the events of the initial state are partitioned over shards (states reached by several shards are expanded by each)
	StopAtViol bool // do not expand states reached through a violating transition

	// ExchangeDir, with NShards > 1, turns the shards (separate processes started together,
	// e.g. by vcheck "shards": n, all running the same sequence of Run calls) into one
	// cooperative level-synchronous BFS: the (state, event) pairs of a depth are dealt
	// round-robin to the shards, every shard writes the new canonical keys it reached to
	// ExchangeDir, waits for the files of the others and merges them, so all shards hold
	// the same frontier and no transition is executed twice. Stats are per shard and sum
	// to the global figures (a new state is counted by the shard that executed its
	// representative transition). Histories travel between shards as sequences of menu
	// positions (Enabled must be a deterministic function of the history), so E needs no
	// serialisation.
	// Useful when replays do not scale over the cores of one process (synctest bubbles
	// hand control between goroutines constantly; with one P per process that is cheap).
	ExchangeDir string
	ExchangeTag string // distinguishes the Run calls of one process (same value in every shard)
}

// Stats of a finished search.
type Stats struct {
	States      int // distinct canonical states (histories when NoMerge), including the initial state
	Transitions int // executed (state, event) pairs == histories replayed on the implementation
	MaxDepth    int
	Capped      string
	Outcomes    map[string]struct{} // distinct observation strings of judged events
	Levels      []int               // new states per depth (Levels[0] == 1); global also in cooperative mode
	Replays     int                 // replays executed (== Transitions + 1)
	Events      int64               // events executed on the implementation, prefix events included
}

// Example is one kept history (the representative of a new state).
type Example[E any] struct {
	History []E
	Obs     []string
	Key     string
}

// Options is the full form of the search parameters (Explore is the short form).
type Options[E any] struct {
	Config
	// Build returns a fresh system (called inside Wrap).
	Build func() System[E]
	// Wrap, if non-nil, runs one replay inside an environment (e.g. a synctest bubble);
	// it must call its argument exactly once, on the goroutine that is to own the replay.
	Wrap func(func())
	// Found receives violations in deterministic order after each depth completes.
	Found func(Found[E])
	// Transition, if non-nil, is called once per executed transition (serialised, order not deterministic).
	Transition func(hist []E, obs []string, key string, newState bool)
	// Examples keeps the histories of the first N new states of every depth.
	Examples int
	// CollectKeys records every canonical key reached (also under NoMerge) with its minimal depth
	// (in cooperative mode: only the keys reached by this shard's transitions).
	CollectKeys bool
}

// Result of Run.
type Result[E any] struct {
	Stats
	Examples []Example[E]
	Keys     map[string]int
}

// Explore runs the BFS. build returns a fresh system. wrap, if non-nil, runs one
// replay inside an environment (e.g. a synctest bubble): wrap(func()) must call its
// argument exactly once. sample, if non-nil, is called for every executed transition
// (serialised; order not deterministic).
func Explore[E any](cfg Config, build func() System[E], wrap func(func()), found func(Found[E]), sample func(hist []E, obs []string)) Stats {
	o := Options[E]{Config: cfg, Build: build, Wrap: wrap, Found: found}
	if sample != nil {
		o.Transition = func(hist []E, obs []string, _ string, _ bool) { sample(hist, obs) }
	}
	return Run(o).Stats
}

type hkey [16]byte

func hashKey(s string) hkey {
	sum := sha256.Sum256([]byte(s))
	var k hkey
	copy(k[:], sum[:16])
	return k
}

// cand is the best transition seen so far that reaches a not yet seen key.
type cand[E any] struct {
	j      int // position of the (parent, event) pair in the depth's job list: the deterministic tie-break
	ev     E   // the event of that transition (valid when mine)
	nev    int // size of the event menu of the reached state
	events []E // the menu itself when known locally
	obs    []string
	hist   []E // full history (valid when mine)
	key    string
	mine   bool // executed by this shard
}

// Run runs the BFS described by o.
func Run[E any](o Options[E]) Result[E] {
	cfg := o.Config
	res := Result[E]{Stats: Stats{Outcomes: map[string]struct{}{}}}
	st := &res.Stats
	if o.CollectKeys {
		res.Keys = map[string]int{}
	}
	if cfg.NShards <= 0 {
		cfg.NShards = 1
	}
	coop := cfg.NShards > 1 && cfg.ExchangeDir != ""
	workers := cfg.Workers
	if workers <= 0 {
		workers = runtime.GOMAXPROCS(0)
	}
	run := func(f func()) {
		if o.Wrap != nil {
			o.Wrap(f)
		} else {
			f()
		}
	}
	type node struct {
		hist   []E     // events of the history; hist[i] is valid iff known[i]
		idx    []int32 // position of hist[i] in the event menu of the state before it
		known  []bool  // false: reached through another shard's transition, resolved by Enabled()[idx[i]] on first replay
		events []E     // nil when only the size of the menu is known (state reached by another shard)
		nev    int
	}
	type foundAt struct {
		j int
		f Found[E]
	}
	seen := map[hkey]struct{}{}

	// initial state
	var root node
	var initKey string
	run(func() {
		s := o.Build()
		initKey = s.Canon()
		root.events = s.Enabled()
		root.nev = len(root.events)
		s.Close()
	})
	st.Replays++
	seen[hashKey(initKey)] = struct{}{}
	if res.Keys != nil {
		res.Keys[initKey] = 0
	}
	if !coop || cfg.Shard == 0 {
		st.States = 1
	}
	st.Levels = append(st.Levels, 1)
	frontier := []node{root}

	var mu sync.Mutex
	for depth := 0; depth < cfg.MaxDepth && len(frontier) > 0; depth++ {
		// flatten (node, event) pairs; the list is the same in every shard
		type job struct{ ni, ei int }
		var jobs []job
		for ni, n := range frontier {
			for ei := 0; ei < n.nev; ei++ {
				if !coop && depth == 0 && cfg.NShards > 1 && ei%cfg.NShards != cfg.Shard {
					continue
				}
				jobs = append(jobs, job{ni, ei})
			}
		}
		cands := map[hkey]*cand[E]{}
		var founds []foundAt
		var next atomic.Int64
		var capped atomic.Value
		var events atomic.Int64
		var wg sync.WaitGroup
		for w := 0; w < workers && w < len(jobs); w++ {
			wg.Add(1)
			go func() {
				defer wg.Done()
				for {
					j := int(next.Add(1)) - 1
					if j >= len(jobs) {
						return
					}
					if coop && j%cfg.NShards != cfg.Shard {
						continue
					}
					if capped.Load() != nil {
						return
					}
					if (j/cfg.NShards)%64 == 0 && !cfg.Deadline.IsZero() && time.Now().After(cfg.Deadline) {
						capped.Store(fmt.Sprintf("deadline at depth %d (%d of %d transitions of this depth done)", depth+1, j, len(jobs)))
						return
					}
					n := &frontier[jobs[j].ni]
					var ev E
					var key string
					obsAll := make([]string, 0, len(n.hist)+1)
					var viol []Violation
					var childEvents []E
					childN := -1
					mu.Lock()
					prefix := append([]E(nil), n.hist...)
					known := append([]bool(nil), n.known...)
					mu.Unlock()
					resolved := false
					run(func() {
						s := o.Build()
						rp, canReplay := s.(Replayer[E])
						for i := range prefix {
							if !known[i] {
								menu := s.Enabled()
								if int(n.idx[i]) >= len(menu) {
									panic(fmt.Sprintf("xstate: event menu differs between shards (position %d of %d): Enabled is not a function of the history", n.idx[i], len(menu)))
								}
								prefix[i] = menu[n.idx[i]]
								resolved = true
							}
							e := prefix[i]
							var ob string
							if canReplay {
								ob = rp.Replay(e)
							} else {
								ob, _ = s.Apply(e)
							}
							obsAll = append(obsAll, ob)
						}
						menu := n.events
						if menu == nil {
							menu = s.Enabled()
							if len(menu) != n.nev {
								panic(fmt.Sprintf("xstate: event menu of a state differs between shards (%d vs %d events): Enabled is not a function of the history", len(menu), n.nev))
							}
						}
						ev = menu[jobs[j].ei]
						ob, v := s.Apply(ev)
						obsAll = append(obsAll, ob)
						viol = v
						key = s.Canon()
						// seen is only written between depths, so it may be read here without the
						// lock; the event menu is needed only if this may become a new state that
						// will be expanded
						if _, old := seen[hashKey(key)]; (!old || cfg.NoMerge) && depth+1 < cfg.MaxDepth {
							childEvents = s.Enabled()
							childN = len(childEvents)
						}
						s.Close()
					})
					events.Add(int64(len(prefix) + 1))
					hist := make([]E, len(prefix)+1)
					copy(hist, prefix)
					hist[len(prefix)] = ev

					mu.Lock()
					if resolved {
						copy(n.hist, prefix)
						for i := range n.known {
							n.known[i] = true
						}
					}
					st.Transitions++
					st.Replays++
					st.Outcomes[obsAll[len(obsAll)-1]] = struct{}{}
					if len(hist) > st.MaxDepth {
						st.MaxDepth = len(hist)
					}
					for _, v := range viol {
						founds = append(founds, foundAt{j, Found[E]{Violation: v, History: hist, Obs: obsAll}})
					}
					if res.Keys != nil {
						if _, ok := res.Keys[key]; !ok {
							res.Keys[key] = depth + 1
						}
					}
					mkey := key
					if cfg.NoMerge {
						mkey = fmt.Sprintf("%d/%d", depth, j)
					}
					hk := hashKey(mkey)
					newState := false
					if _, ok := seen[hk]; !ok && !(cfg.StopAtViol && len(viol) > 0) {
						c := cands[hk]
						if c == nil {
							newState = true
							cands[hk] = &cand[E]{j: j, ev: ev, nev: childN, events: childEvents, obs: obsAll, hist: hist, key: key, mine: true}
						} else if j < c.j {
							*c = cand[E]{j: j, ev: ev, nev: childN, events: childEvents, obs: obsAll, hist: hist, key: key, mine: true}
						}
					}
					if o.Transition != nil {
						o.Transition(hist, obsAll, key, newState)
					}
					if cfg.MaxStates > 0 && st.States+len(cands) >= cfg.MaxStates {
						capped.CompareAndSwap(nil, fmt.Sprintf("max states %d at depth %d", cfg.MaxStates, depth+1))
					}
					mu.Unlock()
				}
			}()
		}
		wg.Wait()
		st.Events += events.Load()

		// deterministic delivery of this shard's violations
		sort.SliceStable(founds, func(a, b int) bool { return founds[a].j < founds[b].j })
		if o.Found != nil {
			for _, f := range founds {
				o.Found(f.f)
			}
		}
		cappedMsg := ""
		if c := capped.Load(); c != nil {
			cappedMsg = c.(string)
		}
		if coop {
			peerCap, err := exchange(cfg, depth, cands, cappedMsg)
			if err != nil {
				cappedMsg = "shard exchange failed: " + err.Error()
			} else if cappedMsg == "" && peerCap != "" {
				cappedMsg = "peer shard: " + peerCap
			}
		}
		last := depth+1 >= cfg.MaxDepth // the states of the last depth are counted but not expanded
		cl := make([]*cand[E], 0, len(cands))
		for hk, c := range cands {
			if !last {
				seen[hk] = struct{}{}
			}
			if last && !c.mine {
				continue
			}
			cl = append(cl, c)
		}
		ncl := len(cands)
		sort.Slice(cl, func(a, b int) bool { return cl[a].j < cl[b].j })
		var nextFrontier []node
		if !last {
			nextFrontier = make([]node, 0, len(cl))
		}
		nex := 0
		for _, c := range cl {
			if last {
				st.States++
				if nex < o.Examples {
					res.Examples = append(res.Examples, Example[E]{History: c.hist, Obs: c.obs, Key: c.key})
					nex++
				}
				continue
			}
			p := &frontier[jobs[c.j].ni]
			d := len(p.hist)
			nn := node{hist: make([]E, d+1), idx: make([]int32, d+1), known: make([]bool, d+1), events: c.events, nev: c.nev}
			copy(nn.hist, p.hist)
			copy(nn.idx, p.idx)
			copy(nn.known, p.known)
			nn.idx[d] = int32(jobs[c.j].ei)
			if c.mine {
				nn.hist[d], nn.known[d] = c.ev, true
			}
			nextFrontier = append(nextFrontier, nn)
			if c.mine {
				st.States++
				if nex < o.Examples {
					// a state this shard reached: its whole history was resolved during the replay
					res.Examples = append(res.Examples, Example[E]{History: c.hist, Obs: c.obs, Key: c.key})
					nex++
				}
			}
		}
		st.Levels = append(st.Levels, ncl)
		if cappedMsg != "" {
			st.Capped = cappedMsg
			break
		}
		frontier = nextFrontier
	}
	return res
}

// exchange writes this shard's candidates of one depth, waits for the other shards'
// files and merges them into cands (smallest job position wins).
func exchange[E any](cfg Config, depth int, cands map[hkey]*cand[E], capped string) (peerCapped string, err error) {
	name := func(shard int) string {
		return filepath.Join(cfg.ExchangeDir, fmt.Sprintf("xstate-%s-d%d-s%d.bin", cfg.ExchangeTag, depth, shard))
	}
	// write: u32 len(capped) | capped | u32 n | n x (16-byte key hash, u32 job position, i32 menu size)
	out := make([]byte, 0, 8+len(capped)+24*len(cands))
	out = binary.LittleEndian.AppendUint32(out, uint32(len(capped)))
	out = append(out, capped...)
	out = binary.LittleEndian.AppendUint32(out, uint32(len(cands)))
	for hk, c := range cands {
		out = append(out, hk[:]...)
		out = binary.LittleEndian.AppendUint32(out, uint32(c.j))
		out = binary.LittleEndian.AppendUint32(out, uint32(int32(c.nev)))
	}
	tmp := name(cfg.Shard) + ".tmp"
	if err := os.WriteFile(tmp, out, 0o644); err != nil {
		return "", err
	}
	if err := os.Rename(tmp, name(cfg.Shard)); err != nil {
		return "", err
	}
	// read the others
	grace := 120 * time.Second
	for sh := 0; sh < cfg.NShards; sh++ {
		if sh == cfg.Shard {
			continue
		}
		var data []byte
		start := time.Now()
		for {
			data, err = os.ReadFile(name(sh))
			if err == nil {
				break
			}
			limit := start.Add(grace)
			if !cfg.Deadline.IsZero() && cfg.Deadline.Add(grace).After(limit) {
				limit = cfg.Deadline.Add(grace)
			}
			if time.Now().After(limit) {
				return "", fmt.Errorf("shard %d did not deliver depth %d", sh, depth)
			}
			time.Sleep(5 * time.Millisecond)
		}
		bad := fmt.Errorf("shard %d depth %d: truncated exchange file", sh, depth)
		if len(data) < 4 {
			return "", bad
		}
		hl := int(binary.LittleEndian.Uint32(data))
		if len(data) < 8+hl {
			return "", bad
		}
		if hl > 0 && peerCapped == "" {
			peerCapped = string(data[4 : 4+hl])
		}
		n := int(binary.LittleEndian.Uint32(data[4+hl:]))
		recs := data[8+hl:]
		if len(recs) != 24*n {
			return "", bad
		}
		for i := 0; i < n; i++ {
			rec := recs[24*i : 24*i+24]
			var hk hkey
			copy(hk[:], rec[:16])
			j := int(binary.LittleEndian.Uint32(rec[16:]))
			nev := int(int32(binary.LittleEndian.Uint32(rec[20:])))
			if c := cands[hk]; c != nil && c.j <= j {
				continue
			}
			cands[hk] = &cand[E]{j: j, nev: nev}
		}
	}
	return peerCapped, nil
}
