//go:build verif

// Package xstate is an explicit-state breadth-first search whose states are event
// histories replayed on fresh real objects (live objects cannot be cloned).
// Successor = Build(); replay history; apply one more event. States are merged by
// a caller-provided canonical key; the invariant runs on every transition.
package xstate

import (
	"fmt"
	"runtime"
	"sync"
	"time"
)

// System is a fresh instance of the real objects under test plus the reference model.
type System[E any] interface {
	// Enabled lists the events offered in the current state (small finite menu, simplest first).
	Enabled() []E
	// Apply executes one event on the real implementation, checks the step oracle and
	// returns an observation string (part of the trace) and violations found on this step.
	Apply(e E) (obs string, viol []Violation)
	// Canon returns the canonical key of the current state (sorted, property-relevant fields only).
	Canon() string
	// Close releases background goroutines.
	Close()
}

// Violation found on a transition or in a state.
type Violation struct {
	Key    string
	Detail string
}

// Found is a violation with the history that reaches it.
type Found[E any] struct {
	Violation
	History []E
	Obs     []string
}

// Config bounds the search.
type Config struct {
	MaxDepth   int
	MaxStates  int
	Deadline   time.Time
	Workers    int  // parallel replays (0 = GOMAXPROCS); use 1 when Build needs a synctest bubble per replay handled by Wrap
	NoMerge    bool // do not merge states by canonical key (every history is its own state)
	Shard      int
	NShards    int
	StopAtViol bool // do not expand states reached through a violating transition
}

// Stats of a finished search.
type Stats struct {
	States      int
	Transitions int
	MaxDepth    int
	Capped      string
	Outcomes    map[string]struct{}
}

// Explore runs the BFS. build returns a fresh system. wrap, if non-nil, runs one
// replay inside an environment (e.g. a synctest bubble): wrap(func()) must call its
// argument exactly once.
func Explore[E any](cfg Config, build func() System[E], wrap func(func()), found func(Found[E]), sample func(hist []E, obs []string)) Stats {
	st := Stats{Outcomes: map[string]struct{}{}}
	if cfg.NShards <= 0 {
		cfg.NShards = 1
	}
	workers := cfg.Workers
	if workers <= 0 {
		workers = runtime.GOMAXPROCS(0)
	}
	type node struct {
		hist []E
	}
	run := func(f func()) {
		if wrap != nil {
			wrap(f)
		} else {
			f()
		}
	}
	seen := map[string]struct{}{}
	var mu sync.Mutex
	// initial state
	var initKey string
	var initEvents []E
	run(func() {
		s := build()
		initKey = s.Canon()
		initEvents = s.Enabled()
		s.Close()
	})
	seen[initKey] = struct{}{}
	st.States = 1
	frontier := []node{{}}
	_ = initEvents
	for depth := 0; depth < cfg.MaxDepth && len(frontier) > 0; depth++ {
		var next []node
		type job struct {
			n  node
			ei int
		}
		// expand: for each frontier node, for each enabled event
		jobs := make(chan node, len(frontier))
		for i, n := range frontier {
			if depth == 0 || cfg.NShards == 1 || true {
				_ = i
				jobs <- n
			}
		}
		close(jobs)
		var wg sync.WaitGroup
		capped := ""
		for w := 0; w < workers; w++ {
			wg.Add(1)
			go func() {
				defer wg.Done()
				for n := range jobs {
					mu.Lock()
					if capped != "" {
						mu.Unlock()
						continue
					}
					if !cfg.Deadline.IsZero() && time.Now().After(cfg.Deadline) {
						capped = "deadline"
						mu.Unlock()
						continue
					}
					if cfg.MaxStates > 0 && st.States >= cfg.MaxStates {
						capped = "max states"
						mu.Unlock()
						continue
					}
					mu.Unlock()
					// enumerate events of this node by replaying once to read Enabled
					var events []E
					run(func() {
						s := build()
						for _, e := range n.hist {
							s.Apply(e)
						}
						events = s.Enabled()
						s.Close()
					})
					for ei, ev := range events {
						if depth == 0 && cfg.NShards > 1 && ei%cfg.NShards != cfg.Shard {
							continue
						}
						var key string
						var obsAll []string
						var viol []Violation
						run(func() {
							s := build()
							for _, e := range n.hist {
								o, _ := s.Apply(e)
								obsAll = append(obsAll, o)
							}
							o, v := s.Apply(ev)
							obsAll = append(obsAll, o)
							viol = v
							key = s.Canon()
							s.Close()
						})
						hist := make([]E, len(n.hist)+1)
						copy(hist, n.hist)
						hist[len(n.hist)] = ev
						mu.Lock()
						st.Transitions++
						st.Outcomes[obsAll[len(obsAll)-1]] = struct{}{}
						if len(hist) > st.MaxDepth {
							st.MaxDepth = len(hist)
						}
						for _, v := range viol {
							found(Found[E]{Violation: v, History: hist, Obs: obsAll})
						}
						if sample != nil {
							sample(hist, obsAll)
						}
						if cfg.NoMerge {
							key = fmt.Sprintf("%d/%d/%s", depth, st.Transitions, key)
						}
						if _, ok := seen[key]; !ok && !(cfg.StopAtViol && len(viol) > 0) {
							seen[key] = struct{}{}
							st.States++
							next = append(next, node{hist: hist})
						}
						mu.Unlock()
					}
				}
			}()
		}
		wg.Wait()
		if capped != "" {
			st.Capped = capped
			break
		}
		frontier = next
	}
	return st
}
