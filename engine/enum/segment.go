//go:build verif

package enum

// Independent KafScale segment / index codec (written from kafscale-spec.md, "Segment File
// Format" and "Index File Format") and the deterministic C07 corpus of well-formed
// record-batch sequences. Nothing here calls into the code under test, so the same corpus can
// be regenerated identically inside every Go module of the repository.

import (
	"encoding/binary"
	"fmt"
	"hash/crc32"
	"strings"
)

const (
	SegHeaderLen = 32
	SegFooterLen = 16
	IdxHeaderLen = 16
	IdxEntryLen  = 12
)

// RefSegment builds segment bytes: 32-byte header ("KAFS", version 1, flags 0, base offset,
// message count, created unix-millis, reserved 0), body = concatenated batches, 16-byte footer
// (CRC-32C of the body, last offset, "END!").
func RefSegment(baseOffset int64, msgCount int32, createdMs int64, lastOffset int64, batches [][]byte) []byte {
	n := SegHeaderLen + SegFooterLen
	for _, b := range batches {
		n += len(b)
	}
	out := make([]byte, SegHeaderLen, n)
	copy(out[0:4], "KAFS")
	binary.BigEndian.PutUint16(out[4:6], 1)
	binary.BigEndian.PutUint16(out[6:8], 0)
	binary.BigEndian.PutUint64(out[8:16], uint64(baseOffset))
	binary.BigEndian.PutUint32(out[16:20], uint32(msgCount))
	binary.BigEndian.PutUint64(out[20:28], uint64(createdMs))
	binary.BigEndian.PutUint32(out[28:32], 0)
	for _, b := range batches {
		out = append(out, b...)
	}
	crc := crc32.Checksum(out[SegHeaderLen:], castagnoli)
	var f [SegFooterLen]byte
	binary.BigEndian.PutUint32(f[0:4], crc)
	binary.BigEndian.PutUint64(f[4:12], uint64(lastOffset))
	copy(f[12:16], "END!")
	return append(out, f[:]...)
}

// SegInfo is the structural reading of a segment file.
type SegInfo struct {
	Magic        string
	Version      uint16
	Flags        uint16
	BaseOffset   int64
	MessageCount int32
	CreatedMs    int64
	Reserved     uint32
	Body         []byte
	CRC          uint32
	BodyCRC      uint32 // CRC-32C computed over Body
	LastOffset   int64
	FooterMagic  string
}

// ParseSegment splits a segment into its fields (no validation beyond the minimum size).
func ParseSegment(b []byte) (SegInfo, error) {
	var s SegInfo
	if len(b) < SegHeaderLen+SegFooterLen {
		return s, fmt.Errorf("segment shorter than header+footer: %d", len(b))
	}
	s.Magic = string(b[0:4])
	s.Version = binary.BigEndian.Uint16(b[4:6])
	s.Flags = binary.BigEndian.Uint16(b[6:8])
	s.BaseOffset = int64(binary.BigEndian.Uint64(b[8:16]))
	s.MessageCount = int32(binary.BigEndian.Uint32(b[16:20]))
	s.CreatedMs = int64(binary.BigEndian.Uint64(b[20:28]))
	s.Reserved = binary.BigEndian.Uint32(b[28:32])
	s.Body = b[SegHeaderLen : len(b)-SegFooterLen]
	f := b[len(b)-SegFooterLen:]
	s.CRC = binary.BigEndian.Uint32(f[0:4])
	s.BodyCRC = crc32.Checksum(s.Body, castagnoli)
	s.LastOffset = int64(binary.BigEndian.Uint64(f[4:12]))
	s.FooterMagic = string(f[12:16])
	return s, nil
}

// IdxEntry is one sparse index row.
type IdxEntry struct {
	Offset   int64
	Position int32
}

// IdxInfo is the structural reading of an index file.
type IdxInfo struct {
	Magic    string
	Version  uint16
	Count    int32
	Interval int32
	Reserved uint16
	Entries  []IdxEntry // rows actually present in the bytes
	Trailing int        // bytes after the last whole row
}

// ParseIndexRef splits an index file: 16-byte header ("IDX\0", version, entry count,
// interval, reserved) followed by 12-byte rows.
func ParseIndexRef(b []byte) (IdxInfo, error) {
	var x IdxInfo
	if len(b) < IdxHeaderLen {
		return x, fmt.Errorf("index shorter than header: %d", len(b))
	}
	x.Magic = string(b[0:4])
	x.Version = binary.BigEndian.Uint16(b[4:6])
	x.Count = int32(binary.BigEndian.Uint32(b[6:10]))
	x.Interval = int32(binary.BigEndian.Uint32(b[10:14]))
	x.Reserved = binary.BigEndian.Uint16(b[14:16])
	rest := b[IdxHeaderLen:]
	for len(rest) >= IdxEntryLen {
		x.Entries = append(x.Entries, IdxEntry{
			Offset:   int64(binary.BigEndian.Uint64(rest[0:8])),
			Position: int32(binary.BigEndian.Uint32(rest[8:12])),
		})
		rest = rest[IdxEntryLen:]
	}
	x.Trailing = len(rest)
	return x, nil
}

// RefIndex builds index bytes from rows.
func RefIndex(interval int32, entries []IdxEntry) []byte {
	out := make([]byte, IdxHeaderLen, IdxHeaderLen+IdxEntryLen*len(entries))
	copy(out[0:4], "IDX\x00")
	binary.BigEndian.PutUint16(out[4:6], 1)
	binary.BigEndian.PutUint32(out[6:10], uint32(len(entries)))
	binary.BigEndian.PutUint32(out[10:14], uint32(interval))
	for _, e := range entries {
		var r [IdxEntryLen]byte
		binary.BigEndian.PutUint64(r[0:8], uint64(e.Offset))
		binary.BigEndian.PutUint32(r[8:12], uint32(e.Position))
		out = append(out, r[:]...)
	}
	return out
}

// ---------------------------------------------------------------------------------------
// C07 corpus

// SegBatch is one well-formed record batch of a corpus element.
type SegBatch struct {
	Recs []Rec
	Opts BatchOpts
}

// SegCase is one corpus element: a sequence of well-formed batches serialised into a segment.
type SegCase struct {
	Idx       int
	Family    string
	Name      string
	Batches   []SegBatch
	CreatedMs int64
	Interval  int32 // IndexIntervalMessages handed to the broker's segment writer
}

// BatchBytes returns the wire bytes of every batch (what a producer sends and the broker stores).
func (c *SegCase) BatchBytes() [][]byte {
	out := make([][]byte, len(c.Batches))
	for i, b := range c.Batches {
		out[i] = MakeBatch(b.Recs, b.Opts)
	}
	return out
}

func (c *SegCase) BaseOffset() int64 { return c.Batches[0].Opts.BaseOffset }

func (c *SegCase) MessageCount() int32 {
	n := 0
	for _, b := range c.Batches {
		n += len(b.Recs)
	}
	return int32(n)
}

func (c *SegCase) LastOffset() int64 {
	b := c.Batches[len(c.Batches)-1]
	return b.Opts.BaseOffset + int64(len(b.Recs)-1)
}

// BatchStarts returns, per batch, its byte position in the segment file and its base offset.
func (c *SegCase) BatchStarts() []IdxEntry {
	pos := SegHeaderLen
	out := make([]IdxEntry, 0, len(c.Batches))
	for i, bb := range c.BatchBytes() {
		out = append(out, IdxEntry{Offset: c.Batches[i].Opts.BaseOffset, Position: int32(pos)})
		pos += len(bb)
	}
	return out
}

// RefSegment returns the segment the independent builder produces for this case.
func (c *SegCase) RefSegment() []byte {
	return RefSegment(c.BaseOffset(), c.MessageCount(), c.CreatedMs, c.LastOffset(), c.BatchBytes())
}

// Expected returns the records the producers sent, fully resolved.
func (c *SegCase) Expected() []DecodedRecord {
	var out []DecodedRecord
	for _, b := range c.Batches {
		for _, r := range b.Recs {
			d := DecodedRecord{
				Offset:    b.Opts.BaseOffset + int64(r.OffsetDelta),
				Timestamp: b.Opts.BaseTimestamp + r.TimestampDelta,
			}
			if r.Key != nil {
				d.Key = append([]byte{}, r.Key...)
			}
			if r.Value != nil {
				d.Value = append([]byte{}, r.Value...)
			}
			for _, h := range r.Headers {
				hh := Header{Key: h.Key}
				if h.Value != nil {
					hh.Value = append([]byte{}, h.Value...)
				}
				d.Headers = append(d.Headers, hh)
			}
			out = append(out, d)
		}
	}
	return out
}

// Describe renders the case for samples / replays.
func (c *SegCase) Describe() map[string]any {
	bs := make([]any, 0, len(c.Batches))
	for _, b := range c.Batches {
		rs := make([]string, 0, len(b.Recs))
		for _, r := range b.Recs {
			rs = append(rs, DescribeRec(r))
		}
		bs = append(bs, map[string]any{"baseOffset": b.Opts.BaseOffset, "baseTimestamp": b.Opts.BaseTimestamp, "records": rs})
	}
	return map[string]any{"idx": c.Idx, "family": c.Family, "name": c.Name, "interval": c.Interval, "createdMs": c.CreatedMs, "batches": bs}
}

func descBytes(b []byte) string {
	switch {
	case b == nil:
		return "null"
	case len(b) == 0:
		return "empty"
	case len(b) > 8:
		return fmt.Sprintf("%q..x%d", b[:4], len(b))
	}
	return fmt.Sprintf("%q", b)
}

// DescribeRec renders one record.
func DescribeRec(r Rec) string {
	hs := make([]string, 0, len(r.Headers))
	for _, h := range r.Headers {
		hs = append(hs, fmt.Sprintf("%q=%s", h.Key, descBytes(h.Value)))
	}
	return fmt.Sprintf("{od=%d td=%d k=%s v=%s h=[%s]}", r.OffsetDelta, r.TimestampDelta, descBytes(r.Key), descBytes(r.Value), strings.Join(hs, ","))
}

// SameRecord compares a decoded record with the expected one as the Kafka wire distinguishes
// them: null and empty key/value/header value differ; a record without headers has zero headers
// (nil and empty header lists are the same thing). It returns "" or the name of the first
// differing field.
func SameRecord(offset, ts int64, key, value []byte, hk []string, hv [][]byte, want DecodedRecord) string {
	if offset != want.Offset {
		return "offset"
	}
	if ts != want.Timestamp {
		return "timestamp"
	}
	if !sameNullable(key, want.Key) {
		return "key"
	}
	if !sameNullable(value, want.Value) {
		return "value"
	}
	if len(hk) != len(want.Headers) || len(hv) != len(want.Headers) {
		return "header-count"
	}
	for i, h := range want.Headers {
		if hk[i] != h.Key {
			return "header-key"
		}
		if !sameNullable(hv[i], h.Value) {
			return "header-value"
		}
	}
	return ""
}

func sameNullable(a, b []byte) bool {
	if (a == nil) != (b == nil) {
		return false
	}
	return string(a) == string(b)
}

type recSym struct {
	label string
	rec   Rec
}

func rep(b byte, n int) []byte {
	out := make([]byte, n)
	for i := range out {
		out[i] = b
	}
	return out
}

const c07BaseTs = int64(1700000000000)

// C07TimestampDeltas is the timestamp-delta alphabet, simplest first. Deltas are Kafka varlongs;
// a producer that sets record timestamps itself (event time) can put any spread into one batch.
func C07TimestampDeltas(thorough bool) []int64 {
	d := []int64{0, 1, -1, 1 << 30, -(1 << 30) - 1, 1 << 31}
	if thorough {
		d = append(d, (1<<31)-1, -(1 << 31), 1<<40, -(1 << 40), 1<<62)
	}
	return d
}

func c07Keys(thorough bool) [][]byte {
	k := [][]byte{nil, {}, []byte("k")}
	if thorough {
		k = append(k, rep('K', 70)) // length needs a 2-byte varint
	}
	return k
}

func c07Values(thorough bool) [][]byte {
	v := [][]byte{nil, {}, []byte("v"), rep('V', 70)}
	if thorough {
		v = append(v, rep('W', 9000)) // 3-byte varint
	}
	return v
}

func c07Headers(thorough bool) [][]Header {
	h := [][]Header{
		nil,
		{{Key: "h", Value: nil}},
		{{Key: "h", Value: []byte{}}},
		{{Key: "hk", Value: []byte("hv")}, {Key: "", Value: []byte("x")}},
	}
	if thorough {
		h = append(h, []Header{{Key: "a", Value: []byte("1")}, {Key: "a", Value: nil}, {Key: string(rep('H', 70)), Value: rep('x', 70)}})
	}
	return h
}

func mkBatch(base, baseTs int64, recs []Rec) SegBatch {
	rs := make([]Rec, len(recs))
	for i, r := range recs {
		r.OffsetDelta = int32(i)
		rs[i] = r
	}
	return SegBatch{Recs: rs, Opts: BatchOpts{BaseOffset: base, BaseTimestamp: baseTs}}
}

// C07Corpus enumerates the corpus in a fixed order (simplest first). Families:
//
//	1x1   one batch, one record: full product key x value x headers x timestamp delta
//	1x2   one batch, two records: all ordered pairs over the reduced record alphabet
//	1x3   one batch, three records: all triples over a small diverse record alphabet
//	edge  base offset / base timestamp extremes x timestamp delta
//	multi every sequence of <= 3 (thorough: also 4 over the small alphabet) batches, each batch every
//	      sequence of <= 3 records over a 2-record (thorough 3) alphabet, x index interval {1,2,100}
//	      x offset layout {contiguous, gap of 3 between batches}
func C07Corpus(thorough bool, f func(c *SegCase) bool) {
	idx := 0
	stop := false
	emit := func(fam, name string, bs []SegBatch, interval int32) bool {
		c := &SegCase{Idx: idx, Family: fam, Name: name, Batches: bs, CreatedMs: 1700000000123, Interval: interval}
		idx++
		if !f(c) {
			stop = true
		}
		return !stop
	}
	keys, vals, hdrs, tds := c07Keys(thorough), c07Values(thorough), c07Headers(thorough), C07TimestampDeltas(thorough)

	// 1x1
	Product([]int{len(tds), len(hdrs), len(keys), len(vals)}, func(ix []int) bool {
		r := Rec{TimestampDelta: tds[ix[0]], Headers: hdrs[ix[1]], Key: keys[ix[2]], Value: vals[ix[3]]}
		return emit("1x1", fmt.Sprintf("t%d.h%d.k%d.v%d", ix[0], ix[1], ix[2], ix[3]), []SegBatch{mkBatch(0, c07BaseTs, []Rec{r})}, 1)
	})
	if stop {
		return
	}

	// reduced record alphabet for pairs
	var r2 []recSym
	for ti, td := range []int64{0, 1, -1} {
		for hi, h := range [][]Header{nil, {{Key: "h", Value: []byte("x")}}} {
			for ki, k := range c07Keys(false) {
				for vi, v := range c07Values(false) {
					r2 = append(r2, recSym{fmt.Sprintf("t%dh%dk%dv%d", ti, hi, ki, vi), Rec{TimestampDelta: td, Headers: h, Key: k, Value: v}})
				}
			}
		}
	}
	Product([]int{len(r2), len(r2)}, func(ix []int) bool {
		return emit("1x2", r2[ix[0]].label+"+"+r2[ix[1]].label, []SegBatch{mkBatch(0, c07BaseTs, []Rec{r2[ix[0]].rec, r2[ix[1]].rec})}, 1)
	})
	if stop {
		return
	}

	// small diverse alphabet for triples
	r3 := []recSym{
		{"kv", Rec{Key: []byte("k"), Value: []byte("v")}},
		{"nn-1", Rec{TimestampDelta: -1}},
		{"ee+1h", Rec{TimestampDelta: 1, Key: []byte{}, Value: []byte{}, Headers: []Header{{Key: "h", Value: nil}}}},
		{"nV", Rec{Value: rep('V', 70)}},
		{"k.hh", Rec{Key: []byte("k"), Headers: []Header{{Key: "hk", Value: []byte("hv")}, {Key: "", Value: []byte{}}}}},
		{"big+", Rec{TimestampDelta: 1 << 31, Key: []byte("k"), Value: []byte("v")}},
	}
	if thorough {
		r3 = append(r3,
			recSym{"big-", Rec{TimestampDelta: -(1 << 40), Value: []byte("v")}},
			recSym{"K", Rec{Key: rep('K', 70), Value: nil}},
			recSym{"3h", Rec{Value: []byte("v"), Headers: []Header{{Key: "a", Value: []byte("1")}, {Key: "a", Value: nil}, {Key: "b", Value: []byte{}}}}},
			recSym{"W", Rec{Key: []byte{}, Value: rep('W', 9000)}},
		)
	}
	Product([]int{len(r3), len(r3), len(r3)}, func(ix []int) bool {
		recs := []Rec{r3[ix[0]].rec, r3[ix[1]].rec, r3[ix[2]].rec}
		return emit("1x3", r3[ix[0]].label+"+"+r3[ix[1]].label+"+"+r3[ix[2]].label, []SegBatch{mkBatch(0, c07BaseTs, recs)}, 1)
	})
	if stop {
		return
	}

	// edge: offsets / timestamps at the extremes
	bases := []int64{0, 5, 1<<31 - 1, 1 << 40}
	baseTss := []int64{c07BaseTs, 0, -1, 1 << 62}
	etd := []int64{0, 1, -1}
	Product([]int{len(bases), len(baseTss), len(etd)}, func(ix []int) bool {
		recs := []Rec{{Key: []byte("k"), Value: []byte("v")}, {TimestampDelta: etd[ix[2]], Value: []byte("w")}}
		return emit("edge", fmt.Sprintf("base%d.ts%d.td%d", bases[ix[0]], baseTss[ix[1]], etd[ix[2]]), []SegBatch{mkBatch(bases[ix[0]], baseTss[ix[1]], recs)}, 1)
	})
	if stop {
		return
	}

	// multi: sequences of batches
	r4 := []recSym{
		{"a", Rec{Key: []byte("k"), Value: []byte("v")}},
		{"b", Rec{TimestampDelta: -1, Value: []byte{}, Headers: []Header{{Key: "h", Value: nil}}}},
	}
	multi := func(fam string, syms []recSym, minBatches, maxBatches int) {
		// batch alphabet: every sequence of 1..3 records
		type bsym struct {
			label string
			recs  []Rec
		}
		var balpha []bsym
		Sequences(len(syms), 3, func(seq []int) bool {
			if len(seq) == 0 {
				return true
			}
			var b bsym
			for _, s := range seq {
				b.label += syms[s].label
				b.recs = append(b.recs, syms[s].rec)
			}
			balpha = append(balpha, b)
			return true
		})
		intervals := []int32{1, 2, 100}
		gaps := []int64{0, 3}
		Sequences(len(balpha), maxBatches, func(seq []int) bool {
			if len(seq) < minBatches {
				return true
			}
			for _, iv := range intervals {
				for _, gap := range gaps {
					if gap != 0 && len(seq) == 1 {
						continue
					}
					base := int64(7)
					var bs []SegBatch
					labels := make([]string, 0, len(seq))
					for bi, s := range seq {
						bs = append(bs, mkBatch(base, c07BaseTs+int64(bi)*10, balpha[s].recs))
						base += int64(len(balpha[s].recs)) + gap
						labels = append(labels, balpha[s].label)
					}
					if !emit(fam, fmt.Sprintf("%s/iv%d/gap%d", strings.Join(labels, "|"), iv, gap), bs, iv) {
						return false
					}
				}
			}
			return true
		})
	}
	multi("multi", r4, 1, 3)
	if stop {
		return
	}
	if thorough {
		multi("multi4", r4, 4, 4)
		if stop {
			return
		}
		r5 := append(append([]recSym{}, r4...), recSym{"c", Rec{TimestampDelta: 1 << 31, Key: []byte{}, Value: rep('V', 70), Headers: []Header{{Key: "hk", Value: []byte("hv")}, {Key: "", Value: []byte{}}}}})
		multi("multi3sym", r5, 1, 3)
	}
}

// C07Case returns corpus element idx (for replays).
func C07Case(thorough bool, idx int) *SegCase {
	var out *SegCase
	C07Corpus(thorough, func(c *SegCase) bool {
		if c.Idx == idx {
			out = c
			return false
		}
		return true
	})
	return out
}

// Shape is the outcome-signature skeleton of a case: batch/record layout plus which wire
// features occur. Trivial = one batch, one record, plain key and value, no headers, delta 0.
func (c *SegCase) Shape() (sig string, nontrivial bool) {
	var sb strings.Builder
	sb.WriteString(c.Family)
	fmt.Fprintf(&sb, "|iv%d|", c.Interval)
	feat := map[string]bool{}
	n := 0
	prevEnd := int64(-1)
	for bi, b := range c.Batches {
		fmt.Fprintf(&sb, "%d,", len(b.Recs))
		if bi > 0 && b.Opts.BaseOffset != prevEnd+1 {
			feat["gap"] = true
		}
		prevEnd = b.Opts.BaseOffset + int64(len(b.Recs)) - 1
		if b.Opts.BaseOffset > 1<<31 {
			feat["base>2^31"] = true
		}
		if b.Opts.BaseTimestamp <= 0 {
			feat["basets<=0"] = true
		}
		for _, r := range b.Recs {
			n++
			switch {
			case r.Key == nil:
				feat["k:null"] = true
			case len(r.Key) == 0:
				feat["k:empty"] = true
			case len(r.Key) >= 64:
				feat["k:long"] = true
			}
			switch {
			case r.Value == nil:
				feat["v:null"] = true
			case len(r.Value) == 0:
				feat["v:empty"] = true
			case len(r.Value) >= 64:
				feat["v:long"] = true
			}
			if len(r.Headers) > 0 {
				feat[fmt.Sprintf("h:%d", len(r.Headers))] = true
			}
			for _, h := range r.Headers {
				if h.Value == nil {
					feat["hv:null"] = true
				} else if len(h.Value) == 0 {
					feat["hv:empty"] = true
				}
				if h.Key == "" {
					feat["hk:empty"] = true
				}
			}
			switch {
			case r.TimestampDelta == 0:
			case r.TimestampDelta >= 1<<30 || r.TimestampDelta < -(1<<30):
				feat[fmt.Sprintf("td:%d", r.TimestampDelta)] = true
			case r.TimestampDelta < 0:
				feat["td:neg"] = true
			default:
				feat["td:pos"] = true
			}
		}
	}
	names := make([]string, 0, len(feat))
	for k := range feat {
		names = append(names, k)
	}
	// insertion sort (no sort import needed, tiny)
	for i := 1; i < len(names); i++ {
		for j := i; j > 0 && names[j] < names[j-1]; j-- {
			names[j], names[j-1] = names[j-1], names[j]
		}
	}
	sb.WriteString("|" + strings.Join(names, " "))
	return sb.String(), n > 1 || len(names) > 0
}

// ---------------------------------------------------------------------------------------
// C34 corpus: hostile bytes for segment / index decoders

// FuzzCase is one input for the "never crashes" check.
type FuzzCase struct {
	Idx     int
	Kind    string   // "segment" or "index": which decoders take it
	Family  string   // generator family
	Name    string   // human-readable construction
	Field   string   // mechanism label of the single substituted field ("" = none, "combo" = several)
	Data    []byte   // the bytes handed to the decoder
	Batches [][]byte // when non-nil: Data == BrokerSegment(Batches, C34CreatedMs) (a broker-written segment)
}

const (
	C34CreatedMs = int64(1700000000123)
	C34BaseTs    = int64(1700000000000)
	C34MaxTs     = C34BaseTs + 1000 // every generated batch claims this max timestamp
)

// BrokerSegment wraps stored batches the way the broker does: header base offset / message
// count and footer last offset are taken from the (client-supplied) batch headers.
func BrokerSegment(batches [][]byte, createdMs int64) []byte {
	var base, last int64
	var count int32
	for i, b := range batches {
		bo := int64(binary.BigEndian.Uint64(b[0:8]))
		if i == 0 {
			base = bo
		}
		last = bo + int64(int32(binary.BigEndian.Uint32(b[23:27])))
		count += int32(binary.BigEndian.Uint32(b[57:61]))
	}
	return RefSegment(base, count, createdMs, last, batches)
}

type fzTok struct {
	mech   string // "" for raw bytes
	varint bool
	v      int64
	raw    []byte
}

// recTokens splits a record into its wire fields; token 0 is the record length.
func recTokens(r Rec) []fzTok {
	t := []fzTok{{mech: "record-length", varint: true}, {raw: []byte{0}},
		{mech: "timestamp-delta", varint: true, v: r.TimestampDelta}, {mech: "offset-delta", varint: true, v: int64(r.OffsetDelta)}}
	nb := func(mech string, b []byte) {
		if b == nil {
			t = append(t, fzTok{mech: mech, varint: true, v: -1})
			return
		}
		t = append(t, fzTok{mech: mech, varint: true, v: int64(len(b))}, fzTok{raw: b})
	}
	nb("key-length", r.Key)
	nb("value-length", r.Value)
	t = append(t, fzTok{mech: "header-count", varint: true, v: int64(len(r.Headers))})
	for _, h := range r.Headers {
		nb("header-key-length", []byte(h.Key))
		nb("header-value-length", h.Value)
	}
	return t
}

// encodeTokens serialises a record; lenOverride == nil keeps the length consistent.
func encodeTokens(t []fzTok, lenOverride *int64) []byte {
	var body []byte
	for _, k := range t[1:] {
		if k.varint {
			body = PutVarint(body, k.v)
		} else {
			body = append(body, k.raw...)
		}
	}
	l := int64(len(body))
	if lenOverride != nil {
		l = *lenOverride
	}
	return append(PutVarint(nil, l), body...)
}

// remAfter is the number of record-body bytes that follow token i in the valid encoding.
func remAfter(t []fzTok, i int) int64 {
	n := 0
	for _, k := range t[i+1:] {
		if k.varint {
			n += len(PutVarint(nil, k.v))
		} else {
			n += len(k.raw)
		}
	}
	return int64(n)
}

func c34Batch(base int64, n int, payload []byte) []byte {
	return MakeBatchRaw(payload, n, nil, BatchOpts{BaseOffset: base, BaseTimestamp: C34BaseTs, MaxTimestamp: I64(C34MaxTs)})
}

// C34ByteAlphabet is the symbol set of the short-string family.
var C34ByteAlphabet = []byte{0x00, 0x01, 0x7f, 0x80, 0xff}

// C34VarintValues is the substitution alphabet for a varint field with `rem` bytes after it:
// enum.VarintBoundaries plus two "large but allocatable" lengths. heavy=false leaves out the
// values whose unchecked use allocates >= 1 GiB (kept for a reduced set of fields in quick).
func C34VarintValues(rem int64, heavy bool) []int64 {
	var out []int64
	seen := map[int64]bool{}
	for _, v := range append(VarintBoundaries(rem), 1<<21, 1<<24, 1<<30-1) {
		if seen[v] {
			continue
		}
		seen[v] = true
		if !heavy && (v == 1<<30-1 || v == 1<<31-1 || v == 1<<31) {
			continue
		}
		out = append(out, v)
	}
	return out
}

func c34Seeds() [][][]Rec {
	return [][][]Rec{
		{{{Key: []byte("k"), Value: []byte("vv"), Headers: []Header{{Key: "h", Value: []byte("x")}}}}},
		{
			{{Key: []byte("k"), Value: []byte("v")}, {OffsetDelta: 1, TimestampDelta: 7, Key: nil, Value: []byte{}, Headers: []Header{{Key: "h", Value: nil}}}},
			{{TimestampDelta: -1, Key: []byte{}, Value: []byte("value")}, {OffsetDelta: 1, TimestampDelta: 900, Key: []byte("kk"), Value: nil, Headers: []Header{{Key: "a", Value: []byte("1")}, {Key: "", Value: []byte{}}}}},
		},
	}
}

func c34SeedBatches(seed [][]Rec) (toks [][][]fzTok, bases []int64) {
	base := int64(40)
	for _, recs := range seed {
		var bt [][]fzTok
		for _, r := range recs {
			bt = append(bt, recTokens(r))
		}
		toks = append(toks, bt)
		bases = append(bases, base)
		base += int64(len(recs))
	}
	return
}

func c34Assemble(toks [][][]fzTok, bases []int64, bi, ri int, rec []byte) [][]byte {
	out := make([][]byte, len(toks))
	for b := range toks {
		var payload []byte
		for r := range toks[b] {
			if b == bi && r == ri {
				payload = append(payload, rec...)
			} else {
				payload = append(payload, encodeTokens(toks[b][r], nil)...)
			}
		}
		out[b] = c34Batch(bases[b], len(toks[b]), payload)
	}
	return out
}

type c34Fixed struct {
	mech  string
	off   int
	width int
}

var c34BatchHeaderFields = []c34Fixed{
	{"batch-base-offset", 0, 8}, {"batch-length", 8, 4}, {"leader-epoch", 12, 4}, {"batch-magic", 16, 1}, {"batch-crc", 17, 4},
	{"batch-attributes", 21, 2}, {"last-offset-delta", 23, 4}, {"first-timestamp", 27, 8}, {"max-timestamp", 35, 8},
	{"producer-id", 43, 8}, {"producer-epoch", 51, 2}, {"base-sequence", 53, 4}, {"record-count", 57, 4},
}

var c34SegmentFields = []c34Fixed{
	{"segment-magic", 0, 4}, {"segment-version", 4, 2}, {"segment-flags", 6, 2}, {"segment-base-offset", 8, 8},
	{"segment-message-count", 16, 4}, {"segment-created", 20, 8}, {"segment-reserved", 28, 4},
	{"footer-crc", -16, 4}, {"footer-last-offset", -12, 8}, {"footer-magic", -4, 4},
}

func c34FixedValues(width int, valid int64, rem int64, heavy bool) []int64 {
	var v []int64
	switch width {
	case 1:
		v = []int64{0, 1, 3, 0x7f, 0xff}
	case 2:
		v = []int64{0, 1, 8, 0x7fff, -1, -0x8000}
	case 4:
		v = []int64{0, 1, 2, -1, valid + 1, valid - 1, rem, rem + 1, rem - 1, 48, 49, 1 << 16, 1 << 20, 1<<31 - 1, -(1 << 31)}
	default:
		v = []int64{0, 1, -1, 1 << 40, 1<<63 - 1, -(1 << 63)}
	}
	var out []int64
	seen := map[int64]bool{valid: true}
	for _, x := range v {
		if seen[x] {
			continue
		}
		seen[x] = true
		out = append(out, x)
	}
	return out
}

func c34Patch(b []byte, off, width int, v int64) []byte {
	out := append([]byte{}, b...)
	if off < 0 {
		off += len(out)
	}
	switch width {
	case 1:
		out[off] = byte(v)
	case 2:
		binary.BigEndian.PutUint16(out[off:], uint16(v))
	case 4:
		binary.BigEndian.PutUint32(out[off:], uint32(v))
	case 8:
		binary.BigEndian.PutUint64(out[off:], uint64(v))
	}
	return out
}

func c34Read(b []byte, off, width int) int64 {
	if off < 0 {
		off += len(b)
	}
	switch width {
	case 1:
		return int64(int8(b[off]))
	case 2:
		return int64(int16(binary.BigEndian.Uint16(b[off:])))
	case 4:
		return int64(int32(binary.BigEndian.Uint32(b[off:])))
	}
	return int64(binary.BigEndian.Uint64(b[off:]))
}

// C34ComboValues is the per-field alphabet of the combination family (valid value first).
// Only values whose unchecked use is free (an error, or an immediate makeslice panic); thorough
// adds the exact fit and one short of it. The values that make an unchecked decoder allocate
// (2 MiB and up) are exercised field by field in the single-field family: every large
// allocation costs a worker restart.
func C34ComboValues(valid, rem int64, thorough bool) []int64 {
	// 2^63-1 rather than 2^62 as the huge positive: the tail of its encoding (ff..ff 01), when a
	// mis-aligned parse starts inside it, reads as a negative number instead of as a terabyte length
	v := []int64{valid, 0, -1, rem + 1, 1<<63 - 1, -(1 << 63)}
	if thorough {
		v = append(v, rem, rem-1)
	}
	var out []int64
	seen := map[int64]bool{}
	for _, x := range v {
		if !seen[x] {
			seen[x] = true
			out = append(out, x)
		}
	}
	return out
}

// C34Cases enumerates the corpus in a fixed order. want(idx) says whether element idx will be
// used (elements that are not wanted are counted but not constructed). Families:
//
//	raw          every byte string of length <= 6 over C34ByteAlphabet, as a whole segment and as a whole index
//	recarea      the strings of length <= 5 (thorough <= 6) as the record area of a broker-written one-batch segment
//	             (recordCount 1; thorough also 2)
//	prefix       every proper prefix of two valid segments; the same with the footer re-attached (body cut anywhere)
//	subst        valid segments with one varint field of one record replaced by each C34VarintValues value,
//	             batch length kept consistent, record length {re-computed, left as it was}
//	hdr          valid segments with one fixed-width field of a batch header / the segment header / footer replaced
//	combo        broker-written segment, one batch of two records + 4 pad bytes: every combination of
//	             C34ComboValues for record length, key length, value length, header count, header key length,
//	             header value length of record 0, x record count x batch length alphabets
//	index-*      prefixes of a valid index; magic x version x entry count {0..4} x rows present {0..3};
//	             magic x version x entry count {-1, 2^16, 2^20, 2^31-1, -2^31} with 2 rows; interval values
func C34Cases(thorough bool, want func(idx int) bool, f func(c *FuzzCase) bool) {
	idx := 0
	stop := false
	emit := func(kind, fam, field string, build func() (string, []byte, [][]byte)) bool {
		if want == nil || want(idx) {
			name, data, batches := build()
			if batches != nil {
				data = BrokerSegment(batches, C34CreatedMs)
			}
			if !f(&FuzzCase{Idx: idx, Kind: kind, Family: fam, Name: name, Field: field, Data: data, Batches: batches}) {
				stop = true
			}
		}
		idx++
		return !stop
	}
	str := func(seq []int) []byte {
		b := make([]byte, len(seq))
		for i, s := range seq {
			b[i] = C34ByteAlphabet[s]
		}
		return b
	}

	// raw
	for _, kind := range []string{"segment", "index"} {
		kind := kind
		Sequences(len(C34ByteAlphabet), 6, func(seq []int) bool {
			return emit(kind, "raw", "", func() (string, []byte, [][]byte) { b := str(seq); return fmt.Sprintf("%x", b), b, nil })
		})
		if stop {
			return
		}
	}
	// recarea
	rcs, recLen := []int{1}, 5
	if thorough {
		rcs, recLen = []int{1, 2}, 6
	}
	for _, rc := range rcs {
		rc := rc
		Sequences(len(C34ByteAlphabet), recLen, func(seq []int) bool {
			return emit("segment", "recarea", "record-bytes", func() (string, []byte, [][]byte) {
				b := str(seq)
				return fmt.Sprintf("recordCount=%d records=%x", rc, b), nil, [][]byte{c34Batch(40, rc, b)}
			})
		})
		if stop {
			return
		}
	}
	// prefix
	seeds := c34Seeds()
	for si, seed := range seeds {
		toks, bases := c34SeedBatches(seed)
		full := BrokerSegment(c34Assemble(toks, bases, -1, -1, nil), C34CreatedMs)
		for n := 0; n < len(full); n++ {
			si, n := si, n
			if !emit("segment", "prefix", "truncated", func() (string, []byte, [][]byte) {
				return fmt.Sprintf("seed%d[:%d]", si, n), append([]byte{}, full[:n]...), nil
			}) {
				return
			}
		}
		body := full[SegHeaderLen : len(full)-SegFooterLen]
		for n := 0; n < len(body); n++ {
			si, n := si, n
			if !emit("segment", "prefix", "body-truncated", func() (string, []byte, [][]byte) {
				out := append([]byte{}, full[:SegHeaderLen+n]...)
				return fmt.Sprintf("seed%d header+body[:%d]+footer", si, n), append(out, full[len(full)-SegFooterLen:]...), nil
			}) {
				return
			}
		}
	}
	// subst
	for si, seed := range seeds {
		toks, bases := c34SeedBatches(seed)
		for bi := range toks {
			for ri := range toks[bi] {
				t := toks[bi][ri]
				for ti := range t {
					if !t[ti].varint {
						continue
					}
					// quick: the values whose unchecked use allocates >= 1 GiB or cannot be allocated at all
					// (each costs a worker restart) are applied to the one-record seed only
					heavy := thorough || (si == 0)
					rem := remAfter(t, ti)
					for _, v := range C34VarintValues(rem, heavy) {
						if ti != 0 && v == t[ti].v {
							continue
						}
						if !heavy && v == 1<<40 {
							continue
						}
						for _, fix := range []bool{true, false} {
							if ti == 0 && !fix {
								continue
							}
							si, bi, ri, ti, v, fix := si, bi, ri, ti, v, fix
							if !emit("segment", "subst", t[ti].mech, func() (string, []byte, [][]byte) {
								mt := append([]fzTok{}, t...)
								var rec []byte
								if ti == 0 {
									rec = encodeTokens(mt, &v)
								} else {
									mt[ti].v = v
									if fix {
										rec = encodeTokens(mt, nil)
									} else {
										old := remAfter(t, 0)
										rec = encodeTokens(mt, &old)
									}
								}
								return fmt.Sprintf("seed%d batch%d record%d %s#%d=%d (bytes after field: %d) recordLengthRecomputed=%v", si, bi, ri, t[ti].mech, ti, v, rem, fix), nil, c34Assemble(toks, bases, bi, ri, rec)
							}) {
								return
							}
						}
					}
				}
			}
		}
	}
	// hdr: fixed-width batch header fields (patched in the stored batch) and segment header / footer
	for si, seed := range seeds {
		toks, bases := c34SeedBatches(seed)
		valid := c34Assemble(toks, bases, -1, -1, nil)
		for bi := range valid {
			for _, fd := range c34BatchHeaderFields {
				cur := c34Read(valid[bi], fd.off, fd.width)
				rem := int64(len(valid[bi]) - 12)
				for _, v := range c34FixedValues(fd.width, cur, rem, true) {
					si, bi, fd, v := si, bi, fd, v
					if !emit("segment", "hdr", fd.mech, func() (string, []byte, [][]byte) {
						bs := append([][]byte{}, valid...)
						bs[bi] = c34Patch(valid[bi], fd.off, fd.width, v)
						return fmt.Sprintf("seed%d batch%d %s=%d (was %d)", si, bi, fd.mech, v, cur), nil, bs
					}) {
						return
					}
				}
			}
		}
		full := BrokerSegment(valid, C34CreatedMs)
		for _, fd := range c34SegmentFields {
			cur := c34Read(full, fd.off, fd.width)
			for _, v := range c34FixedValues(fd.width, cur, int64(len(full)), true) {
				si, fd, v := si, fd, v
				if !emit("segment", "hdr", fd.mech, func() (string, []byte, [][]byte) {
					return fmt.Sprintf("seed%d %s=%d (was %d)", si, fd.mech, v, cur), c34Patch(full, fd.off, fd.width, v), nil
				}) {
					return
				}
			}
		}
	}
	// index
	idxRows := []IdxEntry{{Offset: 40, Position: 32}, {Offset: 42, Position: 190}, {Offset: 44, Position: 300}}
	validIdx := RefIndex(2, idxRows[:2])
	for n := 0; n < len(validIdx); n++ {
		n := n
		if !emit("index", "index-prefix", "truncated", func() (string, []byte, [][]byte) {
			return fmt.Sprintf("index[:%d]", n), append([]byte{}, validIdx[:n]...), nil
		}) {
			return
		}
	}
	idxCase := func(magicOK bool, ver int64, rows int, cnt int64) bool {
		return emit("index", "index-subst", "index-entry-count", func() (string, []byte, [][]byte) {
			b := RefIndex(2, idxRows[:rows])
			if !magicOK {
				copy(b[0:4], "XDI\x00")
			}
			b = c34Patch(b, 4, 2, ver)
			b = c34Patch(b, 6, 4, cnt)
			return fmt.Sprintf("index magicOK=%v version=%d entryCount=%d rowsPresent=%d", magicOK, ver, cnt, rows), b, nil
		})
	}
	vers := []int64{1, 0, 2}
	smallCounts := []int64{0, 1, 2, 3, 4}
	Product([]int{2, len(vers), 4, len(smallCounts)}, func(ix []int) bool {
		return idxCase(ix[0] == 0, vers[ix[1]], ix[2], smallCounts[ix[3]])
	})
	if stop {
		return
	}
	bigCounts := []int64{-1, 1 << 16, 1 << 20, 1<<31 - 1, -(1 << 31)}
	Product([]int{2, len(vers), len(bigCounts)}, func(ix []int) bool {
		return idxCase(ix[0] == 0, vers[ix[1]], 2, bigCounts[ix[2]])
	})
	if stop {
		return
	}
	for _, v := range []int64{0, 1, -1, 1<<31 - 1, -(1 << 31)} {
		v := v
		if !emit("index", "index-subst", "index-interval", func() (string, []byte, [][]byte) {
			return fmt.Sprintf("index interval=%d", v), c34Patch(validIdx, 10, 4, v), nil
		}) {
			return
		}
	}
	// combo
	tmpl := recTokens(Rec{Key: []byte("k"), Value: []byte("vv"), Headers: []Header{{Key: "h", Value: []byte("x")}}})
	second := encodeTokens(recTokens(Rec{OffsetDelta: 1, Key: []byte("z"), Value: []byte("y")}), nil)
	var fieldTok []int
	for i, k := range tmpl {
		if k.varint && k.mech != "timestamp-delta" && k.mech != "offset-delta" {
			fieldTok = append(fieldTok, i)
		}
	}
	alpha := make([][]int64, len(fieldTok))
	dims := make([]int, 0, len(fieldTok)+2)
	for j, ti := range fieldTok {
		valid := tmpl[ti].v
		if ti == 0 {
			valid = remAfter(tmpl, 0)
		}
		alpha[j] = C34ComboValues(valid, remAfter(tmpl, ti), thorough)
		dims = append(dims, len(alpha[j]))
	}
	rcAlpha := []int64{2, 3}
	blAlpha := []int64{0} // delta added to the consistent batch length
	if thorough {
		rcAlpha = []int64{2, 3, 0, -1, 1 << 16}
		blAlpha = []int64{0, 1, -1}
	}
	dims = append(dims, len(rcAlpha), len(blAlpha))
	Product(dims, func(ix []int) bool {
		ix = append([]int{}, ix...)
		return emit("segment", "combo", "combo", func() (string, []byte, [][]byte) {
			mt := append([]fzTok{}, tmpl...)
			var lenOv *int64
			var desc []string
			for j, ti := range fieldTok {
				v := alpha[j][ix[j]]
				if ti == 0 {
					if ix[j] != 0 {
						lenOv = &v
						desc = append(desc, fmt.Sprintf("%s=%d", tmpl[ti].mech, v))
					}
					continue
				}
				mt[ti].v = v
				if ix[j] != 0 {
					desc = append(desc, fmt.Sprintf("%s=%d", tmpl[ti].mech, v))
				}
			}
			payload := append(encodeTokens(mt, lenOv), second...)
			payload = append(payload, "PPPP"...)
			rc, bld := rcAlpha[ix[len(fieldTok)]], blAlpha[ix[len(fieldTok)+1]]
			b := c34Batch(40, 2, payload)
			if rc != 2 {
				b = c34Patch(b, 57, 4, rc)
				desc = append(desc, fmt.Sprintf("record-count=%d", rc))
			}
			if bld != 0 {
				b = c34Patch(b, 8, 4, int64(len(b)-12)+bld)
				desc = append(desc, fmt.Sprintf("batch-length%+d", bld))
			}
			if len(desc) == 0 {
				desc = []string{"all valid"}
			}
			return "combo " + strings.Join(desc, " "), nil, [][]byte{b}
		})
	})
}
