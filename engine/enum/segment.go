//go:build verif

package enum

// Independent KafScale segment / index codec (written from kafscale-spec.md, "Segment File
// Format" and "Index File Format") and the deterministic C07 corpus of well-formed
// record-batch sequences. Nothing here calls into the code under test, so the same corpus can
// be regenerated identically inside every Go module of the repository.

import (
	"encoding/binary"
	"fmt"
	"hash/crc32"
	"strings"
)

const (
	SegHeaderLen = 32
	SegFooterLen = 16
	IdxHeaderLen = 16
	IdxEntryLen  = 12
)

// RefSegment builds segment bytes: 32-byte header ("KAFS", version 1, flags 0, base offset,
// message count, created unix-millis, reserved 0), body = concatenated batches, 16-byte footer
// (CRC-32C of the body, last offset, "END!").
func RefSegment(baseOffset int64, msgCount int32, createdMs int64, lastOffset int64, batches [][]byte) []byte {
	n := SegHeaderLen + SegFooterLen
	for _, b := range batches {
		n += len(b)
	}
	out := make([]byte, SegHeaderLen, n)
	copy(out[0:4], "KAFS")
	binary.BigEndian.PutUint16(out[4:6], 1)
	binary.BigEndian.PutUint16(out[6:8], 0)
	binary.BigEndian.PutUint64(out[8:16], uint64(baseOffset))
	binary.BigEndian.PutUint32(out[16:20], uint32(msgCount))
	binary.BigEndian.PutUint64(out[20:28], uint64(createdMs))
	binary.BigEndian.PutUint32(out[28:32], 0)
	for _, b := range batches {
		out = append(out, b...)
	}
	crc := crc32.Checksum(out[SegHeaderLen:], castagnoli)
	var f [SegFooterLen]byte
	binary.BigEndian.PutUint32(f[0:4], crc)
	binary.BigEndian.PutUint64(f[4:12], uint64(lastOffset))
	copy(f[12:16], "END!")
	return append(out, f[:]...)
}

// SegInfo is the structural reading of a segment file.
type SegInfo struct {
	Magic        string
	Version      uint16
	Flags        uint16
	BaseOffset   int64
	MessageCount int32
	CreatedMs    int64
	Reserved     uint32
	Body         []byte
	CRC          uint32
	BodyCRC      uint32 // CRC-32C computed over Body
	LastOffset   int64
	FooterMagic  string
}

// ParseSegment splits a segment into its fields (no validation beyond the minimum size).
func ParseSegment(b []byte) (SegInfo, error) {
	var s SegInfo
	if len(b) < SegHeaderLen+SegFooterLen {
		return s, fmt.Errorf("segment shorter than header+footer: %d", len(b))
	}
	s.Magic = string(b[0:4])
	s.Version = binary.BigEndian.Uint16(b[4:6])
	s.Flags = binary.BigEndian.Uint16(b[6:8])
	s.BaseOffset = int64(binary.BigEndian.Uint64(b[8:16]))
	s.MessageCount = int32(binary.BigEndian.Uint32(b[16:20]))
	s.CreatedMs = int64(binary.BigEndian.Uint64(b[20:28]))
	s.Reserved = binary.BigEndian.Uint32(b[28:32])
	s.Body = b[SegHeaderLen : len(b)-SegFooterLen]
	f := b[len(b)-SegFooterLen:]
	s.CRC = binary.BigEndian.Uint32(f[0:4])
	s.BodyCRC = crc32.Checksum(s.Body, castagnoli)
	s.LastOffset = int64(binary.BigEndian.Uint64(f[4:12]))
	s.FooterMagic = string(f[12:16])
	return s, nil
}

// IdxEntry is one sparse index row.
type IdxEntry struct {
	Offset   int64
	Position int32
}

// IdxInfo is the structural reading of an index file.
type IdxInfo struct {
	Magic    string
	Version  uint16
	Count    int32
	Interval int32
	Reserved uint16
	Entries  []IdxEntry // rows actually present in the bytes
	Trailing int        // bytes after the last whole row
}

// ParseIndexRef splits an index file: 16-byte header ("IDX\0", version, entry count,
// interval, reserved) followed by 12-byte rows.
func ParseIndexRef(b []byte) (IdxInfo, error) {
	var x IdxInfo
	if len(b) < IdxHeaderLen {
		return x, fmt.Errorf("index shorter than header: %d", len(b))
	}
	x.Magic = string(b[0:4])
	x.Version = binary.BigEndian.Uint16(b[4:6])
	x.Count = int32(binary.BigEndian.Uint32(b[6:10]))
	x.Interval = int32(binary.BigEndian.Uint32(b[10:14]))
	x.Reserved = binary.BigEndian.Uint16(b[14:16])
	rest := b[IdxHeaderLen:]
	for len(rest) >= IdxEntryLen {
		x.Entries = append(x.Entries, IdxEntry{
			Offset:   int64(binary.BigEndian.Uint64(rest[0:8])),
			Position: int32(binary.BigEndian.Uint32(rest[8:12])),
		})
		rest = rest[IdxEntryLen:]
	}
	x.Trailing = len(rest)
	return x, nil
}

// RefIndex builds index bytes from rows.
func RefIndex(interval int32, entries []IdxEntry) []byte {
	out := make([]byte, IdxHeaderLen, IdxHeaderLen+IdxEntryLen*len(entries))
	copy(out[0:4], "IDX\x00")
	binary.BigEndian.PutUint16(out[4:6], 1)
	binary.BigEndian.PutUint32(out[6:10], uint32(len(entries)))
	binary.BigEndian.PutUint32(out[10:14], uint32(interval))
	for _, e := range entries {
		var r [IdxEntryLen]byte
		binary.BigEndian.PutUint64(r[0:8], uint64(e.Offset))
		binary.BigEndian.PutUint32(r[8:12], uint32(e.Position))
		out = append(out, r[:]...)
	}
	return out
}

// ---------------------------------------------------------------------------------------
// C07 corpus

// SegBatch is one well-formed record batch of a corpus element.
type SegBatch struct {
	Recs []Rec
	Opts BatchOpts
}

// SegCase is one corpus element: a sequence of well-formed batches serialised into a segment.
type SegCase struct {
	Idx       int
	Family    string
	Name      string
	Batches   []SegBatch
	CreatedMs int64
	Interval  int32 // IndexIntervalMessages handed to the broker's segment writer
}

// BatchBytes returns the wire bytes of every batch (what a producer sends and the broker stores).
func (c *SegCase) BatchBytes() [][]byte {
	out := make([][]byte, len(c.Batches))
	for i, b := range c.Batches {
		out[i] = MakeBatch(b.Recs, b.Opts)
	}
	return out
}

func (c *SegCase) BaseOffset() int64 { return c.Batches[0].Opts.BaseOffset }

func (c *SegCase) MessageCount() int32 {
	n := 0
	for _, b := range c.Batches {
		n += len(b.Recs)
	}
	return int32(n)
}

func (c *SegCase) LastOffset() int64 {
	b := c.Batches[len(c.Batches)-1]
	return b.Opts.BaseOffset + int64(len(b.Recs)-1)
}

// BatchStarts returns, per batch, its byte position in the segment file and its base offset.
func (c *SegCase) BatchStarts() []IdxEntry {
	pos := SegHeaderLen
	out := make([]IdxEntry, 0, len(c.Batches))
	for i, bb := range c.BatchBytes() {
		out = append(out, IdxEntry{Offset: c.Batches[i].Opts.BaseOffset, Position: int32(pos)})
		pos += len(bb)
	}
	return out
}

// RefSegment returns the segment the independent builder produces for this case.
func (c *SegCase) RefSegment() []byte {
	return RefSegment(c.BaseOffset(), c.MessageCount(), c.CreatedMs, c.LastOffset(), c.BatchBytes())
}

// Expected returns the records the producers sent, fully resolved.
func (c *SegCase) Expected() []DecodedRecord {
	var out []DecodedRecord
	for _, b := range c.Batches {
		for _, r := range b.Recs {
			d := DecodedRecord{
				Offset:    b.Opts.BaseOffset + int64(r.OffsetDelta),
				Timestamp: b.Opts.BaseTimestamp + r.TimestampDelta,
			}
			if r.Key != nil {
				d.Key = append([]byte{}, r.Key...)
			}
			if r.Value != nil {
				d.Value = append([]byte{}, r.Value...)
			}
			for _, h := range r.Headers {
				hh := Header{Key: h.Key}
				if h.Value != nil {
					hh.Value = append([]byte{}, h.Value...)
				}
				d.Headers = append(d.Headers, hh)
			}
			out = append(out, d)
		}
	}
	return out
}

// Describe renders the case for samples / replays.
func (c *SegCase) Describe() map[string]any {
	bs := make([]any, 0, len(c.Batches))
	for _, b := range c.Batches {
		rs := make([]string, 0, len(b.Recs))
		for _, r := range b.Recs {
			rs = append(rs, DescribeRec(r))
		}
		bs = append(bs, map[string]any{"baseOffset": b.Opts.BaseOffset, "baseTimestamp": b.Opts.BaseTimestamp, "records": rs})
	}
	return map[string]any{"idx": c.Idx, "family": c.Family, "name": c.Name, "interval": c.Interval, "createdMs": c.CreatedMs, "batches": bs}
}

func descBytes(b []byte) string {
	switch {
	case b == nil:
		return "null"
	case len(b) == 0:
		return "empty"
	case len(b) > 8:
		return fmt.Sprintf("%q..x%d", b[:4], len(b))
	}
	return fmt.Sprintf("%q", b)
}

// DescribeRec renders one record.
func DescribeRec(r Rec) string {
	hs := make([]string, 0, len(r.Headers))
	for _, h := range r.Headers {
		hs = append(hs, fmt.Sprintf("%q=%s", h.Key, descBytes(h.Value)))
	}
	return fmt.Sprintf("{od=%d td=%d k=%s v=%s h=[%s]}", r.OffsetDelta, r.TimestampDelta, descBytes(r.Key), descBytes(r.Value), strings.Join(hs, ","))
}

// SameRecord compares a decoded record with the expected one as the Kafka wire distinguishes
// them: null and empty key/value/header value differ; a record without headers has zero headers
// (nil and empty header lists are the same thing). It returns "" or the name of the first
// differing field.
func SameRecord(offset, ts int64, key, value []byte, hk []string, hv [][]byte, want DecodedRecord) string {
	if offset != want.Offset {
		return "offset"
	}
	if ts != want.Timestamp {
		return "timestamp"
	}
	if !sameNullable(key, want.Key) {
		return "key"
	}
	if !sameNullable(value, want.Value) {
		return "value"
	}
	if len(hk) != len(want.Headers) || len(hv) != len(want.Headers) {
		return "header-count"
	}
	for i, h := range want.Headers {
		if hk[i] != h.Key {
			return "header-key"
		}
		if !sameNullable(hv[i], h.Value) {
			return "header-value"
		}
	}
	return ""
}

func sameNullable(a, b []byte) bool {
	if (a == nil) != (b == nil) {
		return false
	}
	return string(a) == string(b)
}

type recSym struct {
	label string
	rec   Rec
}

func rep(b byte, n int) []byte {
	out := make([]byte, n)
	for i := range out {
		out[i] = b
	}
	return out
}

const c07BaseTs = int64(1700000000000)

// C07TimestampDeltas is the timestamp-delta alphabet, simplest first. Deltas are Kafka varlongs;
// a producer that sets record timestamps itself (event time) can put any spread into one batch.
func C07TimestampDeltas(thorough bool) []int64 {
	d := []int64{0, 1, -1, 1 << 30, -(1 << 30) - 1, 1 << 31}
	if thorough {
		d = append(d, (1<<31)-1, -(1 << 31), 1<<40, -(1 << 40), 1<<62)
	}
	return d
}

func c07Keys(thorough bool) [][]byte {
	k := [][]byte{nil, {}, []byte("k")}
	if thorough {
		k = append(k, rep('K', 70)) // length needs a 2-byte varint
	}
	return k
}

func c07Values(thorough bool) [][]byte {
	v := [][]byte{nil, {}, []byte("v"), rep('V', 70)}
	if thorough {
		v = append(v, rep('W', 9000)) // 3-byte varint
	}
	return v
}

func c07Headers(thorough bool) [][]Header {
	h := [][]Header{
		nil,
		{{Key: "h", Value: nil}},
		{{Key: "h", Value: []byte{}}},
		{{Key: "hk", Value: []byte("hv")}, {Key: "", Value: []byte("x")}},
	}
	if thorough {
		h = append(h, []Header{{Key: "a", Value: []byte("1")}, {Key: "a", Value: nil}, {Key: string(rep('H', 70)), Value: rep('x', 70)}})
	}
	return h
}

func mkBatch(base, baseTs int64, recs []Rec) SegBatch {
	rs := make([]Rec, len(recs))
	for i, r := range recs {
		r.OffsetDelta = int32(i)
		rs[i] = r
	}
	return SegBatch{Recs: rs, Opts: BatchOpts{BaseOffset: base, BaseTimestamp: baseTs}}
}

// C07Corpus enumerates the corpus in a fixed order (simplest first). Families:
//
//	1x1   one batch, one record: full product key x value x headers x timestamp delta
//	1x2   one batch, two records: all ordered pairs over the reduced record alphabet
//	1x3   one batch, three records: all triples over a small diverse record alphabet
//	edge  base offset / base timestamp extremes x timestamp delta
//	multi every sequence of <= 3 (thorough: also 4 over the small alphabet) batches, each batch every
//	      sequence of <= 3 records over a 2-record (thorough 3) alphabet, x index interval {1,2,100}
//	      x offset layout {contiguous, gap of 3 between batches}
func C07Corpus(thorough bool, f func(c *SegCase) bool) {
	idx := 0
	stop := false
	emit := func(fam, name string, bs []SegBatch, interval int32) bool {
		c := &SegCase{Idx: idx, Family: fam, Name: name, Batches: bs, CreatedMs: 1700000000123, Interval: interval}
		idx++
		if !f(c) {
			stop = true
		}
		return !stop
	}
	keys, vals, hdrs, tds := c07Keys(thorough), c07Values(thorough), c07Headers(thorough), C07TimestampDeltas(thorough)

	// 1x1
	Product([]int{len(tds), len(hdrs), len(keys), len(vals)}, func(ix []int) bool {
		r := Rec{TimestampDelta: tds[ix[0]], Headers: hdrs[ix[1]], Key: keys[ix[2]], Value: vals[ix[3]]}
		return emit("1x1", fmt.Sprintf("t%d.h%d.k%d.v%d", ix[0], ix[1], ix[2], ix[3]), []SegBatch{mkBatch(0, c07BaseTs, []Rec{r})}, 1)
	})
	if stop {
		return
	}

	// reduced record alphabet for pairs
	var r2 []recSym
	for ti, td := range []int64{0, 1, -1} {
		for hi, h := range [][]Header{nil, {{Key: "h", Value: []byte("x")}}} {
			for ki, k := range c07Keys(false) {
				for vi, v := range c07Values(false) {
					r2 = append(r2, recSym{fmt.Sprintf("t%dh%dk%dv%d", ti, hi, ki, vi), Rec{TimestampDelta: td, Headers: h, Key: k, Value: v}})
				}
			}
		}
	}
	Product([]int{len(r2), len(r2)}, func(ix []int) bool {
		return emit("1x2", r2[ix[0]].label+"+"+r2[ix[1]].label, []SegBatch{mkBatch(0, c07BaseTs, []Rec{r2[ix[0]].rec, r2[ix[1]].rec})}, 1)
	})
	if stop {
		return
	}

	// small diverse alphabet for triples
	r3 := []recSym{
		{"kv", Rec{Key: []byte("k"), Value: []byte("v")}},
		{"nn-1", Rec{TimestampDelta: -1}},
		{"ee+1h", Rec{TimestampDelta: 1, Key: []byte{}, Value: []byte{}, Headers: []Header{{Key: "h", Value: nil}}}},
		{"nV", Rec{Value: rep('V', 70)}},
		{"k.hh", Rec{Key: []byte("k"), Headers: []Header{{Key: "hk", Value: []byte("hv")}, {Key: "", Value: []byte{}}}}},
		{"big+", Rec{TimestampDelta: 1 << 31, Key: []byte("k"), Value: []byte("v")}},
	}
	if thorough {
		r3 = append(r3,
			recSym{"big-", Rec{TimestampDelta: -(1 << 40), Value: []byte("v")}},
			recSym{"K", Rec{Key: rep('K', 70), Value: nil}},
			recSym{"3h", Rec{Value: []byte("v"), Headers: []Header{{Key: "a", Value: []byte("1")}, {Key: "a", Value: nil}, {Key: "b", Value: []byte{}}}}},
			recSym{"W", Rec{Key: []byte{}, Value: rep('W', 9000)}},
		)
	}
	Product([]int{len(r3), len(r3), len(r3)}, func(ix []int) bool {
		recs := []Rec{r3[ix[0]].rec, r3[ix[1]].rec, r3[ix[2]].rec}
		return emit("1x3", r3[ix[0]].label+"+"+r3[ix[1]].label+"+"+r3[ix[2]].label, []SegBatch{mkBatch(0, c07BaseTs, recs)}, 1)
	})
	if stop {
		return
	}

	// edge: offsets / timestamps at the extremes
	bases := []int64{0, 5, 1<<31 - 1, 1 << 40}
	baseTss := []int64{c07BaseTs, 0, -1, 1 << 62}
	etd := []int64{0, 1, -1}
	Product([]int{len(bases), len(baseTss), len(etd)}, func(ix []int) bool {
		recs := []Rec{{Key: []byte("k"), Value: []byte("v")}, {TimestampDelta: etd[ix[2]], Value: []byte("w")}}
		return emit("edge", fmt.Sprintf("base%d.ts%d.td%d", bases[ix[0]], baseTss[ix[1]], etd[ix[2]]), []SegBatch{mkBatch(bases[ix[0]], baseTss[ix[1]], recs)}, 1)
	})
	if stop {
		return
	}

	// multi: sequences of batches
	r4 := []recSym{
		{"a", Rec{Key: []byte("k"), Value: []byte("v")}},
		{"b", Rec{TimestampDelta: -1, Value: []byte{}, Headers: []Header{{Key: "h", Value: nil}}}},
	}
	multi := func(fam string, syms []recSym, minBatches, maxBatches int) {
		// batch alphabet: every sequence of 1..3 records
		type bsym struct {
			label string
			recs  []Rec
		}
		var balpha []bsym
		Sequences(len(syms), 3, func(seq []int) bool {
			if len(seq) == 0 {
				return true
			}
			var b bsym
			for _, s := range seq {
				b.label += syms[s].label
				b.recs = append(b.recs, syms[s].rec)
			}
			balpha = append(balpha, b)
			return true
		})
		intervals := []int32{1, 2, 100}
		gaps := []int64{0, 3}
		Sequences(len(balpha), maxBatches, func(seq []int) bool {
			if len(seq) < minBatches {
				return true
			}
			for _, iv := range intervals {
				for _, gap := range gaps {
					if gap != 0 && len(seq) == 1 {
						continue
					}
					base := int64(7)
					var bs []SegBatch
					labels := make([]string, 0, len(seq))
					for bi, s := range seq {
						bs = append(bs, mkBatch(base, c07BaseTs+int64(bi)*10, balpha[s].recs))
						base += int64(len(balpha[s].recs)) + gap
						labels = append(labels, balpha[s].label)
					}
					if !emit(fam, fmt.Sprintf("%s/iv%d/gap%d", strings.Join(labels, "|"), iv, gap), bs, iv) {
						return false
					}
				}
			}
			return true
		})
	}
	multi("multi", r4, 1, 3)
	if stop {
		return
	}
	if thorough {
		multi("multi4", r4, 4, 4)
		if stop {
			return
		}
		r5 := append(append([]recSym{}, r4...), recSym{"c", Rec{TimestampDelta: 1 << 31, Key: []byte{}, Value: rep('V', 70), Headers: []Header{{Key: "hk", Value: []byte("hv")}, {Key: "", Value: []byte{}}}}})
		multi("multi3sym", r5, 1, 3)
	}
}

// C07Case returns corpus element idx (for replays).
func C07Case(thorough bool, idx int) *SegCase {
	var out *SegCase
	C07Corpus(thorough, func(c *SegCase) bool {
		if c.Idx == idx {
			out = c
			return false
		}
		return true
	})
	return out
}

// Shape is the outcome-signature skeleton of a case: batch/record layout plus which wire
// features occur. Trivial = one batch, one record, plain key and value, no headers, delta 0.
func (c *SegCase) Shape() (sig string, nontrivial bool) {
	var sb strings.Builder
	sb.WriteString(c.Family)
	fmt.Fprintf(&sb, "|iv%d|", c.Interval)
	feat := map[string]bool{}
	n := 0
	prevEnd := int64(-1)
	for bi, b := range c.Batches {
		fmt.Fprintf(&sb, "%d,", len(b.Recs))
		if bi > 0 && b.Opts.BaseOffset != prevEnd+1 {
			feat["gap"] = true
		}
		prevEnd = b.Opts.BaseOffset + int64(len(b.Recs)) - 1
		if b.Opts.BaseOffset > 1<<31 {
			feat["base>2^31"] = true
		}
		if b.Opts.BaseTimestamp <= 0 {
			feat["basets<=0"] = true
		}
		for _, r := range b.Recs {
			n++
			switch {
			case r.Key == nil:
				feat["k:null"] = true
			case len(r.Key) == 0:
				feat["k:empty"] = true
			case len(r.Key) >= 64:
				feat["k:long"] = true
			}
			switch {
			case r.Value == nil:
				feat["v:null"] = true
			case len(r.Value) == 0:
				feat["v:empty"] = true
			case len(r.Value) >= 64:
				feat["v:long"] = true
			}
			if len(r.Headers) > 0 {
				feat[fmt.Sprintf("h:%d", len(r.Headers))] = true
			}
			for _, h := range r.Headers {
				if h.Value == nil {
					feat["hv:null"] = true
				} else if len(h.Value) == 0 {
					feat["hv:empty"] = true
				}
				if h.Key == "" {
					feat["hk:empty"] = true
				}
			}
			switch {
			case r.TimestampDelta == 0:
			case r.TimestampDelta >= 1<<30 || r.TimestampDelta < -(1<<30):
				feat[fmt.Sprintf("td:%d", r.TimestampDelta)] = true
			case r.TimestampDelta < 0:
				feat["td:neg"] = true
			default:
				feat["td:pos"] = true
			}
		}
	}
	names := make([]string, 0, len(feat))
	for k := range feat {
		names = append(names, k)
	}
	// insertion sort (no sort import needed, tiny)
	for i := 1; i < len(names); i++ {
		for j := i; j > 0 && names[j] < names[j-1]; j-- {
			names[j], names[j-1] = names[j-1], names[j]
		}
	}
	sb.WriteString("|" + strings.Join(names, " "))
	return sb.String(), n > 1 || len(names) > 0
}
