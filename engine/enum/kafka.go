//go:build verif

// Package enum holds bounded-exhaustive generators and an independent Kafka v2
// record-batch codec used as the reference by the harnesses.
package enum

import (
	"encoding/binary"
	"errors"
	"fmt"
	"hash/crc32"
)

var castagnoli = crc32.MakeTable(crc32.Castagnoli)

// Header is a record header. Nil Value encodes as null (-1).
type Header struct {
	Key   string
	Value []byte
}

// Rec is one Kafka record. Nil Key/Value encode as null.
type Rec struct {
	TimestampDelta int64
	OffsetDelta    int32
	Key            []byte
	Value          []byte
	Headers        []Header
}

// BatchOpts are the batch header fields. Zero value = consistent header.
type BatchOpts struct {
	BaseOffset      int64
	BaseTimestamp   int64
	MaxTimestamp    *int64 // nil: computed
	Attributes      int16
	ProducerID      int64
	LastOffsetDelta *int32 // nil: len(recs)-1
	RecordCount     *int32 // nil: len(recs)
	BatchLength     *int32 // nil: consistent
	Magic           int8   // 0 => 2
}

func PutVarint(b []byte, v int64) []byte {
	u := uint64(v<<1) ^ uint64(v>>63)
	for u >= 0x80 {
		b = append(b, byte(u)|0x80)
		u >>= 7
	}
	return append(b, byte(u))
}

func PutUvarint(b []byte, u uint64) []byte {
	for u >= 0x80 {
		b = append(b, byte(u)|0x80)
		u >>= 7
	}
	return append(b, byte(u))
}

// EncodeRecord serialises one record (with its length prefix).
func EncodeRecord(r Rec) []byte {
	var body []byte
	body = append(body, 0) // attributes
	body = PutVarint(body, r.TimestampDelta)
	body = PutVarint(body, int64(r.OffsetDelta))
	if r.Key == nil {
		body = PutVarint(body, -1)
	} else {
		body = PutVarint(body, int64(len(r.Key)))
		body = append(body, r.Key...)
	}
	if r.Value == nil {
		body = PutVarint(body, -1)
	} else {
		body = PutVarint(body, int64(len(r.Value)))
		body = append(body, r.Value...)
	}
	body = PutVarint(body, int64(len(r.Headers)))
	for _, h := range r.Headers {
		body = PutVarint(body, int64(len(h.Key)))
		body = append(body, h.Key...)
		if h.Value == nil {
			body = PutVarint(body, -1)
		} else {
			body = PutVarint(body, int64(len(h.Value)))
			body = append(body, h.Value...)
		}
	}
	out := PutVarint(nil, int64(len(body)))
	return append(out, body...)
}

// MakeBatch builds an uncompressed v2 record batch with a valid CRC.
func MakeBatch(recs []Rec, o BatchOpts) []byte {
	var payload []byte
	for i := range recs {
		payload = append(payload, EncodeRecord(recs[i])...)
	}
	return MakeBatchRaw(payload, len(recs), recs, o)
}

// MakeBatchRaw builds a batch whose record area is payload (arbitrary bytes).
func MakeBatchRaw(payload []byte, n int, recs []Rec, o BatchOpts) []byte {
	b := make([]byte, 61, 61+len(payload))
	binary.BigEndian.PutUint64(b[0:8], uint64(o.BaseOffset))
	bl := int32(61 - 12 + len(payload))
	if o.BatchLength != nil {
		bl = *o.BatchLength
	}
	binary.BigEndian.PutUint32(b[8:12], uint32(bl))
	binary.BigEndian.PutUint32(b[12:16], 0)
	magic := o.Magic
	if magic == 0 {
		magic = 2
	}
	b[16] = byte(magic)
	binary.BigEndian.PutUint16(b[21:23], uint16(o.Attributes))
	lod := int32(n - 1)
	if o.LastOffsetDelta != nil {
		lod = *o.LastOffsetDelta
	}
	binary.BigEndian.PutUint32(b[23:27], uint32(lod))
	binary.BigEndian.PutUint64(b[27:35], uint64(o.BaseTimestamp))
	maxTs := o.BaseTimestamp
	for _, r := range recs {
		if o.BaseTimestamp+r.TimestampDelta > maxTs {
			maxTs = o.BaseTimestamp + r.TimestampDelta
		}
	}
	if o.MaxTimestamp != nil {
		maxTs = *o.MaxTimestamp
	}
	binary.BigEndian.PutUint64(b[35:43], uint64(maxTs))
	pid := o.ProducerID
	if pid == 0 {
		pid = -1
	}
	binary.BigEndian.PutUint64(b[43:51], uint64(pid))
	binary.BigEndian.PutUint16(b[51:53], 0xffff)
	binary.BigEndian.PutUint32(b[53:57], 0xffffffff)
	rc := int32(n)
	if o.RecordCount != nil {
		rc = *o.RecordCount
	}
	binary.BigEndian.PutUint32(b[57:61], uint32(rc))
	b = append(b, payload...)
	binary.BigEndian.PutUint32(b[17:21], crc32.Checksum(b[21:], castagnoli))
	return b
}

// DecodedRecord is a fully resolved record.
type DecodedRecord struct {
	Offset    int64
	Timestamp int64
	Key       []byte
	Value     []byte
	Headers   []Header
}

// DecodedBatch is the reference decoding of one batch.
type DecodedBatch struct {
	BaseOffset      int64
	BatchLength     int32
	Magic           int8
	CRC             uint32
	CRCValid        bool
	Attributes      int16
	LastOffsetDelta int32
	BaseTimestamp   int64
	MaxTimestamp    int64
	RecordCount     int32
	Records         []DecodedRecord
	Raw             []byte
}

func readVarint(b []byte) (int64, int, error) {
	var u uint64
	var shift uint
	for i := 0; i < len(b); i++ {
		if i >= 10 {
			return 0, 0, errors.New("varint too long")
		}
		c := b[i]
		u |= uint64(c&0x7f) << shift
		if c < 0x80 {
			return int64(u>>1) ^ -int64(u&1), i + 1, nil
		}
		shift += 7
	}
	return 0, 0, errors.New("varint truncated")
}

// DecodeBatches strictly decodes a concatenation of uncompressed v2 batches.
func DecodeBatches(data []byte) ([]DecodedBatch, error) {
	var out []DecodedBatch
	off := 0
	for off < len(data) {
		if len(data)-off < 61 {
			return out, fmt.Errorf("trailing %d bytes < batch header", len(data)-off)
		}
		b := data[off:]
		var d DecodedBatch
		d.BaseOffset = int64(binary.BigEndian.Uint64(b[0:8]))
		d.BatchLength = int32(binary.BigEndian.Uint32(b[8:12]))
		if d.BatchLength < 49 || int(d.BatchLength)+12 > len(b) {
			return out, fmt.Errorf("batch at %d: bad batchLength %d (have %d)", off, d.BatchLength, len(b))
		}
		total := int(d.BatchLength) + 12
		b = b[:total]
		d.Raw = b
		d.Magic = int8(b[16])
		d.CRC = binary.BigEndian.Uint32(b[17:21])
		d.CRCValid = crc32.Checksum(b[21:], castagnoli) == d.CRC
		d.Attributes = int16(binary.BigEndian.Uint16(b[21:23]))
		d.LastOffsetDelta = int32(binary.BigEndian.Uint32(b[23:27]))
		d.BaseTimestamp = int64(binary.BigEndian.Uint64(b[27:35]))
		d.MaxTimestamp = int64(binary.BigEndian.Uint64(b[35:43]))
		d.RecordCount = int32(binary.BigEndian.Uint32(b[57:61]))
		if d.Attributes&0x7 == 0 {
			p := b[61:]
			for i := int32(0); i < d.RecordCount; i++ {
				l, n, err := readVarint(p)
				if err != nil || l < 0 || int(l) > len(p)-n {
					return out, fmt.Errorf("batch at %d record %d: bad length", off, i)
				}
				rec := p[n : n+int(l)]
				p = p[n+int(l):]
				r, err := decodeRecordBody(rec)
				if err != nil {
					return out, fmt.Errorf("batch at %d record %d: %v", off, i, err)
				}
				r.Offset += d.BaseOffset
				r.Timestamp += d.BaseTimestamp
				d.Records = append(d.Records, r)
			}
			if len(p) != 0 {
				return out, fmt.Errorf("batch at %d: %d trailing bytes after %d records", off, len(p), d.RecordCount)
			}
		}
		out = append(out, d)
		off += total
	}
	return out, nil
}

func decodeRecordBody(rec []byte) (DecodedRecord, error) {
	var r DecodedRecord
	if len(rec) < 1 {
		return r, errors.New("empty record")
	}
	p := rec[1:]
	get := func() (int64, error) {
		v, n, err := readVarint(p)
		if err != nil {
			return 0, err
		}
		p = p[n:]
		return v, nil
	}
	getBytes := func() ([]byte, error) {
		l, err := get()
		if err != nil {
			return nil, err
		}
		if l < 0 {
			return nil, nil
		}
		if int(l) > len(p) {
			return nil, errors.New("bytes overrun")
		}
		v := append([]byte{}, p[:l]...)
		p = p[l:]
		return v, nil
	}
	ts, err := get()
	if err != nil {
		return r, err
	}
	od, err := get()
	if err != nil {
		return r, err
	}
	r.Timestamp = ts
	r.Offset = od
	if r.Key, err = getBytes(); err != nil {
		return r, err
	}
	if r.Value, err = getBytes(); err != nil {
		return r, err
	}
	hc, err := get()
	if err != nil {
		return r, err
	}
	for i := int64(0); i < hc; i++ {
		k, err := getBytes()
		if err != nil {
			return r, err
		}
		v, err := getBytes()
		if err != nil {
			return r, err
		}
		r.Headers = append(r.Headers, Header{Key: string(k), Value: v})
	}
	if len(p) != 0 {
		return r, errors.New("trailing bytes in record")
	}
	return r, nil
}

// SimpleBatch makes a well-formed batch of n records with distinguishable payloads.
func SimpleBatch(tag string, n int, valueLen int) []byte {
	recs := make([]Rec, n)
	for i := range recs {
		v := make([]byte, valueLen)
		for j := range v {
			v[j] = tag[j%len(tag)]
		}
		recs[i] = Rec{OffsetDelta: int32(i), TimestampDelta: int64(i), Key: []byte(fmt.Sprintf("%s-%d", tag, i)), Value: v}
	}
	return MakeBatch(recs, BatchOpts{BaseTimestamp: 1000})
}

func I32(v int32) *int32 { return &v }
func I64(v int64) *int64 { return &v }
