//go:build verif

package enum

// Crash-isolating runner for "never crashes / never allocates without bound" checks.
//
// The enumeration runs in a worker subprocess (the test binary re-executed with
// VERIF_ISO_CHILD=1). The worker writes, before every call into the code under test, the
// (case index, target index) it is about to execute into a progress file, recovers panics,
// measures the bytes allocated by the call, and checkpoints its aggregated result every few
// thousand cases. When the worker dies (`fatal error: out of memory` under `ulimit -v`,
// stack overflow, SIGKILL) the parent attributes the death to the case named by the progress
// file, records it as a violation, and restarts the worker from the last checkpoint with that
// (case, target) on the skip list. The merged result does not depend on where checkpoints fell.

import (
	"encoding/binary"
	"encoding/hex"
	"encoding/json"
	"fmt"
	"os"
	"os/exec"
	"path/filepath"
	"regexp"
	"runtime"
	"runtime/debug"
	"runtime/metrics"
	"strconv"
	"strings"
	"time"
)

// IsoTarget is one function under test.
type IsoTarget struct {
	Name string // stable name, first component of violation keys
	Kind string // which FuzzCase.Kind it takes
	// Fn runs the code under test on a private copy of the input and returns a short outcome
	// summary (e.g. "ok:3") or the error the code returned.
	Fn func(data []byte) (string, error)
}

// IsoConfig describes one isolated enumeration.
type IsoConfig struct {
	Tag        string // distinguishes scratch files of several runners in one scratch dir
	Cases      func(want func(idx int) bool, f func(c *FuzzCase) bool)
	Targets    []IsoTarget
	Prepare    func(c *FuzzCase) []byte // optional: bytes to feed instead of c.Data (e.g. real BuildSegment output)
	Shard      int
	NShards    int
	Deadline   time.Time
	Scratch    string
	TrivialErr []string // error texts that make an outcome trivial (input rejected at the door)
}

// IsoExample is a stored violating case.
type IsoExample struct {
	Detail string         `json:"detail"`
	Replay map[string]any `json:"replay"`
}

// IsoViol aggregates one violation key.
type IsoViol struct {
	Count    int64        `json:"count"`
	Examples []IsoExample `json:"examples"`
}

// IsoResult is the merged outcome of an isolated enumeration.
type IsoResult struct {
	Evals    int64               `json:"evals"`
	Sigs     map[string]bool     `json:"sigs"` // signature -> non-trivial
	Viol     map[string]*IsoViol `json:"viol"`
	Samples  []any               `json:"samples"`
	Counters map[string]int64    `json:"counters"`
	Caps     []string            `json:"caps"`
	Restarts int                 `json:"restarts"`
	MaxAlloc uint64              `json:"max_alloc"`
}

type isoState struct {
	Next    int       `json:"next"` // first case index not yet covered by Result
	Skip    []string  `json:"skip"` // "idx:target" pairs that killed a worker
	Done    bool      `json:"done"`
	Recycle bool      `json:"recycle"` // the worker exited on purpose after a large allocation
	Result  IsoResult `json:"result"`
}

// once the worker has allocated more than this since it started (with at least one large block among it), it
// checkpoints and exits; the parent starts a fresh one. Kept small relative to the address-space limit so
// that whether one allocation of a given size succeeds does not depend on what ran before it.
const isoRecycleAbove = 2 << 30

func newIsoResult() IsoResult {
	return IsoResult{Sigs: map[string]bool{}, Viol: map[string]*IsoViol{}, Counters: map[string]int64{}}
}

// IsoIsChild reports whether this process is a worker.
func IsoIsChild() bool { return os.Getenv("VERIF_ISO_CHILD") == "1" }

// AllocBound is the per-call allocation allowance for an input of n bytes.
func AllocBound(n int) uint64 { return 64*uint64(n) + 1<<20 }

var isoDigits = regexp.MustCompile(`[0-9]+`)

// Slug turns a message into a stable key fragment (numbers -> N).
func Slug(s string) string {
	s = strings.TrimPrefix(s, "runtime error: ")
	s = isoDigits.ReplaceAllString(s, "N")
	s = strings.Map(func(r rune) rune {
		if (r >= 'a' && r <= 'z') || (r >= 'A' && r <= 'Z') {
			return r
		}
		return '-'
	}, s)
	for strings.Contains(s, "--") {
		s = strings.ReplaceAll(s, "--", "-")
	}
	if len(s) > 60 {
		s = s[:60]
	}
	return strings.Trim(s, "-")
}

func (r *IsoResult) addViol(key, detail string, replay map[string]any) {
	v := r.Viol[key]
	if v == nil {
		v = &IsoViol{}
		r.Viol[key] = v
	}
	v.Count++
	if len(v.Examples) < 3 {
		v.Examples = append(v.Examples, IsoExample{Detail: detail, Replay: replay})
	}
}

func isoReplay(c *FuzzCase, target string, data []byte) map[string]any {
	return map[string]any{"idx": c.Idx, "kind": c.Kind, "family": c.Family, "name": c.Name, "field": c.Field, "target": target, "len": len(data), "hex": hex.EncodeToString(data)}
}

func isoKey(target, class, field string) string {
	if field == "" {
		return target + ":" + class
	}
	return target + ":" + class + ":" + field
}

func heapAllocated(s []metrics.Sample) uint64 {
	metrics.Read(s)
	return s[0].Value.Uint64()
}

func isoPaths(cfg *IsoConfig) (state, progress, log string) {
	base := fmt.Sprintf("iso-%s-%d", cfg.Tag, cfg.Shard)
	return filepath.Join(cfg.Scratch, base+".state.json"), filepath.Join(cfg.Scratch, base+".progress"), filepath.Join(cfg.Scratch, base+".log")
}

func isoWriteState(path string, st *isoState) error {
	b, err := json.Marshal(st)
	if err != nil {
		return err
	}
	tmp := path + ".tmp"
	if err := os.WriteFile(tmp, b, 0o644); err != nil {
		return err
	}
	return os.Rename(tmp, path)
}

func isoReadState(path string) (*isoState, error) {
	b, err := os.ReadFile(path)
	if err != nil {
		return nil, err
	}
	st := &isoState{}
	if err := json.Unmarshal(b, st); err != nil {
		return nil, err
	}
	if st.Result.Sigs == nil {
		st.Result.Sigs = map[string]bool{}
	}
	if st.Result.Viol == nil {
		st.Result.Viol = map[string]*IsoViol{}
	}
	if st.Result.Counters == nil {
		st.Result.Counters = map[string]int64{}
	}
	return st, nil
}

// IsoChildMain is the worker: it never returns an error to the test framework; everything goes
// through the state file. Exit status 0 with Done=true means the range was completed.
func IsoChildMain(cfg IsoConfig) {
	cfg.Scratch = os.Getenv("VERIF_ISO_SCRATCH")
	if ns, err := strconv.ParseInt(os.Getenv("VERIF_ISO_DEADLINE"), 10, 64); err == nil && ns > 0 {
		cfg.Deadline = time.Unix(0, ns) // the parent's absolute deadline, not a fresh budget per worker
	}
	runtime.GOMAXPROCS(1) // single-threaded enumeration; keeps GC cycles cheap on a loaded machine
	debug.SetGCPercent(-1)
	statePath, progPath, _ := isoPaths(&cfg)
	st, err := isoReadState(statePath)
	if err != nil {
		fmt.Fprintf(os.Stderr, "ISO-CHILD-ERROR read state: %v\n", err)
		os.Exit(3)
	}
	skip := map[string]bool{}
	for _, s := range st.Skip {
		skip[s] = true
	}
	prog, err := os.OpenFile(progPath, os.O_CREATE|os.O_WRONLY|os.O_TRUNC, 0o644)
	if err != nil {
		fmt.Fprintf(os.Stderr, "ISO-CHILD-ERROR progress file: %v\n", err)
		os.Exit(3)
	}
	var pbuf [16]byte
	trivial := map[string]bool{}
	for _, e := range cfg.TrivialErr {
		trivial[e] = true
	}
	res := &st.Result
	sample := []metrics.Sample{{Name: "/gc/heap/allocs:bytes"}}
	since := 0
	from := st.Next
	want := func(idx int) bool { return idx >= from && idx%cfg.NShards == cfg.Shard }
	capped := false
	expensive := false
	var cum, bigBytes uint64
	cfg.Cases(want, func(c *FuzzCase) bool {
		if since%64 == 0 && time.Now().After(cfg.Deadline) {
			res.Caps = append(res.Caps, fmt.Sprintf("%s shard %d: deadline hit at case %d", cfg.Tag, cfg.Shard, c.Idx))
			st.Next = c.Idx
			capped = true
			return false
		}
		data := c.Data
		if cfg.Prepare != nil {
			data = cfg.Prepare(c)
		}
		for ti := range cfg.Targets {
			tg := &cfg.Targets[ti]
			if tg.Kind != c.Kind {
				continue
			}
			if skip[fmt.Sprintf("%d:%s", c.Idx, tg.Name)] {
				continue
			}
			binary.BigEndian.PutUint64(pbuf[0:8], uint64(c.Idx))
			binary.BigEndian.PutUint64(pbuf[8:16], uint64(ti))
			prog.WriteAt(pbuf[:], 0)
			in := append(make([]byte, 0, len(data)), data...)
			class, detail, alloc := isoCall(tg, in, sample)
			res.Evals++
			if alloc > res.MaxAlloc {
				res.MaxAlloc = alloc
			}
			nontrivial := !(strings.HasPrefix(class, "err:") && trivial[detail])
			if strings.HasPrefix(class, "panic-") {
				res.addViol(isoKey(tg.Name, class, c.Field), fmt.Sprintf("%s panicked on %d bytes (%s; %s): %s", tg.Name, len(data), c.Family, c.Name, detail), isoReplay(c, tg.Name, data))
			}
			if alloc > AllocBound(len(data)) {
				res.addViol(isoKey(tg.Name, "alloc-unbounded", c.Field), fmt.Sprintf("%s allocated %d bytes for a %d-byte input (allowance 64*len+1MiB = %d) (%s; %s); outcome %s %s", tg.Name, alloc, len(data), AllocBound(len(data)), c.Family, c.Name, class, detail), isoReplay(c, tg.Name, data))
				class += "+alloc"
			}
			sig := tg.Name + "|" + c.Family + "|" + c.Field + "|" + class
			if _, ok := res.Sigs[sig]; !ok {
				res.Sigs[sig] = nontrivial
				if nontrivial && len(res.Samples) < 6 && len(res.Sigs)%5 == 0 {
					res.Samples = append(res.Samples, map[string]any{"target": tg.Name, "family": c.Family, "case": c.Name, "len": len(data), "outcome": class, "detail": detail})
				}
			}
			cum += alloc
			if alloc > 8<<20 {
				bigBytes += alloc
			}
		}
		res.Counters["cases_"+c.Family]++
		since++
		// The collector is off in the worker: a freed large block would be handed out again and
		// zeroed (touched) by the runtime, whereas a block in fresh address space is never touched.
		// So: collect only while no large block exists; once one does, let garbage pile up and
		// start a fresh worker when the pile reaches a fixed size. Both thresholds are far below
		// the address-space limit, so whether a given allocation succeeds does not depend on history.
		switch {
		case bigBytes == 0 && cum > 4<<20:
			runtime.GC() // small garbage: collect often so that the same (resident) pages are re-used
			cum = 0
		case bigBytes > 0 && (cum > isoRecycleAbove || cum-bigBytes > 16<<20):
			expensive = true
		}
		if since%256 == 0 || expensive {
			st.Next = c.Idx + 1
			st.Recycle = expensive
			if err := isoWriteState(statePath, st); err != nil {
				fmt.Fprintf(os.Stderr, "ISO-CHILD-ERROR write state: %v\n", err)
				os.Exit(3)
			}
			if expensive {
				os.Exit(0) // fresh worker, fresh address space
			}
		}
		return true
	})
	if !capped {
		st.Next = 1 << 60
	}
	st.Done = true
	if err := isoWriteState(statePath, st); err != nil {
		fmt.Fprintf(os.Stderr, "ISO-CHILD-ERROR write state: %v\n", err)
		os.Exit(3)
	}
}

// isoCall runs one target with panic capture and allocation measurement.
func isoCall(tg *IsoTarget, in []byte, sample []metrics.Sample) (class, detail string, alloc uint64) {
	before := heapAllocated(sample)
	defer func() {
		if r := recover(); r != nil {
			after := heapAllocated(sample)
			alloc = after - before
			detail = fmt.Sprint(r)
			class = "panic-" + Slug(detail)
		}
	}()
	sum, err := tg.Fn(in)
	after := heapAllocated(sample)
	alloc = after - before
	if err != nil {
		return "err:" + Slug(err.Error()), err.Error(), alloc
	}
	return sum, "", alloc
}

// IsoRun is the parent: it drives workers until the range is complete and returns the merged result.
// A non-nil error is a harness error (never a verdict).
func IsoRun(cfg IsoConfig, testRun string) (*IsoResult, error) {
	if cfg.Scratch == "" {
		cfg.Scratch = os.Getenv("VERIF_SCRATCH")
	}
	if cfg.Scratch == "" {
		d, err := os.MkdirTemp("", "verif-iso-")
		if err != nil {
			return nil, err
		}
		defer os.RemoveAll(d)
		cfg.Scratch = d
	}
	statePath, progPath, logPath := isoPaths(&cfg)
	st := &isoState{Result: newIsoResult()}
	if err := isoWriteState(statePath, st); err != nil {
		return nil, err
	}
	lastDeath := ""
	for {
		os.Remove(progPath)
		logf, err := os.Create(logPath)
		if err != nil {
			return nil, err
		}
		cmd := exec.Command(os.Args[0], "-test.run", "^"+testRun+"$", "-test.count=1", "-test.timeout=0")
		cmd.Env = append(os.Environ(), "VERIF_ISO_CHILD=1", "VERIF_ISO_SCRATCH="+cfg.Scratch, "VERIF_ISO_DEADLINE="+strconv.FormatInt(cfg.Deadline.UnixNano(), 10))
		cmd.Stdout, cmd.Stderr = logf, logf
		if err := cmd.Start(); err != nil {
			logf.Close()
			return nil, err
		}
		done := make(chan error, 1)
		go func() { done <- cmd.Wait() }()
		var werr error
		timedOut := false
		grace := time.Until(cfg.Deadline) + 90*time.Second
		select {
		case werr = <-done:
		case <-time.After(grace):
			cmd.Process.Kill()
			werr = <-done
			timedOut = true
		}
		logf.Close()
		out, _ := os.ReadFile(logPath)
		st, err = isoReadState(statePath)
		if err != nil {
			return nil, fmt.Errorf("worker state unreadable: %v; worker output:\n%s", err, tail(out, 2000))
		}
		if werr == nil && st.Done {
			return &st.Result, nil
		}
		if werr == nil && st.Recycle {
			st.Recycle = false
			st.Result.Counters["worker_recycles"]++
			if err := isoWriteState(statePath, st); err != nil {
				return nil, err
			}
			continue
		}
		if strings.Contains(string(out), "ISO-CHILD-ERROR") {
			return nil, fmt.Errorf("worker failed: %s", tail(out, 2000))
		}
		// the worker died: attribute
		pb, perr := os.ReadFile(progPath)
		if perr != nil || len(pb) < 16 {
			return nil, fmt.Errorf("worker died (%v) before executing any case; output:\n%s", werr, tail(out, 3000))
		}
		ci, ti := int(binary.BigEndian.Uint64(pb[0:8])), int(binary.BigEndian.Uint64(pb[8:16]))
		if ti < 0 || ti >= len(cfg.Targets) {
			return nil, fmt.Errorf("worker died (%v) with a corrupt progress file; output:\n%s", werr, tail(out, 3000))
		}
		tg := cfg.Targets[ti]
		death := fmt.Sprintf("%d:%s", ci, tg.Name)
		if timedOut {
			st.Result.Caps = append(st.Result.Caps, fmt.Sprintf("%s shard %d: worker exceeded the time budget while executing case %d on %s", cfg.Tag, cfg.Shard, ci, tg.Name))
			return &st.Result, nil
		}
		if death == lastDeath || ci < st.Next {
			return nil, fmt.Errorf("worker died again at %s (checkpoint %d) although it is on the skip list; output:\n%s", death, st.Next, tail(out, 3000))
		}
		lastDeath = death
		var fc *FuzzCase
		cfg.Cases(func(idx int) bool { return idx == ci }, func(c *FuzzCase) bool { fc = c; return false })
		if fc == nil {
			return nil, fmt.Errorf("worker died at unknown case %d; output:\n%s", ci, tail(out, 3000))
		}
		data := fc.Data
		if cfg.Prepare != nil {
			data = cfg.Prepare(fc)
		}
		class, line := classifyDeath(string(out), werr)
		st.Result.addViol(isoKey(tg.Name, class, fc.Field),
			fmt.Sprintf("worker process died (%s) while %s was decoding %d bytes (%s; %s): %s", werr, tg.Name, len(data), fc.Family, fc.Name, line),
			isoReplay(fc, tg.Name, data))
		st.Result.Sigs[tg.Name+"|"+fc.Family+"|"+fc.Field+"|"+class] = true
		st.Result.Evals++
		st.Result.Restarts++
		st.Skip = append(st.Skip, death)
		if st.Result.Restarts > 3000 {
			st.Result.Caps = append(st.Result.Caps, fmt.Sprintf("%s shard %d: more than 3000 worker deaths, stopped at case %d", cfg.Tag, cfg.Shard, ci))
			return &st.Result, nil
		}
		if err := isoWriteState(statePath, st); err != nil {
			return nil, err
		}
	}
}

func classifyDeath(out string, werr error) (class, line string) {
	first := ""
	for _, l := range strings.Split(out, "\n") {
		if strings.HasPrefix(l, "fatal error:") || strings.HasPrefix(l, "runtime:") || strings.HasPrefix(l, "panic:") {
			if first == "" {
				first = l
			}
			if strings.HasPrefix(l, "fatal error:") {
				first = l
				break
			}
		}
	}
	lo := strings.ToLower(out)
	switch {
	case strings.Contains(lo, "out of memory") || strings.Contains(lo, "cannot allocate memory"):
		return "oom-fatal", first
	case strings.Contains(lo, "stack overflow") || strings.Contains(lo, "stack exceeds"):
		return "stack-overflow-fatal", first
	case werr != nil && strings.Contains(werr.Error(), "signal: killed"):
		return "oom-fatal", "worker was killed (SIGKILL)"
	}
	if first == "" {
		first = tail([]byte(out), 300)
	}
	return "process-crash", first
}

func tail(b []byte, n int) string {
	if len(b) > n {
		b = b[len(b)-n:]
	}
	return string(b)
}

// IsoReplayCases builds a Cases function from a replay artefact ({"kind","hex",...}).
func IsoReplayCases(replay map[string]any) (func(want func(int) bool, f func(c *FuzzCase) bool), string, error) {
	hx, _ := replay["hex"].(string)
	data, err := hex.DecodeString(hx)
	if err != nil {
		return nil, "", err
	}
	kind, _ := replay["kind"].(string)
	fam, _ := replay["family"].(string)
	name, _ := replay["name"].(string)
	field, _ := replay["field"].(string)
	target, _ := replay["target"].(string)
	return func(want func(int) bool, f func(c *FuzzCase) bool) {
		if want == nil || want(0) {
			f(&FuzzCase{Idx: 0, Kind: kind, Family: fam, Name: name, Field: field, Data: data})
		}
	}, target, nil
}
