//go:build verif

package enum

// Product calls f with every index vector idx where 0 <= idx[i] < dims[i],
// in lexicographic order (simplest first when alphabets are ordered simplest first).
// f returns false to stop. The slice passed to f is reused.
func Product(dims []int, f func(idx []int) bool) {
	for _, d := range dims {
		if d <= 0 {
			return
		}
	}
	idx := make([]int, len(dims))
	for {
		if !f(idx) {
			return
		}
		i := len(dims) - 1
		for i >= 0 {
			idx[i]++
			if idx[i] < dims[i] {
				break
			}
			idx[i] = 0
			i--
		}
		if i < 0 {
			return
		}
	}
}

// Sequences calls f with every sequence over alphabet size k of length 0..maxLen
// (shorter first). The slice passed to f is reused.
func Sequences(k, maxLen int, f func(seq []int) bool) {
	for l := 0; l <= maxLen; l++ {
		dims := make([]int, l)
		for i := range dims {
			dims[i] = k
		}
		stop := false
		if l == 0 {
			if !f(nil) {
				return
			}
			continue
		}
		Product(dims, func(idx []int) bool {
			if !f(idx) {
				stop = true
				return false
			}
			return true
		})
		if stop {
			return
		}
	}
}

// Subsets calls f with every subset (as a bitmask) of n elements.
func Subsets(n int, f func(mask uint) bool) {
	for m := uint(0); m < 1<<uint(n); m++ {
		if !f(m) {
			return
		}
	}
}

// VarintBoundaries is the zig-zag boundary alphabet used for length fields.
func VarintBoundaries(rem int64) []int64 {
	return []int64{0, 1, -1, rem, rem + 1, rem - 1, -2, 1<<31 - 1, 1 << 31, -(1 << 31) - 1, 1 << 40, 1 << 62, -(1 << 63), 1<<63 - 1}
}

// Permutations calls f with every permutation of 0..n-1.
func Permutations(n int, f func(p []int) bool) {
	p := make([]int, n)
	for i := range p {
		p[i] = i
	}
	var rec func(k int) bool
	rec = func(k int) bool {
		if k == n {
			return f(p)
		}
		for i := k; i < n; i++ {
			p[k], p[i] = p[i], p[k]
			if !rec(k + 1) {
				return false
			}
			p[k], p[i] = p[i], p[k]
		}
		return true
	}
	rec(0)
}
