//go:build verif

package fakeetcd

import (
	"context"
	"fmt"
	"sync"

	"github.com/KafScale/platform/internal/verif/sched"
	pb "go.etcd.io/etcd/api/v3/etcdserverpb"
	"go.etcd.io/etcd/api/v3/mvccpb"
	clientv3 "go.etcd.io/etcd/client/v3"
)

type watcher struct {
	id      int
	c       *Client
	start   []byte
	end     []byte
	minRev  int64
	out     chan clientv3.WatchResponse
	notify  chan struct{}
	mu      sync.Mutex
	pending []histEntry
	done    bool
	broken  bool
	ctx     context.Context
}

func (w *watcher) matches(ev *mvccpb.Event) bool { return inRange(string(ev.Kv.Key), w.start, w.end) }

// offer queues the matching events of one committed revision (server lock held).
func (w *watcher) offer(h histEntry) {
	if h.rev < w.minRev {
		return
	}
	var evs []*mvccpb.Event
	for _, e := range h.events {
		if w.matches(e) {
			evs = append(evs, e)
		}
	}
	if len(evs) == 0 {
		return
	}
	w.mu.Lock()
	if !w.done {
		w.pending = append(w.pending, histEntry{rev: h.rev, events: evs})
	}
	w.mu.Unlock()
	select {
	case w.notify <- struct{}{}:
	default:
	}
}

type watchClient struct{ c *Client }

func (wc *watchClient) Watch(ctx context.Context, key string, opts ...clientv3.OpOption) clientv3.WatchChan {
	op := clientv3.OpGet(key, opts...)
	s := wc.c.S
	if !wc.c.NoPoints {
		// establishing the stream is a step of its own: changes can land between a
		// preceding Get and this call
		sched.Env("etcd." + wc.c.Who + ".Watch")
	}
	w := &watcher{c: wc.c, start: op.KeyBytes(), end: op.RangeBytes(), out: make(chan clientv3.WatchResponse, 4096), notify: make(chan struct{}, 1), ctx: ctx}
	s.mu.Lock()
	// per-client numbering: identity must not depend on which client got there first
	wc.c.mu.Lock()
	w.id = wc.c.nextWatch
	wc.c.nextWatch++
	wc.c.mu.Unlock()
	if op.Rev() > 0 && op.Rev() < s.compacted {
		// the requested start revision has been compacted: etcd answers with a cancelled response that
		// carries the compact revision (resp.Err() == ErrCompacted) and closes the stream
		cr := s.compacted
		s.mu.Unlock()
		w.out <- clientv3.WatchResponse{Canceled: true, CompactRevision: cr, Header: pb.ResponseHeader{Revision: s.Rev()}}
		close(w.out)
		return w.out
	}
	if op.Rev() > 0 {
		w.minRev = op.Rev()
		// catching up from a past revision: etcd's unsynced-watcher sync sends the matching events of all
		// missed revisions (up to 1000 of them) in ONE response, in revision order; only live revisions
		// arrive one response each
		var evs []*mvccpb.Event
		var last int64
		for _, h := range s.history {
			if h.rev >= w.minRev {
				for _, e := range h.events {
					if w.matches(e) {
						evs = append(evs, e)
						last = h.rev
					}
				}
			}
		}
		if len(evs) > 0 {
			w.pending = append(w.pending, histEntry{rev: last, events: evs})
		}
	} else {
		w.minRev = s.rev + 1
	}
	s.watchers = append(s.watchers, w)
	s.mu.Unlock()
	go w.pump()
	return w.out
}

func (w *watcher) finish() {
	w.mu.Lock()
	w.done = true
	w.pending = nil
	w.mu.Unlock()
	close(w.out)
}

// pump delivers pending event batches one revision at a time; each delivery is a
// scheduling point, and may instead break the stream when the client allows it.
func (w *watcher) pump() {
	label := fmt.Sprintf("etcd.watch.%s.w%d", w.c.Who, w.id)
	for {
		w.mu.Lock()
		n := len(w.pending)
		br := w.broken
		w.mu.Unlock()
		if br {
			w.out <- clientv3.WatchResponse{Canceled: true, Header: pb.ResponseHeader{Revision: w.c.S.Rev()}}
			close(w.out)
			return
		}
		if n == 0 {
			select {
			case <-w.ctx.Done():
				w.finish()
				return
			case <-w.notify:
				continue
			}
		}
		if w.ctx.Err() != nil {
			w.finish()
			return
		}
		if !w.c.NoPoints {
			sched.Env(label)
		}
		if w.ctx.Err() != nil {
			w.finish()
			return
		}
		if w.c.BreakWatch && sched.Choose(2, "break "+label) == 1 {
			// the stream dies: undelivered events are lost with it
			w.out <- clientv3.WatchResponse{Canceled: true, Header: pb.ResponseHeader{Revision: w.c.S.Rev()}}
			w.finish()
			return
		}
		w.mu.Lock()
		if len(w.pending) == 0 {
			w.mu.Unlock()
			continue
		}
		h := w.pending[0]
		w.pending = w.pending[1:]
		w.mu.Unlock()
		evs := make([]*clientv3.Event, len(h.events))
		for i, e := range h.events {
			evs[i] = (*clientv3.Event)(e)
		}
		w.out <- clientv3.WatchResponse{Header: pb.ResponseHeader{Revision: h.rev}, Events: evs}
	}
}

func (wc *watchClient) RequestProgress(ctx context.Context) error { return nil }
func (wc *watchClient) Close() error                              { return nil }

// BreakAllWatches kills every open watch stream (harness event).
func (s *Server) BreakAllWatches() {
	s.mu.Lock()
	ws := append([]*watcher(nil), s.watchers...)
	s.mu.Unlock()
	for _, w := range ws {
		w.mu.Lock()
		done := w.done
		w.mu.Unlock()
		if !done {
			w.breakNow()
		}
	}
}

func (w *watcher) breakNow() {
	w.mu.Lock()
	if w.done {
		w.mu.Unlock()
		return
	}
	w.done = true
	w.broken = true
	w.pending = nil
	w.mu.Unlock()
	// the pump may be blocked in select; it notices done on its next loop. Closing
	// out here would race with the pump's send, so ask the pump to finish instead.
	select {
	case w.notify <- struct{}{}:
	default:
	}
}
