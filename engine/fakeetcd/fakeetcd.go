//go:build verif

// Package fakeetcd is an in-memory etcd (KV with revisions, leases, transactions,
// watches) plugged under a real clientv3.Client. Every client operation is a
// scheduling point and may be made to fail by an explorer decision; watch delivery
// is an explicit schedulable step performed by one pump goroutine per watcher.
package fakeetcd

import (
	"bytes"
	"context"
	"fmt"
	"sort"
	"sync"

	"github.com/KafScale/platform/internal/verif/sched"
	pb "go.etcd.io/etcd/api/v3/etcdserverpb"
	"go.etcd.io/etcd/api/v3/mvccpb"
	"go.etcd.io/etcd/api/v3/v3rpc/rpctypes"
	clientv3 "go.etcd.io/etcd/client/v3"
	"google.golang.org/grpc"
	"google.golang.org/grpc/codes"
	"google.golang.org/grpc/status"
)

// ErrInjected is returned for operations the explorer decided to fail.
var ErrInjected = status.Error(codes.Unavailable, "verif: injected etcd failure")

type kvEntry struct {
	value   []byte
	create  int64
	mod     int64
	version int64
	lease   int64
}

type lease struct {
	id      int64
	ttl     int64
	keys    map[string]struct{}
	dead    chan struct{}
	expired bool
}

type histEntry struct {
	rev    int64
	events []*mvccpb.Event
}

// OpLog is one applied or failed client operation.
type OpLog struct {
	Who   string
	Op    string
	Key   string
	Value string
	Prev  string // previous value of the key for Put/Delete (before the op)
	Rev   int64
	Err   string
}

// Server is the shared etcd state.
type Server struct {
	mu        sync.Mutex
	rev       int64
	kvs       map[string]*kvEntry
	leases    map[int64]*lease
	nextLease int64
	history   []histEntry
	compacted int64 // revisions below this one are compacted: a watch that asks for them is cancelled with ErrCompacted
	watchers  []*watcher
	nextWatch int
	Log       []OpLog
	closed    bool
}

// NewServer returns an empty etcd at revision 1.
func NewServer() *Server {
	return &Server{rev: 1, kvs: map[string]*kvEntry{}, leases: map[int64]*lease{}, nextLease: 1000}
}

// Client is one process's connection.
type Client struct {
	S           *Server
	Who         string
	FailOps     bool // offer "fails before reaching the server" on every KV/lease op
	LoseAcks    bool // additionally offer "applied, but the reply is lost"
	BreakWatch  bool // offer "watch stream breaks" at every delivery step
	NoPoints    bool
	ReplyPoints bool // a second scheduling point between a Txn's server-side effect and its reply
	Unavailable bool // all operations fail (etcd unreachable from this process)
	C           *clientv3.Client
	mu          sync.Mutex
	nextWatch   int
}

// NewClient wires a real clientv3.Client to the fake server.
func (s *Server) NewClient(who string) *Client {
	c := &Client{S: s, Who: who}
	cli := clientv3.NewCtxClient(context.Background())
	cli.KV = clientv3.NewKVFromKVClient(&kvClient{c}, cli)
	cli.Lease = &leaseClient{c}
	cli.Watcher = &watchClient{c}
	c.C = cli
	return c
}

func (c *Client) pre(op string) (lostAck bool, err error) {
	if !c.NoPoints {
		sched.Env("etcd." + c.Who + "." + op)
	}
	c.mu.Lock()
	un := c.Unavailable
	c.mu.Unlock()
	if un {
		return false, ErrInjected
	}
	if c.FailOps {
		n := 2
		if c.LoseAcks {
			n = 3
		}
		switch sched.Choose(n, "fail etcd "+c.Who+" "+op) {
		case 1:
			c.S.log(OpLog{Who: c.Who, Op: op, Err: "injected"})
			return false, ErrInjected
		case 2:
			return true, nil
		}
	}
	return false, nil
}

// SetUnavailable makes every later operation of this client fail (or work again).
func (c *Client) SetUnavailable(v bool) { c.mu.Lock(); c.Unavailable = v; c.mu.Unlock() }

func (s *Server) log(l OpLog) { s.Log = append(s.Log, l) }

func (s *Server) header() *pb.ResponseHeader {
	return &pb.ResponseHeader{ClusterId: 1, MemberId: 1, Revision: s.rev, RaftTerm: 1}
}

func inRange(key string, start, end []byte) bool {
	if len(end) == 0 {
		return key == string(start)
	}
	if bytes.Compare([]byte(key), start) < 0 {
		return false
	}
	if len(end) == 1 && end[0] == 0 {
		return true
	}
	return bytes.Compare([]byte(key), end) < 0
}

func (s *Server) keysInRange(start, end []byte) []string {
	var out []string
	for k := range s.kvs {
		if inRange(k, start, end) {
			out = append(out, k)
		}
	}
	sort.Strings(out)
	return out
}

func (s *Server) toKV(k string, e *kvEntry) *mvccpb.KeyValue {
	return &mvccpb.KeyValue{Key: []byte(k), Value: append([]byte(nil), e.value...), CreateRevision: e.create, ModRevision: e.mod, Version: e.version, Lease: e.lease}
}

// ---- core mutations (s.mu held); each collects events for the current txn ----

func (s *Server) putLocked(rev int64, key string, val []byte, leaseID int64, evs *[]*mvccpb.Event) (*mvccpb.KeyValue, error) {
	if leaseID != 0 {
		l := s.leases[leaseID]
		if l == nil || l.expired {
			return nil, rpctypes.ErrGRPCLeaseNotFound
		}
	}
	old := s.kvs[key]
	var prev *mvccpb.KeyValue
	ne := &kvEntry{value: append([]byte(nil), val...), mod: rev, lease: leaseID}
	if old != nil {
		prev = s.toKV(key, old)
		ne.create = old.create
		ne.version = old.version + 1
		if old.lease != 0 && old.lease != leaseID {
			if l := s.leases[old.lease]; l != nil {
				delete(l.keys, key)
			}
		}
	} else {
		ne.create = rev
		ne.version = 1
	}
	s.kvs[key] = ne
	if leaseID != 0 {
		s.leases[leaseID].keys[key] = struct{}{}
	}
	*evs = append(*evs, &mvccpb.Event{Type: mvccpb.PUT, Kv: s.toKV(key, ne), PrevKv: prev})
	return prev, nil
}

func (s *Server) deleteLocked(rev int64, key string, evs *[]*mvccpb.Event) *mvccpb.KeyValue {
	old := s.kvs[key]
	if old == nil {
		return nil
	}
	prev := s.toKV(key, old)
	if old.lease != 0 {
		if l := s.leases[old.lease]; l != nil {
			delete(l.keys, key)
		}
	}
	delete(s.kvs, key)
	*evs = append(*evs, &mvccpb.Event{Type: mvccpb.DELETE, Kv: &mvccpb.KeyValue{Key: []byte(key), ModRevision: rev}, PrevKv: prev})
	return prev
}

// commitLocked bumps the revision if there were events and notifies watchers.
func (s *Server) commitLocked(rev int64, evs []*mvccpb.Event) {
	if len(evs) == 0 {
		return
	}
	s.rev = rev
	s.history = append(s.history, histEntry{rev: rev, events: evs})
	for _, w := range s.watchers {
		w.offer(histEntry{rev: rev, events: evs})
	}
}

func (s *Server) rangeLocked(r *pb.RangeRequest) *pb.RangeResponse {
	keys := s.keysInRange(r.Key, r.RangeEnd)
	resp := &pb.RangeResponse{Header: s.header(), Count: int64(len(keys))}
	if r.SortOrder == pb.RangeRequest_DESCEND && r.SortTarget == pb.RangeRequest_KEY {
		sort.Sort(sort.Reverse(sort.StringSlice(keys)))
	}
	if r.CountOnly {
		return resp
	}
	for i, k := range keys {
		if r.Limit > 0 && int64(i) >= r.Limit {
			resp.More = true
			break
		}
		kv := s.toKV(k, s.kvs[k])
		if r.KeysOnly {
			kv.Value = nil
		}
		resp.Kvs = append(resp.Kvs, kv)
	}
	return resp
}

func (s *Server) compareLocked(c *pb.Compare) bool {
	e := s.kvs[string(c.Key)]
	var have, want int64
	var cmp int
	switch c.Target {
	case pb.Compare_VALUE:
		var hv []byte
		if e != nil {
			hv = e.value
		} else {
			// etcd: comparing the value of a missing key fails for every operator
			return false
		}
		cmp = bytes.Compare(hv, c.GetValue())
	case pb.Compare_VERSION:
		if e != nil {
			have = e.version
		}
		want = c.GetVersion()
		cmp = cmp64(have, want)
	case pb.Compare_CREATE:
		if e != nil {
			have = e.create
		}
		want = c.GetCreateRevision()
		cmp = cmp64(have, want)
	case pb.Compare_MOD:
		if e != nil {
			have = e.mod
		}
		want = c.GetModRevision()
		cmp = cmp64(have, want)
	case pb.Compare_LEASE:
		if e != nil {
			have = e.lease
		}
		want = c.GetLease()
		cmp = cmp64(have, want)
	}
	switch c.Result {
	case pb.Compare_EQUAL:
		return cmp == 0
	case pb.Compare_NOT_EQUAL:
		return cmp != 0
	case pb.Compare_GREATER:
		return cmp > 0
	case pb.Compare_LESS:
		return cmp < 0
	}
	return false
}

func cmp64(a, b int64) int {
	if a < b {
		return -1
	}
	if a > b {
		return 1
	}
	return 0
}

// ---- pb.KVClient ----

type kvClient struct{ c *Client }

func (k *kvClient) Range(ctx context.Context, in *pb.RangeRequest, _ ...grpc.CallOption) (*pb.RangeResponse, error) {
	lost, err := k.c.pre("Range")
	if err != nil {
		return nil, err
	}
	if err := ctx.Err(); err != nil {
		return nil, err
	}
	s := k.c.S
	s.mu.Lock()
	defer s.mu.Unlock()
	if in.Revision > 0 && in.Revision != s.rev {
		// read at a past revision (clientv3.WithRev), as paginating readers pin their follow-up pages
		if in.Revision > s.rev {
			return nil, rpctypes.ErrGRPCFutureRev
		}
		if in.Revision < s.compacted {
			return nil, rpctypes.ErrGRPCCompacted
		}
		resp := s.rangeAtLocked(in)
		if lost {
			return nil, ErrInjected
		}
		return resp, nil
	}
	resp := s.rangeLocked(in)
	if lost {
		return nil, ErrInjected
	}
	return resp, nil
}

// rangeAtLocked answers a range request at the past revision r.Revision (compacted <= r.Revision < s.rev):
// the current keys of the range with every later history entry undone (events carry the previous
// key-value). The header carries the current revision, as etcd's does.
func (s *Server) rangeAtLocked(r *pb.RangeRequest) *pb.RangeResponse {
	snap := map[string]*mvccpb.KeyValue{}
	for _, k := range s.keysInRange(r.Key, r.RangeEnd) {
		snap[k] = s.toKV(k, s.kvs[k])
	}
	for i := len(s.history) - 1; i >= 0 && s.history[i].rev > r.Revision; i-- {
		evs := s.history[i].events
		for j := len(evs) - 1; j >= 0; j-- {
			k := string(evs[j].Kv.Key)
			if !inRange(k, r.Key, r.RangeEnd) {
				continue
			}
			if evs[j].PrevKv != nil {
				snap[k] = evs[j].PrevKv
			} else {
				delete(snap, k)
			}
		}
	}
	keys := make([]string, 0, len(snap))
	for k := range snap {
		keys = append(keys, k)
	}
	sort.Strings(keys)
	resp := &pb.RangeResponse{Header: s.header(), Count: int64(len(keys))}
	if r.SortOrder == pb.RangeRequest_DESCEND && r.SortTarget == pb.RangeRequest_KEY {
		sort.Sort(sort.Reverse(sort.StringSlice(keys)))
	}
	if r.CountOnly {
		return resp
	}
	for i, k := range keys {
		if r.Limit > 0 && int64(i) >= r.Limit {
			resp.More = true
			break
		}
		kv := &mvccpb.KeyValue{Key: []byte(k), Value: append([]byte(nil), snap[k].Value...), CreateRevision: snap[k].CreateRevision, ModRevision: snap[k].ModRevision, Version: snap[k].Version, Lease: snap[k].Lease}
		if r.KeysOnly {
			kv.Value = nil
		}
		resp.Kvs = append(resp.Kvs, kv)
	}
	return resp
}

func (k *kvClient) Put(ctx context.Context, in *pb.PutRequest, _ ...grpc.CallOption) (*pb.PutResponse, error) {
	lost, err := k.c.pre("Put")
	if err != nil {
		return nil, err
	}
	if err := ctx.Err(); err != nil {
		return nil, err
	}
	s := k.c.S
	s.mu.Lock()
	defer s.mu.Unlock()
	var evs []*mvccpb.Event
	rev := s.rev + 1
	prevVal := ""
	if e := s.kvs[string(in.Key)]; e != nil {
		prevVal = string(e.value)
	}
	prev, perr := s.putLocked(rev, string(in.Key), in.Value, in.Lease, &evs)
	if perr != nil {
		s.log(OpLog{Who: k.c.Who, Op: "Put", Key: string(in.Key), Value: string(in.Value), Err: perr.Error()})
		return nil, perr
	}
	s.commitLocked(rev, evs)
	s.log(OpLog{Who: k.c.Who, Op: "Put", Key: string(in.Key), Value: string(in.Value), Prev: prevVal, Rev: rev})
	if lost {
		return nil, ErrInjected
	}
	resp := &pb.PutResponse{Header: s.header()}
	if in.PrevKv {
		resp.PrevKv = prev
	}
	return resp, nil
}

func (k *kvClient) DeleteRange(ctx context.Context, in *pb.DeleteRangeRequest, _ ...grpc.CallOption) (*pb.DeleteRangeResponse, error) {
	lost, err := k.c.pre("Delete")
	if err != nil {
		return nil, err
	}
	if err := ctx.Err(); err != nil {
		return nil, err
	}
	s := k.c.S
	s.mu.Lock()
	defer s.mu.Unlock()
	keys := s.keysInRange(in.Key, in.RangeEnd)
	var evs []*mvccpb.Event
	rev := s.rev + 1
	resp := &pb.DeleteRangeResponse{}
	for _, key := range keys {
		prevVal := string(s.kvs[key].value)
		prev := s.deleteLocked(rev, key, &evs)
		resp.Deleted++
		if in.PrevKv {
			resp.PrevKvs = append(resp.PrevKvs, prev)
		}
		s.log(OpLog{Who: k.c.Who, Op: "Delete", Key: key, Prev: prevVal, Rev: rev})
	}
	if len(keys) == 0 {
		s.log(OpLog{Who: k.c.Who, Op: "Delete", Key: string(in.Key), Rev: s.rev})
	}
	s.commitLocked(rev, evs)
	resp.Header = s.header()
	if lost {
		return nil, ErrInjected
	}
	return resp, nil
}

// Txn applies the transaction at the server and, with ReplyPoints, takes one more scheduling point before
// the reply reaches the caller: other processes (and lease expiry) can act between the server-side effect
// and the moment the caller sees the answer.
func (k *kvClient) Txn(ctx context.Context, in *pb.TxnRequest, o ...grpc.CallOption) (*pb.TxnResponse, error) {
	resp, err := k.txn(ctx, in)
	if k.c.ReplyPoints && !k.c.NoPoints {
		sched.Env("etcd." + k.c.Who + ".Txn.reply")
	}
	return resp, err
}

func (k *kvClient) txn(ctx context.Context, in *pb.TxnRequest) (*pb.TxnResponse, error) {
	lost, err := k.c.pre("Txn")
	if err != nil {
		return nil, err
	}
	if err := ctx.Err(); err != nil {
		return nil, err
	}
	s := k.c.S
	s.mu.Lock()
	defer s.mu.Unlock()
	ok := true
	for _, c := range in.Compare {
		if !s.compareLocked(c) {
			ok = false
			break
		}
	}
	ops := in.Success
	if !ok {
		ops = in.Failure
	}
	resp := &pb.TxnResponse{Succeeded: ok}
	var evs []*mvccpb.Event
	rev := s.rev + 1
	// validate leases first: a txn is atomic
	for _, op := range ops {
		if p := op.GetRequestPut(); p != nil && p.Lease != 0 {
			if l := s.leases[p.Lease]; l == nil || l.expired {
				s.log(OpLog{Who: k.c.Who, Op: "Txn", Key: string(p.Key), Err: "lease not found"})
				return nil, rpctypes.ErrGRPCLeaseNotFound
			}
		}
	}
	for _, op := range ops {
		switch {
		case op.GetRequestRange() != nil:
			resp.Responses = append(resp.Responses, &pb.ResponseOp{Response: &pb.ResponseOp_ResponseRange{ResponseRange: s.rangeLocked(op.GetRequestRange())}})
		case op.GetRequestPut() != nil:
			p := op.GetRequestPut()
			prevVal := ""
			if e := s.kvs[string(p.Key)]; e != nil {
				prevVal = string(e.value)
			}
			prev, _ := s.putLocked(rev, string(p.Key), p.Value, p.Lease, &evs)
			pr := &pb.PutResponse{}
			if p.PrevKv {
				pr.PrevKv = prev
			}
			resp.Responses = append(resp.Responses, &pb.ResponseOp{Response: &pb.ResponseOp_ResponsePut{ResponsePut: pr}})
			s.log(OpLog{Who: k.c.Who, Op: "TxnPut", Key: string(p.Key), Value: string(p.Value), Prev: prevVal, Rev: rev})
		case op.GetRequestDeleteRange() != nil:
			d := op.GetRequestDeleteRange()
			dr := &pb.DeleteRangeResponse{}
			for _, key := range s.keysInRange(d.Key, d.RangeEnd) {
				prevVal := string(s.kvs[key].value)
				prev := s.deleteLocked(rev, key, &evs)
				dr.Deleted++
				if d.PrevKv {
					dr.PrevKvs = append(dr.PrevKvs, prev)
				}
				s.log(OpLog{Who: k.c.Who, Op: "TxnDelete", Key: key, Prev: prevVal, Rev: rev})
			}
			resp.Responses = append(resp.Responses, &pb.ResponseOp{Response: &pb.ResponseOp_ResponseDeleteRange{ResponseDeleteRange: dr}})
		default:
			return nil, status.Error(codes.Unimplemented, "verif: nested txn not modelled")
		}
	}
	s.commitLocked(rev, evs)
	resp.Header = s.header()
	for _, r := range resp.Responses {
		if rr := r.GetResponseRange(); rr != nil {
			rr.Header = s.header()
		}
		if rr := r.GetResponsePut(); rr != nil {
			rr.Header = s.header()
		}
		if rr := r.GetResponseDeleteRange(); rr != nil {
			rr.Header = s.header()
		}
	}
	if lost {
		return nil, ErrInjected
	}
	return resp, nil
}

func (k *kvClient) Compact(ctx context.Context, in *pb.CompactionRequest, _ ...grpc.CallOption) (*pb.CompactionResponse, error) {
	k.c.S.Compact(in.Revision)
	return &pb.CompactionResponse{Header: k.c.S.header()}, nil
}

// Compact discards the event history below rev (0 = the current revision), as etcd's periodic or
// operator-issued compaction does: watches that later ask to start below it are cancelled with the
// compact revision set (clientv3: rpctypes.ErrCompacted).
func (s *Server) Compact(rev int64) {
	s.mu.Lock()
	defer s.mu.Unlock()
	if rev <= 0 || rev > s.rev {
		rev = s.rev
	}
	if rev <= s.compacted {
		return
	}
	s.compacted = rev
	keep := s.history[:0]
	for _, h := range s.history {
		if h.rev >= rev {
			keep = append(keep, h)
		}
	}
	s.history = keep
}

// ---- clientv3.Lease ----

type leaseClient struct{ c *Client }

func (l *leaseClient) Grant(ctx context.Context, ttl int64) (*clientv3.LeaseGrantResponse, error) {
	lost, err := l.c.pre("Grant")
	if err != nil {
		return nil, err
	}
	if err := ctx.Err(); err != nil {
		return nil, err
	}
	s := l.c.S
	s.mu.Lock()
	defer s.mu.Unlock()
	s.nextLease++
	id := s.nextLease
	s.leases[id] = &lease{id: id, ttl: ttl, keys: map[string]struct{}{}, dead: make(chan struct{})}
	s.log(OpLog{Who: l.c.Who, Op: "Grant", Key: fmt.Sprint(id)})
	if lost {
		return nil, ErrInjected
	}
	return &clientv3.LeaseGrantResponse{ResponseHeader: s.header(), ID: clientv3.LeaseID(id), TTL: ttl}, nil
}

// revokeLocked deletes the lease and its keys in one revision.
func (s *Server) revokeLocked(id int64, who, why string) bool {
	l := s.leases[id]
	if l == nil || l.expired {
		return false
	}
	l.expired = true
	var evs []*mvccpb.Event
	rev := s.rev + 1
	keys := make([]string, 0, len(l.keys))
	for k := range l.keys {
		keys = append(keys, k)
	}
	sort.Strings(keys)
	for _, k := range keys {
		prevVal := string(s.kvs[k].value)
		s.deleteLocked(rev, k, &evs)
		s.log(OpLog{Who: who, Op: why, Key: k, Prev: prevVal, Rev: rev})
	}
	s.commitLocked(rev, evs)
	close(l.dead)
	delete(s.leases, id)
	return true
}

func (l *leaseClient) Revoke(ctx context.Context, id clientv3.LeaseID) (*clientv3.LeaseRevokeResponse, error) {
	lost, err := l.c.pre("Revoke")
	if err != nil {
		return nil, err
	}
	s := l.c.S
	s.mu.Lock()
	defer s.mu.Unlock()
	if !s.revokeLocked(int64(id), l.c.Who, "RevokeDelete") {
		return nil, rpctypes.ErrLeaseNotFound
	}
	if lost {
		return nil, ErrInjected
	}
	return &clientv3.LeaseRevokeResponse{Header: s.header()}, nil
}

func (l *leaseClient) TimeToLive(ctx context.Context, id clientv3.LeaseID, opts ...clientv3.LeaseOption) (*clientv3.LeaseTimeToLiveResponse, error) {
	if _, err := l.c.pre("TimeToLive"); err != nil {
		return nil, err
	}
	s := l.c.S
	s.mu.Lock()
	defer s.mu.Unlock()
	le := s.leases[int64(id)]
	if le == nil {
		return &clientv3.LeaseTimeToLiveResponse{ResponseHeader: s.header(), ID: id, TTL: -1}, nil
	}
	return &clientv3.LeaseTimeToLiveResponse{ResponseHeader: s.header(), ID: id, TTL: le.ttl, GrantedTTL: le.ttl}, nil
}

func (l *leaseClient) Leases(ctx context.Context) (*clientv3.LeaseLeasesResponse, error) {
	s := l.c.S
	s.mu.Lock()
	defer s.mu.Unlock()
	resp := &clientv3.LeaseLeasesResponse{ResponseHeader: s.header()}
	for id := range s.leases {
		resp.Leases = append(resp.Leases, clientv3.LeaseStatus{ID: clientv3.LeaseID(id)})
	}
	return resp, nil
}

func (l *leaseClient) KeepAlive(ctx context.Context, id clientv3.LeaseID) (<-chan *clientv3.LeaseKeepAliveResponse, error) {
	s := l.c.S
	s.mu.Lock()
	le := s.leases[int64(id)]
	s.mu.Unlock()
	ch := make(chan *clientv3.LeaseKeepAliveResponse, 1)
	if le == nil {
		close(ch)
		return ch, nil
	}
	go func() {
		select {
		case <-ctx.Done():
		case <-le.dead:
		}
		close(ch)
	}()
	return ch, nil
}

func (l *leaseClient) KeepAliveOnce(ctx context.Context, id clientv3.LeaseID) (*clientv3.LeaseKeepAliveResponse, error) {
	s := l.c.S
	s.mu.Lock()
	defer s.mu.Unlock()
	le := s.leases[int64(id)]
	if le == nil {
		return nil, rpctypes.ErrLeaseNotFound
	}
	return &clientv3.LeaseKeepAliveResponse{ResponseHeader: s.header(), ID: id, TTL: le.ttl}, nil
}

func (l *leaseClient) Close() error { return nil }

// ---- harness-side controls ----

// ExpireLeasesOf expires (server side) every lease whose attached keys or grant came
// from who. Returns how many leases expired.
func (s *Server) ExpireLease(id int64) bool {
	s.mu.Lock()
	defer s.mu.Unlock()
	return s.revokeLocked(id, "etcd", "ExpireDelete")
}

// LiveLeases lists lease ids, ascending.
func (s *Server) LiveLeases() []int64 {
	s.mu.Lock()
	defer s.mu.Unlock()
	var out []int64
	for id, l := range s.leases {
		if !l.expired {
			out = append(out, id)
		}
	}
	sort.Slice(out, func(i, j int) bool { return out[i] < out[j] })
	return out
}

// LeaseOfKey returns the lease a key is attached to (0 = none / missing).
func (s *Server) LeaseOfKey(key string) int64 {
	s.mu.Lock()
	defer s.mu.Unlock()
	if e := s.kvs[key]; e != nil {
		return e.lease
	}
	return 0
}

// Get returns the value of key.
func (s *Server) Get(key string) (string, bool) {
	s.mu.Lock()
	defer s.mu.Unlock()
	e := s.kvs[key]
	if e == nil {
		return "", false
	}
	return string(e.value), true
}

// Dump returns all key/values under prefix.
func (s *Server) Dump(prefix string) map[string]string {
	s.mu.Lock()
	defer s.mu.Unlock()
	out := map[string]string{}
	for k, e := range s.kvs {
		if len(k) >= len(prefix) && k[:len(prefix)] == prefix {
			out[k] = string(e.value)
		}
	}
	return out
}

// DirectPut writes a key without going through a client (setup / external actors).
func (s *Server) DirectPut(key, val string, leaseID int64) error {
	s.mu.Lock()
	defer s.mu.Unlock()
	var evs []*mvccpb.Event
	rev := s.rev + 1
	prevVal := ""
	if e := s.kvs[key]; e != nil {
		prevVal = string(e.value)
	}
	if _, err := s.putLocked(rev, key, []byte(val), leaseID, &evs); err != nil {
		return err
	}
	s.commitLocked(rev, evs)
	s.log(OpLog{Who: "direct", Op: "Put", Key: key, Value: val, Prev: prevVal, Rev: rev})
	return nil
}

// DirectDelete removes a key without going through a client.
func (s *Server) DirectDelete(key string) {
	s.mu.Lock()
	defer s.mu.Unlock()
	var evs []*mvccpb.Event
	rev := s.rev + 1
	s.deleteLocked(rev, key, &evs)
	s.commitLocked(rev, evs)
}

// DirectGrant creates a lease without going through a client.
func (s *Server) DirectGrant(ttl int64) int64 {
	s.mu.Lock()
	defer s.mu.Unlock()
	s.nextLease++
	id := s.nextLease
	s.leases[id] = &lease{id: id, ttl: ttl, keys: map[string]struct{}{}, dead: make(chan struct{})}
	return id
}

// Rev returns the current revision.
func (s *Server) Rev() int64 { s.mu.Lock(); defer s.mu.Unlock(); return s.rev }

// Ops returns a copy of the operation log.
func (s *Server) Ops() []OpLog {
	s.mu.Lock()
	defer s.mu.Unlock()
	return append([]OpLog(nil), s.Log...)
}

// PendingWatchEvents reports whether any watcher still has undelivered events.
func (s *Server) PendingWatchEvents() bool {
	s.mu.Lock()
	ws := append([]*watcher(nil), s.watchers...)
	s.mu.Unlock()
	for _, w := range ws {
		w.mu.Lock()
		n := len(w.pending)
		done := w.done
		w.mu.Unlock()
		if n > 0 && !done {
			return true
		}
	}
	return false
}
