//go:build verif

// Package sched is a cooperative scheduler for real goroutines running inside a
// testing/synctest bubble, plus a deviation-bounded stateless DFS explorer over
// its decisions (thread choices and environment answers).
//
// One execution = one bubble. Threads park on their own channel at every
// "point" (vsync lock/cond operations and Env calls). The controller waits for
// quiescence with synctest.Wait, computes the enabled set in canonical order,
// takes the next decision and wakes exactly one thread.
package sched

import (
	"fmt"
	"runtime"
	"strconv"
	"strings"
	"sync"
	"sync/atomic"
	"testing/synctest"
	"time"
)

// Kind of a parking point.
type Kind uint8

const (
	KStart Kind = iota
	KLock
	KRLock
	KCond
	KEnv
)

// Req describes what a parked thread is waiting for. Ready and Grant are
// evaluated by the controller while every thread is parked.
type Req struct {
	Kind  Kind
	Label string
	Ready func() bool
	Grant func()
}

// Decision is one recorded choice of an execution.
type Decision struct {
	N       int    // number of alternatives
	C       int    // alternative taken
	Env     bool   // environment decision (else: thread choice)
	AltCost int    // cost of taking any alternative other than 0
	Label   string // what was decided
}

type thread struct {
	id       int
	key      string
	explicit bool
	goid     int64
	wake     chan struct{}
	parked   bool
	done     bool
	req      Req
}

// Sched controls one execution.
type Sched struct {
	mu       sync.Mutex
	threads  []*thread // preallocated; scanned linearly (no maps: the runtime instruments map accesses for the race detector even in norace code)
	ctrlGoid int64
	running  *thread
	phase    int32 // 0 setup, 1 running, 2 finished
	prefix   []int
	Trace    []Decision
	Steps    []string
	steps    int

	// configuration
	MaxSteps int
	// FreeSwitchCost is what choosing a non-default thread costs when the running
	// thread is not enabled (0 = free, as in preemption bounding; 1 = delay bounding:
	// every deviation from the canonical default order counts against the budget).
	FreeSwitchCost int
	IdleStep       time.Duration
	MaxIdle        int
	Verbose        bool
	Deadlock       bool
	Livelock       bool // the step horizon was reached with threads still enabled (a loop that never quiesces)
	Diverged       string
	StepHook       func() // called by the controller after every quiescence (all threads parked)
	fails          []Failure
	notes          []string
	abortFlag      atomic.Bool
}

// Failure is a property violation recorded by the harness body for this execution.
type Failure struct {
	Key    string
	Detail string
}

var active atomic.Pointer[Sched]

func goid() int64 {
	var buf [64]byte
	n := runtime.Stack(buf[:], false)
	// "goroutine 123 ["
	s := buf[10:n]
	var id int64
	for _, c := range s {
		if c < '0' || c > '9' {
			break
		}
		id = id*10 + int64(c-'0')
	}
	return id
}

// Current returns the scheduler if the calling goroutine must park at points.
func Current() *Sched {
	s := active.Load()
	if s == nil || atomic.LoadInt32(&s.phase) != 1 {
		return nil
	}
	if goid() == s.ctrlGoid {
		return nil
	}
	return s
}

// Active returns the scheduler of the running execution (any phase), or nil.
func Active() *Sched { return active.Load() }

//go:norace
func newSched(prefix []int) *Sched {
	return &Sched{
		threads:  make([]*thread, 0, 128),
		Trace:    make([]Decision, 0, 8192),
		Steps:    make([]string, 0, 8192),
		fails:    make([]Failure, 0, 64),
		notes:    make([]string, 0, 64),
		ctrlGoid: goid(),
		prefix:   prefix,
		MaxSteps: 20000,
		IdleStep: time.Second,
		MaxIdle:  0,
	}
}

// Go starts an explicit harness thread. It parks before running fn.
//
//go:norace
func (s *Sched) Go(key string, fn func()) {
	s.mu.Lock()
	t := &thread{id: len(s.threads), key: key, explicit: true, wake: make(chan struct{})}
	s.threads = append(s.threads, t)
	s.mu.Unlock()
	go s.threadMain(t, fn)
}

//go:norace
func (s *Sched) threadMain(t *thread, fn func()) {
	RaceOff()
	g := goid()
	s.mu.Lock()
	t.goid = g
	t.req = Req{Kind: KStart, Label: "start"}
	t.parked = true
	s.mu.Unlock()
	<-t.wake
	RaceOn()
	defer s.threadDone(t)
	fn()
}

//go:norace
func (s *Sched) threadDone(t *thread) {
	RaceOff()
	s.mu.Lock()
	t.done = true
	t.goid = -1
	s.mu.Unlock()
	RaceOn()
}

//go:norace
func (s *Sched) byGoid(g int64) *thread {
	for _, t := range s.threads {
		if t.goid == g && !t.done {
			return t
		}
	}
	return nil
}

// Point parks the calling goroutine until the controller grants req.
//
//go:norace
func (s *Sched) Point(req Req) {
	RaceOff()
	defer RaceOn()
	g := goid()
	s.mu.Lock()
	t := s.byGoid(g)
	if t == nil {
		// goroutine spawned by the code under test: auto-register under a
		// key derived from its first point, so identity is replay-stable.
		base := "auto:" + req.Label + "#"
		n := 0
		for _, o := range s.threads {
			if strings.HasPrefix(o.key, base) {
				n++
			}
		}
		// (no fmt here: fmt's sync.Pool must not be used while the detector ignores sync)
		t = &thread{id: len(s.threads), key: base + strconv.Itoa(n), goid: g, wake: make(chan struct{})}
		s.threads = append(s.threads, t)
	}
	t.req = req
	t.parked = true
	s.mu.Unlock()
	<-t.wake
}

// Env is a scheduling point before an environment operation.
func Env(label string) {
	if s := Current(); s != nil {
		s.Point(Req{Kind: KEnv, Label: label})
	}
}

// Choose takes an environment decision among n alternatives (0 = benign default).
// Outside an exploration it returns 0.
func Choose(n int, label string) int { return ChooseCost(n, 1, label) }

// ChooseCost is Choose with an explicit deviation cost for non-default answers.
//
//go:norace
func ChooseCost(n, cost int, label string) int {
	s := active.Load()
	if s == nil || n <= 1 {
		return 0
	}
	RaceOff()
	defer RaceOn()
	s.mu.Lock()
	defer s.mu.Unlock()
	return s.decide(n, true, cost, label)
}

//go:norace
func (s *Sched) decide(n int, env bool, altCost int, label string) int {
	i := len(s.Trace)
	c := 0
	if i < len(s.prefix) {
		c = s.prefix[i]
		if c >= n || c < 0 {
			if s.Diverged == "" {
				s.Diverged = fmt.Sprintf("decision %d (%s): replayed choice %d but only %d alternatives", i, label, c, n)
			}
			c = 0
		}
	}
	s.Trace = append(s.Trace, Decision{N: n, C: c, Env: env, AltCost: altCost, Label: label})
	return c
}

// Fail records a property violation for this execution.
//
//go:norace
func (s *Sched) Fail(key, format string, a ...any) {
	msg := fmt.Sprintf(format, a...)
	RaceOff()
	defer RaceOn()
	s.mu.Lock()
	s.fails = append(s.fails, Failure{Key: key, Detail: msg})
	s.mu.Unlock()
}

// Note attaches an observation to the execution (part of its outcome signature).
//
//go:norace
func (s *Sched) Note(format string, a ...any) {
	msg := fmt.Sprintf(format, a...)
	RaceOff()
	defer RaceOn()
	s.mu.Lock()
	s.notes = append(s.notes, msg)
	s.mu.Unlock()
}

//go:norace
func (s *Sched) enabledLocked() []*thread {
	var en []*thread
	for _, t := range s.threads {
		if !t.parked || t.done {
			continue
		}
		if t.req.Ready == nil || t.req.Ready() {
			en = append(en, t)
		}
	}
	// canonical order: the running thread first, then by key (insertion sort, no closures)
	for i := 1; i < len(en); i++ {
		for j := i; j > 0 && s.threadLess(en[j], en[j-1]); j-- {
			en[j], en[j-1] = en[j-1], en[j]
		}
	}
	return en
}

//go:norace
func (s *Sched) threadLess(a, b *thread) bool {
	if (a == s.running) != (b == s.running) {
		return a == s.running
	}
	return a.key < b.key
}

//go:norace
func (s *Sched) allDoneLocked() bool {
	for _, t := range s.threads {
		if t.explicit && !t.done {
			return false
		}
		if t.parked && !t.done {
			return false
		}
	}
	return true
}

// Run is the controller loop. It returns when every explicit thread has finished
// and no thread is parked, or on deadlock (s.Deadlock) or divergence.
//
//go:norace
func (s *Sched) Run() {
	// let goroutines started during set-up (watchers, monitors) run, unscheduled, until
	// they block, so that which of them become threads does not depend on timing
	synctest.Wait()
	// the controller's own synchronisation (wake-ups, s.mu) must not order the threads
	RaceOff()
	defer RaceOn()
	atomic.StoreInt32(&s.phase, 1)
	defer atomic.StoreInt32(&s.phase, 2)
	idle := 0
	for {
		synctest.Wait()
		if s.StepHook != nil {
			s.StepHook()
		}
		s.mu.Lock()
		en := s.enabledLocked()
		if len(en) == 0 {
			done := s.allDoneLocked()
			s.mu.Unlock()
			if idle < s.MaxIdle {
				// nothing can run: let virtual time pass (timers, sleeps) and look again
				idle++
				time.Sleep(s.IdleStep)
				continue
			}
			if !done {
				s.Deadlock = true
			}
			return
		}
		idle = 0
		idx := 0
		if len(en) > 1 {
			cost := s.FreeSwitchCost
			if s.running != nil && en[0] == s.running {
				cost = 1
			}
			var lbl string
			if s.Verbose {
				parts := make([]string, len(en))
				for i, t := range en {
					parts[i] = t.key + "@" + t.req.Label
				}
				lbl = strings.Join(parts, ",")
			}
			idx = s.decide(len(en), false, cost, lbl)
		}
		t := en[idx]
		if t.req.Grant != nil {
			t.req.Grant()
		}
		t.parked = false
		s.running = t
		s.steps++
		if s.Verbose {
			s.Steps = append(s.Steps, t.key+"@"+t.req.Label)
		}
		over := s.steps > s.MaxSteps
		s.mu.Unlock()
		if over {
			// The code under test keeps producing scheduling points (a retry loop that never quiesces). That is
			// a verdict about the code, not a replay problem: report it as a livelock, stop scheduling (phase 2
			// makes every later point pass through) and let the parked threads run on as ordinary goroutines so
			// that the bubble can drain.
			s.Livelock = true
			atomic.StoreInt32(&s.phase, 2)
			s.mu.Lock()
			var parked []*thread
			for _, o := range s.threads {
				if o.parked && !o.done {
					o.parked = false
					parked = append(parked, o)
				}
			}
			s.mu.Unlock()
			t.wake <- struct{}{} // the thread just chosen is no longer marked parked: release it as well
			for _, o := range parked {
				o.wake <- struct{}{}
			}
			return
		}
		t.wake <- struct{}{}
	}
}

// Blocked describes parked threads (for deadlock reports).
//
//go:norace
func (s *Sched) Blocked() string {
	s.mu.Lock()
	defer s.mu.Unlock()
	var parts []string
	for _, t := range s.threads {
		if t.parked && !t.done {
			parts = append(parts, t.key+"@"+t.req.Label)
		} else if t.explicit && !t.done {
			parts = append(parts, t.key+"@(blocked outside scheduler)")
		}
	}
	return strings.Join(parts, ",")
}
