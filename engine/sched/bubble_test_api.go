//go:build verif && !goexperiment.synctest

package sched

import (
	"testing"
	"testing/synctest"
)

// inBubble runs f in a fresh synctest bubble.
func inBubble(t *testing.T, f func()) {
	synctest.Test(t, func(t *testing.T) { f() })
}
