//go:build verif && race

package sched

import "runtime"

// RaceBuild reports whether the binary was built with -race.
const RaceBuild = true

// RaceOff / RaceOn bracket scheduler-internal synchronisation so that the race detector
// does not see the cooperative scheduler's hand-offs as happens-before edges between the
// threads under test (which would blind it). Memory accesses stay instrumented.
func RaceOff() { runtime.RaceDisable() }
func RaceOn()  { runtime.RaceEnable() }
