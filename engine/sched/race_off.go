//go:build verif && !race

package sched

// RaceBuild reports whether the binary was built with -race.
const RaceBuild = false

func RaceOff() {}
func RaceOn()  {}
