//go:build verif && goexperiment.synctest

package sched

import (
	"testing"
	"testing/synctest"
)

// inBubble runs f in a fresh synctest bubble. With GOEXPERIMENT=synctest the bubble is
// started without a testing.T: the testing package fails (and aborts) a synctest.Test
// sub-test as soon as the race detector has reported anything, which would end a -race
// exploration at its first report instead of letting the harness attribute it.
func inBubble(t *testing.T, f func()) {
	synctest.Run(f)
}
