//go:build verif

package sched

import (
	"fmt"
	"os"
	"strings"
	"testing"
	"time"
)

// Exec is the result of one execution.
type Exec struct {
	Choices  []int
	Trace    []Decision
	Steps    []string
	Fails    []Failure
	Notes    []string
	Deadlock bool
	Livelock bool
	Blocked  string
	Diverged string
}

// Config bounds an exploration.
type Config struct {
	MaxPreempt int // budget for switching away from a still-enabled thread
	MaxDev     int // budget for non-default environment answers
	MaxExec    int // cap on executions (0 = none)
	Deadline   time.Time
	Shard      int
	NShards    int
	MaxIdle    int // how many times the controller may advance virtual time when nothing is enabled
	IdleStep   time.Duration
	MaxSteps   int
	// DelayBound makes every non-default thread choice cost one unit of MaxPreempt, also
	// when the previously running thread is blocked (delay-bounded scheduling over the
	// canonical default order) instead of only preemptions.
	DelayBound bool
}

// Stats summarises an exploration.
type Stats struct {
	Execs     int
	Capped    bool // MaxExec or deadline cut the search
	MaxDepth  int
	Decisions int
	Deadlocks int
}

// RunOnce executes body once under the scheduler, replaying prefix and taking
// default choices afterwards.
func RunOnce(t *testing.T, cfg Config, prefix []int, verbose bool, body func(s *Sched)) (x *Exec) {
	x = &Exec{}
	defer func() {
		// A deadlocked execution leaves its threads parked for good, so the bubble
		// cannot drain and synctest panics when the root returns. The execution's
		// result is already recorded in x; the parked goroutines are leaked.
		if r := recover(); r != nil {
			if x.Deadlock && strings.Contains(fmt.Sprint(r), "deadlock") {
				x.Choices = make([]int, len(x.Trace))
				for i, d := range x.Trace {
					x.Choices[i] = d.C
				}
				return
			}
			panic(r)
		}
	}()
	runBubble(t, cfg, prefix, verbose, body, x)
	x.Choices = make([]int, len(x.Trace))
	for i, d := range x.Trace {
		x.Choices[i] = d.C
	}
	return x
}

func runBubble(t *testing.T, cfg Config, prefix []int, verbose bool, body func(s *Sched), x *Exec) {
	inBubble(t, func() {
		s := newSched(prefix)
		s.Verbose = verbose
		if cfg.MaxIdle > 0 {
			s.MaxIdle = cfg.MaxIdle
		}
		if cfg.IdleStep > 0 {
			s.IdleStep = cfg.IdleStep
		}
		if cfg.MaxSteps > 0 {
			s.MaxSteps = cfg.MaxSteps
		}
		if cfg.DelayBound {
			s.FreeSwitchCost = 1
		}
		active.Store(s)
		defer active.Store(nil)
		body(s)
		x.Trace = s.Trace
		x.Steps = s.Steps
		x.Fails = s.fails
		if s.Livelock && len(x.Fails) == 0 {
			// never let a non-quiescing execution pass silently when the harness body does not look at it
			x.Fails = append(x.Fails, Failure{Key: "livelock-step-horizon", Detail: "threads were still enabled after the step horizon: the code under test never quiesces in this execution"})
		}
		x.Notes = s.notes
		x.Deadlock = s.Deadlock
		x.Livelock = s.Livelock
		x.Diverged = s.Diverged
		if s.Deadlock {
			x.Blocked = s.Blocked()
		}
		if len(prefix) > len(s.Trace) && x.Diverged == "" {
			x.Diverged = fmt.Sprintf("replay prefix has %d decisions but execution made only %d", len(prefix), len(s.Trace))
		}
	})
}

// Explore runs the deviation-bounded DFS. after is called for every execution.
// A deadlocked execution cannot be unwound (its goroutines are parked for good):
// onFatal is called with it and must not return control to further exploration.
func Explore(t *testing.T, cfg Config, body func(s *Sched), after func(x *Exec)) Stats {
	var st Stats
	if cfg.NShards <= 0 {
		cfg.NShards = 1
	}
	type item struct {
		prefix []int
	}
	// determinism self-check: the default execution twice
	a := RunOnce(t, cfg, nil, true, body)
	b := RunOnce(t, cfg, nil, true, body)
	if a.Diverged != "" || b.Diverged != "" || strings.Join(a.Steps, ";") != strings.Join(b.Steps, ";") || fmt.Sprint(a.Trace) != fmt.Sprint(b.Trace) {
		fmt.Fprintf(os.Stderr, "HARNESS-ERROR nondeterministic default execution:\n A=%v %v\n B=%v %v\n", a.Steps, a.Diverged, b.Steps, b.Diverged)
		t.Fatalf("nondeterministic default execution")
	}
	topChild := 0
	var rec func(prefix []int, depth int)
	rec = func(prefix []int, depth int) {
		if st.Capped {
			return
		}
		if cfg.MaxExec > 0 && st.Execs >= cfg.MaxExec {
			st.Capped = true
			return
		}
		if !cfg.Deadline.IsZero() && time.Now().After(cfg.Deadline) {
			st.Capped = true
			return
		}
		x := RunOnce(t, cfg, prefix, false, body)
		if x.Diverged != "" {
			fmt.Fprintf(os.Stderr, "HARNESS-ERROR divergence replaying %v: %s\n", prefix, x.Diverged)
			t.Fatalf("divergence: %s", x.Diverged)
		}
		st.Execs++
		if x.Deadlock {
			st.Deadlocks++
			if st.Deadlocks >= 100 {
				st.Capped = true
			}
		}
		st.Decisions += len(x.Trace)
		if len(x.Trace) > st.MaxDepth {
			st.MaxDepth = len(x.Trace)
		}
		if depth > 0 || cfg.Shard == 0 {
			after(x)
		}
		// budgets consumed by the prefix
		pre, dev := 0, 0
		for i := 0; i < len(prefix); i++ {
			d := x.Trace[i]
			if d.C != 0 {
				if d.Env {
					dev += d.AltCost
				} else {
					pre += d.AltCost
				}
			}
		}
		for i := len(prefix); i < len(x.Trace); i++ {
			d := x.Trace[i]
			// d.C == 0 here (default beyond the prefix)
			if d.Env {
				if dev+d.AltCost > cfg.MaxDev {
					continue
				}
			} else {
				if pre+d.AltCost > cfg.MaxPreempt {
					continue
				}
			}
			for alt := 1; alt < d.N; alt++ {
				if depth == 0 {
					k := topChild
					topChild++
					if k%cfg.NShards != cfg.Shard {
						continue
					}
				}
				np := make([]int, i+1)
				copy(np, x.Choices[:i])
				np[i] = alt
				rec(np, depth+1)
			}
		}
	}
	rec(nil, 0)
	return st
}

// Signature renders the decisions of an execution compactly.
func (x *Exec) Signature() string {
	var b strings.Builder
	for _, d := range x.Trace {
		if d.Env {
			fmt.Fprintf(&b, "e%d", d.C)
		} else {
			fmt.Fprintf(&b, "t%d", d.C)
		}
	}
	return b.String()
}

// NonDefault counts non-default decisions (thread switches and env deviations).
func (x *Exec) NonDefault() (sw, dev int) {
	for _, d := range x.Trace {
		if d.C != 0 {
			if d.Env {
				dev++
			} else {
				sw++
			}
		}
	}
	return
}
