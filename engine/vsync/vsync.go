//go:build verif

// Package vsync is a drop-in replacement for package sync whose blocking
// operations are scheduling points of /verif's cooperative scheduler when an
// exploration is running, and plain sync operations otherwise.
package vsync

import (
	"sync"
	"sync/atomic"

	"github.com/KafScale/platform/internal/verif/sched"
)

type (
	Locker    = sync.Locker
	WaitGroup = sync.WaitGroup
	Map       = sync.Map
	Pool      = sync.Pool
)

func OnceFunc(f func()) func()                                 { return sync.OnceFunc(f) }
func OnceValue[T any](f func() T) func() T                     { return sync.OnceValue(f) }
func OnceValues[T1, T2 any](f func() (T1, T2)) func() (T1, T2) { return sync.OnceValues(f) }

// Mutex mirrors sync.Mutex.
type Mutex struct {
	real sync.Mutex
	held atomic.Int32
}

func (m *Mutex) Lock() {
	if s := sched.Current(); s != nil {
		s.Point(sched.Req{Kind: sched.KLock, Label: "lock",
			Ready: func() bool { return m.held.Load() == 0 },
			Grant: func() { m.held.Store(1) }})
		m.real.Lock()
		return
	}
	m.real.Lock()
	sched.RaceOff()
	m.held.Store(1)
	sched.RaceOn()
}

func (m *Mutex) TryLock() bool {
	if m.real.TryLock() {
		sched.RaceOff()
		m.held.Store(1)
		sched.RaceOn()
		return true
	}
	return false
}

func (m *Mutex) Unlock() {
	sched.RaceOff()
	m.held.Store(0)
	sched.RaceOn()
	m.real.Unlock()
}

// RWMutex mirrors sync.RWMutex.
type RWMutex struct {
	real sync.RWMutex
	w    atomic.Int32
	r    atomic.Int32
}

func (m *RWMutex) Lock() {
	if s := sched.Current(); s != nil {
		s.Point(sched.Req{Kind: sched.KLock, Label: "wlock",
			Ready: func() bool { return m.w.Load() == 0 && m.r.Load() == 0 },
			Grant: func() { m.w.Store(1) }})
		m.real.Lock()
		return
	}
	m.real.Lock()
	sched.RaceOff()
	m.w.Store(1)
	sched.RaceOn()
}

func (m *RWMutex) TryLock() bool {
	if m.real.TryLock() {
		m.w.Store(1)
		return true
	}
	return false
}

func (m *RWMutex) Unlock() {
	sched.RaceOff()
	m.w.Store(0)
	sched.RaceOn()
	m.real.Unlock()
}

func (m *RWMutex) RLock() {
	if s := sched.Current(); s != nil {
		s.Point(sched.Req{Kind: sched.KRLock, Label: "rlock",
			Ready: func() bool { return m.w.Load() == 0 },
			Grant: func() { m.r.Add(1) }})
		m.real.RLock()
		return
	}
	m.real.RLock()
	sched.RaceOff()
	m.r.Add(1)
	sched.RaceOn()
}

func (m *RWMutex) TryRLock() bool {
	if m.real.TryRLock() {
		m.r.Add(1)
		return true
	}
	return false
}

func (m *RWMutex) RUnlock() {
	sched.RaceOff()
	m.r.Add(-1)
	sched.RaceOn()
	m.real.RUnlock()
}

type rlocker RWMutex

func (r *rlocker) Lock()   { (*RWMutex)(r).RLock() }
func (r *rlocker) Unlock() { (*RWMutex)(r).RUnlock() }

func (m *RWMutex) RLocker() Locker { return (*rlocker)(m) }

// Cond mirrors sync.Cond. Waiters that arrive under the scheduler are woken in
// FIFO order like the runtime's notify list; others use a real sync.Cond.
type Cond struct {
	L       Locker
	mu      sync.Mutex
	waiters []*waiter
	real    *sync.Cond
}

type waiter struct{ signaled atomic.Bool }

func NewCond(l Locker) *Cond { return &Cond{L: l} }

//go:norace
func (c *Cond) realCond() *sync.Cond {
	c.mu.Lock()
	defer c.mu.Unlock()
	if c.real == nil {
		c.real = sync.NewCond(c.L)
	}
	return c.real
}

//go:norace
func (c *Cond) Wait() {
	if s := sched.Current(); s != nil {
		w := &waiter{}
		sched.RaceOff()
		c.mu.Lock()
		c.waiters = append(c.waiters, w)
		c.mu.Unlock()
		sched.RaceOn()
		c.L.Unlock()
		s.Point(sched.Req{Kind: sched.KCond, Label: "condwait",
			Ready: func() bool { return w.signaled.Load() }})
		c.L.Lock()
		return
	}
	c.realCond().Wait()
}

//go:norace
func (c *Cond) Signal() {
	sched.RaceOff()
	c.mu.Lock()
	if len(c.waiters) > 0 {
		c.waiters[0].signaled.Store(true)
		c.waiters = c.waiters[1:]
		c.mu.Unlock()
		sched.RaceOn()
		return
	}
	r := c.real
	c.mu.Unlock()
	sched.RaceOn()
	if r != nil {
		r.Signal()
	}
}

//go:norace
func (c *Cond) Broadcast() {
	sched.RaceOff()
	c.mu.Lock()
	for _, w := range c.waiters {
		w.signaled.Store(true)
	}
	c.waiters = nil
	r := c.real
	c.mu.Unlock()
	sched.RaceOn()
	if r != nil {
		r.Broadcast()
	}
}

// Once mirrors sync.Once with a schedulable lock.
type Once struct {
	done atomic.Uint32
	m    Mutex
}

func (o *Once) Do(f func()) {
	if o.done.Load() == 0 {
		o.m.Lock()
		defer o.m.Unlock()
		if o.done.Load() == 0 {
			defer o.done.Store(1)
			f()
		}
	}
}
