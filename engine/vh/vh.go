//go:build verif

// Package vh collects what a harness covered and found and hands it to the
// /verif driver (vcheck) as one JSON document per process.
package vh

import (
	"encoding/json"
	"fmt"
	"hash/fnv"
	"os"
	"sort"
	"strconv"
	"strings"
	"sync"
	"testing"
	"time"
)

// Violation is one property violation with everything needed to replay it.
type Violation struct {
	Key    string `json:"key"`    // mechanism classifier (matched against known findings)
	Detail string `json:"detail"` // human readable
	Replay any    `json:"replay"` // choice list / event list / input
}

// Report accumulates coverage for one property in one process.
type Report struct {
	mu          sync.Mutex
	ID          string           `json:"property_id"`
	Tier        string           `json:"tier"`
	Seed        int64            `json:"seed"`
	Shard       int              `json:"shard"`
	NShards     int              `json:"nshards"`
	Evaluations int64            `json:"evaluations"`
	Outcomes    map[string]int64 `json:"-"`
	OutcomeHash []uint64         `json:"outcome_hashes"` // distinct non-trivial outcome signatures (hashed, merged by driver)
	AllHash     []uint64         `json:"all_outcome_hashes"`
	Samples     []any            `json:"samples"`
	Violations  []Violation      `json:"violations"`
	ViolCount   map[string]int64 `json:"violation_counts"`
	Counters    map[string]int64 `json:"counters"`
	Info        map[string]any   `json:"info"`
	Exhaustive  bool             `json:"exhaustive"`
	Caps        []string         `json:"caps"`
	Rule        string           `json:"rule"`
	Assumptions []string         `json:"assumptions"`
	WallS       float64          `json:"wall_s"`
	start       time.Time
	nontriv     map[uint64]struct{}
	all         map[uint64]struct{}
	maxSamples  int
	t           testing.TB
}

// New starts a report. Environment: VERIF_TIER, VERIF_SEED, VERIF_OUT, VERIF_SHARD ("i/n").
func New(t testing.TB, id string) *Report {
	r := &Report{ID: id, Tier: Tier(), Seed: Seed(), NShards: 1, start: time.Now(), t: t,
		Outcomes: map[string]int64{}, ViolCount: map[string]int64{}, Counters: map[string]int64{}, Info: map[string]any{},
		nontriv: map[uint64]struct{}{}, all: map[uint64]struct{}{}, maxSamples: 6, Exhaustive: true}
	r.Shard, r.NShards = Shard()
	return r
}

func Tier() string {
	if v := os.Getenv("VERIF_TIER"); v == "thorough" {
		return "thorough"
	}
	return "quick"
}

func Thorough() bool { return Tier() == "thorough" }

func Seed() int64 {
	v, _ := strconv.ParseInt(os.Getenv("VERIF_SEED"), 10, 64)
	return v
}

// Shard returns (index, count) of this worker process.
func Shard() (int, int) {
	v := os.Getenv("VERIF_SHARD")
	if i := strings.IndexByte(v, '/'); i > 0 {
		a, _ := strconv.Atoi(v[:i])
		b, _ := strconv.Atoi(v[i+1:])
		if b > 0 && a >= 0 && a < b {
			return a, b
		}
	}
	return 0, 1
}

// Deadline returns the wall-clock instant at which the harness should stop
// exploring and report exhaustive=false (never a verdict).
func Deadline() time.Time {
	v, _ := strconv.Atoi(os.Getenv("VERIF_BUDGET_S"))
	if v <= 0 {
		if Thorough() {
			v = 780
		} else {
			v = 100
		}
	}
	return time.Now().Add(time.Duration(v) * time.Second)
}

// ReplayFile returns the path of a replay artefact to re-execute, if any.
func ReplayFile() string { return os.Getenv("VERIF_REPLAY") }

func h64(s string) uint64 {
	h := fnv.New64a()
	h.Write([]byte(s))
	return h.Sum64()
}

// Eval counts n evaluated cases.
func (r *Report) Eval(n int64) {
	r.mu.Lock()
	r.Evaluations += n
	r.mu.Unlock()
}

// Outcome records the outcome signature of a case; nontrivial per the harness rule.
func (r *Report) Outcome(sig string, nontrivial bool) {
	h := h64(sig)
	r.mu.Lock()
	r.all[h] = struct{}{}
	if nontrivial {
		r.nontriv[h] = struct{}{}
	}
	r.mu.Unlock()
}

// Sample keeps up to a handful of written-out cases.
func (r *Report) Sample(v any) {
	r.mu.Lock()
	if len(r.Samples) < r.maxSamples {
		r.Samples = append(r.Samples, v)
	}
	r.mu.Unlock()
}

// WantSample reports whether another sample would be kept.
func (r *Report) WantSample() bool {
	r.mu.Lock()
	defer r.mu.Unlock()
	return len(r.Samples) < r.maxSamples
}

// Count adds to a named counter (states, transitions, ...).
func (r *Report) Count(name string, n int64) {
	r.mu.Lock()
	r.Counters[name] += n
	r.mu.Unlock()
}

// SetInfo stores a descriptive value (bounds, alphabets).
func (r *Report) SetInfo(name string, v any) {
	r.mu.Lock()
	r.Info[name] = v
	r.mu.Unlock()
}

// Cap records that a bound/time cap cut the enumeration.
func (r *Report) Cap(what string) {
	r.mu.Lock()
	r.Exhaustive = false
	r.Caps = append(r.Caps, what)
	r.mu.Unlock()
}

// Violation records a violation; at most 3 replays are kept per key.
func (r *Report) Violation(key, detail string, replay any) {
	r.mu.Lock()
	r.ViolCount[key]++
	if r.ViolCount[key] <= 3 {
		r.Violations = append(r.Violations, Violation{Key: key, Detail: detail, Replay: replay})
	}
	r.mu.Unlock()
}

// Violationf is Violation with a formatted detail.
func (r *Report) Violationf(key string, replay any, format string, a ...any) {
	r.Violation(key, fmt.Sprintf(format, a...), replay)
}

// Finish writes the report to $VERIF_OUT (or stdout if unset).
func (r *Report) Finish() {
	r.mu.Lock()
	defer r.mu.Unlock()
	r.WallS = time.Since(r.start).Seconds()
	r.OutcomeHash = keys(r.nontriv)
	r.AllHash = keys(r.all)
	if r.Samples == nil {
		r.Samples = []any{}
	}
	b, err := json.Marshal(r)
	if err != nil {
		r.t.Fatalf("HARNESS-ERROR marshal report: %v", err)
	}
	out := os.Getenv("VERIF_OUT")
	if out == "" {
		fmt.Printf("VERIF-REPORT %s\n", b)
		return
	}
	if err := os.WriteFile(out, b, 0o644); err != nil {
		r.t.Fatalf("HARNESS-ERROR write report: %v", err)
	}
}

func keys(m map[uint64]struct{}) []uint64 {
	out := make([]uint64, 0, len(m))
	for k := range m {
		out = append(out, k)
	}
	sort.Slice(out, func(i, j int) bool { return out[i] < out[j] })
	if len(out) > 200000 {
		out = out[:200000]
	}
	return out
}

// LoadReplay decodes the replay artefact into v; ok=false when not replaying.
func LoadReplay(v any) (bool, error) {
	p := ReplayFile()
	if p == "" {
		return false, nil
	}
	b, err := os.ReadFile(p)
	if err != nil {
		return true, err
	}
	var doc struct {
		Replay json.RawMessage `json:"replay"`
	}
	if err := json.Unmarshal(b, &doc); err != nil {
		return true, err
	}
	return true, json.Unmarshal(doc.Replay, v)
}
