#!/bin/bash
# runall.sh <tier> [ids...]: run every check (or the given ones) sequentially in /verif, one summary line each.
tier=${1:-quick}; shift
ids="$@"; [ -z "$ids" ] && ids=$(ls checks.d | sed 's/.json//' | sort)
mkdir -p /verif/.runall
for id in $ids; do
  s=$(date +%s)
  ./vcheck $id --tier $tier > /verif/.runall/$id.$tier.log 2>&1; rc=$?
  e=$(date +%s)
  echo "$id $tier rc=$rc wall=$((e-s))s $(grep -c '^KNOWN-FINDING' /verif/.runall/$id.$tier.log) known; $(tail -1 /verif/.runall/$id.$tier.log | cut -c1-160)"
done
