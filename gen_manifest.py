#!/usr/bin/env python3
"""Generates MANIFEST.json from checks.json (+ not_applicable.json)."""
import json, os
V = os.path.dirname(os.path.abspath(__file__))
import glob
checks = {os.path.basename(p)[:-5]: json.load(open(p)) for p in sorted(glob.glob(os.path.join(V, "checks.d", "*.json")))}
props = [json.loads(l) for l in open(os.path.join(V, "properties.jsonl"))]
na_path = os.path.join(V, "not_applicable.json")
na = json.load(open(na_path)) if os.path.exists(na_path) else {}
baseline = json.load(open("/root/.vp/BASELINE.json"))["cmd"] if os.path.exists("/root/.vp/BASELINE.json") else ""
out = {
    "version": 1,
    "setup_cmd": "./setup.sh",
    "hooks": {
        "guard": "verif",
        "enable": "go test -tags verif -overlay <generated> : harness test files, engine packages under internal/verif and import-rewritten copies (sync -> vsync etc.) are injected by overlay; /repo carries no instrumentation",
        "baseline_off_cmd": baseline,
        "source_commits": [],
        "add_only": True,
    },
    "engines": [
        {"name": "sched", "path": "engine/sched", "kind_free_text": "cooperative scheduler over real goroutines in a testing/synctest bubble + preemption/deviation-bounded stateless DFS", "serves_properties": sorted(k for k, c in checks.items() if c.get("engine") == "E1")},
        {"name": "xstate", "path": "engine/xstate", "kind_free_text": "explicit-state BFS by history replay on the real objects, canonical state hashing", "serves_properties": sorted(k for k, c in checks.items() if c.get("engine") == "E2")},
        {"name": "enum", "path": "engine/enum", "kind_free_text": "bounded-exhaustive input/configuration enumeration against reference models", "serves_properties": sorted(k for k, c in checks.items() if c.get("engine") == "E3")},
    ],
    "checks": [],
    "not_applicable": [],
    "notes": "All checks: ./vcheck <ID> [--tier thorough]; replay: ./vcheck <ID> --replay <file>. Known findings: findings/known-findings.txt.",
}
for p in props:
    pid = p["id"]
    if pid in checks and not checks[pid].get("disabled"):
        c = checks[pid]
        out["checks"].append({
            "property_id": pid,
            "quick_cmd": "./vcheck %s --tier quick" % pid,
            "thorough_cmd": "./vcheck %s --tier thorough" % pid,
            "evidence_file": "/verif/evidence/%s.json" % pid,
            "replay_cmd_template": "./vcheck %s --replay {path} -v" % pid,
            "engine": c.get("engine", ""),
            "level_claimed": {"category": c["level"], "text": c.get("level_text", ""), "design_ref": c.get("design_ref", "DESIGN.md §4 " + pid)},
            "level_note": c.get("level_note", ""),
            "technique": c.get("technique", ""),
        })
    else:
        out["not_applicable"].append({"property_id": pid, "reason": na.get(pid, "check not built yet (work in progress)")})
json.dump(out, open(os.path.join(V, "MANIFEST.json"), "w"), indent=1)
print("checks=%d not_applicable=%d" % (len(out["checks"]), len(out["not_applicable"])))
