#!/usr/bin/env python3
"""Rewrites the fixed / known-finding lists of DESIGN.md §0.3 from findings/known-findings.txt."""
import re
lines = [l.rstrip("\n") for l in open("/verif/findings/known-findings.txt") if l.startswith(("fixed:", "known:"))]
fixed = ["* " + l[len("fixed: "):] for l in lines if l.startswith("fixed:")]
known = []
for l in lines:
    if l.startswith("known:"):
        m = re.match(r"known: (property=\S+ key=\S+) (.*)", l)
        known.append("* `known: %s` — %s" % (m.group(1), m.group(2)))
d = open("/verif/DESIGN.md").read()
a = d.index("check passes on the repaired tree and the entry suppresses nothing):")
a = d.index("\n", a) + 1
b = d.index("False alarms met while building")
mid = "\n" + "\n".join(fixed) + "\n\n**Known findings** (genuine, not repaired because the repair is a design decision or not small; listed in\n`findings/known-findings.txt` by mechanism key, so a different violation of the same property is still reported):\n\n" + "\n".join(known) + "\n\n"
open("/verif/DESIGN.md", "w").write(d[:a] + mid + d[b:])
print("fixed", len(fixed), "known", len(known))
