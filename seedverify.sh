#!/bin/bash
# seedverify.sh <SEED_ID>: in the seed's scratch worktree confirm that (1) the change builds, (2) the demonstration
# fails with the change and passes without it, (3) the existing tests of the touched packages (+ dependants given in
# meta.json tests) still pass with it. Prints VERIFIED or a reason.
id=$1; wt=/tmp/seed/$id; out=/tmp/seed/out/$id
export GOFLAGS=-mod=mod GOPROXY=off GOTOOLCHAIN=go1.25.2
cd $wt || exit 2
git checkout -q -- . ; git clean -fdq
git apply $out/patch.diff || { echo "NOT-VERIFIED $id: patch does not apply"; exit 1; }
pkgdir=$(python3 -c "import json;print(json.load(open('$out/meta.json'))['package_for_demo'])")
demo=$(python3 -c "import json;print(json.load(open('$out/meta.json'))['demo_run'])")
race=""; case "$demo" in *-race*) race="-race";; esac
if [ -f $out/demo_test.go ]; then
  names=$(grep -o '^func Test[A-Za-z0-9_]*' $out/demo_test.go | sed 's/^func //' | paste -sd'|')
  case $pkgdir in addons/processors/*) m=$(echo $pkgdir | cut -d/ -f1-3); sub=${pkgdir#$m/}; demo="cd $m && go test $race -vet=off -count=1 -run '^($names)\$' ./$sub/";;
  *) demo="go test $race -vet=off -count=1 -run '^($names)\$' ./$pkgdir/";; esac
fi
[ -f $out/demo_test.go ] && cp $out/demo_test.go $wt/$pkgdir/zz_seed_demo_test.go
withc=$( (eval "$demo") 2>&1 | tail -5 ); rc_with=$?
( eval "$demo" ) >/tmp/seed/out/$id/with.log 2>&1; rc_with=$?
git apply -R $out/patch.diff
( eval "$demo" ) >/tmp/seed/out/$id/without.log 2>&1; rc_without=$?
git apply $out/patch.diff
rm -f $wt/$pkgdir/zz_seed_demo_test.go
# existing tests of touched packages
moddirs=""; pk=""
for f in $(grep '^+++ b/' $out/patch.diff | sed 's#^+++ b/##'); do
  d=$(dirname $f)
  case $f in addons/processors/*) m=$(echo $f | cut -d/ -f1-3); (cd $m && go test -vet=off -count=1 ./... >/tmp/seed/out/$id/tests.log 2>&1); rc_tests=$?;;
  *) pk="$pk ./$d";; esac
done
if [ -n "$pk" ]; then go build ./... >/tmp/seed/out/$id/tests.log 2>&1 && go test -vet=off -count=1 $pk ./cmd/broker ./cmd/proxy >>/tmp/seed/out/$id/tests.log 2>&1; rc_tests=$?; fi
if [ $rc_with -ne 0 ] && [ $rc_without -eq 0 ] && [ ${rc_tests:-1} -eq 0 ]; then echo "VERIFIED $id (demo fails with change rc=$rc_with, passes without; existing tests pass)"; else echo "NOT-VERIFIED $id: with=$rc_with without=$rc_without tests=${rc_tests:-?}"; fi
