//go:build verif

package metadata

import (
	"fmt"
	"testing"

	"github.com/KafScale/platform/internal/verif/sched"
	"github.com/KafScale/platform/internal/verif/vh"
)

// C18, fine-grained part. lease_manager.go is built with sync -> vsync, so every acquisition of
// LeaseManager.mu is a scheduling point: the order in which monitorSession (after a session
// expiry) and a caller's getOrCreateSession / doAcquire / Release take the manager's mutex is
// explored, which the etcd-operation-granular part treats as atomic. Between an expiry and the
// holder's monitorSession the holder necessarily still believes it owns (notification latency),
// so the invariant is judged at quiescence only: after every thread, monitor and watcher has
// run, at most one broker believes it owns a resource.
func c18FineScenarios(thorough bool) []c18Scenario {
	sc := []c18Scenario{
		{Seqs: []string{"Aa", "A"}, Expire: []int{0}},
		{Seqs: []string{"AA", "A"}, Expire: []int{0}},
		{Seqs: []string{"AR", "A"}, Expire: []int{0}},
		{Seqs: []string{"Aa", "Aa"}, Expire: []int{0}},
		{Seqs: []string{"A", "A"}, Expire: []int{0}},
	}
	if thorough {
		sc = append(sc,
			c18Scenario{Seqs: []string{"Aa", "A", "A"}, Expire: []int{0}},
			c18Scenario{Seqs: []string{"AaR", "A"}, Expire: []int{0}},
			c18Scenario{Seqs: []string{"Aa", "Aa"}, Expire: []int{0, 1}},
			c18Scenario{Seqs: []string{"AX", "A"}, Expire: []int{0}},
		)
	}
	var out []c18Scenario
	for _, s := range sc {
		s.Fine = true
		out = append(out, s)
		s.Group = true
		out = append(out, s)
	}
	return out
}

func TestVerifC18Fine(t *testing.T) {
	rep := vh.New(t, "C18")
	defer rep.Finish()
	rep.Rule = "fine-grained part: for every closed system (per-broker op sequences x one session expiry): DFS (delay bound) over interleavings in which LeaseManager.mu acquisitions, etcd operations and the expiry are scheduling points; invariant |owners(r)|<=1 at quiescence; distinct = distinct (final owners, etcd contents); non-trivial = >=1 non-default thread choice"
	rep.Assumptions = []string{"fine-grained part: pkg/metadata/lease_manager.go built with sync -> vsync; transient double belief between an expiry and the holder's monitorSession is not judged (only the state after everything has run)"}
	bound := 3
	if vh.Thorough() {
		bound = 4
	}
	rep.SetInfo("delay_bound_fine_part", bound)
	deadline := vh.Deadline()
	shard, n := vh.Shard()
	var rp struct {
		Scenario c18Scenario
		Choices  []int
	}
	replaying, rerr := vh.LoadReplay(&rp)
	if rerr != nil {
		t.Fatalf("HARNESS-ERROR replay: %v", rerr)
	}
	if replaying {
		if !rp.Scenario.Fine {
			return
		}
		x := sched.RunOnce(t, sched.Config{}, rp.Choices, true, c18Body(rp.Scenario))
		fmt.Printf("REPLAY %s choices=%v\n steps=%v\n notes=%v\n fails=%+v\n", rp.Scenario, rp.Choices, x.Steps, x.Notes, x.Fails)
		rep.Eval(1)
		for _, f := range x.Fails {
			rep.Violation(f.Key, f.Detail, rp)
		}
		return
	}
	for i, sc := range c18FineScenarios(vh.Thorough()) {
		if i%n != shard {
			continue
		}
		sc := sc
		st := sched.Explore(t, sched.Config{MaxPreempt: bound, MaxDev: 0, Deadline: deadline, DelayBound: true}, c18Body(sc), func(x *sched.Exec) {
			rep.Eval(1)
			sw, _ := x.NonDefault()
			rep.Outcome(sc.String()+fmt.Sprint(x.Notes), sw > 0)
			if rep.WantSample() && sw > 1 {
				rep.Sample(map[string]any{"scenario": sc.String(), "choices": x.Choices, "outcome": x.Notes})
			}
			for _, f := range x.Fails {
				key := f.Key
				if key == "two-owners" {
					key = "two-owners-at-quiescence"
				}
				rep.Violation(key, sc.String()+": "+f.Detail, map[string]any{"Scenario": sc, "Choices": x.Choices})
			}
		})
		rep.Count("fine_executions", int64(st.Execs))
		if st.Capped {
			rep.Cap("deadline hit at fine scenario " + sc.String())
			break
		}
	}
}
