//go:build verif

package metadata

import (
	"context"
	"fmt"
	"runtime"
	"strings"
	"sync"
	"testing"

	"github.com/KafScale/platform/internal/verif/enum"
	"github.com/KafScale/platform/internal/verif/fakeetcd"
	"github.com/KafScale/platform/internal/verif/vh"
	metadatapb "github.com/KafScale/platform/pkg/gen/metadata"
)

// C22 (metadata half): for every pair of topic names accepted by topic creation, the
// metadata keys of partitions {0,1} are disjoint, and no key of one topic lies under a
// listing / deletion prefix of another. Every creation path of the broker (CreateTopics
// API, auto-create on produce / metadata) ends in Store.CreateTopic, so acceptance is
// decided by the two real stores.

func c22Names(thorough bool) []string {
	alphabet := []string{"a", "b", "/", ".", ":", "0", " "}
	maxLen := 3
	var out []string
	enum.Sequences(len(alphabet), maxLen, func(idx []int) bool {
		if len(idx) == 0 {
			return true
		}
		var sb strings.Builder
		for _, v := range idx {
			sb.WriteString(alphabet[v])
		}
		out = append(out, sb.String())
		return true
	})
	out = append(out, "", "..", "a/..", "a/../b", "a/0", "t/partitions/0", "a/partitions/0/next_offset", "a/config", "a:0", "a:1", "a:b", "A", "a_b", "a-b", "a.b", "a.kfs", "a.index", ".kfs", ".index", "a.kfs.index", "a.index.kfs", "segment-0", "a.kfst",
		strings.Repeat("a", 249), strings.Repeat("a", 250), "a\x00b", "a\nb", "é")
	return out
}

// c22Accepted reports whether both creation paths accept the name (in-memory store and
// etcd store over the fake etcd). A name accepted by either counts as accepted.
func c22Accepted(name string) bool {
	ctx := context.Background()
	mem := NewInMemoryStore(c21Meta(0))
	if _, err := mem.CreateTopic(ctx, TopicSpec{Name: name, NumPartitions: 2, ReplicationFactor: 1}); err == nil {
		return true
	}
	srv := fakeetcd.NewServer()
	cli := srv.NewClient("b1")
	cli.NoPoints = true
	es := VerifNewEtcdStore(cli.C, c21Meta(0), false)
	defer es.Close()
	_, err := es.CreateTopic(ctx, TopicSpec{Name: name, NumPartitions: 2, ReplicationFactor: 1})
	return err == nil
}

type c22Keys struct {
	keys     map[string]string // key -> description
	prefixes map[string]string // listing/deletion prefix -> description
}

func c22KeysOf(topic string) c22Keys {
	k := c22Keys{keys: map[string]string{}, prefixes: map[string]string{}}
	for _, p := range []int32{0, 1} {
		k.keys["etcd:"+offsetKey(topic, p)] = fmt.Sprintf("offsetKey(%q,%d)", topic, p)
		k.keys["etcd:"+PartitionStateKey(topic, p)] = fmt.Sprintf("PartitionStateKey(%q,%d)", topic, p)
		k.keys["etcd:"+partitionLeaseKey(topic, p)] = fmt.Sprintf("partitionLeaseKey(%q,%d)", topic, p)
		k.keys["etcd:"+consumerOffsetKey("g", topic, p)] = fmt.Sprintf("consumerOffsetKey(g,%q,%d)", topic, p)
		k.keys["mem-offsets:"+partitionKey(topic, p)] = fmt.Sprintf("partitionKey(%q,%d)", topic, p)
		k.keys["mem-consumer:"+consumerKey("g", topic, p)] = fmt.Sprintf("consumerKey(g,%q,%d)", topic, p)
	}
	k.keys["etcd:"+TopicConfigKey(topic)] = fmt.Sprintf("TopicConfigKey(%q)", topic)
	// prefixes the stores use to delete / list a topic's keys
	k.prefixes["etcd:"+fmt.Sprintf("/kafscale/topics/%s/", topic)] = fmt.Sprintf("EtcdStore.deleteTopicOffsets prefix of %q", topic)
	k.prefixes["mem-offsets:"+topic+":"] = fmt.Sprintf("InMemoryStore.DeleteTopic prefix of %q", topic)
	return k
}

// c22DeleteLeavesOther creates topics a and b on both real stores, gives b per-topic state
// (offset, config, an added partition, a committed consumer offset), deletes a and checks
// that nothing of b changed.
func c22DeleteLeavesOther(a, b string) (string, string) {
	ctx := context.Background()
	// etcd store over the fake etcd
	srv := fakeetcd.NewServer()
	cli := srv.NewClient("b1")
	cli.NoPoints = true
	es := VerifNewEtcdStore(cli.C, c21Meta(0), false)
	defer es.Close()
	mem := NewInMemoryStore(c21Meta(0))
	for _, st := range []Store{es, mem} {
		for _, n := range []string{a, b} {
			if _, err := st.CreateTopic(ctx, TopicSpec{Name: n, NumPartitions: 1, ReplicationFactor: 1}); err != nil {
				return "", ""
			}
		}
		_ = st.UpdateOffsets(ctx, b, 0, 41)
		_ = st.UpdateTopicConfig(ctx, &metadatapb.TopicConfig{Name: b, Partitions: 1, ReplicationFactor: 1, RetentionMs: 120000, SegmentBytes: 1 << 20})
		_ = st.CreatePartitions(ctx, b, 2)
		_ = st.CommitConsumerOffset(ctx, "g", b, 0, 7, "m")
	}
	before := srv.Dump("/kafscale/")
	if err := es.DeleteTopic(ctx, a); err != nil {
		return "", ""
	}
	_ = mem.DeleteTopic(ctx, a)
	after := srv.Dump("/kafscale/")
	for k := range before {
		if _, ok := after[k]; ok {
			continue
		}
		// keys that name topic a itself may go; anything else belonged to b (or is shared)
		if k == TopicConfigKey(a) || k == offsetKey(a, 0) || k == PartitionStateKey(a, 0) {
			continue
		}
		return "delete-topic-removed-other-topics-key", fmt.Sprintf("DeleteTopic(%q) removed etcd key %s while topic %q exists", a, k, b)
	}
	for name, st := range map[string]Store{"etcd": es, "inmem": mem} {
		if n, err := st.NextOffset(ctx, b, 0); err != nil || n != 42 {
			return "delete-topic-changed-other-topics-offset", fmt.Sprintf("%s store: after DeleteTopic(%q), NextOffset(%q,0) = %d, %v (want 42)", name, a, b, n, err)
		}
		if c, err := st.FetchTopicConfig(ctx, b); err != nil || c.RetentionMs != 120000 {
			return "delete-topic-changed-other-topics-config", fmt.Sprintf("%s store: after DeleteTopic(%q), config of %q = %v, %v", name, a, b, c, err)
		}
		if off, meta, err := st.FetchConsumerOffset(ctx, "g", b, 0); err != nil || off != 7 || meta != "m" {
			return "delete-topic-changed-other-topics-consumer-offset", fmt.Sprintf("%s store: after DeleteTopic(%q), committed offset of g on %q = %d/%q, %v", name, a, b, off, meta, err)
		}
		m, err := st.Metadata(ctx, []string{b})
		if err != nil || len(m.Topics) != 1 || m.Topics[0].ErrorCode != 0 || len(m.Topics[0].Partitions) != 2 {
			return "delete-topic-changed-other-topic", fmt.Sprintf("%s store: after DeleteTopic(%q), metadata of %q = %+v, %v", name, a, b, m, err)
		}
	}
	return "", ""
}

func TestVerifC22(t *testing.T) {
	rep := vh.New(t, "C22")
	defer rep.Finish()
	rep.Rule = "all topic names of length <=3 over {a,b,/,.,:,0,space} plus crafted names; acceptance decided by the real InMemoryStore/EtcdStore CreateTopic; for every ordered pair of distinct accepted names: metadata key sets (partitions 0,1) disjoint and no key of one under a delete/list prefix of the other; distinct = distinct accepted pairs; non-trivial = both names accepted"
	names := c22Names(vh.Thorough())
	var accepted []string
	seenName := map[string]bool{}
	for _, n := range names {
		if seenName[n] {
			continue
		}
		seenName[n] = true
		if c22Accepted(n) {
			accepted = append(accepted, n)
		}
	}
	rep.SetInfo("names", len(names))
	rep.SetInfo("accepted", len(accepted))
	rep.Count("names_enumerated", int64(len(names)))
	rep.Count("names_accepted", int64(len(accepted)))
	keys := make([]c22Keys, len(accepted))
	for i, n := range accepted {
		keys[i] = c22KeysOf(n)
	}
	class := func(n string) string {
		switch {
		case strings.Contains(n, "/"):
			return "separator"
		case strings.Contains(n, ":"):
			return "colon"
		case strings.Trim(n, ".") == "" && n != "":
			return "dot-segment"
		case strings.TrimSpace(n) == "":
			return "blank"
		}
		return "other"
	}
	for i := range accepted {
		for j := range accepted {
			if i == j {
				continue
			}
			rep.Eval(1)
			a, b := accepted[i], accepted[j]
			rep.Outcome(a+"\x00"+b, true)
			for k, da := range keys[i].keys {
				if db, ok := keys[j].keys[k]; ok && i < j {
					rep.Violationf("metadata-key-shared:"+class(a)+"+"+class(b), []string{a, b}, "topics %q and %q share key %s (%s / %s)", a, b, k, da, db)
				}
				for pfx, dp := range keys[j].prefixes {
					if strings.HasPrefix(k, pfx) {
						rep.Violationf("metadata-key-under-foreign-prefix:"+class(a)+"+"+class(b), []string{a, b}, "key %s (%s) of topic %q lies under %s", k, da, a, dp)
					}
				}
			}
		}
	}
	if len(accepted) >= 2 {
		rep.Sample(map[string]any{"accepted_examples": accepted[:min(8, len(accepted))]})
	}
	// Behavioural half: deleting topic a through the real stores must leave every key and
	// every observable value of any other accepted topic b intact (the deletion ranges are
	// taken from the code as it runs, not from a copy of the key scheme).
	type pair struct{ a, b string }
	jobs := make(chan pair, 256)
	var wg sync.WaitGroup
	var mu sync.Mutex
	pairsDone := 0
	for w := 0; w < runtime.GOMAXPROCS(0); w++ {
		wg.Add(1)
		go func() {
			defer wg.Done()
			for pr := range jobs {
				key, detail := c22DeleteLeavesOther(pr.a, pr.b)
				mu.Lock()
				pairsDone++
				if key != "" {
					rep.Violationf(key+":"+class(pr.a)+"+"+class(pr.b), []string{pr.a, pr.b}, "%s", detail)
				}
				mu.Unlock()
			}
		}()
	}
	for _, a := range accepted {
		for _, b := range accepted {
			if a != b {
				jobs <- pair{a, b}
			}
		}
	}
	close(jobs)
	wg.Wait()
	rep.Eval(int64(pairsDone))
	rep.Count("delete_pairs_executed", int64(pairsDone))
	// a rejected name is fine; an accepted name that is not a plain Kafka name is reported once per class
	for _, n := range accepted {
		if c := class(n); c != "other" {
			rep.Count("accepted_"+c, 1)
		}
	}
}
