//go:build verif

package metadata

import (
	"context"

	clientv3 "go.etcd.io/etcd/client/v3"
)

// VerifNewEtcdStore mirrors NewEtcdStore minus the dial: it builds an EtcdStore on an
// already constructed client (the /verif fake etcd). Only compiled with -tags verif.
func VerifNewEtcdStore(cli *clientv3.Client, snapshot ClusterMetadata, watch bool) *EtcdStore {
	store := &EtcdStore{client: cli, metadata: NewInMemoryStore(snapshot), available: 1}
	_ = store.refreshSnapshot(context.Background())
	if watch {
		store.startWatchers()
	}
	return store
}
