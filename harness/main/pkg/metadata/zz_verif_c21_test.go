//go:build verif

package metadata

import (
	"context"
	"encoding/json"
	"fmt"
	"sort"
	"strings"
	"testing"
	"time"

	"github.com/KafScale/platform/internal/verif/enum"
	"github.com/KafScale/platform/internal/verif/fakeetcd"
	"github.com/KafScale/platform/internal/verif/sched"
	"github.com/KafScale/platform/internal/verif/vh"
	"github.com/KafScale/platform/pkg/protocol"
)

// C21 (broker half): acknowledged topic creations / partition growth are never lost by
// later admin operations on other brokers or by snapshot watch refreshes.
//
// Closed system: two real EtcdStores (brokers) over one fake etcd, each with its
// snapshot watcher running; one thread per broker runs a short admin op sequence.
// Scheduling points: persistMu (held across etcd calls => vsync), every etcd
// operation, Watch establishment and every watch delivery.

type c21Scenario struct {
	Initial int      // partitions of topic t1 existing before anything starts (0 = absent)
	Seqs    []string // per broker: 'C' create t1(1), 'c' create t2(1), 'G' grow t1 to 2, 'H' grow t1 to 3, 'D' delete t1, 'd' delete t2
}

func (sc c21Scenario) String() string {
	return fmt.Sprintf("init=%d|%s", sc.Initial, strings.Join(sc.Seqs, ","))
}

// c21NewStore mirrors NewEtcdStore minus the dial.
func c21NewStore(cli *fakeetcd.Client, snapshot ClusterMetadata) *EtcdStore {
	store := &EtcdStore{client: cli.C, metadata: NewInMemoryStore(snapshot), available: 1}
	_ = store.refreshSnapshot(context.Background())
	store.startWatchers()
	return store
}

func c21Meta(n int) ClusterMetadata {
	cid := "verif"
	m := ClusterMetadata{Brokers: []protocol.MetadataBroker{{NodeID: 1, Host: "h", Port: 1}}, ControllerID: 1, ClusterID: &cid}
	if n > 0 {
		name := "t1"
		var parts []protocol.MetadataPartition
		for p := 0; p < n; p++ {
			parts = append(parts, protocol.MetadataPartition{Partition: int32(p), Leader: 1, Replicas: []int32{1}, ISR: []int32{1}})
		}
		m.Topics = append(m.Topics, protocol.MetadataTopic{Topic: &name, TopicID: TopicIDForName(name), Partitions: parts})
	}
	return m
}

func c21Counts(m *ClusterMetadata) map[string]int {
	out := map[string]int{}
	for _, t := range m.Topics {
		if t.ErrorCode == 0 && t.Topic != nil {
			out[*t.Topic] = len(t.Partitions)
		}
	}
	return out
}

func c21Body(sc c21Scenario) func(s *sched.Sched) {
	return func(s *sched.Sched) {
		srv := fakeetcd.NewServer()
		if sc.Initial > 0 {
			b, _ := json.Marshal(c21Meta(sc.Initial))
			_ = srv.DirectPut(snapshotKey(), string(b), 0)
		}
		var stores []*EtcdStore
		for i := range sc.Seqs {
			cli := srv.NewClient(fmt.Sprintf("b%d", i+1))
			stores = append(stores, c21NewStore(cli, c21Meta(0)))
		}
		acked := map[string]int{} // topic -> largest acknowledged partition count
		acker := map[string]int{} // topic -> broker index that acknowledged that count
		deleted := map[string]bool{}
		for _, q := range sc.Seqs {
			if strings.Contains(q, "D") {
				deleted["t1"] = true
			}
			if strings.Contains(q, "d") {
				deleted["t2"] = true
			}
		}
		ack := func(topic string, n int, broker int) {
			if n > acked[topic] {
				acked[topic] = n
				acker[topic] = broker
			}
		}
		if sc.Initial > 0 {
			ack("t1", sc.Initial, -1)
		}
		// monitor: the broker that acknowledged a creation/growth must keep serving it at
		// every later step (other brokers may lag behind their watch stream)
		type forgotT struct{ broker, n int }
		forgot := map[string]forgotT{}
		s.StepHook = func() {
			for topic, n := range acked {
				b, ok := acker[topic]
				if !ok || b < 0 || deleted[topic] {
					continue
				}
				m, err := stores[b].Metadata(context.Background(), nil)
				if err != nil {
					continue
				}
				if got := c21Counts(m)[topic]; got < n {
					if _, seen := forgot[topic]; !seen {
						forgot[topic] = forgotT{broker: b, n: n}
					}
				}
			}
		}
		for i, q := range sc.Seqs {
			st := stores[i]
			q := q
			i := i
			s.Go(fmt.Sprintf("B%d", i+1), func() {
				ctx := context.Background()
				for _, op := range []byte(q) {
					switch op {
					case 'C':
						if _, err := st.CreateTopic(ctx, TopicSpec{Name: "t1", NumPartitions: 1, ReplicationFactor: 1}); err == nil {
							ack("t1", 1, i)
						}
					case 'c':
						if _, err := st.CreateTopic(ctx, TopicSpec{Name: "t2", NumPartitions: 1, ReplicationFactor: 1}); err == nil {
							ack("t2", 1, i)
						}
					case 'G':
						if err := st.CreatePartitions(ctx, "t1", 2); err == nil {
							ack("t1", 2, i)
						}
					case 'H':
						if err := st.CreatePartitions(ctx, "t1", 3); err == nil {
							ack("t1", 3, i)
						}
					case 'D':
						_ = st.DeleteTopic(ctx, "t1")
					case 'd':
						_ = st.DeleteTopic(ctx, "t2")
					}
				}
			})
		}
		s.Run()
		if s.Deadlock {
			s.Fail("deadlock", "blocked: %s", s.Blocked())
		}
		// quiescent: every watch delivery has run. Acknowledged and never-deleted topics must
		// be everywhere with at least the acknowledged partition count.
		views := map[string]map[string]int{}
		for i, st := range stores {
			m, err := st.Metadata(context.Background(), nil)
			if err == nil {
				views[fmt.Sprintf("b%d", i+1)] = c21Counts(m)
			}
		}
		if raw, ok := srv.Get(snapshotKey()); ok {
			var m ClusterMetadata
			if json.Unmarshal([]byte(raw), &m) == nil {
				views["etcd"] = c21Counts(&m)
			}
		} else {
			views["etcd"] = map[string]int{}
		}
		// who wrote the snapshot that dropped / shrank a topic? (mechanism classifier)
		culprit := func(topic string, n int) string {
			had := false
			for _, op := range srv.Ops() {
				if op.Key != snapshotKey() || (op.Op != "Put" && op.Op != "TxnPut") {
					continue
				}
				var m ClusterMetadata
				if json.Unmarshal([]byte(op.Value), &m) != nil {
					continue
				}
				got := c21Counts(&m)[topic]
				if got >= n {
					had = true
				} else if had {
					return op.Who
				}
			}
			return ""
		}
		for topic, f := range forgot {
			if !deleted[topic] {
				who := culprit(topic, f.n)
				mech := "acking-broker-forgot-acked-topic"
				if who != "" && who != fmt.Sprintf("b%d", f.broker+1) {
					mech = "acking-broker-forgot-after-foreign-overwrite"
				}
				s.Fail(mech, "broker b%d acknowledged %s with %d partitions and later served fewer (overwriting snapshot writer: %q)", f.broker+1, topic, f.n, who)
			}
		}
		names := make([]string, 0, len(views))
		for v := range views {
			names = append(names, v)
		}
		sort.Strings(names)
		for topic, n := range acked {
			if deleted[topic] {
				continue
			}
			for _, v := range names {
				got, ok := views[v][topic]
				who := culprit(topic, n)
				own := who != "" && acker[topic] >= 0 && who == fmt.Sprintf("b%d", acker[topic]+1)
				suffix := ""
				if own {
					suffix = ":overwritten-by-acking-broker"
				}
				if !ok {
					s.Fail("acked-topic-lost"+suffix, "topic %s (acked with %d partitions) missing in %s (snapshot overwritten by %q); views=%v", topic, n, v, who, views)
				} else if got < n {
					s.Fail("acked-growth-lost"+suffix, "topic %s acked with %d partitions but %s has %d (snapshot overwritten by %q); views=%v", topic, n, v, got, who, views)
				}
			}
		}
		s.Note("acked=%v views=%v", acked, views)
		for _, st := range stores {
			_ = st.Close()
		}
		time.Sleep(3 * time.Second)
	}
}

func c21Scenarios(thorough bool) []c21Scenario {
	var out []c21Scenario
	add := func(init int, a, b string) {
		if !thorough && (len(a)+len(b) > 3 || (len(a) > 0 && len(b) > 0 && len(a)+len(b) > 2)) {
			return // quick: two operations in total across both brokers, three on a single broker
		}
		out = append(out, c21Scenario{Initial: init, Seqs: []string{a, b}})
	}
	// absent t1: creations on both brokers
	al0 := []byte{'C', 'c', 'G', 'D'}
	var seq0 []string
	maxLen := 2
	enum.Sequences(len(al0), maxLen, func(idx []int) bool {
		b := make([]byte, len(idx))
		for i, v := range idx {
			b[i] = al0[v]
		}
		seq0 = append(seq0, string(b))
		return true
	})
	for _, a := range seq0 {
		for _, b := range seq0 {
			if a == "" && b == "" {
				continue
			}
			add(0, a, b)
		}
	}
	// existing t1 with 1 partition: growth vs other ops
	al1 := []byte{'G', 'H', 'c', 'd'}
	var seq1 []string
	enum.Sequences(len(al1), maxLen, func(idx []int) bool {
		b := make([]byte, len(idx))
		for i, v := range idx {
			b[i] = al1[v]
		}
		seq1 = append(seq1, string(b))
		return true
	})
	for _, a := range seq1 {
		for _, b := range seq1 {
			if a == "" && b == "" {
				continue
			}
			add(1, a, b)
		}
	}
	// one active broker (the other only watches), three operations
	al3 := []byte{'C', 'c', 'G', 'd'}
	enum.Sequences(len(al3), 3, func(idx []int) bool {
		if len(idx) != 3 {
			return true
		}
		b := make([]byte, 3)
		for i, v := range idx {
			b[i] = al3[v]
		}
		add(0, string(b), "")
		return true
	})
	return out
}

func TestVerifC21(t *testing.T) {
	rep := vh.New(t, "C21")
	defer rep.Finish()
	rep.Rule = "broker half: for every pair of admin op sequences (<=2 ops each over create t1/t2, grow t1, delete) on two real EtcdStores sharing a fake etcd, from 'no topics' and from 't1 with 1 partition': DFS over interleavings at persistMu/etcd-operation/watch-delivery granularity (delay bound: every deviation from the default thread order counts); at quiescence every acknowledged, never-deleted topic must be present in both brokers' Metadata and in the etcd snapshot with >= the acknowledged partition count. operator half: exhaustive mergeSnapshots inputs. distinct = distinct (acked, views) per scenario; non-trivial = >=1 thread switch"
	rep.Assumptions = []string{"stores are constructed like NewEtcdStore minus the dial (in-package mirror)", "fake etcd stands for etcd", "topics for which any delete is issued in the scenario are not judged"}
	P := 2
	if vh.Thorough() {
		P = 3
	}
	rep.SetInfo("delay_bound", P)
	deadline := vh.Deadline()
	shard, n := vh.Shard()
	// delay bounding: with two watch pumps and two watcher goroutines next to the two
	// brokers, switches at blocking points alone make the preemption-bounded space explode
	cfg := sched.Config{MaxPreempt: P, MaxDev: 0, Deadline: deadline, MaxIdle: 1, IdleStep: time.Millisecond, DelayBound: true}
	var rp struct {
		Scenario c21Scenario
		Choices  []int
	}
	replaying, rerr := vh.LoadReplay(&rp)
	if rerr != nil {
		t.Fatalf("HARNESS-ERROR replay: %v", rerr)
	}
	if replaying {
		x := sched.RunOnce(t, cfg, rp.Choices, true, c21Body(rp.Scenario))
		fmt.Printf("REPLAY %s choices=%v\n steps=%v\n notes=%v\n fails=%+v\n", rp.Scenario, rp.Choices, x.Steps, x.Notes, x.Fails)
		rep.Eval(1)
		for _, f := range x.Fails {
			rep.Violation(c21Key(f.Key, rp.Scenario), f.Detail, rp)
		}
		return
	}
	scs := c21Scenarios(vh.Thorough())
	rep.SetInfo("scenarios", len(scs))
	for i, sc := range scs {
		if i%n != shard {
			continue
		}
		sc := sc
		st := sched.Explore(t, cfg, c21Body(sc), func(x *sched.Exec) {
			rep.Eval(1)
			sw, _ := x.NonDefault()
			rep.Outcome(sc.String()+fmt.Sprint(x.Notes), sw > 0)
			if rep.WantSample() && sw > 1 {
				rep.Sample(map[string]any{"scenario": sc.String(), "choices": x.Choices, "outcome": x.Notes})
			}
			for _, f := range x.Fails {
				rep.Violation(c21Key(f.Key, sc), sc.String()+": "+f.Detail, map[string]any{"Scenario": sc, "Choices": x.Choices})
			}
		})
		rep.Count("executions", int64(st.Execs))
		if st.Capped {
			rep.Cap("deadline hit at scenario " + sc.String())
			break
		}
	}
}

// c21Key refines a violation key by mechanism: whether both brokers wrote (cross-broker
// blind snapshot put) or a single broker lost its own update to its watcher refresh.
func c21Key(key string, sc c21Scenario) string {
	if strings.Contains(key, "overwritten-by-acking-broker") || strings.HasPrefix(key, "acking-broker-forgot") || key == "deadlock" || key == "harness" {
		return key
	}
	writers := 0
	for _, q := range sc.Seqs {
		if q != "" {
			writers++
		}
	}
	if writers >= 2 {
		return key + ":cross-broker-blind-snapshot-put"
	}
	return key + ":single-broker-vs-own-watch-refresh"
}
