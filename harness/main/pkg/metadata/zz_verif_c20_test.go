//go:build verif

package metadata

import (
	"context"
	"fmt"
	"sort"
	"strings"
	"testing"
	"time"

	"github.com/KafScale/platform/internal/verif/enum"
	"github.com/KafScale/platform/internal/verif/fakeetcd"
	"github.com/KafScale/platform/internal/verif/sched"
	"github.com/KafScale/platform/internal/verif/vh"
)

// C20: after any sequence of lease changes and watch-stream interruptions, once
// changes stop, the routing tables match the owners recorded in etcd.
//
// Closed system: one real PartitionRouter or GroupRouter over the fake etcd, started
// by thread R; an ENV thread applies a sequence of lease puts/deletes; the router's
// etcd operations (Get, Watch establishment) and every watch delivery are scheduling
// points; a delivery may instead break the stream. After the run the controller lets
// virtual time pass so reconnect loops finish, then compares table and etcd.

type c20Scenario struct {
	Group   bool
	Initial string // changes applied before anything starts
	Changes string // ENV thread: 'A' put k1=b1, 'B' put k1=b2, 'D' delete k1, 'a' put k2=b1, 'd' delete k2, 'C' etcd compacts its history up to the current revision
	Break   bool   // offer watch-stream breaks
	FailGet bool   // after start-up, etcd reads of the router may fail (the reload after a stream break)
	// Large > 0: large-keyspace world. Large leases (zero-padded names, all owned by b1) are in etcd before
	// anything starts, so a client that paginates big range reads needs several requests for one full read.
	// Changes there: 'F' re-assigns the first lease (in key order) to b2, 'L' deletes the last-but-one lease,
	// 'l' puts it back owned by b2, 'N' creates a new lease that sorts right after the first one.
	Large int `json:",omitempty"`
}

func (sc c20Scenario) String() string {
	if sc.Large > 0 {
		return fmt.Sprintf("group=%v|large-keyspace=%d|chg=%s|break=%v", sc.Group, sc.Large, sc.Changes, sc.Break)
	}
	if sc.FailGet {
		return fmt.Sprintf("group=%v|init=%s|chg=%s|break=%v|reload-may-fail", sc.Group, sc.Initial, sc.Changes, sc.Break)
	}
	return fmt.Sprintf("group=%v|init=%s|chg=%s|break=%v", sc.Group, sc.Initial, sc.Changes, sc.Break)
}

// c20LargeKey is the i-th lease key (in key order) of the large-keyspace world.
func c20LargeKey(group bool, i int) string {
	if group {
		return fmt.Sprintf("%s/g-%04d", groupLeasePrefix, i)
	}
	return fmt.Sprintf("%s/t%04d/0", partitionLeasePrefix, i)
}

func c20ApplyLarge(srv *fakeetcd.Server, sc c20Scenario, ch byte) {
	switch ch {
	case 'F':
		_ = srv.DirectPut(c20LargeKey(sc.Group, 0), "b2", 0)
	case 'L':
		srv.DirectDelete(c20LargeKey(sc.Group, sc.Large-2))
	case 'l':
		_ = srv.DirectPut(c20LargeKey(sc.Group, sc.Large-2), "b2", 0)
	case 'N':
		if sc.Group {
			_ = srv.DirectPut(groupLeasePrefix+"/g-0000a", "b2", 0)
		} else {
			_ = srv.DirectPut(partitionLeasePrefix+"/t0000/1", "b2", 0)
		}
	}
}

// c20Diff lists the entries in which two tables differ (the large-keyspace tables are too big to print).
func c20Diff(got, want map[string]string) []string {
	var out []string
	for k, v := range want {
		if g, ok := got[k]; !ok {
			out = append(out, k+": table has no route, etcd "+v)
		} else if g != v {
			out = append(out, k+": table "+g+", etcd "+v)
		}
	}
	for k, g := range got {
		if _, ok := want[k]; !ok {
			out = append(out, k+": table "+g+", etcd has no lease")
		}
	}
	sort.Strings(out)
	return out
}

func c20Apply(srv *fakeetcd.Server, group bool, ch byte) {
	k1, k2 := partitionLeasePrefix+"/t/0", partitionLeasePrefix+"/t/1"
	if group {
		k1, k2 = groupLeasePrefix+"/g1", groupLeasePrefix+"/g2"
	}
	switch ch {
	case 'A':
		_ = srv.DirectPut(k1, "b1", 0)
	case 'B':
		_ = srv.DirectPut(k1, "b2", 0)
	case 'D':
		srv.DirectDelete(k1)
	case 'a':
		_ = srv.DirectPut(k2, "b1", 0)
	case 'd':
		srv.DirectDelete(k2)
	case 'C':
		srv.Compact(0)
	}
}

func c20Body(sc c20Scenario) func(s *sched.Sched) {
	return func(s *sched.Sched) {
		srv := fakeetcd.NewServer()
		for _, ch := range []byte(sc.Initial) {
			c20Apply(srv, sc.Group, ch)
		}
		for i := 0; i < sc.Large; i++ {
			_ = srv.DirectPut(c20LargeKey(sc.Group, i), "b1", 0)
		}
		cli := srv.NewClient("r")
		cli.BreakWatch = sc.Break
		ctx, cancel := context.WithCancel(context.Background())
		var pr *PartitionRouter
		var gr *GroupRouter
		var startErr error
		s.Go("R", func() {
			if sc.Group {
				gr, startErr = NewGroupRouter(ctx, cli.C, c18Logger())
			} else {
				pr, startErr = NewPartitionRouter(ctx, cli.C, c18Logger())
			}
			// start-up must succeed (a router that cannot load does not start); later reads may fail
			cli.FailOps = sc.FailGet
		})
		s.Go("ENV", func() {
			for _, ch := range []byte(sc.Changes) {
				sched.Env("env.change")
				if sc.Large > 0 {
					c20ApplyLarge(srv, sc, ch)
					continue
				}
				c20Apply(srv, sc.Group, ch)
			}
		})
		s.Run()
		if s.Deadlock {
			s.Fail("deadlock", "blocked: %s", s.Blocked())
		}
		if s.Livelock {
			s.Fail("router-never-quiesces", "the router is still taking steps (re-watching / reloading) after %d scheduling steps with no environment change pending", 20000)
		}
		if startErr != nil {
			s.Fail("harness", "router start: %v", startErr)
			cancel()
			return
		}
		// changes have stopped and every pending delivery / reconnect has run
		want := map[string]string{}
		prefix := partitionLeasePrefix + "/"
		if sc.Group {
			prefix = groupLeasePrefix + "/"
		}
		for k, v := range srv.Dump(prefix) {
			want[strings.TrimPrefix(k, prefix)] = v
		}
		got := map[string]string{}
		if sc.Group {
			for _, r := range gr.AllRoutes() {
				got[r.GroupID] = r.BrokerID
			}
		} else {
			for _, r := range pr.AllRoutes() {
				got[fmt.Sprintf("%s/%d", r.Topic, r.Partition)] = r.BrokerID
			}
		}
		if sc.Large > 0 {
			// same oracle, compact printing: the table must equal etcd entry by entry
			if d := c20Diff(got, want); len(d) > 0 {
				s.Fail("router-diverged", "routing table (%d routes) != etcd (%d leases): %v", len(got), len(want), d)
			}
			notB1 := map[string]string{}
			for k, v := range got {
				if v != "b1" {
					notB1[k] = v
				}
			}
			s.Note("routes=%d not-b1=%v", len(got), sortedKV(notB1))
			cancel()
			if pr != nil {
				pr.Stop()
			}
			if gr != nil {
				gr.Stop()
			}
			time.Sleep(3 * time.Second)
			return
		}
		if fmt.Sprint(sortedKV(got)) != fmt.Sprint(sortedKV(want)) {
			key := "router-diverged"
			s.Fail(key, "routing table %v != etcd %v", sortedKV(got), sortedKV(want))
		}
		s.Note("table=%v", sortedKV(got))
		cancel()
		if pr != nil {
			pr.Stop()
		}
		if gr != nil {
			gr.Stop()
		}
		// let the watch goroutine observe cancellation (it may be in its 1 s reconnect sleep)
		time.Sleep(3 * time.Second)
	}
}

func sortedKV(m map[string]string) []string {
	out := make([]string, 0, len(m))
	for k, v := range m {
		out = append(out, k+"="+v)
	}
	sort.Strings(out)
	return out
}

func c20Scenarios(thorough bool) []c20Scenario {
	alphabet := []byte{'A', 'B', 'D', 'a'}
	maxLen := 2
	if thorough {
		maxLen = 3
	}
	var out []c20Scenario
	for _, group := range []bool{false, true} {
		for _, init := range []string{"", "A", "Aa"} {
			enum.Sequences(len(alphabet), maxLen, func(idx []int) bool {
				b := make([]byte, len(idx))
				for i, v := range idx {
					b[i] = alphabet[v]
				}
				for _, br := range []bool{false, true} {
					out = append(out, c20Scenario{Group: group, Initial: init, Changes: string(b), Break: br})
				}
				// stream break followed by a failing reload: the table the router keeps serving from, plus
				// the catch-up from its last loaded revision, must still converge
				if len(b) <= 1 || thorough {
					out = append(out, c20Scenario{Group: group, Initial: init, Changes: string(b), Break: true, FailGet: true})
				}
				return true
			})
		}
	}
	// etcd compacts its history while a watch stream is down: resuming from an old revision is refused
	// (ErrCompacted), only a fresh full read converges
	// (a resume revision is refused only if it lies strictly below the compact revision: two changes, the
	// first lost with the broken stream, then the compaction)
	comp := []string{"BC", "BaC", "BDC", "CB", "BCa"}
	if thorough {
		comp = append(comp, "aBC", "BCB", "DCA", "BaCD", "BAC", "DaC")
	}
	for _, group := range []bool{false, true} {
		for _, init := range []string{"A", "Aa"} {
			for _, ch := range comp {
				out = append(out, c20Scenario{Group: group, Initial: init, Changes: ch, Break: true})
			}
		}
	}
	return append(out, c20LargeScenarios(thorough)...)
}

// c20LargeScenarios: keyspace-size dimension. etcd clients commonly read big ranges in pages; a full read
// that takes several requests is not atomic unless the reader pins it to one revision and resumes the
// watch from that revision. The world holds a few hundred leases before the router starts; one changer
// re-assigns the first lease, deletes / re-creates one near the end, or creates one sorting near the front,
// racing with router start-up (and the reload after a stream break) at etcd-operation granularity.
func c20LargeScenarios(thorough bool) []c20Scenario {
	sizes := []int{300}
	changes := []string{"F", "L", "FL", "LF", "N", "FLl"}
	if thorough {
		sizes = []int{300, 1100}
		changes = append(changes, "Ll", "NF", "FN", "LlF", "FNL")
	}
	var out []c20Scenario
	for _, n := range sizes {
		for _, group := range []bool{false, true} {
			for _, ch := range changes {
				for _, br := range []bool{false, true} {
					out = append(out, c20Scenario{Group: group, Changes: ch, Break: br, Large: n})
				}
			}
		}
	}
	return out
}

func TestVerifC20(t *testing.T) {
	rep := vh.New(t, "C20")
	defer rep.Finish()
	rep.Rule = "for every closed system (initial leases x sequence of lease puts/deletes/compactions x router kind x breaks allowed x reload reads may fail; plus large-keyspace worlds: a few hundred pre-loaded leases x changer sequences on the first / last-but-one / a new front lease): DFS over interleavings of router start-up (Get, Watch establishment), environment changes and watch deliveries, with stream-break decisions (deviation bound); after quiescence + virtual time for reconnects the table must equal etcd; distinct = distinct final tables per scenario; non-trivial = >=1 thread switch or break"
	rep.Assumptions = []string{"fake etcd watch: events of one revision delivered as one batch in revision order; a broken stream ends with a canceled response and a closed channel, undelivered events lost", "virtual time (synctest) for the 1 s reconnect sleep"}
	P, D := 2, 1
	if vh.Thorough() {
		P, D = 3, 2
	}
	rep.SetInfo("preemption_bound", P)
	rep.SetInfo("deviation_bound", D)
	deadline := vh.Deadline()
	shard, n := vh.Shard()
	var rp struct {
		Scenario c20Scenario
		Choices  []int
	}
	cfg := sched.Config{MaxPreempt: P, MaxDev: D, Deadline: deadline, MaxIdle: 4, IdleStep: time.Second}
	replaying, rerr := vh.LoadReplay(&rp)
	if rerr != nil {
		t.Fatalf("HARNESS-ERROR replay: %v", rerr)
	}
	if replaying {
		x := sched.RunOnce(t, cfg, rp.Choices, true, c20Body(rp.Scenario))
		fmt.Printf("REPLAY %s choices=%v\n steps=%v\n notes=%v\n fails=%+v\n", rp.Scenario, rp.Choices, x.Steps, x.Notes, x.Fails)
		rep.Eval(1)
		for _, f := range x.Fails {
			rep.Violation(f.Key, f.Detail, rp)
		}
		return
	}
	scs := c20Scenarios(vh.Thorough())
	rep.SetInfo("scenarios", len(scs))
	for i, sc := range scs {
		if i%n != shard {
			continue
		}
		sc := sc
		scfg := cfg
		if sc.FailGet && scfg.MaxDev < 2 {
			scfg.MaxDev = 2 // one break + one failing read
		}
		st := sched.Explore(t, scfg, c20Body(sc), func(x *sched.Exec) {
			rep.Eval(1)
			sw, dev := x.NonDefault()
			rep.Outcome(sc.String()+fmt.Sprint(x.Notes), sw > 0 || dev > 0)
			if rep.WantSample() && sw > 0 && dev > 0 {
				rep.Sample(map[string]any{"scenario": sc.String(), "choices": x.Choices, "outcome": x.Notes})
			}
			for _, f := range x.Fails {
				key := f.Key
				if key == "router-diverged" && sc.Large > 0 {
					if dev > 0 {
						key = "router-diverged-large-keyspace-after-watch-break"
					} else {
						key = "router-diverged-large-keyspace-change-during-full-read"
					}
				} else if key == "router-diverged" {
					if dev > 0 {
						key = "router-diverged-after-watch-break"
					} else {
						key = "router-diverged-change-between-get-and-watch"
					}
				}
				rep.Violation(key, sc.String()+": "+f.Detail, map[string]any{"Scenario": sc, "Choices": x.Choices})
			}
		})
		rep.Count("executions", int64(st.Execs))
		if st.Capped {
			rep.Cap("deadline hit at scenario " + sc.String())
			break
		}
	}
}
