//go:build verif

package metadata

import (
	"context"
	"fmt"
	"io"
	"log/slog"
	"strings"
	"testing"

	"github.com/KafScale/platform/internal/verif/enum"
	"github.com/KafScale/platform/internal/verif/fakeetcd"
	"github.com/KafScale/platform/internal/verif/sched"
	"github.com/KafScale/platform/internal/verif/vh"
)

// C18: at most one live owner per lease; a release never removes another broker's lease.
//
// Closed system: 2-3 brokers, each a real LeaseManager (through PartitionLeaseManager
// or GroupLeaseManager) over one fake etcd. One thread per broker runs a short op
// sequence; an ENV thread expires session leases. Scheduling points are the etcd
// operations (the granularity the property states): LeaseManager.mu is never held
// across an etcd call, so the manager's local steps between two etcd operations
// (including monitorSession after an expiry) run atomically.

type c18Op byte

const (
	c18Acquire  c18Op = 'A' // Acquire r1
	c18Release  c18Op = 'R' // Release r1
	c18Acquire2 c18Op = 'a' // Acquire r2
	c18Release2 c18Op = 'r' // Release r2
	c18RelAll   c18Op = 'X' // ReleaseAll (graceful shutdown)
	c18Restart  c18Op = 'S' // crash-restart: new manager, same broker id
)

type c18Scenario struct {
	Seqs    []string // per broker op sequence
	Expire  []int    // ENV thread, in order: i = the current session lease of broker i expires; 10+i = the session of broker i's previous (crashed) incarnation expires
	Group   bool     // use GroupLeaseManager instead of PartitionLeaseManager
	FailOps bool
	Reply   bool // transaction replies are separate scheduling points (effect at the server | reply seen by the caller)
	Fine    bool // fine-grained part: LeaseManager.mu acquisitions are scheduling points too, oracle at quiescence only
}

func (sc c18Scenario) String() string {
	if sc.Fine {
		return fmt.Sprintf("%s|exp=%v|group=%v|fail=%v|fine", strings.Join(sc.Seqs, ","), sc.Expire, sc.Group, sc.FailOps)
	}
	if sc.Reply {
		return fmt.Sprintf("%s|exp=%v|group=%v|fail=%v|reply-points", strings.Join(sc.Seqs, ","), sc.Expire, sc.Group, sc.FailOps)
	}
	return fmt.Sprintf("%s|exp=%v|group=%v|fail=%v", strings.Join(sc.Seqs, ","), sc.Expire, sc.Group, sc.FailOps)
}

type c18Broker struct {
	id   string
	cli  *fakeetcd.Client
	pm   *PartitionLeaseManager
	gm   *GroupLeaseManager
	olds []*LeaseManager
}

func (b *c18Broker) lm() *LeaseManager {
	if b.gm != nil {
		return b.gm.lm
	}
	return b.pm.lm
}

func c18Logger() *slog.Logger { return slog.New(slog.NewTextHandler(io.Discard, nil)) }

func (b *c18Broker) fresh(srv *fakeetcd.Server, sc c18Scenario, gen int) {
	b.cli = srv.NewClient(fmt.Sprintf("%s.%d", b.id, gen))
	b.cli.FailOps = sc.FailOps
	b.cli.LoseAcks = sc.FailOps
	b.cli.ReplyPoints = sc.Reply
	if sc.Group {
		b.gm = NewGroupLeaseManager(b.cli.C, GroupLeaseConfig{BrokerID: b.id, Logger: c18Logger()})
	} else {
		b.pm = NewPartitionLeaseManager(b.cli.C, PartitionLeaseConfig{BrokerID: b.id, Logger: c18Logger()})
	}
}

func (b *c18Broker) acquire(res int) error {
	if b.gm != nil {
		return b.gm.Acquire(context.Background(), fmt.Sprintf("g%d", res))
	}
	return b.pm.Acquire(context.Background(), "t", int32(res))
}

func (b *c18Broker) release(res int) {
	if b.gm != nil {
		b.gm.Release(fmt.Sprintf("g%d", res))
		return
	}
	b.pm.Release("t", int32(res))
}

func (b *c18Broker) owns(res int) bool {
	if b.gm != nil {
		return b.gm.Owns(fmt.Sprintf("g%d", res))
	}
	return b.pm.Owns("t", int32(res))
}

func (b *c18Broker) releaseAll() {
	if b.gm != nil {
		b.gm.ReleaseAll()
		return
	}
	b.pm.ReleaseAll()
}

func c18Body(sc c18Scenario) func(s *sched.Sched) {
	return func(s *sched.Sched) {
		srv := fakeetcd.NewServer()
		brokers := make([]*c18Broker, len(sc.Seqs))
		for i := range brokers {
			brokers[i] = &c18Broker{id: fmt.Sprintf("b%d", i+1)}
			brokers[i].fresh(srv, sc, 0)
		}
		var viol []string
		check := func() {
			for res := 0; res < 2; res++ {
				var owners []string
				for _, b := range brokers {
					if b.owns(res) {
						owners = append(owners, b.id)
					}
				}
				if len(owners) > 1 {
					viol = append(viol, fmt.Sprintf("two-owners:res%d:%v", res, owners))
				}
			}
		}
		if !sc.Fine {
			// (fine part: between an expiry and the manager's monitorSession the holder still believes it
			// owns - the notification latency every lease scheme has - so only persistent double ownership,
			// judged once everything has run, counts there)
			s.StepHook = check
		}
		for i, b := range brokers {
			i, b := i, b
			seq := sc.Seqs[i]
			if seq == "" {
				continue
			}
			s.Go(fmt.Sprintf("B%d", i+1), func() {
				gen := 0
				for _, op := range []byte(seq) {
					switch c18Op(op) {
					case c18Acquire:
						_ = b.acquire(0)
					case c18Acquire2:
						_ = b.acquire(1)
					case c18Release:
						b.release(0)
					case c18Release2:
						b.release(1)
					case c18RelAll:
						b.releaseAll()
					case c18Restart:
						// crash-restart: the old manager (and its beliefs) is gone; its
						// session lease lives on in etcd until it expires.
						gen++
						b.olds = append(b.olds, b.lm())
						b.fresh(srv, sc, gen)
					}
				}
			})
		}
		if len(sc.Expire) > 0 {
			s.Go("ENV", func() {
				for _, ev := range sc.Expire {
					sched.Env("env.expire")
					var m *LeaseManager
					if ev >= 10 {
						if olds := brokers[ev-10].olds; len(olds) > 0 {
							m = olds[len(olds)-1]
						}
					} else {
						m = brokers[ev].lm()
					}
					if m == nil {
						continue
					}
					m.mu.RLock()
					sess := m.session
					m.mu.RUnlock()
					if sess != nil {
						srv.ExpireLease(int64(sess.Lease()))
					}
				}
			})
		}
		s.Run()
		check()
		if s.Deadlock {
			s.Fail("deadlock", "blocked: %s", s.Blocked())
		}
		seen := map[string]bool{}
		for _, v := range viol {
			if !seen[v] {
				seen[v] = true
				s.Fail("two-owners", "%s", v)
			}
		}
		// a Release (client-issued delete) must never remove a key holding another broker's id
		for _, op := range srv.Ops() {
			if (op.Op == "Delete" || op.Op == "TxnDelete") && op.Prev != "" {
				who := op.Who[:strings.IndexByte(op.Who, '.')]
				if op.Prev != who {
					s.Fail("release-deletes-foreign-lease", "%s deleted %s held by %s", op.Who, op.Key, op.Prev)
				}
			}
		}
		// outcome signature: final owners + etcd contents
		var sig []string
		for _, b := range brokers {
			sig = append(sig, fmt.Sprintf("%s:%v%v", b.id, b.owns(0), b.owns(1)))
		}
		s.Note("%v etcd=%v", sig, srv.Dump("/kafscale/"))
		// shut everything down so the bubble can drain
		for _, b := range brokers {
			b.releaseAll()
			for _, o := range b.olds {
				o.ReleaseAll()
			}
		}
		for _, id := range srv.LiveLeases() {
			srv.ExpireLease(id)
		}
	}
}

func c18Scenarios(thorough bool) []c18Scenario {
	alphabet := []byte{'A', 'R', 'S', 'X', 'a'}
	maxLen := 2
	var seqs []string
	enum.Sequences(len(alphabet), maxLen, func(idx []int) bool {
		b := make([]byte, len(idx))
		for i, v := range idx {
			b[i] = alphabet[v]
		}
		q := string(b)
		// sequences that never acquire are no-ops for the property
		if q != "" && !strings.ContainsAny(q, "Aa") {
			return true
		}
		seqs = append(seqs, q)
		return true
	})
	var out []c18Scenario
	exps := [][]int{nil, {0}, {1}, {0, 1}}
	for _, s1 := range seqs {
		if s1 == "" {
			continue
		}
		for _, s2 := range seqs {
			if s2 == "" {
				continue
			}
			for _, ex := range exps {
				out = append(out, c18Scenario{Seqs: []string{s1, s2}, Expire: ex})
			}
		}
	}
	// the three-step mechanism needs three acquirers: release | expiry | acquire, acquire
	three := []c18Scenario{
		{Seqs: []string{"AR", "A", "A"}, Expire: []int{0}},
		{Seqs: []string{"AR", "A", "A"}, Expire: []int{0, 1}},
		{Seqs: []string{"ARA", "A", "A"}, Expire: []int{0}},
		{Seqs: []string{"AX", "A", "A"}, Expire: []int{0}},
		{Seqs: []string{"AS", "A", "A"}, Expire: []int{0}},
		{Seqs: []string{"ASR", "A", "A"}, Expire: []int{0}},
	}
	out = append(out, three...)
	// crash-restart with re-acquisition while the previous incarnation's session is still
	// alive in etcd and expires at some point (10 = old session of broker 1)
	restart := []c18Scenario{
		{Seqs: []string{"ASA", "A"}, Expire: []int{10}},
		{Seqs: []string{"ASA", "AR"}, Expire: []int{10}},
		{Seqs: []string{"ASA", "A"}, Expire: []int{10, 1}},
		{Seqs: []string{"ASA", "A", "A"}, Expire: []int{10}},
		{Seqs: []string{"ASAR", "A"}, Expire: []int{10}},
		{Seqs: []string{"ASA", "ASA"}, Expire: []int{10, 11}},
	}
	out = append(out, restart...)
	for _, sc := range restart[:2] {
		g := sc
		g.Group = true
		out = append(out, g)
	}
	// same closed systems on the group lease manager (shares LeaseManager)
	for _, sc := range three {
		g := sc
		g.Group = true
		out = append(out, g)
	}
	out = append(out, c18Scenario{Seqs: []string{"AR", "A"}, Expire: []int{0}, Group: true})
	// with etcd operation failures / lost replies
	for _, pair := range [][]string{{"A", "A"}, {"AR", "A"}, {"AR", "AR"}, {"AS", "A"}, {"AA", "A"}} {
		for _, ex := range [][]int{nil, {0}} {
			out = append(out, c18Scenario{Seqs: pair, Expire: ex, FailOps: true})
		}
	}
	// the answer of an etcd transaction travels: expiry (and everything else) may land between the
	// server-side effect and the caller seeing the reply
	for _, sc := range []c18Scenario{
		{Seqs: []string{"A", "A"}, Expire: []int{0}},
		{Seqs: []string{"A", "A"}, Expire: []int{0, 1}},
		{Seqs: []string{"AR", "A"}, Expire: []int{0}},
		{Seqs: []string{"AA", "A"}, Expire: []int{0}},
		{Seqs: []string{"Aa", "A"}, Expire: []int{0}},
		{Seqs: []string{"ASA", "A"}, Expire: []int{10}},
		{Seqs: []string{"ASA", "A"}, Expire: []int{0}},
		{Seqs: []string{"A", "A", "A"}, Expire: []int{0}},
		{Seqs: []string{"AR", "A", "A"}, Expire: []int{0}},
	} {
		sc.Reply = true
		out = append(out, sc)
		sc.Group = true
		out = append(out, sc)
	}
	if thorough {
		var long []string
		enum.Sequences(4, 3, func(idx []int) bool {
			if len(idx) != 3 {
				return true
			}
			b := make([]byte, 3)
			for i, v := range idx {
				b[i] = alphabet[v]
			}
			if strings.ContainsAny(string(b), "Aa") {
				long = append(long, string(b))
			}
			return true
		})
		for _, s1 := range long {
			for _, s2 := range []string{"A", "AR", "AS"} {
				for _, ex := range [][]int{{0}, {1}, {0, 1}} {
					out = append(out, c18Scenario{Seqs: []string{s1, s2}, Expire: ex})
				}
			}
		}
	}
	return out
}

func TestVerifC18(t *testing.T) {
	rep := vh.New(t, "C18")
	defer rep.Finish()
	rep.Rule = "for every closed system (per-broker op sequences over {Acquire r1/r2, Release, ReleaseAll, crash-restart} x session-expiry events x optional etcd failures x optional separate reply points of transactions): DFS over all interleavings at etcd-operation granularity (preemption bound) and failure decisions (deviation bound) of real LeaseManagers over a fake etcd; invariant |owners(r)|<=1 after every step; distinct = distinct (final owners, etcd contents); non-trivial = >=1 thread switch or failure"
	rep.Assumptions = []string{"fake etcd (KV+lease+txn) stands for etcd; lease expiry deletes attached keys atomically and closes the keep-alive stream; monitorSession runs to completion before the next etcd operation"}
	P, D := 2, 1
	if vh.Thorough() {
		P, D = 3, 2
	}
	rep.SetInfo("preemption_bound", P)
	rep.SetInfo("deviation_bound", D)
	deadline := vh.Deadline()
	shard, n := vh.Shard()
	var rp struct {
		Scenario c18Scenario
		Choices  []int
	}
	replaying, rerr := vh.LoadReplay(&rp)
	if rerr != nil {
		t.Fatalf("HARNESS-ERROR replay: %v", rerr)
	}
	if replaying && rp.Scenario.Fine {
		return // a replay of the fine-grained part
	}
	if replaying {
		x := sched.RunOnce(t, sched.Config{}, rp.Choices, true, c18Body(rp.Scenario))
		fmt.Printf("REPLAY %s choices=%v\n steps=%v\n notes=%v\n fails=%+v\n", rp.Scenario, rp.Choices, x.Steps, x.Notes, x.Fails)
		rep.Eval(1)
		for _, f := range x.Fails {
			rep.Violation(f.Key, f.Detail, rp)
		}
		return
	}
	scs := c18Scenarios(vh.Thorough())
	rep.SetInfo("scenarios", len(scs))
	for i, sc := range scs {
		if i%n != shard {
			continue
		}
		sc := sc
		st := sched.Explore(t, sched.Config{MaxPreempt: P, MaxDev: D, Deadline: deadline}, c18Body(sc), func(x *sched.Exec) {
			rep.Eval(1)
			sw, dev := x.NonDefault()
			rep.Outcome(sc.String()+fmt.Sprint(x.Notes), sw > 0 || dev > 0)
			if rep.WantSample() && sw > 1 {
				rep.Sample(map[string]any{"scenario": sc.String(), "choices": x.Choices, "outcome": x.Notes})
			}
			for _, f := range x.Fails {
				rep.Violation(f.Key, sc.String()+": "+f.Detail, map[string]any{"Scenario": sc, "Choices": x.Choices})
			}
		})
		rep.Count("executions", int64(st.Execs))
		if st.Capped {
			rep.Cap("deadline hit at scenario " + sc.String())
			break
		}
	}
}
