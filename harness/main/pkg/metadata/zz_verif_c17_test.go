//go:build verif

package metadata

import (
	"context"
	"errors"
	"fmt"
	"sort"
	"strings"
	"testing"
	"time"

	"github.com/KafScale/platform/internal/verif/fakeetcd"
	"github.com/KafScale/platform/internal/verif/vh"
	metadatapb "github.com/KafScale/platform/pkg/gen/metadata"
	"google.golang.org/protobuf/proto"
)

// C17: the in-memory store and the etcd-backed store return the same observable
// results for any sequence of store operations.
//
// Explicit-state search by history replay: a state is an operation history; each
// successor replays the history on a fresh InMemoryStore and a fresh EtcdStore (over
// the fake etcd, no watchers: single broker, its own writes are applied synchronously)
// and compares the rendered result of every operation. States are merged by the
// rendered full dump of the in-memory store (which operation results depend on).

type c17Op struct {
	Op string
	A  int // topic / group index
	B  int // count / partition / variant
}

func (o c17Op) String() string { return fmt.Sprintf("%s(%d,%d)", o.Op, o.A, o.B) }

var c17Topics = []string{"t1", "t2"}

// c17Worlds: topic-name pairs. World 1 has one name that is a strict prefix of the other, so that any cleanup keyed
// by a name prefix on either store touches the sibling topic. A history selects its world with a leading World op.
var c17Worlds = [][]string{{"t1", "t2"}, {"t1", "t1x"}}
var c17GroupIDs = []string{"g1", "g2"}

func c17ErrClass(err error) string {
	switch {
	case err == nil:
		return "ok"
	case errors.Is(err, ErrUnknownTopic):
		return "unknown-topic"
	case errors.Is(err, ErrTopicExists):
		return "topic-exists"
	case errors.Is(err, ErrInvalidTopic):
		return "invalid-topic"
	default:
		return "err:" + err.Error()
	}
}

func c17Group(variant int, id string) *metadatapb.ConsumerGroup {
	g := &metadatapb.ConsumerGroup{GroupId: id, State: "stable", ProtocolType: "consumer", Protocol: "range", Leader: "m1", GenerationId: int32(variant + 1),
		Members: map[string]*metadatapb.GroupMember{}}
	g.Members["m1"] = &metadatapb.GroupMember{ClientId: "c", ClientHost: "h", HeartbeatAt: "2026-01-01T00:00:00Z", Subscriptions: []string{"t1"}}
	if variant >= 1 {
		g.RebalanceTimeoutMs = 45000
		g.Members["m1"].SessionTimeoutMs = 10000
		g.Members["m1"].Assignments = []*metadatapb.Assignment{{Topic: "t1", Partitions: []int32{0, 1}}}
	}
	return g
}

func c17RenderGroup(g *metadatapb.ConsumerGroup) string {
	if g == nil {
		return "nil"
	}
	b, _ := proto.MarshalOptions{Deterministic: true}.Marshal(g)
	return fmt.Sprintf("%x", b)
}

func c17RenderCfg(c *metadatapb.TopicConfig) string {
	if c == nil {
		return "nil"
	}
	cp := proto.Clone(c).(*metadatapb.TopicConfig)
	cp.CreatedAt = "" // wall-clock timestamp, not comparable
	b, _ := proto.MarshalOptions{Deterministic: true}.Marshal(cp)
	return fmt.Sprintf("%x", b)
}

func c17RenderMeta(m *ClusterMetadata, err error) string {
	if err != nil {
		return c17ErrClass(err)
	}
	var parts []string
	for _, t := range m.Topics {
		name := ""
		if t.Topic != nil {
			name = *t.Topic
		}
		var ps []string
		for _, p := range t.Partitions {
			ps = append(ps, fmt.Sprintf("%d@%d", p.Partition, p.Leader))
		}
		parts = append(parts, fmt.Sprintf("%s/e%d/%v", name, t.ErrorCode, ps))
	}
	sort.Strings(parts)
	return strings.Join(parts, ";")
}

// c17Apply executes one operation and renders its observable result.
func c17Apply(s Store, o c17Op) string {
	ctx := context.Background()
	switch o.Op {
	case "World":
		c17Topics = c17Worlds[o.A]
		return "ok"
	case "CreateTopic":
		t, err := s.CreateTopic(ctx, TopicSpec{Name: c17Topics[o.A], NumPartitions: int32(o.B), ReplicationFactor: 1})
		if err != nil {
			return c17ErrClass(err)
		}
		return fmt.Sprintf("ok:%s:%d", *t.Topic, len(t.Partitions))
	case "DeleteTopic":
		return c17ErrClass(s.DeleteTopic(ctx, c17Topics[o.A]))
	case "CreatePartitions":
		return c17ErrClass(s.CreatePartitions(ctx, c17Topics[o.A], int32(o.B)))
	case "UpdateOffsets":
		return c17ErrClass(s.UpdateOffsets(ctx, c17Topics[o.A], 0, int64(o.B)))
	case "NextOffset":
		n, err := s.NextOffset(ctx, c17Topics[o.A], int32(o.B))
		return fmt.Sprintf("%d:%s", n, c17ErrClass(err))
	case "Commit":
		// B encodes offset and metadata: 0 -> (0,"m0"), 5 -> (5,"m5"), 7 -> (7,"") : a re-commit with empty
		// metadata must replace the stored metadata on both stores
		md := fmt.Sprintf("m%d", o.B)
		if o.B == 7 {
			md = ""
		}
		return c17ErrClass(s.CommitConsumerOffset(ctx, c17GroupIDs[o.A], "t1", 0, int64(o.B), md))
	case "FetchOffset":
		off, meta, err := s.FetchConsumerOffset(ctx, c17GroupIDs[o.A], "t1", int32(o.B))
		return fmt.Sprintf("%d:%s:%s", off, meta, c17ErrClass(err))
	case "ListOffsets":
		l, err := s.ListConsumerOffsets(ctx)
		var parts []string
		for _, e := range l {
			parts = append(parts, fmt.Sprintf("%s/%s/%d=%d", e.Group, e.Topic, e.Partition, e.Offset))
		}
		sort.Strings(parts)
		return strings.Join(parts, ";") + ":" + c17ErrClass(err)
	case "PutGroup":
		return c17ErrClass(s.PutConsumerGroup(ctx, c17Group(o.B, c17GroupIDs[o.A])))
	case "FetchGroup":
		g, err := s.FetchConsumerGroup(ctx, c17GroupIDs[o.A])
		return c17RenderGroup(g) + ":" + c17ErrClass(err)
	case "ListGroups":
		l, err := s.ListConsumerGroups(ctx)
		var parts []string
		for _, g := range l {
			parts = append(parts, c17RenderGroup(g))
		}
		sort.Strings(parts)
		return strings.Join(parts, ";") + ":" + c17ErrClass(err)
	case "DeleteGroup":
		return c17ErrClass(s.DeleteConsumerGroup(ctx, c17GroupIDs[o.A]))
	case "FetchConfig":
		c, err := s.FetchTopicConfig(ctx, c17Topics[o.A])
		return c17RenderCfg(c) + ":" + c17ErrClass(err)
	case "UpdateConfig":
		cfg := &metadatapb.TopicConfig{Name: c17Topics[o.A], Partitions: 1, ReplicationFactor: 1, RetentionMs: int64(1000 * (o.B + 1)), SegmentBytes: 1 << 20, Config: map[string]string{"k": fmt.Sprint(o.B)}}
		return c17ErrClass(s.UpdateTopicConfig(ctx, cfg))
	case "Metadata":
		var names []string
		if o.B == 1 {
			names = []string{c17Topics[o.A]}
		}
		m, err := s.Metadata(ctx, names)
		return c17RenderMeta(m, err)
	}
	return "?"
}

func c17Alphabet() (mut []c17Op, obs []c17Op) {
	for a := range c17Topics {
		mut = append(mut, c17Op{"CreateTopic", a, 1}, c17Op{"CreateTopic", a, 2}, c17Op{"DeleteTopic", a, 0},
			c17Op{"CreatePartitions", a, 2}, c17Op{"CreatePartitions", a, 3}, c17Op{"UpdateOffsets", a, 4}, c17Op{"UpdateConfig", a, 0}, c17Op{"UpdateConfig", a, 1})
		obs = append(obs, c17Op{"NextOffset", a, 0}, c17Op{"NextOffset", a, 1}, c17Op{"FetchConfig", a, 0}, c17Op{"Metadata", a, 1})
	}
	for g := range c17GroupIDs {
		mut = append(mut, c17Op{"Commit", g, 0}, c17Op{"Commit", g, 5}, c17Op{"Commit", g, 7}, c17Op{"PutGroup", g, 0}, c17Op{"PutGroup", g, 1}, c17Op{"DeleteGroup", g, 0})
		obs = append(obs, c17Op{"FetchOffset", g, 0}, c17Op{"FetchOffset", g, 1}, c17Op{"FetchGroup", g, 0})
	}
	obs = append(obs, c17Op{"ListOffsets", 0, 0}, c17Op{"ListGroups", 0, 0}, c17Op{"Metadata", 0, 0})
	return
}

type c17Pair struct {
	mem  *InMemoryStore
	etcd *EtcdStore
}

func c17Fresh() c17Pair {
	srv := fakeetcd.NewServer()
	cli := srv.NewClient("b1")
	cli.NoPoints = true
	return c17Pair{mem: NewInMemoryStore(c21Meta(0)), etcd: VerifNewEtcdStore(cli.C, c21Meta(0), false)}
}

// c17Classify names the mechanism of a difference by the operation that exposes it.
func c17Classify(o c17Op, hist []c17Op, mem, etcd string) string {
	prior := map[string]bool{}
	for _, h := range hist {
		topicOp := h.Op == "CreateTopic" || h.Op == "DeleteTopic" || h.Op == "CreatePartitions" || h.Op == "UpdateOffsets" || h.Op == "UpdateConfig"
		if topicOp && (o.Op == "FetchConfig" || o.Op == "NextOffset") && h.A != o.A {
			continue // an operation on another topic
		}
		prior[h.Op] = true
	}
	switch o.Op {
	case "FetchGroup", "ListGroups":
		if strings.Contains(mem, "ok") && strings.Contains(etcd, "ok") && len(mem) < len(etcd) {
			return "inmem-group-clone-drops-fields"
		}
	case "FetchOffset", "ListOffsets":
		if prior["DeleteTopic"] {
			return "delete-topic-consumer-offsets-differ"
		}
	case "FetchConfig":
		if prior["UpdateConfig"] && prior["CreatePartitions"] {
			return "etcd-stored-config-partitions-stale-after-growth"
		}
		if prior["DeleteTopic"] {
			return "delete-topic-config-differs"
		}
		return "topic-config-differs"
	case "NextOffset":
		if prior["DeleteTopic"] {
			return "delete-topic-next-offset-differs"
		}
	}
	return "differs:" + o.Op
}

func TestVerifC17(t *testing.T) {
	rep := vh.New(t, "C17")
	defer rep.Finish()
	rep.Rule = "BFS over histories of mutating store operations (create/delete/grow topic, update offsets/config, commit, put/delete group on 2 topics and 2 groups; two name worlds: unrelated names from the empty store, and one name a strict prefix of the other from the state in which both topics exist); every history is replayed on a fresh InMemoryStore and a fresh EtcdStore (fake etcd) and the rendered result of every operation, followed by every observer operation in the reached state, is compared; states merged by the rendered observer results of the in-memory store"
	rep.Assumptions = []string{"fake etcd stands for etcd; EtcdStore built like NewEtcdStore minus the dial, without watchers (single broker)", "TopicConfig.CreatedAt (wall clock) excluded from the comparison", "error values compared by class (nil / ErrUnknownTopic / ErrTopicExists / ErrInvalidTopic / message)"}
	mut, obs := c17Alphabet()
	depth := 3
	if vh.Thorough() {
		depth = 4
	}
	rep.SetInfo("depth", depth)
	rep.SetInfo("mutators", len(mut))
	rep.SetInfo("observers", len(obs))
	deadline := vh.Deadline()
	type node struct{ hist []c17Op }
	seen := map[string]bool{}
	frontier := []node{{}}
	states, transitions := 0, 0
	var replayHist []c17Op
	if ok, err := vh.LoadReplay(&replayHist); ok {
		if err != nil {
			t.Fatalf("HARNESS-ERROR %v", err)
		}
		frontier = nil
		p := c17Fresh()
		for _, o := range replayHist {
			a, b := c17Apply(p.mem, o), c17Apply(p.etcd, o)
			fmt.Printf("REPLAY %v: inmem=%s etcd=%s\n", o, a, b)
			if a != b {
				rep.Violation(c17Classify(o, replayHist, a, b), fmt.Sprintf("%v: inmem=%s etcd=%s", o, a, b), replayHist)
			}
		}
		_ = p.etcd.Close()
		rep.Eval(1)
		return
	}
	check := func(hist []c17Op) (key string, ok bool) {
		p := c17Fresh()
		defer p.etcd.Close()
		c17Topics = c17Worlds[0]
		for i, o := range hist {
			a, b := c17Apply(p.mem, o), c17Apply(p.etcd, o)
			if a != b {
				if i == len(hist)-1 {
					rep.Violation(c17Classify(o, hist[:i], a, b), fmt.Sprintf("after %v, %v: inmem=%s etcd=%s", hist[:i], o, a, b), hist)
				}
				return "", false
			}
		}
		var sb strings.Builder
		for _, o := range obs {
			a, b := c17Apply(p.mem, o), c17Apply(p.etcd, o)
			if a != b {
				full := append(append([]c17Op{}, hist...), o)
				rep.Violation(c17Classify(o, hist, a, b), fmt.Sprintf("after %v, %v: inmem=%s etcd=%s", hist, o, a, b), full)
			}
			sb.WriteString(a)
			sb.WriteByte('|')
		}
		return sb.String(), true
	}
	// world 0 starts from the empty store; world 1 (prefix-related names) starts from the state in which both topics
	// exist and explores one level less
	type start struct {
		init  []c17Op
		depth int
	}
	starts := []start{{nil, depth}, {[]c17Op{{"World", 1, 0}, {"CreateTopic", 0, 1}, {"CreateTopic", 1, 2}}, depth - 1}}
	for wi, st := range starts {
		k0, ok0 := check(st.init)
		if !ok0 {
			continue
		}
		seen[fmt.Sprint(wi)+k0] = true
		states++
		frontier = []node{{st.init}}
		for d := 0; d < st.depth && len(frontier) > 0; d++ {
			var next []node
			for _, n := range frontier {
				if time.Now().After(deadline) {
					rep.Cap(fmt.Sprintf("deadline at depth %d", d+1))
					frontier = nil
					next = nil
					break
				}
				for _, o := range mut {
					hist := append(append([]c17Op{}, n.hist...), o)
					transitions++
					key, ok := check(hist)
					rep.Eval(1)
					rep.Outcome(key, len(hist) >= 2)
					if !ok {
						continue // a differing transition: its successors would only repeat the difference
					}
					key = fmt.Sprint(wi) + key
					if !seen[key] {
						seen[key] = true
						states++
						next = append(next, node{hist})
						if len(hist) >= 2 {
							rep.Sample(fmt.Sprint(hist))
						}
					}
				}
			}
			frontier = next
		}
	}
	rep.Count("states", int64(states))
	rep.Count("transitions", int64(transitions))
	rep.Count("traces_validated_against_impl", int64(transitions))
}
