//go:build verif

package metadata

import (
	"context"
	"fmt"
	"sort"
	"strings"
	"testing"
	"time"

	"github.com/KafScale/platform/internal/testutil"
	"github.com/KafScale/platform/internal/verif/enum"
	"github.com/KafScale/platform/internal/verif/fakeetcd"
	"github.com/KafScale/platform/internal/verif/vh"
	clientv3 "go.etcd.io/etcd/client/v3"
)

// Conformance of the fake etcd (the environment model under C16-C21) with the real thing:
// every sequence of up to 3 operations (quick; 4 over a reduced alphabet in thorough) from
// the operation shapes the repository uses - plain and leased puts, gets, prefix gets,
// deletes, prefix deletes, the lease manager's three transactions, the operator's
// mod-revision transaction, lease grant / revoke - is executed on the fake and on the
// embedded real etcd the repository's own tests use, and every response is compared
// (errors by class, Succeeded, key/value/version, relative create/mod revisions, lease
// attachment, counts). A watch on the key prefix, started before the sequence, must deliver
// the same event list (type, key, value, prev value) on both.
// A mismatch is a HARNESS error (the model is wrong), never a property violation.

type confOp struct {
	Name string
	K    int // key index
	V    int // value index
}

var confOps = []confOp{
	{"put", 0, 0}, {"put", 0, 1}, {"put", 1, 0},
	{"putLease", 0, 0}, {"putLease", 1, 1},
	{"get", 0, 0}, {"getPrefix", 0, 0},
	{"del", 0, 0}, {"delPrefix", 0, 0},
	{"txnCreate", 0, 0}, {"txnCreate", 0, 1}, // If(CreateRevision==0) Then(Put with lease) Else(Get)
	{"txnPutIfValue", 0, 0}, // If(Value==v0) Then(Put v0 with lease)
	{"txnDelIfValue", 0, 0}, // If(Value==v0) Then(Delete)
	{"txnDelIfValue", 0, 1},
	{"txnPutIfMod", 0, 1}, // If(ModRevision == last seen) Then(Put)
	{"grant", 0, 0}, {"revoke", 0, 0},
}

type confBackend struct {
	name    string
	cli     *clientv3.Client
	prefix  string
	lease   clientv3.LeaseID
	leases  []clientv3.LeaseID // every lease granted in the current sequence (all revoked at its end)
	lastMod int64
	baseRev int64
}

func (b *confBackend) key(i int) string { return fmt.Sprintf("%sk%d", b.prefix, i) }

func confErr(err error) string {
	if err == nil {
		return "ok"
	}
	m := err.Error()
	switch {
	case strings.Contains(m, "lease not found"):
		return "lease-not-found"
	}
	return "err:" + m
}

func (b *confBackend) apply(ctx context.Context, o confOp) string {
	vals := []string{"v0", "v1"}
	rel := func(rev int64) int64 {
		if rev == 0 {
			return 0
		}
		return rev - b.baseRev
	}
	kvStr := func(resp *clientv3.GetResponse) string {
		var parts []string
		for _, kv := range resp.Kvs {
			parts = append(parts, fmt.Sprintf("%s=%s/c%d/m%d/v%d/l%v", strings.TrimPrefix(string(kv.Key), b.prefix), kv.Value, rel(kv.CreateRevision), rel(kv.ModRevision), kv.Version, kv.Lease != 0))
		}
		return fmt.Sprintf("n=%d[%s]", resp.Count, strings.Join(parts, ","))
	}
	switch o.Name {
	case "put":
		_, err := b.cli.Put(ctx, b.key(o.K), vals[o.V])
		return confErr(err)
	case "putLease":
		_, err := b.cli.Put(ctx, b.key(o.K), vals[o.V], clientv3.WithLease(b.lease))
		return confErr(err)
	case "get":
		r, err := b.cli.Get(ctx, b.key(o.K))
		if err != nil {
			return confErr(err)
		}
		if len(r.Kvs) > 0 {
			b.lastMod = r.Kvs[0].ModRevision
		}
		return kvStr(r)
	case "getPrefix":
		r, err := b.cli.Get(ctx, b.prefix, clientv3.WithPrefix())
		if err != nil {
			return confErr(err)
		}
		return kvStr(r)
	case "del":
		r, err := b.cli.Delete(ctx, b.key(o.K))
		if err != nil {
			return confErr(err)
		}
		return fmt.Sprintf("deleted=%d", r.Deleted)
	case "delPrefix":
		r, err := b.cli.Delete(ctx, b.prefix, clientv3.WithPrefix())
		if err != nil {
			return confErr(err)
		}
		return fmt.Sprintf("deleted=%d", r.Deleted)
	case "txnCreate":
		k := b.key(o.K)
		r, err := b.cli.Txn(ctx).If(clientv3.Compare(clientv3.CreateRevision(k), "=", 0)).
			Then(clientv3.OpPut(k, vals[o.V], clientv3.WithLease(b.lease))).Else(clientv3.OpGet(k)).Commit()
		if err != nil {
			return confErr(err)
		}
		out := fmt.Sprintf("succ=%v", r.Succeeded)
		if !r.Succeeded && len(r.Responses) > 0 {
			out += " " + kvStr((*clientv3.GetResponse)(r.Responses[0].GetResponseRange()))
		}
		return out
	case "txnPutIfValue":
		k := b.key(o.K)
		r, err := b.cli.Txn(ctx).If(clientv3.Compare(clientv3.Value(k), "=", vals[o.V])).
			Then(clientv3.OpPut(k, vals[o.V], clientv3.WithLease(b.lease))).Commit()
		if err != nil {
			return confErr(err)
		}
		return fmt.Sprintf("succ=%v", r.Succeeded)
	case "txnDelIfValue":
		k := b.key(o.K)
		r, err := b.cli.Txn(ctx).If(clientv3.Compare(clientv3.Value(k), "=", vals[o.V])).Then(clientv3.OpDelete(k)).Commit()
		if err != nil {
			return confErr(err)
		}
		return fmt.Sprintf("succ=%v", r.Succeeded)
	case "txnPutIfMod":
		k := b.key(o.K)
		txn := b.cli.Txn(ctx)
		if b.lastMod == 0 {
			txn = txn.If(clientv3.Compare(clientv3.Version(k), "=", 0))
		} else {
			txn = txn.If(clientv3.Compare(clientv3.ModRevision(k), "=", b.lastMod))
		}
		r, err := txn.Then(clientv3.OpPut(k, vals[o.V])).Commit()
		if err != nil {
			return confErr(err)
		}
		return fmt.Sprintf("succ=%v", r.Succeeded)
	case "grant":
		r, err := b.cli.Grant(ctx, 3600)
		if err != nil {
			return confErr(err)
		}
		b.lease = r.ID
		b.leases = append(b.leases, r.ID)
		return "granted"
	case "revoke":
		_, err := b.cli.Revoke(ctx, b.lease)
		return confErr(err)
	}
	return "?"
}

// runSeq executes one sequence on a backend under a fresh key prefix and returns the
// rendered responses and the rendered watch event list.
func confRunSeq(b *confBackend, seqNo int, ops []confOp) ([]string, string, error) {
	ctx, cancel := context.WithTimeout(context.Background(), 20*time.Second)
	defer cancel()
	b.prefix = fmt.Sprintf("/verifconf/%d/", seqNo)
	b.lastMod = 0
	// long TTL: no lease may expire while the enumeration runs (an expiry deletes keys and bumps the
	// revision in the middle of some later sequence)
	g, err := b.cli.Grant(ctx, 3600)
	if err != nil {
		return nil, "", err
	}
	b.lease = g.ID
	b.leases = []clientv3.LeaseID{g.ID}
	base, err := b.cli.Get(ctx, b.prefix+"none")
	if err != nil {
		return nil, "", err
	}
	b.baseRev = base.Header.Revision
	wctx, wcancel := context.WithCancel(context.Background())
	defer wcancel()
	wch := b.cli.Watch(wctx, b.prefix, clientv3.WithPrefix(), clientv3.WithPrevKV(), clientv3.WithRev(b.baseRev+1))
	var out []string
	for _, o := range ops {
		out = append(out, o.Name+":"+b.apply(ctx, o))
	}
	// sentinel: when its event arrives every earlier event has been delivered
	if _, err := b.cli.Put(ctx, b.prefix+"zz-sentinel", "s"); err != nil {
		return nil, "", err
	}
	var evs []string
	done := false
	for !done {
		select {
		case resp, ok := <-wch:
			if !ok {
				return nil, "", fmt.Errorf("watch channel closed")
			}
			for _, ev := range resp.Events {
				k := strings.TrimPrefix(string(ev.Kv.Key), b.prefix)
				if k == "zz-sentinel" {
					done = true
					continue
				}
				prev := "-"
				if ev.PrevKv != nil {
					prev = string(ev.PrevKv.Value)
				}
				evs = append(evs, fmt.Sprintf("%s %s=%s prev=%s", ev.Type, k, ev.Kv.Value, prev))
			}
		case <-ctx.Done():
			return nil, "", fmt.Errorf("timeout waiting for watch sentinel")
		}
	}
	// a second watch that has to catch up from the base revision: both backends must deliver the whole
	// backlog (all revisions) in their FIRST response (the fake's batching rule for catch-up)
	// (the embedded server syncs lagging watchers every 100 ms, so this is done for the two-operation
	// sequences only)
	if len(ops) == 2 {
		cctx, ccancel := context.WithCancel(context.Background())
		defer ccancel()
		cch := b.cli.Watch(cctx, b.prefix, clientv3.WithPrefix(), clientv3.WithRev(b.baseRev+1))
		select {
		case resp, ok := <-cch:
			if !ok {
				return nil, "", fmt.Errorf("catch-up watch channel closed")
			}
			evs = append(evs, fmt.Sprintf("catch-up first response: %d events (live watch saw %d)", len(resp.Events), len(evs)+1))
		case <-ctx.Done():
			return nil, "", fmt.Errorf("timeout waiting for catch-up watch")
		}
	}
	// events of one revision (prefix delete, lease revoke) have no defined order across backends
	for _, id := range b.leases {
		_, _ = b.cli.Revoke(ctx, id) // "lease not found" for the ones the sequence revoked itself
	}
	return out, strings.Join(confCanonEvents(evs), ";"), nil
}

func confCanonEvents(evs []string) []string {
	// sort runs of consecutive DELETE events (they belong to one multi-key revision)
	out := append([]string{}, evs...)
	i := 0
	for i < len(out) {
		j := i
		for j < len(out) && strings.HasPrefix(out[j], "DELETE") {
			j++
		}
		if j > i+1 {
			sort.Strings(out[i:j])
		}
		if j == i {
			j = i + 1
		}
		i = j
	}
	return out
}

func TestVerifC18EtcdConformance(t *testing.T) {
	rep := vh.New(t, "C18")
	defer rep.Finish()
	rep.Rule = "fake-etcd conformance: every sequence of <=2 operations over 17 shapes plus every sequence of 3 over the 8 transaction/lease shapes (thorough: <=3 and 4) over the shapes the repository uses, on the fake and on the embedded real etcd, responses and watch event lists compared; distinct = distinct (sequence, responses); non-trivial = sequence contains a transaction or a lease operation"
	if ok, _ := vh.LoadReplay(&struct{}{}); ok {
		return
	}
	endpoints := testutil.StartEmbeddedEtcd(t)
	real, err := clientv3.New(clientv3.Config{Endpoints: endpoints, DialTimeout: 5 * time.Second})
	if err != nil {
		t.Fatalf("HARNESS-ERROR connect embedded etcd: %v", err)
	}
	defer real.Close()
	srv := fakeetcd.NewServer()
	fc := srv.NewClient("conf")
	fc.NoPoints = true
	rb := &confBackend{name: "real", cli: real}
	fb := &confBackend{name: "fake", cli: fc.C}
	deadline := vh.Deadline()
	seqNo := 0
	mismatches := 0
	run := func(ops []confOp) bool {
		seqNo++
		if seqNo%64 == 0 && time.Now().After(deadline) {
			rep.Cap("deadline in etcd conformance")
			return false
		}
		r1, e1, err1 := confRunSeq(rb, seqNo, ops)
		r2, e2, err2 := confRunSeq(fb, seqNo, ops)
		rep.Eval(1)
		rep.Count("etcd_conformance_sequences", 1)
		if err1 != nil || err2 != nil {
			t.Fatalf("HARNESS-ERROR conformance run %v: real=%v fake=%v", ops, err1, err2)
		}
		nontriv := false
		for _, o := range ops {
			if strings.HasPrefix(o.Name, "txn") || o.Name == "revoke" || o.Name == "putLease" {
				nontriv = true
			}
		}
		rep.Outcome(fmt.Sprint(ops, r1), nontriv)
		if fmt.Sprint(r1) != fmt.Sprint(r2) || e1 != e2 {
			mismatches++
			if mismatches <= 5 {
				fmt.Printf("HARNESS-ERROR fake etcd differs from embedded etcd on %v:\n real: %v | %s\n fake: %v | %s\n", ops, r1, e1, r2, e2)
			}
		} else if nontriv && rep.WantSample() {
			rep.Sample(map[string]any{"etcd_conformance_sequence": fmt.Sprint(ops), "responses": r1, "events": e1})
		}
		return true
	}
	small := []confOp{confOps[0], confOps[3], confOps[7], confOps[9], confOps[11], confOps[13], confOps[14], confOps[16]} // put, putLease, del, txnCreate, txnPutIfValue, txnDelIfValue(v1), txnPutIfMod, revoke
	full := 2
	if vh.Thorough() {
		full = 3
	}
	enum.Sequences(len(confOps), full, func(idx []int) bool {
		if len(idx) == 0 {
			return true
		}
		ops := make([]confOp, len(idx))
		for i, v := range idx {
			ops[i] = confOps[v]
		}
		return run(ops)
	})
	// one step deeper over the transaction / lease core
	enum.Sequences(len(small), full+1, func(idx []int) bool {
		if len(idx) != full+1 {
			return true
		}
		ops := make([]confOp, len(idx))
		for i, v := range idx {
			ops[i] = small[v]
		}
		return run(ops)
	})
	rep.Count("etcd_conformance_mismatches", int64(mismatches))
	if mismatches > 0 {
		t.Fatalf("HARNESS-ERROR fake etcd does not conform to embedded etcd on %d sequences", mismatches)
	}
}
