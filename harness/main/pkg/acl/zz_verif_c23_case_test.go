//go:build verif

package acl

import (
	"fmt"
	"strings"
)

// Family F3 (letter case): resource names are case-sensitive. The metadata store, the
// partition logs and the group coordinator treat names that differ only in letter case as
// different resources, so a rule written for "a" says nothing about "A": exact rule names
// are compared byte by byte, a prefix rule "a*" covers exactly the names that start with
// the bytes "a". Rule names and request names of this family differ only in letter case
// on either side (rule "a" / request "A", rule "A" / request "a", rule "A*" / request
// "ab", rule "Ab" / request "aB", ...). Every configuration with one entry for principal p
// holding <=2 rules (allow/deny in any split) over the full case alphabet is decided by the
// real NewAuthorizer+Allows for every request and compared with c23RefDecide.

var (
	c23CaseRuleActions   = []string{"*", "produce"}
	c23CaseRuleResources = []string{"*", "topic", "group"}
	c23CaseRuleNames     = []string{"a", "A", "a*", "A*", "ab", "Ab", "aB"}
	c23CaseDefaults      = []string{"deny", "allow"}
	c23CaseReqPrincipals = []string{"p", "r"}
	c23CaseReqNames      = []string{"a", "A", "ab", "Ab", "aB", "AB", "b", "B"}
)

// c23FoldNameMatch is NOT the reference: it is the wrong, case-insensitive reading of rule
// names, used only to name the mechanism of a mismatch.
func c23FoldNameMatch(pattern, name string) bool {
	return c23RefNameMatch(strings.ToLower(pattern), strings.ToLower(name))
}

// c23FoldExplains tells whether a decision that differs from the statement is the one a
// case-insensitive comparison of rule names would give, and through which kind of rule.
func c23FoldExplains(es []PrincipalRules, defStr string, q c23Req, got bool) (string, bool) {
	who := strings.TrimSpace(q.Principal)
	denyKind, allowKind := "", ""
	for _, e := range es {
		if strings.TrimSpace(e.Name) == "" || strings.TrimSpace(e.Name) != who {
			continue
		}
		scan := func(list []Rule, kind *string) {
			for _, r := range list {
				if c23RefWild(string(r.Action), q.Action) && c23RefWild(string(r.Resource), q.Resource) && c23FoldNameMatch(r.Name, q.Name) {
					if *kind == "" || !c23RefNameMatch(r.Name, q.Name) {
						*kind = c23NameKind(r.Name)
					}
				}
			}
		}
		scan(e.Deny, &denyKind)
		scan(e.Allow, &allowKind)
	}
	var fold bool
	var via string
	switch {
	case denyKind != "":
		fold, via = false, "deny-rule:"+denyKind
	case allowKind != "":
		fold, via = true, "allow-rule:"+allowKind
	default:
		return "", false
	}
	if want, _ := c23RefDecide(Config{DefaultPolicy: defStr, Principals: es}, q); want == got || fold != got {
		return "", false
	}
	return "name-matched-ignoring-letter-case:" + via, true
}

func c23CaseOnlyDiffers(pattern, name string) bool {
	return !c23RefNameMatch(pattern, name) && c23FoldNameMatch(pattern, name)
}

func c23RunCase(fam *c23Family) *c23ItemResult {
	res := &c23ItemResult{ViolN: map[string]int64{}, Sigs: map[uint64]bool{}}
	var rules []Rule
	for _, n := range c23CaseRuleNames {
		for _, r := range c23CaseRuleResources {
			for _, a := range c23CaseRuleActions {
				rules = append(rules, Rule{Action: Action(a), Resource: Resource(r), Name: n})
				fam.Rules = append(fam.Rules, c23Rule{a, r, n})
			}
		}
	}
	var reqs []c23Req
	for _, p := range c23CaseReqPrincipals {
		for _, a := range c23ReqActions {
			for _, r := range c23ReqResources {
				for _, n := range c23CaseReqNames {
					reqs = append(reqs, c23Req{p, a, r, n})
				}
			}
		}
	}
	if len(reqs) > 64 {
		panic("case request alphabet exceeds 64")
	}
	nr := len(rules)
	// lists of <=2 rules, simplest first
	var lists [][]int
	lists = append(lists, nil)
	for i := 0; i < nr; i++ {
		lists = append(lists, []int{i})
	}
	for i := 0; i < nr; i++ {
		for j := 0; j < nr; j++ {
			lists = append(lists, []int{i, j})
		}
	}
	pick := func(l []int) []Rule {
		out := make([]Rule, 0, len(l))
		for _, i := range l {
			out = append(out, rules[i])
		}
		return out
	}
	for total := 0; total <= fam.MaxTotal; total++ {
		for _, al := range lists {
			for _, dl := range lists {
				if len(al)+len(dl) != total {
					continue
				}
				for di, defStr := range c23CaseDefaults {
					es := []PrincipalRules{{Name: "p", Allow: pick(al), Deny: pick(dl)}}
					cfg := Config{Enabled: true, DefaultPolicy: defStr, Principals: es}
					a := NewAuthorizer(cfg)
					res.Configs++
					var real, flags uint64
					for i, q := range reqs {
						got := a.Allows(q.Principal, Action(q.Action), Resource(q.Resource), q.Name)
						want, reason := c23RefDecide(cfg, q)
						res.Decisions++
						if got {
							real |= 1 << uint(i)
						}
						if q.Principal == "p" { // a rule of p names this resource up to letter case only
							for _, l := range [][]Rule{es[0].Allow, es[0].Deny} {
								for _, r := range l {
									if c23RefWild(string(r.Action), q.Action) && c23RefWild(string(r.Resource), q.Resource) && c23CaseOnlyDiffers(r.Name, q.Name) {
										flags |= 4
									}
								}
							}
						}
						switch reason {
						case "deny-rule":
							flags |= 1
						case "allow-rule":
							flags |= 2
						}
						if got != want {
							q := q
							dup := false
							denyHit := reason == "deny-rule"
							allowHit := false
							for _, r := range es[0].Allow {
								allowHit = allowHit || (q.Principal == "p" && c23RefMatch(r, q))
							}
							key := c23Classify(es, defStr, q, dup, denyHit, allowHit, got)
							res.add(key, func() (string, any) {
								snap := c23CloneEntries(es)
								return fmt.Sprintf("default_policy=%q principals=%+v request=%+v: Allows=%v, statement says %v (resource names are case-sensitive)", defStr, snap, q, got, want),
									c23Replay{Kind: "decision", Default: defStr, Entries: snap, Request: q}
							})
						}
					}
					sig := real*0x9E3779B97F4A7C15 ^ (flags<<3 | uint64(di)) ^ 0xF3F3F3F3F3F3F3F3
					res.Sigs[sig] = res.Sigs[sig] || (flags&3 != 0 && flags&4 != 0)
					if res.Sample == nil && total == 2 && len(al) == 1 && al[0] != dl[0] && flags&7 == 7 {
						res.Sample = map[string]any{"family": fam.Name, "default_policy": defStr, "principals": c23CloneEntries(es),
							"decisions_hex(2 principals x 32 requests)": fmt.Sprintf("%016x", real)}
					}
				}
			}
		}
	}
	return res
}
