//go:build verif

package acl

import (
	"fmt"
	"math/bits"
	"runtime"
	"sort"
	"strings"
	"sync"
	"testing"
	"time"

	"github.com/KafScale/platform/internal/verif/vh"
)

// C23 (main half): ACL decisions of acl.Authorizer.
//
// Every configuration of two bounded families is built with the real NewAuthorizer and
// every request of the request alphabet is decided by the real Allows; the 60-bit
// decision vector is compared with a reference written from the property statement
// (deny in ANY entry of the principal wins, else an allow rule in any entry, else the
// default), and with the vectors of the configuration minus one rule (monotonicity).

type c23Rule struct{ A, R, N string }

type c23Req struct {
	Principal string `json:"principal"`
	Action    string `json:"action"`
	Resource  string `json:"resource"`
	Name      string `json:"name"`
}

var (
	// alphabets, simplest first
	c23RuleActions   = []string{"*", "produce", "fetch"}
	c23RuleResources = []string{"*", "topic", "group"}
	c23RuleNames     = []string{"*", "", "a", "a*", "ab"}
	c23Defaults      = []string{"allow", "deny", ""}
	c23EntryNames    = []string{"p", "q"}

	c23ReqPrincipals = []string{"p", "q", "r", "", " p "}
	c23ReqClass      = []int{0, 1, 2, 2, 0} // entry-name class of each request principal after trimming (2 = no entry can name it)
	c23ReqActions    = []string{"produce", "fetch"}
	c23ReqResources  = []string{"topic", "group"}
	c23ReqNames      = []string{"a", "ab", "b"}
)

// ---- reference semantics (from the statement, not from the code) ----

func c23RefNameMatch(pattern, name string) bool {
	pattern = strings.TrimSpace(pattern)
	switch {
	case pattern == "" || pattern == "*": // omitted name / star: any name
		return true
	case strings.HasSuffix(pattern, "*"): // prefix wildcard
		p := pattern[:len(pattern)-1]
		return len(name) >= len(p) && name[:len(p)] == p
	default: // exact
		return pattern == name
	}
}

func c23RefWild(rule, v string) bool {
	return rule == "" || rule == "*" || strings.EqualFold(rule, v)
}

func c23RefMatch(r Rule, q c23Req) bool {
	return c23RefWild(string(r.Action), q.Action) && c23RefWild(string(r.Resource), q.Resource) && c23RefNameMatch(r.Name, q.Name)
}

// c23RefDecide is the statement: deny if any deny rule of the principal matches, else
// allow if any allow rule matches, else the default policy.
func c23RefDecide(cfg Config, q c23Req) (allowed bool, reason string) {
	who := strings.TrimSpace(q.Principal)
	denyHit, allowHit := false, false
	for _, e := range cfg.Principals {
		if strings.TrimSpace(e.Name) == "" || strings.TrimSpace(e.Name) != who {
			continue
		}
		for _, r := range e.Deny {
			if c23RefMatch(r, q) {
				denyHit = true
			}
		}
		for _, r := range e.Allow {
			if c23RefMatch(r, q) {
				allowHit = true
			}
		}
	}
	switch {
	case denyHit:
		return false, "deny-rule"
	case allowHit:
		return true, "allow-rule"
	default:
		return strings.EqualFold(strings.TrimSpace(cfg.DefaultPolicy), "allow"), "default"
	}
}

func c23NameKind(n string) string {
	n = strings.TrimSpace(n)
	switch {
	case n == "":
		return "empty"
	case n == "*":
		return "star"
	case strings.HasSuffix(n, "*"):
		return "prefix"
	}
	return "exact"
}

// ---- enumeration ----

type c23Family struct {
	Name     string
	Rules    []c23Rule
	MaxTotal int // bound on the number of rules in a configuration
}

type c23Shape struct {
	Names  []int    // entry -> index in c23EntryNames
	Counts [][2]int // entry -> (#allow, #deny)
}

func (s c23Shape) total() int {
	n := 0
	for _, c := range s.Counts {
		n += c[0] + c[1]
	}
	return n
}

func c23Shapes(maxTotal int) []c23Shape {
	var out []c23Shape
	for e := 0; e <= 2; e++ {
		var rec func(i int, cur c23Shape)
		rec = func(i int, cur c23Shape) {
			if i == e {
				if cur.total() <= maxTotal {
					cp := c23Shape{Names: append([]int(nil), cur.Names...), Counts: append([][2]int(nil), cur.Counts...)}
					out = append(out, cp)
				}
				return
			}
			for n := range c23EntryNames {
				for a := 0; a <= 2; a++ {
					for d := 0; d <= 2; d++ {
						rec(i+1, c23Shape{Names: append(cur.Names, n), Counts: append(cur.Counts, [2]int{a, d})})
					}
				}
			}
		}
		rec(0, c23Shape{})
	}
	sort.SliceStable(out, func(i, j int) bool {
		if out[i].total() != out[j].total() {
			return out[i].total() < out[j].total()
		}
		return len(out[i].Names) < len(out[j].Names)
	})
	return out
}

type c23Item struct {
	Fam     *c23Family
	Shape   c23Shape
	Default int
}

type c23Viol struct {
	Key    string
	Detail string
	Replay any
}

type c23ItemResult struct {
	Configs, Decisions, MonoPairs int64
	Viols                         []c23Viol        // first 3 per key, in enumeration order
	ViolN                         map[string]int64 // all
	Sigs                          map[uint64]bool  // outcome signature -> non-trivial
	Sample                        any
}

type c23Replay struct {
	Kind    string           `json:"kind"` // decision | monotone
	Default string           `json:"default_policy"`
	Entries []PrincipalRules `json:"principals"`
	Base    []PrincipalRules `json:"base_principals,omitempty"` // monotone: configuration before the rule was added
	Added   string           `json:"added,omitempty"`           // monotone: "allow"/"deny"
	Request c23Req           `json:"request"`
}

// add counts a violation and keeps the first three per key (detail and replay are built lazily).
func (res *c23ItemResult) add(key string, mk func() (string, any)) {
	res.ViolN[key]++
	if res.ViolN[key] <= 3 {
		d, r := mk()
		res.Viols = append(res.Viols, c23Viol{Key: key, Detail: d, Replay: r})
	}
}

var c23Requests []c23Req

func c23Init() {
	c23Requests = nil
	for _, p := range c23ReqPrincipals {
		for _, a := range c23ReqActions {
			for _, r := range c23ReqResources {
				for _, n := range c23ReqNames {
					c23Requests = append(c23Requests, c23Req{p, a, r, n})
				}
			}
		}
	}
	if len(c23Requests) > 64 {
		panic("request alphabet exceeds 64")
	}
}

const c23Triples = 12

func c23Vector(a *Authorizer) uint64 {
	var v uint64
	for i := range c23Requests {
		q := &c23Requests[i]
		if a.Allows(q.Principal, Action(q.Action), Resource(q.Resource), q.Name) {
			v |= 1 << uint(i)
		}
	}
	return v
}

func c23Expect(defAllow bool, deny, allow [3]uint16) uint64 {
	var v uint64
	var def uint16
	if defAllow {
		def = 0xFFF
	}
	for pi, cls := range c23ReqClass {
		b := (^deny[cls]) & (allow[cls] | def) & 0xFFF
		v |= uint64(b) << uint(c23Triples*pi)
	}
	return v
}

func c23CloneEntries(es []PrincipalRules) []PrincipalRules {
	out := make([]PrincipalRules, len(es))
	for i, e := range es {
		out[i] = PrincipalRules{Name: e.Name, Allow: append([]Rule{}, e.Allow...), Deny: append([]Rule{}, e.Deny...)}
	}
	return out
}

// c23RunItem enumerates every rule assignment of one (family, shape, default).
func c23RunItem(it c23Item) *c23ItemResult {
	res := &c23ItemResult{ViolN: map[string]int64{}, Sigs: map[uint64]bool{}}
	fam := it.Fam
	nr := len(fam.Rules)
	// reference match masks of the family's rules over the 12 (action,resource,name) triples
	masks := make([]uint16, nr)
	rules := make([]Rule, nr)
	for i, r := range fam.Rules {
		rules[i] = Rule{Action: Action(r.A), Resource: Resource(r.R), Name: r.N}
		for t := 0; t < c23Triples; t++ {
			if c23RefMatch(rules[i], c23Requests[t]) {
				masks[i] |= 1 << uint(t)
			}
		}
	}
	type slot struct {
		entry int
		deny  bool
	}
	var slots []slot
	for e, c := range it.Shape.Counts {
		for i := 0; i < c[0]; i++ {
			slots = append(slots, slot{e, false})
		}
		for i := 0; i < c[1]; i++ {
			slots = append(slots, slot{e, true})
		}
	}
	k := len(slots)
	ne := len(it.Shape.Names)
	defStr := c23Defaults[it.Default]
	defAllow := strings.EqualFold(strings.TrimSpace(defStr), "allow")
	clsCount := [3]int{}
	for _, n := range it.Shape.Names {
		clsCount[n]++
	}
	entries := make([]PrincipalRules, ne)
	build := func(idx []int, skip int, dropEntry int) ([]PrincipalRules, [3]uint16, [3]uint16) {
		var deny, allow [3]uint16
		for e := 0; e < ne; e++ {
			entries[e] = PrincipalRules{Name: c23EntryNames[it.Shape.Names[e]], Allow: entries[e].Allow[:0], Deny: entries[e].Deny[:0]}
		}
		for s, sl := range slots {
			if s == skip {
				continue
			}
			cls := it.Shape.Names[sl.entry]
			if sl.deny {
				entries[sl.entry].Deny = append(entries[sl.entry].Deny, rules[idx[s]])
				deny[cls] |= masks[idx[s]]
			} else {
				entries[sl.entry].Allow = append(entries[sl.entry].Allow, rules[idx[s]])
				allow[cls] |= masks[idx[s]]
			}
		}
		if dropEntry >= 0 {
			out := make([]PrincipalRules, 0, ne-1)
			for e := 0; e < ne; e++ {
				if e != dropEntry {
					out = append(out, entries[e])
				}
			}
			return out, deny, allow
		}
		return entries, deny, allow
	}
	addViol := res.add
	idx := make([]int, k)
	for {
		// ---- decision oracle ----
		es, deny, allow := build(idx, -1, -1)
		real := c23Vector(NewAuthorizer(Config{Enabled: true, DefaultPolicy: defStr, Principals: es}))
		exp := c23Expect(defAllow, deny, allow)
		res.Configs++
		res.Decisions += int64(len(c23Requests))
		var flags uint64
		if deny[0]|deny[1] != 0 {
			flags |= 1
		}
		if (allow[0]&^deny[0])|(allow[1]&^deny[1]) != 0 {
			flags |= 2
		}
		if clsCount[0] > 1 || clsCount[1] > 1 {
			flags |= 4
		}
		sig := real*0x9E3779B97F4A7C15 ^ (flags<<3 | uint64(it.Default))
		res.Sigs[sig] = res.Sigs[sig] || flags&3 != 0
		if res.Sample == nil && k > 0 && flags&3 == 3 {
			res.Sample = map[string]any{"family": fam.Name, "default_policy": defStr, "principals": c23CloneEntries(es),
				"decisions_hex(5 principals x 12 requests)": fmt.Sprintf("%015x", real), "matches_reference": real == exp}
		}
		c23ReportDecisions(addViol, es, defStr, real, exp, deny, allow, clsCount)
		// ---- monotonicity: this configuration vs itself minus one rule ----
		for s, sl := range slots {
			bases := []int{-1}
			c := it.Shape.Counts[sl.entry]
			if c[0]+c[1] == 1 {
				bases = append(bases, sl.entry) // the rule arrives together with a new entry
			}
			for _, drop := range bases {
				bes, _, _ := build(idx, s, drop)
				base := c23Vector(NewAuthorizer(Config{Enabled: true, DefaultPolicy: defStr, Principals: bes}))
				res.MonoPairs++
				var bad uint64
				added := "allow"
				if sl.deny {
					added = "deny"
					bad = real &^ base // adding a deny rule granted access
				} else {
					bad = base &^ real // adding an allow rule removed access
				}
				if bad == 0 {
					continue
				}
				basesnap := c23CloneEntries(bes)
				ext, _, _ := build(idx, -1, -1)
				c23ReportMono(addViol, basesnap, ext, defStr, added, bad, clsCount)
			}
		}
		// next rule assignment
		i := k - 1
		for i >= 0 {
			idx[i]++
			if idx[i] < nr {
				break
			}
			idx[i] = 0
			i--
		}
		if i < 0 {
			break
		}
	}
	return res
}

// c23ReportDecisions reports every request whose real decision differs from the statement.
func c23ReportDecisions(addViol func(key string, mk func() (string, any)), es []PrincipalRules, defStr string, real, exp uint64, deny, allow [3]uint16, clsCount [3]int) {
	for d := real ^ exp; d != 0; d &= d - 1 {
		i := bits.TrailingZeros64(d)
		q := c23Requests[i]
		cls := c23ReqClass[i/c23Triples]
		t := uint(i % c23Triples)
		got := real>>uint(i)&1 == 1
		denyHit := deny[cls]>>t&1 == 1
		allowHit := allow[cls]>>t&1 == 1
		key := c23Classify(es, defStr, q, cls < 2 && clsCount[cls] > 1, denyHit, allowHit, got)
		addViol(key, func() (string, any) {
			snap := c23CloneEntries(es)
			return fmt.Sprintf("default_policy=%q principals=%+v request=%+v: Allows=%v, statement says %v", defStr, snap, q, got, !got),
				c23Replay{Kind: "decision", Default: defStr, Entries: snap, Request: q}
		})
	}
}

// c23ReportMono reports requests for which adding one rule moved access the wrong way.
func c23ReportMono(addViol func(key string, mk func() (string, any)), base, ext []PrincipalRules, defStr, added string, bad uint64, clsCount [3]int) {
	basesnap, extsnap := c23CloneEntries(base), c23CloneEntries(ext)
	for d := bad; d != 0; d &= d - 1 {
		i := bits.TrailingZeros64(d)
		q := c23Requests[i]
		cls := c23ReqClass[i/c23Triples]
		key := "nonmonotone-add-" + added
		if cls < 2 && clsCount[cls] > 1 {
			// duplicate entries for the principal: is "the last entry replaces the earlier ones" what happened?
			before, _ := c23RefDecide(Config{DefaultPolicy: defStr, Principals: c23LastEntryOnly(base, q.Principal)}, q)
			after, _ := c23RefDecide(Config{DefaultPolicy: defStr, Principals: c23LastEntryOnly(ext, q.Principal)}, q)
			if before == (added == "allow") && after == (added == "deny") {
				key = "dup-principal-" + key
			}
		}
		addViol(key, func() (string, any) {
			return fmt.Sprintf("default_policy=%q request=%+v: before=%+v after adding one %s rule=%+v: access %s", defStr, q, basesnap, added, extsnap,
					map[string]string{"deny": "granted", "allow": "removed"}[added]),
				c23Replay{Kind: "monotone", Default: defStr, Entries: extsnap, Base: basesnap, Added: added, Request: q}
		})
	}
}

// c23LastEntryOnly keeps, of the entries naming the principal, only the last one.
func c23LastEntryOnly(es []PrincipalRules, principal string) []PrincipalRules {
	who := strings.TrimSpace(principal)
	last := -1
	for i, e := range es {
		if strings.TrimSpace(e.Name) == who {
			last = i
		}
	}
	var out []PrincipalRules
	for i, e := range es {
		if strings.TrimSpace(e.Name) != who || i == last {
			out = append(out, e)
		}
	}
	return out
}

// c23Classify names the mechanism of a decision mismatch.
func c23Classify(es []PrincipalRules, defStr string, q c23Req, dup, denyHit, allowHit, got bool) string {
	firstKind := func(deny bool) string {
		who := strings.TrimSpace(q.Principal)
		for _, e := range es {
			if strings.TrimSpace(e.Name) != who {
				continue
			}
			list := e.Allow
			if deny {
				list = e.Deny
			}
			for _, r := range list {
				if c23RefMatch(r, q) {
					return c23NameKind(r.Name)
				}
			}
		}
		return "none"
	}
	if key, ok := c23FoldExplains(es, defStr, q, got); ok {
		return key // the decision a case-insensitive comparison of rule names would give (only possible where names differ in letter case: family F3)
	}
	if dup {
		// duplicate entries for the principal: is "the last entry replaces the earlier ones" what happened?
		if last, _ := c23RefDecide(Config{DefaultPolicy: defStr, Principals: c23LastEntryOnly(es, q.Principal)}, q); last == got {
			if denyHit {
				return "dup-principal-deny-lost"
			}
			return "dup-principal-allow-lost"
		}
	}
	switch {
	case denyHit && got && allowHit:
		return "allow-evaluated-before-deny"
	case denyHit && got:
		return "deny-rule-missed:" + firstKind(true)
	case allowHit && !got:
		return "allow-rule-missed:" + firstKind(false)
	}
	who := "known-principal"
	found := false
	for _, e := range es {
		if strings.TrimSpace(e.Name) == strings.TrimSpace(q.Principal) {
			found = true
		}
	}
	if !found {
		who = "unknown-principal"
		if strings.TrimSpace(q.Principal) == "" {
			who = "blank-principal"
		}
	}
	if q.Principal != strings.TrimSpace(q.Principal) {
		who += "-untrimmed"
	}
	return "default-not-applied:" + who
}

func c23ReplayOne(rep *vh.Report, rp c23Replay) {
	q := rp.Request
	call := func(es []PrincipalRules) bool {
		return NewAuthorizer(Config{Enabled: true, DefaultPolicy: rp.Default, Principals: es}).Allows(q.Principal, Action(q.Action), Resource(q.Resource), q.Name)
	}
	rep.Eval(1)
	cfg := Config{Enabled: true, DefaultPolicy: rp.Default, Principals: rp.Entries}
	got := call(rp.Entries)
	dup := false
	seen := map[string]int{}
	for _, e := range rp.Entries {
		seen[strings.TrimSpace(e.Name)]++
	}
	dup = seen[strings.TrimSpace(q.Principal)] > 1
	switch rp.Kind {
	case "monotone":
		before := call(rp.Base)
		rep.Outcome(fmt.Sprintf("replay-monotone:%v->%v", before, got), true)
		if (rp.Added == "allow" && before && !got) || (rp.Added == "deny" && !before && got) {
			key := "nonmonotone-add-" + rp.Added
			if dup {
				b, _ := c23RefDecide(Config{DefaultPolicy: rp.Default, Principals: c23LastEntryOnly(rp.Base, q.Principal)}, q)
				a, _ := c23RefDecide(Config{DefaultPolicy: rp.Default, Principals: c23LastEntryOnly(rp.Entries, q.Principal)}, q)
				if b == before && a == got {
					key = "dup-principal-" + key
				}
			}
			rep.Violation(key, fmt.Sprintf("replay: before=%v after=%v", before, got), rp)
		}
	default:
		want, reason := c23RefDecide(cfg, q)
		rep.Outcome(fmt.Sprintf("replay-decision:%v/%v/%s", got, want, reason), true)
		if got != want {
			denyHit := reason == "deny-rule"
			allowHit := false
			for _, e := range rp.Entries {
				if strings.TrimSpace(e.Name) != strings.TrimSpace(q.Principal) {
					continue
				}
				for _, r := range e.Allow {
					allowHit = allowHit || c23RefMatch(r, q)
				}
			}
			rep.Violation(c23Classify(rp.Entries, rp.Default, q, dup, denyHit, allowHit, got), fmt.Sprintf("replay: Allows=%v, statement says %v (%s)", got, want, reason), rp)
		}
	}
}

func TestVerifC23(t *testing.T) {
	rep := vh.New(t, "C23")
	defer rep.Finish()
	c23Init()
	rep.Rule = "case = (ACL configuration, request) decided by the real NewAuthorizer+Allows; configurations = every member of two families (F1: full 45-rule alphabet, any shape of <=2 entries and <=2 rules per list with a bounded total number of rules; F2: every shape up to 2 entries x 2 allow x 2 deny rules over a core rule alphabet) x 3 default policies; F3: one entry for p with <=2 rules over rule names {a,A,a*,A*,ab,Ab,aB} decided for request names {a,A,ab,Ab,aB,AB,b,B}, i.e. names that differ only in letter case on either side, default deny/allow, decision oracle only); each configuration of F1/F2 is also compared with itself minus each single rule (monotonicity); signature = (60-bit decision vector, default, which of deny/allow rules decide, duplicate principal); non-trivial = at least one request is decided by a deny or an allow rule rather than the default (F3: and some request names a resource that a rule of p names up to letter case only)"
	rep.Assumptions = []string{
		"principal names are compared after trimming surrounding blanks (the config loader trims entry names); a blank request principal is an unknown principal for entries named p/q",
		"an omitted rule name (\"\") means any name, as the repository's own unit test asserts; default_policy other than allow (incl. empty) means deny",
		"only enabled configurations are considered (Enabled=false switches ACLs off)",
		"resource names are case-sensitive (the store, the logs and the coordinator keep names differing in letter case apart): an exact rule name matches by byte equality, a prefix rule by byte prefix; action and resource-type words of a rule are matched ignoring case",
	}
	var rp c23Replay
	if ok, err := vh.LoadReplay(&rp); ok {
		if err != nil {
			t.Fatalf("HARNESS-ERROR replay: %v", err)
		}
		if rp.Request.Action == "" { // a replay of the SQL-proxy half: nothing to do in this part
			rep.Outcome("replay-other-part", true)
			rep.Outcome("replay-other-part-2", true)
			return
		}
		c23ReplayOne(rep, rp)
		return
	}
	var all []c23Rule
	for _, n := range c23RuleNames {
		for _, r := range c23RuleResources {
			for _, a := range c23RuleActions {
				all = append(all, c23Rule{a, r, n})
			}
		}
	}
	// simplest first: fewer non-star fields first
	sort.SliceStable(all, func(i, j int) bool { return c23Specificity(all[i]) < c23Specificity(all[j]) })
	core := []c23Rule{{"*", "*", "*"}, {"produce", "topic", "a"}, {"fetch", "*", "a*"}, {"*", "group", "ab"}}
	f1 := &c23Family{Name: "F1-full-alphabet", Rules: all, MaxTotal: 2}
	f2 := &c23Family{Name: "F2-full-shape-core-rules", Rules: core, MaxTotal: 8}
	if vh.Thorough() {
		f1.MaxTotal = 3
		f2.Rules = append(f2.Rules, c23Rule{"produce", "*", ""})
	}
	rep.SetInfo("rule_alphabet", map[string]any{"actions": c23RuleActions, "resources": c23RuleResources, "names": c23RuleNames, "rules": len(all)})
	rep.SetInfo("request_alphabet", map[string]any{"principals": c23ReqPrincipals, "actions": c23ReqActions, "resources": c23ReqResources, "names": c23ReqNames, "requests": len(c23Requests)})
	rep.SetInfo("entry_principals", c23EntryNames)
	rep.SetInfo("default_policies", c23Defaults)
	rep.SetInfo("F1", map[string]any{"rules": len(f1.Rules), "max_entries": 2, "max_rules_per_list": 2, "max_rules_total": f1.MaxTotal})
	rep.SetInfo("F2", map[string]any{"rules": f2.Rules, "max_entries": 2, "max_rules_per_list": 2, "max_rules_total": f2.MaxTotal})

	var items []c23Item
	for _, fam := range []*c23Family{f1} {
		for _, sh := range c23Shapes(fam.MaxTotal) {
			for d := range c23Defaults {
				items = append(items, c23Item{Fam: fam, Shape: sh, Default: d})
			}
		}
	}
	sort.SliceStable(items, func(i, j int) bool { return items[i].Shape.total() < items[j].Shape.total() })
	deadline := vh.Deadline()
	results := make([]*c23ItemResult, len(items))
	var wg sync.WaitGroup
	next := make(chan int)
	for w := 0; w < runtime.GOMAXPROCS(0); w++ {
		wg.Add(1)
		go func() {
			defer wg.Done()
			for i := range next {
				results[i] = c23RunItem(items[i])
			}
		}()
	}
	capped := false
	for i := range items {
		if time.Now().After(deadline) {
			capped = true
			break
		}
		next <- i
	}
	close(next)
	wg.Wait()
	if !capped {
		dres, dcap := c23RunDense(f2, deadline)
		capped = capped || dcap
		for _, r := range dres {
			results = append(results, r)
			items = append(items, c23Item{Fam: f2})
		}
	}
	if !capped {
		// family F3: rule names and request names that differ only in letter case
		f3 := &c23Family{Name: "F3-letter-case", MaxTotal: 2}
		results = append(results, c23RunCase(f3))
		items = append(items, c23Item{Fam: f3})
		rep.SetInfo("F3", map[string]any{"rule_actions": c23CaseRuleActions, "rule_resources": c23CaseRuleResources, "rule_names": c23CaseRuleNames, "rules": len(f3.Rules),
			"entries": "one entry for p", "max_rules_total": f3.MaxTotal, "default_policies": c23CaseDefaults,
			"request_principals": c23CaseReqPrincipals, "request_actions": c23ReqActions, "request_resources": c23ReqResources, "request_names": c23CaseReqNames})
	}
	if !capped {
		// family F4: every resource kind (cluster next to topic and group) and the admin action
		f4 := &c23Family{Name: "F4-resource-kinds", MaxTotal: 2}
		results = append(results, c23RunKinds(f4))
		items = append(items, c23Item{Fam: f4})
		rep.SetInfo("F4", map[string]any{"rule_actions": c23KindRuleActions, "rule_resources": c23KindRuleResources, "rule_names": c23KindRuleNames, "rules": len(f4.Rules),
			"entries": "one entry for p", "max_rules_total": f4.MaxTotal, "default_policies": c23KindDefaults,
			"request_principals": c23KindReqPrincipals, "request_actions": c23KindReqActions, "request_resources": c23KindReqResources, "request_names": c23KindReqNames})
	}
	if capped {
		rep.Cap("deadline reached before all (family, shape, default) items were enumerated")
	}
	// merge in enumeration order: smallest counterexamples first
	sigs := map[uint64]bool{}
	kept := map[string]int{}
	totalN := map[string]int64{}
	for i, r := range results {
		if r == nil {
			continue
		}
		rep.Eval(r.Decisions)
		rep.Count("configurations", r.Configs)
		rep.Count("configurations_"+items[i].Fam.Name, r.Configs)
		rep.Count("monotonicity_pairs", r.MonoPairs)
		for s, nt := range r.Sigs {
			sigs[s] = sigs[s] || nt
		}
		for _, v := range r.Viols {
			if kept[v.Key] < 3 {
				kept[v.Key]++
				rep.Violation(v.Key, v.Detail, v.Replay)
			}
		}
		for k, n := range r.ViolN {
			totalN[k] += n
		}
		if r.Sample != nil && rep.WantSample() && i%53 == 0 {
			rep.Sample(r.Sample)
		}
	}
	for k, n := range totalN {
		rep.ViolCount[k] = n // every violating (configuration, request) is counted, 3 replays per key are kept
	}
	for s, nt := range sigs {
		rep.Outcome(fmt.Sprintf("%016x", s), nt)
	}
}

func c23Specificity(r c23Rule) int {
	n := 0
	if r.A != "*" {
		n++
	}
	if r.R != "*" {
		n++
	}
	switch c23NameKind(r.N) {
	case "star":
	case "empty":
		n += 1
	case "exact":
		n += 2
	default:
		n += 3
	}
	return n
}
