//go:build verif

package acl

import (
	"runtime"
	"strings"
	"sync"
	"time"
)

// Dense enumeration of family F2: every configuration with <=2 entries (principals
// {p,q}, duplicates included) whose allow and deny lists are any sequence of <=2 rules
// of a small core alphabet, times the three default policies. Every configuration gets a
// dense code; pass 1 decides all 60 requests of every configuration with the real code
// (and compares with the statement), pass 2 compares each configuration with each
// "same configuration minus one rule" by looking the stored real decision vectors up.

type c23DenseEntry struct {
	Name        int
	Allow, Deny []int
}

type c23Dense struct {
	rules []Rule
	masks []uint16
	n     int // rules in the alphabet
	L     int // list codes: 1 + n + n*n
	E     int // entry codes: 2 * L * L
	N     int // configurations per default: 1 + E + E*E
	vec   []uint64
}

func c23NewDense(fam *c23Family) *c23Dense {
	d := &c23Dense{n: len(fam.Rules)}
	d.L = 1 + d.n + d.n*d.n
	d.E = len(c23EntryNames) * d.L * d.L
	d.N = 1 + d.E + d.E*d.E
	for _, r := range fam.Rules {
		rule := Rule{Action: Action(r.A), Resource: Resource(r.R), Name: r.N}
		var m uint16
		for t := 0; t < c23Triples; t++ {
			if c23RefMatch(rule, c23Requests[t]) {
				m |= 1 << uint(t)
			}
		}
		d.rules = append(d.rules, rule)
		d.masks = append(d.masks, m)
	}
	d.vec = make([]uint64, len(c23Defaults)*d.N)
	return d
}

func (d *c23Dense) listDecode(l int, buf []int) []int {
	switch {
	case l == 0:
		return buf[:0]
	case l <= d.n:
		return append(buf[:0], l-1)
	}
	l -= 1 + d.n
	return append(buf[:0], l/d.n, l%d.n)
}

func (d *c23Dense) listEncode(rs []int) int {
	switch len(rs) {
	case 0:
		return 0
	case 1:
		return 1 + rs[0]
	}
	return 1 + d.n + rs[0]*d.n + rs[1]
}

func (d *c23Dense) entryDecode(e int, ent *c23DenseEntry) {
	ent.Name = e / (d.L * d.L)
	ent.Allow = d.listDecode(e/d.L%d.L, ent.Allow)
	ent.Deny = d.listDecode(e%d.L, ent.Deny)
}

func (d *c23Dense) entryEncode(ent *c23DenseEntry) int {
	return ent.Name*d.L*d.L + d.listEncode(ent.Allow)*d.L + d.listEncode(ent.Deny)
}

// decode fills ents (capacity 2) and returns the default index and the entry count.
func (d *c23Dense) decode(code int, ents *[2]c23DenseEntry) (def int, ne int) {
	def = code / d.N
	c := code % d.N
	switch {
	case c == 0:
		return def, 0
	case c <= d.E:
		d.entryDecode(c-1, &ents[0])
		return def, 1
	}
	c -= 1 + d.E
	d.entryDecode(c/d.E, &ents[0])
	d.entryDecode(c%d.E, &ents[1])
	return def, 2
}

func (d *c23Dense) encode(def int, ents []c23DenseEntry) int {
	base := def * d.N
	switch len(ents) {
	case 0:
		return base
	case 1:
		return base + 1 + d.entryEncode(&ents[0])
	}
	return base + 1 + d.E + d.entryEncode(&ents[0])*d.E + d.entryEncode(&ents[1])
}

func (d *c23Dense) materialize(ents []c23DenseEntry) (es []PrincipalRules, deny, allow [3]uint16, clsCount [3]int) {
	es = make([]PrincipalRules, len(ents))
	for i, e := range ents {
		es[i].Name = c23EntryNames[e.Name]
		clsCount[e.Name]++
		for _, r := range e.Allow {
			es[i].Allow = append(es[i].Allow, d.rules[r])
			allow[e.Name] |= d.masks[r]
		}
		for _, r := range e.Deny {
			es[i].Deny = append(es[i].Deny, d.rules[r])
			deny[e.Name] |= d.masks[r]
		}
	}
	return
}

func c23RunDense(fam *c23Family, deadline time.Time) ([]*c23ItemResult, bool) {
	d := c23NewDense(fam)
	total := len(d.vec)
	const chunk = 8192
	nchunks := (total + chunk - 1) / chunk
	var capped bool
	var capMu sync.Mutex
	parallel := func(f func(lo, hi int, res *c23ItemResult)) []*c23ItemResult {
		out := make([]*c23ItemResult, nchunks)
		var wg sync.WaitGroup
		next := make(chan int)
		for w := 0; w < runtime.GOMAXPROCS(0); w++ {
			wg.Add(1)
			go func() {
				defer wg.Done()
				for c := range next {
					res := &c23ItemResult{ViolN: map[string]int64{}, Sigs: map[uint64]bool{}}
					hi := (c + 1) * chunk
					if hi > total {
						hi = total
					}
					f(c*chunk, hi, res)
					out[c] = res
				}
			}()
		}
		for c := 0; c < nchunks; c++ {
			if time.Now().After(deadline) {
				capMu.Lock()
				capped = true
				capMu.Unlock()
				break
			}
			next <- c
		}
		close(next)
		wg.Wait()
		return out
	}
	// pass 1: real decisions of every configuration, compared with the statement
	p1 := parallel(func(lo, hi int, res *c23ItemResult) {
		var ents [2]c23DenseEntry
		for code := lo; code < hi; code++ {
			def, ne := d.decode(code, &ents)
			es, deny, allow, clsCount := d.materialize(ents[:ne])
			defStr := c23Defaults[def]
			real := c23Vector(NewAuthorizer(Config{Enabled: true, DefaultPolicy: defStr, Principals: es}))
			d.vec[code] = real
			exp := c23Expect(strings.EqualFold(strings.TrimSpace(defStr), "allow"), deny, allow)
			res.Configs++
			res.Decisions += int64(len(c23Requests))
			var flags uint64
			if deny[0]|deny[1] != 0 {
				flags |= 1
			}
			if (allow[0]&^deny[0])|(allow[1]&^deny[1]) != 0 {
				flags |= 2
			}
			if clsCount[0] > 1 || clsCount[1] > 1 {
				flags |= 4
			}
			sig := real*0x9E3779B97F4A7C15 ^ (flags<<3 | uint64(def))
			res.Sigs[sig] = res.Sigs[sig] || flags&3 != 0
			if res.Sample == nil && ne == 2 && flags&3 == 3 && len(ents[0].Deny) == 2 && len(ents[1].Allow) == 2 {
				res.Sample = map[string]any{"family": fam.Name, "default_policy": defStr, "principals": c23CloneEntries(es),
					"decisions_hex(5 principals x 12 requests)": c23Hex(real), "matches_reference": real == exp}
			}
			if real != exp {
				c23ReportDecisions(res.add, es, defStr, real, exp, deny, allow, clsCount)
			}
		}
	})
	if capped {
		return p1, true
	}
	// pass 2: every configuration against itself minus one rule (stored real vectors)
	p2 := parallel(func(lo, hi int, res *c23ItemResult) {
		var ents, base [2]c23DenseEntry
		var bufA, bufD [2][2]int
		for code := lo; code < hi; code++ {
			def, ne := d.decode(code, &ents)
			real := d.vec[code]
			for e := 0; e < ne; e++ {
				for _, isDeny := range []bool{false, true} {
					list := ents[e].Allow
					if isDeny {
						list = ents[e].Deny
					}
					for i := range list {
						for x := 0; x < ne; x++ {
							base[x] = c23DenseEntry{Name: ents[x].Name, Allow: append(bufA[x][:0], ents[x].Allow...), Deny: append(bufD[x][:0], ents[x].Deny...)}
						}
						if isDeny {
							base[e].Deny = append(base[e].Deny[:i], base[e].Deny[i+1:]...)
						} else {
							base[e].Allow = append(base[e].Allow[:i], base[e].Allow[i+1:]...)
						}
						variants := [][]c23DenseEntry{base[:ne]}
						if len(base[e].Allow)+len(base[e].Deny) == 0 { // the rule arrived together with a new entry
							var dropped []c23DenseEntry
							for x := 0; x < ne; x++ {
								if x != e {
									dropped = append(dropped, base[x])
								}
							}
							variants = append(variants, dropped)
						}
						for _, bents := range variants {
							bv := d.vec[d.encode(def, bents)]
							res.MonoPairs++
							var bad uint64
							added := "allow"
							if isDeny {
								added = "deny"
								bad = real &^ bv
							} else {
								bad = bv &^ real
							}
							if bad != 0 {
								bes, _, _, _ := d.materialize(bents)
								es, _, _, clsCount := d.materialize(ents[:ne])
								c23ReportMono(res.add, bes, es, c23Defaults[def], added, bad, clsCount)
							}
						}
					}
				}
			}
		}
	})
	return append(p1, p2...), capped
}

func c23Hex(v uint64) string {
	const hexd = "0123456789abcdef"
	b := make([]byte, 15)
	for i := 14; i >= 0; i-- {
		b[i] = hexd[v&15]
		v >>= 4
	}
	return string(b)
}
