//go:build verif

package acl

import "fmt"

// Family F4 (resource kinds): the statement quantifies over actions and resources, and the
// code names three resource kinds (topic, group, cluster) and more actions than produce and
// fetch. Families F1-F3 ask for topic and group only; this family asks for every resource
// kind with the action "admin" next to "produce", against rules that name a kind, the star or
// nothing, with name patterns that do and do not match the requested name (a cluster request
// carries a name like any other request, the broker passes "cluster"). Every configuration
// with one entry for principal p holding <=2 rules (allow/deny in any split) is decided by the
// real NewAuthorizer+Allows for every request and compared with c23RefDecide.

var (
	c23KindRuleActions   = []string{"*", "admin", "produce"}
	c23KindRuleResources = []string{"*", "", "cluster", "topic"}
	c23KindRuleNames     = []string{"*", "", "a", "a*", "cluster"}
	c23KindDefaults      = []string{"deny", "allow"}
	c23KindReqPrincipals = []string{"p", "r"}
	c23KindReqActions    = []string{"admin", "produce"}
	c23KindReqResources  = []string{"cluster", "topic", "group"}
	c23KindReqNames      = []string{"a", "ab", "cluster", "b"}
)

func c23RunKinds(fam *c23Family) *c23ItemResult {
	res := &c23ItemResult{ViolN: map[string]int64{}, Sigs: map[uint64]bool{}}
	var rules []Rule
	for _, n := range c23KindRuleNames {
		for _, r := range c23KindRuleResources {
			for _, a := range c23KindRuleActions {
				rules = append(rules, Rule{Action: Action(a), Resource: Resource(r), Name: n})
				fam.Rules = append(fam.Rules, c23Rule{a, r, n})
			}
		}
	}
	var reqs []c23Req
	for _, p := range c23KindReqPrincipals {
		for _, a := range c23KindReqActions {
			for _, r := range c23KindReqResources {
				for _, n := range c23KindReqNames {
					reqs = append(reqs, c23Req{p, a, r, n})
				}
			}
		}
	}
	if len(reqs) > 64 {
		panic("kinds request alphabet exceeds 64")
	}
	nr := len(rules)
	var lists [][]int
	lists = append(lists, nil)
	for i := 0; i < nr; i++ {
		lists = append(lists, []int{i})
	}
	for i := 0; i < nr; i++ {
		for j := 0; j < nr; j++ {
			lists = append(lists, []int{i, j})
		}
	}
	pick := func(l []int) []Rule {
		out := make([]Rule, 0, len(l))
		for _, i := range l {
			out = append(out, rules[i])
		}
		return out
	}
	for total := 0; total <= fam.MaxTotal; total++ {
		for _, al := range lists {
			for _, dl := range lists {
				if len(al)+len(dl) != total {
					continue
				}
				for di, defStr := range c23KindDefaults {
					es := []PrincipalRules{{Name: "p", Allow: pick(al), Deny: pick(dl)}}
					cfg := Config{Enabled: true, DefaultPolicy: defStr, Principals: es}
					a := NewAuthorizer(cfg)
					res.Configs++
					var real, flags uint64
					for i, q := range reqs {
						got := a.Allows(q.Principal, Action(q.Action), Resource(q.Resource), q.Name)
						want, reason := c23RefDecide(cfg, q)
						res.Decisions++
						if got {
							real |= 1 << uint(i)
						}
						switch reason {
						case "deny-rule":
							flags |= 1
						case "allow-rule":
							flags |= 2
						}
						if got != want {
							q := q
							denyHit := reason == "deny-rule"
							allowHit := false
							for _, r := range es[0].Allow {
								allowHit = allowHit || (q.Principal == "p" && c23RefMatch(r, q))
							}
							key := c23Classify(es, defStr, q, false, denyHit, allowHit, got) + ":" + q.Resource + "-request"
							res.add(key, func() (string, any) {
								snap := c23CloneEntries(es)
								return fmt.Sprintf("default_policy=%q principals=%+v request=%+v: Allows=%v, statement says %v", defStr, snap, q, got, want),
									c23Replay{Kind: "decision", Default: defStr, Entries: snap, Request: q}
							})
						}
					}
					sig := real*0x9E3779B97F4A7C15 ^ (flags<<3 | uint64(di)) ^ 0xF4F4F4F4F4F4F4F4
					res.Sigs[sig] = res.Sigs[sig] || flags&3 == 3
					if res.Sample == nil && total == 2 && len(al) == 1 && al[0] != dl[0] && flags&3 == 3 {
						res.Sample = map[string]any{"family": fam.Name, "default_policy": defStr, "principals": c23CloneEntries(es),
							"decisions_hex(2 principals x 24 requests)": fmt.Sprintf("%016x", real)}
					}
				}
			}
		}
	}
	return res
}
