//go:build verif

package protocol

// C10 helpers: the supported (api key, version) table read from the broker/proxy
// sources at run time, and a reflection-driven generator of kmsg requests with
// small per-field alphabets (uniform variants and every 1-field substitution).

import (
	"fmt"
	"math"
	"os"
	"path/filepath"
	"reflect"
	"regexp"
	"sort"
	"strconv"
	"strings"

	"github.com/twmb/franz-go/pkg/kmsg"
)

// c10KeyNames maps the constant names used in the advertised-version tables to
// their values (compile-time references, so a renamed constant breaks the build
// instead of silently shrinking the enumerated set).
var c10KeyNames = map[string]int16{
	"APIKeyProduce": APIKeyProduce, "APIKeyFetch": APIKeyFetch, "APIKeyListOffsets": APIKeyListOffsets,
	"APIKeyMetadata": APIKeyMetadata, "APIKeyOffsetCommit": APIKeyOffsetCommit, "APIKeyOffsetFetch": APIKeyOffsetFetch,
	"APIKeyFindCoordinator": APIKeyFindCoordinator, "APIKeyJoinGroup": APIKeyJoinGroup, "APIKeyHeartbeat": APIKeyHeartbeat,
	"APIKeyLeaveGroup": APIKeyLeaveGroup, "APIKeySyncGroup": APIKeySyncGroup, "APIKeyDescribeGroups": APIKeyDescribeGroups,
	"APIKeyListGroups": APIKeyListGroups, "APIKeyApiVersion": APIKeyApiVersion, "APIKeyCreateTopics": APIKeyCreateTopics,
	"APIKeyDeleteTopics": APIKeyDeleteTopics, "APIKeyOffsetForLeaderEpoch": APIKeyOffsetForLeaderEpoch,
	"APIKeyDescribeConfigs": APIKeyDescribeConfigs, "APIKeyAlterConfigs": APIKeyAlterConfigs,
	"APIKeyCreatePartitions": APIKeyCreatePartitions, "APIKeyDeleteGroups": APIKeyDeleteGroups,
}

type c10KV struct{ Key, Version int16 }

// c10Supported returns the advertised (key, version) pairs: the union of the tables in
// cmd/broker generateApiVersions and cmd/proxy generateProxyApiVersions, read from the
// working tree at run time. ranges[key] = {min, max} over the union.
func c10Supported() (pairs []c10KV, ranges map[int16][2]int16, err error) {
	repo := os.Getenv("VERIF_REPO")
	if repo == "" {
		repo = "/repo"
	}
	set := map[c10KV]bool{}
	ranges = map[int16][2]int16{}
	entry := regexp.MustCompile(`\{\s*key:\s*protocol\.(\w+),\s*min\w*:\s*(\d+),\s*max\w*:\s*(\d+)\s*\}`)
	for _, src := range []struct{ file, fn string }{
		{"cmd/broker/main.go", "func generateApiVersions()"},
		{"cmd/proxy/main.go", "func generateProxyApiVersions()"},
	} {
		b, rerr := os.ReadFile(filepath.Join(repo, src.file))
		if rerr != nil {
			return nil, nil, fmt.Errorf("read advertised versions: %v", rerr)
		}
		text := string(b)
		i := strings.Index(text, src.fn)
		if i < 0 {
			return nil, nil, fmt.Errorf("%s not found in %s", src.fn, src.file)
		}
		text = text[i:]
		if j := strings.Index(text[1:], "\nfunc "); j >= 0 {
			text = text[:j+1]
		}
		ms := entry.FindAllStringSubmatch(text, -1)
		if len(ms) == 0 {
			return nil, nil, fmt.Errorf("no version entries parsed from %s in %s", src.fn, src.file)
		}
		for _, m := range ms {
			key, ok := c10KeyNames[m[1]]
			if !ok {
				return nil, nil, fmt.Errorf("unknown api key constant %s in %s", m[1], src.file)
			}
			lo, _ := strconv.Atoi(m[2])
			hi, _ := strconv.Atoi(m[3])
			for v := lo; v <= hi; v++ {
				set[c10KV{key, int16(v)}] = true
			}
		}
	}
	for kv := range set {
		pairs = append(pairs, kv)
		r, ok := ranges[kv.Key]
		if !ok {
			r = [2]int16{kv.Version, kv.Version}
		}
		if kv.Version < r[0] {
			r[0] = kv.Version
		}
		if kv.Version > r[1] {
			r[1] = kv.Version
		}
		ranges[kv.Key] = r
	}
	sort.Slice(pairs, func(i, j int) bool {
		if pairs[i].Key != pairs[j].Key {
			return pairs[i].Key < pairs[j].Key
		}
		return pairs[i].Version < pairs[j].Version
	})
	return pairs, ranges, nil
}

// c10FlexBoundary returns the first flexible version of key (or -1 when none up to max+1).
func c10FlexBoundary(key int16) int16 {
	r := kmsg.RequestForKey(key)
	if r == nil {
		return -1
	}
	for v := int16(0); v <= r.MaxVersion()+1; v++ {
		r.SetVersion(v)
		if r.IsFlexible() {
			return v
		}
	}
	return -1
}

func c10IsFlexible(key, version int16) bool {
	r := kmsg.RequestForKey(key)
	if r == nil {
		return false
	}
	r.SetVersion(version)
	return r.IsFlexible()
}

// ---- request generator ----

const c10Alts = 5 // every leaf alphabet has 5 entries; index 0 simplest, 1 = base

var (
	c10TagsType = reflect.TypeOf(kmsg.Tags{})
	c10Long     = strings.Repeat("s", 130) // >127: two-byte compact length in flexible versions
)

// c10Filler assigns every settable leaf of a kmsg request. Leaves are numbered in walk
// order. Leaf i takes alphabet entry `variant`, except leaf subLeaf which takes subAlt.
type c10Filler struct {
	variant int
	subLeaf int
	subAlt  int
	n       int
	subPath string
	err     string
}

func (f *c10Filler) alt(path string) int {
	i := f.n
	f.n++
	if i == f.subLeaf {
		f.subPath = path
		return f.subAlt
	}
	return f.variant
}

func (f *c10Filler) fill(v reflect.Value, path string, depth, elem int) {
	if depth > 12 {
		f.err = "nesting too deep at " + path
		return
	}
	t := v.Type()
	if t == c10TagsType {
		tags := v.Addr().Interface().(*kmsg.Tags)
		switch f.alt(path) {
		case 2:
			tags.Set(1000, []byte("abc"))
		case 3:
			tags.Set(1000, []byte{})
			tags.Set(100000, []byte(c10Long))
		}
		return
	}
	switch t.Kind() {
	case reflect.Bool:
		v.SetBool([]bool{false, true, false, true, true}[f.alt(path)])
	case reflect.Int8, reflect.Int16, reflect.Int32, reflect.Int64, reflect.Int:
		bits := uint(t.Bits())
		max := int64(1)<<(bits-1) - 1
		v.SetInt([]int64{0, 1 + int64(elem), -1, max, -max - 1}[f.alt(path)])
	case reflect.Uint8, reflect.Uint16, reflect.Uint32, reflect.Uint64, reflect.Uint:
		bits := uint(t.Bits())
		max := uint64(math.MaxUint64) >> (64 - bits)
		v.SetUint([]uint64{0, 1 + uint64(elem), 2, max, max - 1}[f.alt(path)])
	case reflect.Float32, reflect.Float64:
		v.SetFloat([]float64{0, 1.5, -1, math.MaxFloat64, math.SmallestNonzeroFloat64}[f.alt(path)])
	case reflect.String:
		v.SetString([]string{"", "a" + strconv.Itoa(elem), "bc", c10Long, "x y"}[f.alt(path)])
	case reflect.Ptr:
		if []bool{false, true, true, true, false}[f.alt(path+"?")] {
			nv := reflect.New(t.Elem())
			f.fill(nv.Elem(), path+"*", depth+1, elem)
			v.Set(nv)
		} else {
			v.Set(reflect.Zero(t))
		}
	case reflect.Slice:
		if t.Elem().Kind() == reflect.Uint8 {
			var b []byte
			switch f.alt(path) {
			case 1:
				b = []byte{byte(1 + elem)}
			case 2:
				b = []byte{}
			case 3:
				b = []byte(c10Long)
			case 4:
				b = []byte{0xff, 0x00}
			}
			v.SetBytes(b)
			return
		}
		a := f.alt(path + "#")
		n := []int{0, 1, 2, 1, 0}[a]
		if a == 0 {
			v.Set(reflect.Zero(t))
			return
		}
		s := reflect.MakeSlice(t, n, n)
		for i := 0; i < n; i++ {
			f.fill(s.Index(i), path+"["+strconv.Itoa(i)+"]", depth+1, i)
		}
		v.Set(s)
	case reflect.Array:
		if t.Elem().Kind() == reflect.Uint8 {
			a := f.alt(path)
			for i := 0; i < t.Len(); i++ {
				var x byte
				switch a {
				case 1:
					x = byte(i + 1)
				case 2:
					x = 0xff
				case 3:
					x = byte(0x80 | i)
				case 4:
					x = byte(i & 1)
				}
				v.Index(i).SetUint(uint64(x))
			}
			return
		}
		for i := 0; i < t.Len(); i++ {
			f.fill(v.Index(i), path+"["+strconv.Itoa(i)+"]", depth+1, i)
		}
	case reflect.Struct:
		for i := 0; i < t.NumField(); i++ {
			sf := t.Field(i)
			if !sf.IsExported() {
				continue
			}
			if depth == 0 && sf.Name == "Version" {
				continue // the request version, set by SetVersion
			}
			f.fill(v.Field(i), path+"."+sf.Name, depth+1, elem)
		}
	default:
		f.err = "unhandled kind " + t.Kind().String() + " at " + path
	}
}

// c10Gen names one generated request: uniform variant (SubLeaf<0) or the base variant 1
// with leaf SubLeaf replaced by alphabet entry SubAlt.
type c10Gen struct {
	Variant int `json:"variant"`
	SubLeaf int `json:"sub_leaf"`
	SubAlt  int `json:"sub_alt"`
}

// c10Build creates the request for (key, version) described by g. It returns the number
// of leaves visited and the path of the substituted leaf.
func c10Build(key, version int16, g c10Gen) (kmsg.Request, int, string, error) {
	r := kmsg.RequestForKey(key)
	if r == nil {
		return nil, 0, "", fmt.Errorf("kmsg has no request for key %d", key)
	}
	f := &c10Filler{variant: g.Variant, subLeaf: g.SubLeaf, subAlt: g.SubAlt}
	f.fill(reflect.ValueOf(r).Elem(), "", 0, 0)
	if f.err != "" {
		return nil, 0, "", fmt.Errorf("generator: %s", f.err)
	}
	r.SetVersion(version)
	return r, f.n, f.subPath, nil
}
