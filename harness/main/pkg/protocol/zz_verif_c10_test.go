//go:build verif

package protocol

// C10 — Kafka request decoding never crashes and round-trips.
//
// (i) crash-freedom: every generated client byte stream is fed to ReadFrame and then
// ParseRequest exactly as Server.handleConnection does (which has no recover); a panic is a
// violation keyed by panic class and the two innermost non-runtime frames. A sub-corpus is
// additionally driven through the real Server.handleConnection over an in-memory net.Conn
// (pkg/broker/zz_verif_c10_conn_test.go, run as a child `go test` on the same overlay).
// (ii) round trip: for every advertised (api key, version) generated kmsg requests are
// encoded with kmsg.RequestFormatter (and with a hand-written KIP-482 header carrying
// well-formed tagged fields), read back with ReadFrame+ParseRequest and compared on api key,
// version, correlation id, client id and body.
// (iii) pipelined streams of several frames on one reader under every chunking of a bounded
// family: zz_verif_c10_pipe_test.go (parser loop) and pkg/broker/zz_verif_c10_pipe_conn_test.go
// (Server.handleConnection).

import (
	"bufio"
	"bytes"
	"encoding/binary"
	"encoding/hex"
	"fmt"
	"io"
	"os"
	"os/exec"
	"path/filepath"
	"reflect"
	"runtime"
	"sort"
	"strings"
	"sync"
	"sync/atomic"
	"testing"
	"time"

	"github.com/KafScale/platform/internal/verif/vh"
	"github.com/twmb/franz-go/pkg/kmsg"
)

// ---- driving the code under test ----

// c10Reader is an in-memory client stream. mode 0: everything in one Read; -1: one byte per
// Read; -2: one Read that returns the data together with io.EOF; k>0: first Read returns k
// bytes, the next the rest.
type c10Reader struct {
	data []byte
	pos  int
	mode int
}

func (r *c10Reader) Read(p []byte) (int, error) {
	if r.pos >= len(r.data) {
		return 0, io.EOF
	}
	n := len(r.data) - r.pos
	if r.mode == -1 {
		n = 1
	} else if r.mode > 0 && r.pos == 0 && r.mode < n {
		n = r.mode
	}
	if n > len(p) {
		n = len(p)
	}
	copy(p, r.data[r.pos:r.pos+n])
	r.pos += n
	if r.mode == -2 && r.pos == len(r.data) {
		return n, io.EOF
	}
	return n, nil
}

type c10Result struct {
	FrameErr error
	ParseErr error
	Hdr      *RequestHeader
	Req      kmsg.Request
	PanicKey string
	PanicMsg string
}

// c10Drive does what Server.handleConnection does with the bytes of one connection up to
// the first parsed request: ReadFrame, then ParseRequest on the frame payload.
func c10Drive(stream []byte, mode int) (res c10Result) {
	defer func() {
		if p := recover(); p != nil {
			res.PanicKey, res.PanicMsg = c10ClassifyPanic(p)
		}
	}()
	frame, err := ReadFrame(&c10Reader{data: stream, mode: mode})
	if err != nil {
		res.FrameErr = err
		return
	}
	res.Hdr, res.Req, res.ParseErr = ParseRequest(frame.Payload)
	return
}

// c10SpinPattern: two uvarint continuation bytes followed by a non-zero byte, i.e. a place where
// a uvarint >= 2^14 could be decoded.
func c10SpinPattern(b []byte) bool {
	for i := 0; i+2 < len(b); i++ {
		if b[i] >= 0x80 && b[i+1] >= 0x80 && b[i+2] != 0 {
			return true
		}
	}
	return false
}

// c10SpinGuard reports whether the body of payload must not be handed to kmsg: franz-go kmsg
// v1.12.0 internalReadTags iterates `count` times (up to 2^32-1, minutes of CPU) even after its
// reader is exhausted, so a flexible body in which a large uvarint can be decoded as a tag
// count would stall the enumeration. The real ParseRequestHeader is still executed here.
func c10SpinGuard(payload []byte) (skip bool) {
	if !c10SpinPattern(payload) {
		return false
	}
	defer func() {
		if recover() != nil {
			skip = false // let the full drive hit and classify the panic
		}
	}()
	hdr, body, err := ParseRequestHeader(payload)
	if err != nil || !c10IsFlexible(hdr.APIKey, hdr.APIVersion) {
		return false
	}
	return c10SpinPattern(body)
}

// c10ClassifyPanic must be called from a deferred function while panicking. The key names
// the panic class and the two innermost non-runtime functions (mechanism, stable across runs).
func c10ClassifyPanic(p any) (string, string) {
	msg := fmt.Sprint(p)
	class := "other"
	switch {
	case strings.Contains(msg, "slice bounds out of range"):
		class = "slice-bounds"
	case strings.Contains(msg, "index out of range"):
		class = "index-range"
	case strings.Contains(msg, "nil pointer"):
		class = "nil-deref"
	case strings.Contains(msg, "makeslice"):
		class = "makeslice"
	case strings.Contains(msg, "negative"):
		class = "negative-len"
	}
	pcs := make([]uintptr, 64)
	n := runtime.Callers(2, pcs)
	frames := runtime.CallersFrames(pcs[:n])
	var fns []string
	seenPanic := false
	for {
		f, more := frames.Next()
		name := f.Function
		switch {
		case !seenPanic:
			if name == "runtime.gopanic" {
				seenPanic = true
			}
		case strings.HasPrefix(name, "runtime."):
		default:
			if len(fns) < 2 {
				if i := strings.LastIndexByte(name, '/'); i >= 0 {
					name = name[i+1:]
				}
				name = strings.NewReplacer("(*", "", ")", "").Replace(name)
				fns = append(fns, name)
			}
		}
		if !more || len(fns) == 2 {
			break
		}
	}
	return "panic:" + class + "@" + strings.Join(fns, "<-"), msg
}

// ---- violations, smallest first ----

type c10Replay struct {
	Kind      string      `json:"kind"` // "bytes" | "roundtrip"
	StreamHex string      `json:"stream_hex,omitempty"`
	Mode      int         `json:"mode"`
	Key       int16       `json:"key,omitempty"`
	Version   int16       `json:"version,omitempty"`
	Gen       *c10Gen     `json:"gen,omitempty"`
	Corr      int32       `json:"corr,omitempty"`
	ClientID  *string     `json:"client_id,omitempty"`
	TagsHex   *string     `json:"header_tags_hex,omitempty"`
	Desc      string      `json:"desc,omitempty"`
	Pipe      *c10pReplay `json:"pipelined,omitempty"` // kind "pipelined": several frames on one reader
}

type c10Viol struct {
	Ord    int64
	Key    string
	Detail string
	Replay c10Replay
	Stream []byte
}

type c10Agg struct {
	mu    sync.Mutex
	count map[string]int64
	ex    map[string][]c10Viol
}

func newC10Agg() *c10Agg { return &c10Agg{count: map[string]int64{}, ex: map[string][]c10Viol{}} }

// add counts one violation; mk builds the (expensive) detail and replay only when the case is
// among the three smallest (stream length, then ordinal) seen for its key.
func (a *c10Agg) add(key string, ord int64, stream []byte, mk func() c10Viol) {
	a.mu.Lock()
	defer a.mu.Unlock()
	a.count[key]++
	l := a.ex[key]
	if len(l) == 3 {
		w := l[2]
		if len(stream) > len(w.Stream) || (len(stream) == len(w.Stream) && ord >= w.Ord) {
			return
		}
	}
	v := mk()
	v.Key, v.Ord = key, ord
	v.Stream = append([]byte{}, stream...)
	l = append(l, v)
	sort.SliceStable(l, func(i, j int) bool {
		if len(l[i].Stream) != len(l[j].Stream) {
			return len(l[i].Stream) < len(l[j].Stream)
		}
		return l[i].Ord < l[j].Ord
	})
	if len(l) > 3 {
		l = l[:3]
	}
	a.ex[key] = l
}

// ---- outcome signatures ----

func c10StripDigits(s string) string { return string(c10AppendStripped(nil, s)) }

// c10AppendStripped appends s with every run of digits/minus signs replaced by '#', at most 70 bytes.
func c10AppendStripped(b []byte, s string) []byte {
	start := len(b)
	lastHash := false
	for i := 0; i < len(s) && len(b)-start < 70; i++ {
		c := s[i]
		if (c >= '0' && c <= '9') || c == '-' {
			if !lastHash {
				b = append(b, '#')
				lastHash = true
			}
			continue
		}
		lastHash = false
		b = append(b, c)
	}
	return b
}

func c10OutcomeOf(res *c10Result) string {
	switch {
	case res.PanicKey != "":
		return res.PanicKey
	case res.FrameErr != nil:
		return "frame-err:" + c10StripDigits(res.FrameErr.Error())
	case res.ParseErr != nil:
		return "parse-err:" + c10StripDigits(res.ParseErr.Error())
	}
	return "parsed"
}

// c10Sigs caches signatures per worker so the shared report is touched once per new one.
type c10Sigs struct {
	rep  *vh.Report
	seen map[string]bool
	buf  []byte
}

// addOutcome records prefix+outcome(res) without allocating when the signature is known.
func (s *c10Sigs) addOutcome(prefix string, res *c10Result, nontrivial bool) bool {
	b := s.buf[:0]
	if nontrivial {
		b = append(b, '!')
	} else {
		b = append(b, '.')
	}
	b = append(b, prefix...)
	switch {
	case res.PanicKey != "":
		b = append(b, res.PanicKey...)
	case res.FrameErr != nil:
		b = c10AppendStripped(append(b, "frame-err:"...), res.FrameErr.Error())
	case res.ParseErr != nil:
		b = c10AppendStripped(append(b, "parse-err:"...), res.ParseErr.Error())
	default:
		b = append(b, "parsed"...)
	}
	s.buf = b
	if s.seen[string(b)] {
		return false
	}
	k := string(b)
	s.seen[k] = true
	s.rep.Outcome(k[1:], nontrivial)
	return true
}

func (s *c10Sigs) add(sig string, nontrivial bool) bool {
	k := sig
	if nontrivial {
		k = "!" + sig
	}
	if s.seen[k] {
		return false
	}
	s.seen[k] = true
	s.rep.Outcome(sig, nontrivial)
	return true
}

// ---- generators ----

func c10PutUvarint(b []byte, v uint64) []byte {
	var tmp [binary.MaxVarintLen64]byte
	n := binary.PutUvarint(tmp[:], v)
	return append(b, tmp[:n]...)
}

func c10Frame(payload []byte) []byte {
	out := make([]byte, 4, 4+len(payload))
	binary.BigEndian.PutUint32(out, uint32(len(payload)))
	return append(out, payload...)
}

type c10KeyInfo struct {
	Key      int16
	Class    string // sup | kmsg | unk
	Versions []int16
}

func c10KeyClass(key int16, ranges map[int16][2]int16) string {
	if _, ok := ranges[key]; ok {
		return "sup"
	}
	if kmsg.RequestForKey(key) != nil {
		return "kmsg"
	}
	return "unk"
}

func c10HeaderKeys(ranges map[int16][2]int16, thorough bool) []c10KeyInfo {
	var keys []int16
	for k := range ranges {
		keys = append(keys, k)
	}
	sort.Slice(keys, func(i, j int) bool { return keys[i] < keys[j] })
	extra := []int16{-1, 4, kmsg.MaxKey, kmsg.MaxKey + 1, 32767}
	if thorough {
		extra = []int16{-1, -32768, 32767}
		for k := int16(0); k <= kmsg.MaxKey+1; k++ {
			if _, ok := ranges[k]; !ok {
				extra = append(extra, k)
			}
		}
	}
	keys = append(keys, extra...)
	var out []c10KeyInfo
	for _, k := range keys {
		ki := c10KeyInfo{Key: k, Class: c10KeyClass(k, ranges)}
		cand := []int16{0, -1}
		if r, ok := ranges[k]; ok {
			cand = append(cand, r[0], r[1], r[1]+1)
		}
		if fb := c10FlexBoundary(k); fb >= 0 {
			cand = append(cand, fb-1, fb)
		}
		if rq := kmsg.RequestForKey(k); rq != nil && thorough {
			cand = append(cand, rq.MaxVersion(), rq.MaxVersion()+1)
		}
		cand = append(cand, 32767)
		seen := map[int16]bool{}
		for _, v := range cand {
			if !seen[v] {
				seen[v] = true
				ki.Versions = append(ki.Versions, v)
			}
		}
		out = append(out, ki)
	}
	return out
}

// c10Sections enumerates tagged-field sections (bytes that follow the client id), each ending
// with a 4-byte tail that plays the role of tagged data / request body. rem=4 is the number of
// bytes available to the last size field.
func c10Sections(thorough bool) (secs [][]byte, descs []string, uniqFrom []int) {
	const tail = "\x00\x00\x01\x02"
	rem := uint64(len(tail))
	counts := []uint64{0, 1, 2, 127, 128, 1 << 31, 1 << 63, 1<<64 - 1}
	sizes := []uint64{0, 1, 2, rem - 1, rem, rem + 1, 127, 128, 1<<31 - 1, 1 << 31, 1 << 32, 1 << 62, 1<<63 - 1, 1 << 63, 1<<63 + 1, 1<<64 - 2, 1<<64 - 1}
	tags := []uint64{0, 1<<64 - 1}
	if thorough {
		tags = []uint64{0, 1, 1<<32 - 1, 1 << 32, 1<<64 - 1}
		counts = append(counts, 3, 1<<32-1, 1<<32, 1<<63-1)
	}
	overlong := bytes.Repeat([]byte{0xff}, 10)
	overlong = append(overlong, 0x01) // 11-byte varint: binary.Uvarint reports overflow
	type fld struct{ tag, size uint64 }
	var lists [][]fld
	lists = append(lists, nil)
	for _, s := range sizes {
		for _, tg := range tags {
			lists = append(lists, []fld{{tg, s}})
		}
	}
	for _, s := range sizes {
		lists = append(lists, []fld{{0, 1}, {1, s}}) // a valid 1-byte field, then a boundary one
	}
	emit := func(cnt []byte, cdesc string, l []fld) {
		b := append([]byte{}, cnt...)
		d := "count=" + cdesc
		uf := len(b) - 1
		for i, f := range l {
			b = c10PutUvarint(b, f.tag)
			uf = len(b) // prefixes ending before the last size varint are shared with sibling sections
			b = c10PutUvarint(b, f.size)
			d += fmt.Sprintf(" f%d(tag=%d,size=%d)", i, f.tag, f.size)
			if i == 0 && len(l) == 2 {
				b = append(b, 0xAA)
			}
		}
		b = append(b, tail...)
		secs = append(secs, b)
		descs = append(descs, d)
		uniqFrom = append(uniqFrom, uf)
	}
	for _, c := range counts {
		for _, l := range lists {
			emit(c10PutUvarint(nil, c), fmt.Sprint(c), l)
		}
	}
	for _, l := range lists {
		emit(overlong, "overlong-varint", l)
	}
	return
}

// c10ClientIDs: encodings of the client-id field given the bytes that will follow it.
func c10ClientIDs(rest []byte) (out [][]byte, descs []string) {
	add := func(l int16, data string, d string) {
		b := []byte{byte(uint16(l) >> 8), byte(uint16(l))}
		out = append(out, append(b, data...))
		descs = append(descs, d)
	}
	add(-1, "", "cid=null")
	add(0, "", "cid=empty")
	add(1, "c", "cid=1")
	add(3, "cid", "cid=3")
	add(-2, "", "cidlen=-2")
	add(int16(len(rest)), "", "cidlen=rem")
	add(int16(len(rest)+1), "", "cidlen=rem+1")
	add(0x7fff, "", "cidlen=0x7fff")
	return
}

// ---- the check ----

func TestVerifC10(t *testing.T) {
	rep := vh.New(t, "C10")
	defer rep.Finish()
	rep.Rule = "cases: (A) request headers = api key (advertised keys, kmsg-known unadvertised, unknown, -1) x version boundaries x client-id length field x tagged-field section (count, tag, size over uvarint boundaries incl. 2^63, 2^64-1, over-long varint) x every prefix truncation; (B) frame length prefixes {<0,0,len-1,len,len+1,2^24,2^31-1} x short/exact/long streams x chunked readers; (C) every single-byte / 2-byte / 4-byte / varint substitution at every offset and every prefix truncation of valid kmsg-encoded requests of every advertised (key,version); (D) round trip of generated kmsg requests (5 uniform field variants x client ids x correlation ids x header tag sections, plus every 1-leaf substitution) for every advertised (key,version); (P) pipelined streams: every sequence of 2..3 valid client-encoded request frames over a 5-frame alphabet (flexible and non-flexible versions, empty to 970-byte frames, null/empty/short/long client ids; position-dependent correlation ids), every advertised (key,version) once behind and once in front of every alphabet frame, and 1..2 complete frames followed by a partial frame and EOF, each stream read by repeated ReadFrame+ParseRequest on ONE reader under every chunking of {all in one Read, one byte per Read, one Read per frame, data with io.EOF, split at every single offset}: the i-th call must return exactly the i-th encoded request (frame bytes, key, version, correlation id, client id, body); the same streams through Server.handleConnection (PS): the handler must be given every request in order and every request must be answered in order with its correlation id. Each distinct byte string goes through ReadFrame then ParseRequest as in Server.handleConnection (identical truncations are executed once); the exception, counted in spin_guard_header_only and not in evaluations: when the real ParseRequestHeader succeeds on a flexible version and the remaining body contains two uvarint continuation bytes followed by a non-zero byte, only the header parse is executed, because kmsg v1.12.0 internalReadTags iterates a decoded tag count up to 2^32-1 times (about a minute of CPU) and would stall the enumeration. (S) a sub-corpus of A/B and every reported counterexample is served by the real Server.handleConnection. Outcome signature = phase, key class, flexible?, parser outcome (error text with numbers removed / panic key / round-trip verdict). Non-trivial = the parser got past the fixed 8-byte header prefix (client id, tagged fields or body decoding was reached)."
	rep.Assumptions = []string{
		"advertised (key,version) set = union of cmd/broker generateApiVersions and cmd/proxy generateProxyApiVersions, read from the source at run time",
		"franz-go kmsg RequestFormatter stands for 'a standard Kafka client codec'; body equality = parsed.AppendTo bytes equal the client's body bytes and reflect.DeepEqual with the kmsg-normalised original",
		"a panic escaping ReadFrame/ParseRequest counts as a crash (Server.handleConnection has no recover; confirmed per run by the server-level phase)",
	}
	pairs, ranges, err := c10Supported()
	if err != nil {
		t.Fatalf("HARNESS-ERROR %v", err)
	}
	rep.SetInfo("advertised_pairs", len(pairs))
	agg := newC10Agg()
	deadline := vh.Deadline()

	var rp c10Replay
	if ok, err := vh.LoadReplay(&rp); ok {
		if err != nil {
			t.Fatalf("HARNESS-ERROR replay: %v", err)
		}
		if rp.Kind == "shared-pair" {
			return // a replay of the concurrent half (TestVerifC10Shared)
		}
		if rp.Kind == "pipelined" {
			c10pRunReplay(t, rep, agg, rp)
		} else {
			c10RunReplay(t, rep, agg, rp)
		}
		c10Emit(rep, agg, nil)
		return
	}

	thorough := vh.Thorough()
	var ord int64 // deterministic case ordinals are assigned per phase block
	corpus := &c10Corpus{}

	walls := map[string]float64{}
	timed := func(name string, f func()) {
		t0 := time.Now()
		f()
		walls[name] = float64(int(time.Since(t0).Seconds()*10)) / 10
	}
	waitHuge := c10HugeStart(rep, agg, &ord)
	// the round trip and the cheap phases first, so a deadline can only cut the big products
	timed("D_roundtrip", func() { c10PhaseRoundTrip(t, rep, agg, pairs, thorough, deadline, &ord) })
	var pipeCases []*c10pCase
	timed("P_pipelined", func() { pipeCases = c10pPhase(t, rep, agg, pairs, ranges, thorough, deadline, &ord) })
	timed("B_frames", func() { c10PhaseFrames(rep, agg, &ord, corpus) })
	timed("A_headers", func() { c10PhaseHeaders(rep, agg, ranges, thorough, deadline, &ord, corpus) })
	timed("C_mutations", func() { c10PhaseMutations(t, rep, agg, pairs, thorough, deadline, &ord) })
	timed("B2_huge_frames_wait", waitHuge)
	var conn map[string]string
	timed("S_server", func() {
		conn = c10PhaseServer(t, rep, agg, corpus)
		c10pConnResults(t, rep, agg, pipeCases, &ord)
	})
	rep.SetInfo("phase_wall_s", walls)
	c10Emit(rep, agg, conn)
}

func c10Emit(rep *vh.Report, agg *c10Agg, conn map[string]string) {
	keys := make([]string, 0, len(agg.ex))
	for k := range agg.ex {
		keys = append(keys, k)
	}
	sort.Strings(keys)
	for _, k := range keys {
		for _, v := range agg.ex[k] {
			d := v.Detail
			if conn != nil {
				if c, ok := conn[string(v.Stream)]; ok {
					d += "; Server.handleConnection on the same bytes: " + c
				}
			}
			rep.Violation(k, d, v.Replay)
		}
		for i := int64(len(agg.ex[k])); i < agg.count[k]; i++ {
			rep.Violation(k, "", nil)
		}
	}
}

// ---- phase A: headers ----

type c10CorpusEntry struct {
	Ord      int64
	Stream   []byte
	Panicked bool
}

type c10Corpus struct {
	mu      sync.Mutex
	entries []c10CorpusEntry
}

func (c *c10Corpus) add(e []c10CorpusEntry) {
	c.mu.Lock()
	c.entries = append(c.entries, e...)
	c.mu.Unlock()
}

var c10CorpusKeys = map[int16]bool{APIKeyApiVersion: true, APIKeyMetadata: true, APIKeyProduce: true, APIKeyFindCoordinator: true, -1: true, kmsg.MaxKey + 1: true}

func c10Workers() int {
	n := runtime.GOMAXPROCS(0)
	if n > 8 {
		n = 8 // allocation-heavy loops stop scaling beyond this, and the host is shared
	}
	return n
}

func c10PhaseHeaders(rep *vh.Report, agg *c10Agg, ranges map[int16][2]int16, thorough bool, deadline time.Time, ord *int64, corpus *c10Corpus) {
	keys := c10HeaderKeys(ranges, thorough)
	secs, sdescs, uniqFrom := c10Sections(thorough)
	rep.SetInfo("header_keys", len(keys))
	rep.SetInfo("header_tag_sections", len(secs))
	// ordinal layout: key index major, so ordinals do not depend on worker scheduling
	perKey := int64(16 * 8 * len(secs) * 128)
	base := *ord
	*ord += perKey * int64(len(keys))
	var capped atomic.Bool
	var wg sync.WaitGroup
	jobs := make(chan int)
	var sampleMu sync.Mutex
	var sampleN atomic.Int64
	for w := 0; w < c10Workers(); w++ {
		wg.Add(1)
		go func() {
			defer wg.Done()
			sigs := &c10Sigs{rep: rep, seen: map[string]bool{}}
			for ki := range jobs {
				k := keys[ki]
				var local []c10CorpusEntry
				var evals, skipped int64
				o := base + perKey*int64(ki)
				for _, ver := range k.Versions {
					if time.Now().After(deadline) {
						capped.Store(true)
						break
					}
					flex := c10IsFlexible(k.Key, ver)
					prefix := "A|" + k.Class + "|flex=" + fmt.Sprint(flex) + "|"
					// truncations that end before a section's last size varint are shared by many
					// payloads; each distinct byte string is executed once
					shared := map[string]struct{}{}
					for si, sec := range secs {
						cids, cdescs := c10ClientIDs(sec)
						for ci, cid := range cids {
							payload := make([]byte, 8, 8+len(cid)+len(sec))
							binary.BigEndian.PutUint16(payload[0:], uint16(k.Key))
							binary.BigEndian.PutUint16(payload[2:], uint16(ver))
							binary.BigEndian.PutUint32(payload[4:], 0x01020304)
							payload = append(payload, cid...)
							payload = append(payload, sec...)
							sharedUpTo := 8 + len(cid) + uniqFrom[si]
							buf := c10Frame(payload)
							for tr := len(payload); tr >= 0; tr-- {
								o++
								if tr <= sharedUpTo {
									if _, dup := shared[string(payload[:tr])]; dup {
										continue
									}
									shared[string(payload[:tr])] = struct{}{}
								}
								binary.BigEndian.PutUint32(buf, uint32(tr))
								stream := buf[:4+tr]
								if c10SpinGuard(stream[4:]) {
									skipped++
									continue
								}
								res := c10Drive(stream, 0)
								evals++
								nontriv := tr >= 8
								if sigs.addOutcome(prefix, &res, nontriv) && nontriv && sampleN.Add(1) <= 2 {
									sampleMu.Lock()
									rep.Sample(map[string]any{"phase": "A", "key": k.Key, "version": ver, "client_id": cdescs[ci], "tagged_section": sdescs[si], "truncated_to": tr, "stream_hex": hex.EncodeToString(stream), "outcome": c10OutcomeOf(&res)})
									sampleMu.Unlock()
								}
								if res.PanicKey != "" {
									agg.add(res.PanicKey, o, stream, func() c10Viol {
										return c10Viol{
											Detail: fmt.Sprintf("ParseRequest panicked (%s) on header key=%d version=%d flexible=%v %s %s truncated_to=%d/%d", res.PanicMsg, k.Key, ver, flex, cdescs[ci], sdescs[si], tr, len(payload)),
											Replay: c10Replay{Kind: "bytes", StreamHex: hex.EncodeToString(stream), Desc: fmt.Sprintf("key=%d v=%d %s %s", k.Key, ver, cdescs[ci], sdescs[si])}}
									})
								}
								if tr == len(payload) && c10CorpusKeys[k.Key] {
									local = append(local, c10CorpusEntry{Ord: o, Stream: append([]byte{}, stream...), Panicked: res.PanicKey != ""})
								}
							}
						}
					}
				}
				rep.Eval(evals)
				rep.Count("cases_header", evals)
				rep.Count("spin_guard_header_only", skipped)
				corpus.add(local)
			}
		}()
	}
	for i := range keys {
		jobs <- i
	}
	close(jobs)
	wg.Wait()
	if capped.Load() {
		rep.Cap("deadline hit in header phase")
	}
}

// ---- phase B: frame length prefixes ----

func c10PhaseFrames(rep *vh.Report, agg *c10Agg, ord *int64, corpus *c10Corpus) {
	fm := kmsg.NewRequestFormatter(kmsg.FormatterClientID("verif"))
	rq := kmsg.NewPtrApiVersionsRequest()
	rq.SetVersion(3)
	rq.ClientSoftwareName = "v"
	rq.ClientSoftwareVersion = "1"
	valid := fm.AppendRequest(nil, rq, 7)
	p := valid[4:]
	n := int64(len(p))
	lengths := []int64{-1, -(1 << 31), 0, 1, n - 1, n, n + 1, 1 << 16, 1 << 24}
	bodies := [][]byte{nil, p[:1], p[:n-1], p, append(append([]byte{}, p...), 0, 0, 0, 9)}
	modes := []int{0, -1, -2, 1, 2, 3, 4, 5, 6, 7, 8, 9, 10, 11, 12}
	sigs := &c10Sigs{rep: rep, seen: map[string]bool{}}
	var local []c10CorpusEntry
	sampleN := 0
	run := func(stream []byte, mode int, desc string, big bool) {
		*ord++
		res := c10Drive(stream, mode)
		rep.Eval(1)
		rep.Count("cases_frame", 1)
		out := c10OutcomeOf(&res)
		nontriv := len(stream) >= 4
		if sigs.add("B|"+desc+"|"+out, nontriv) && nontriv && len(stream) > 4 && sampleN < 1 {
			sampleN++
			rep.Sample(map[string]any{"phase": "B", "case": desc, "mode": mode, "stream_hex": hex.EncodeToString(stream), "outcome": out})
		}
		if res.PanicKey != "" {
			agg.add(res.PanicKey, *ord, stream, func() c10Viol {
				return c10Viol{
					Detail: fmt.Sprintf("ReadFrame/ParseRequest panicked (%s) on %s reader-mode=%d", res.PanicMsg, desc, mode),
					Replay: c10Replay{Kind: "bytes", StreamHex: hex.EncodeToString(stream), Mode: mode, Desc: desc}}
			})
		}
		if mode == 0 && !big {
			local = append(local, c10CorpusEntry{Ord: *ord, Stream: stream, Panicked: res.PanicKey != ""})
		}
	}
	for cut := 0; cut < 4; cut++ { // truncated length prefix
		for _, m := range []int{0, -1, -2} {
			run(append([]byte{}, valid[:cut]...), m, fmt.Sprintf("prefix-cut-%d", cut), false)
		}
	}
	for _, l := range lengths {
		big := l >= 1<<16
		for bi, body := range bodies {
			stream := make([]byte, 4, 4+len(body))
			binary.BigEndian.PutUint32(stream, uint32(int32(l)))
			stream = append(stream, body...)
			ms := modes
			if big {
				ms = []int{0} // each case makes ReadFrame allocate the declared length
			}
			for _, m := range ms {
				run(stream, m, fmt.Sprintf("len=%d(valid=%d) body#%d(%dB)", l, n, bi, len(body)), big)
			}
		}
	}
	corpus.add(local)
}

// ---- phase B2: huge declared frame lengths, each in its own child process ----

// c10HugeStart runs the frames whose declared length is 2^30 / 2^31-1 (ReadFrame allocates the
// declared size before reading) one per child process of this test binary, so that a runtime
// `fatal error: out of memory` is attributable and the allocations do not disturb this heap.
func c10HugeStart(rep *vh.Report, agg *c10Agg, ord *int64) (wait func()) {
	base := *ord
	*ord += 16
	done := make(chan struct{})
	go func() {
		defer close(done)
		n := 0
		for _, l := range []uint32{1 << 30, 1<<31 - 1} {
			for _, body := range [][]byte{nil, {0, 18, 0, 3, 0, 0, 0, 7, 0xff, 0xff, 0, 1, 0x76, 2, 0x31, 0}} {
				n++
				stream := make([]byte, 4, 4+len(body))
				binary.BigEndian.PutUint32(stream, l)
				stream = append(stream, body...)
				cmd := exec.Command(os.Args[0], "-test.run", "^TestVerifC10Huge$", "-test.count=1", "-test.timeout=120s")
				cmd.Env = append(os.Environ(), "C10_HUGE_CASE="+hex.EncodeToString(stream), "VERIF_OUT=", "VERIF_REPLAY=")
				out, err := cmd.CombinedOutput()
				txt := string(out)
				desc := fmt.Sprintf("declared frame length %d with %d payload bytes then EOF", l, len(body))
				outcome := ""
				if i := strings.Index(txt, "C10HUGE "); i >= 0 {
					outcome = strings.SplitN(txt[i+8:], "\n", 2)[0]
				}
				rep.Eval(1)
				rep.Count("cases_frame_huge", 1)
				switch {
				case err == nil && outcome != "" && !strings.HasPrefix(outcome, "panic:"):
					rep.Outcome("B2|"+fmt.Sprint(l)+"|"+outcome, true)
				case strings.HasPrefix(outcome, "panic:"):
					agg.add(outcome, base+int64(n), stream, func() c10Viol {
						return c10Viol{Detail: "ReadFrame panicked on " + desc, Replay: c10Replay{Kind: "bytes", StreamHex: hex.EncodeToString(stream), Desc: desc}}
					})
				case strings.Contains(txt, "fatal error:"):
					i := strings.Index(txt, "fatal error:")
					line := strings.SplitN(txt[i:], "\n", 2)[0]
					agg.add("fatal:"+strings.ReplaceAll(strings.TrimPrefix(line, "fatal error: "), " ", "-")+"@ReadFrame", base+int64(n), stream, func() c10Viol {
						return c10Viol{Detail: "process died (" + line + ") on " + desc, Replay: c10Replay{Kind: "bytes", StreamHex: hex.EncodeToString(stream), Desc: desc}}
					})
				default:
					rep.Cap("huge-frame child did not finish: " + desc)
				}
			}
		}
	}()
	return func() { <-done }
}

// TestVerifC10Huge is the child side of c10HugeStart.
func TestVerifC10Huge(t *testing.T) {
	h := os.Getenv("C10_HUGE_CASE")
	if h == "" {
		t.Skip("worker of TestVerifC10")
	}
	stream, err := hex.DecodeString(h)
	if err != nil {
		t.Fatalf("HARNESS-ERROR %v", err)
	}
	res := c10Drive(stream, 0)
	fmt.Printf("C10HUGE %s\n", c10OutcomeOf(&res))
}

// ---- phase C: substitutions in valid encoded requests ----

func c10PhaseMutations(t *testing.T, rep *vh.Report, agg *c10Agg, pairs []c10KV, thorough bool, deadline time.Time, ord *int64) {
	variants := []int{1, 3}
	if thorough {
		variants = []int{0, 1, 2, 3, 4}
	}
	byteVals := []byte{0x00, 0x01, 0x7f, 0x80, 0xfe, 0xff}
	if thorough {
		byteVals = make([]byte, 256)
		for i := range byteVals {
			byteVals[i] = byte(i)
		}
	}
	multi := [][]byte{
		{0x7f, 0xff}, {0xff, 0xff}, {0x80, 0x00},
		{0x7f, 0xff, 0xff, 0xff}, {0xff, 0xff, 0xff, 0xff}, {0x80, 0x00, 0x00, 0x00},
		{0xff, 0xff, 0xff, 0xff, 0x07}, {0xff, 0xff, 0xff, 0xff, 0x0f},
		{0xff, 0xff, 0xff, 0xff, 0xff, 0xff, 0xff, 0xff, 0xff, 0x01},
		{0x80, 0x80, 0x80, 0x80, 0x80, 0x80, 0x80, 0x80, 0x80, 0x80, 0x01},
	}
	rep.SetInfo("mutation_byte_values", len(byteVals))
	perPair := int64(1) << 26
	base := *ord
	*ord += perPair * int64(len(pairs))
	var capped atomic.Bool
	var genErr atomic.Value
	var wg sync.WaitGroup
	jobs := make(chan int)
	for w := 0; w < c10Workers(); w++ {
		wg.Add(1)
		go func() {
			defer wg.Done()
			sigs := &c10Sigs{rep: rep, seen: map[string]bool{}}
			for pi := range jobs {
				kv := pairs[pi]
				o := base + perPair*int64(pi)
				var evals, skipped int64
				flex := c10IsFlexible(kv.Key, kv.Version)
				cprefix := fmt.Sprintf("C|flex=%v|", flex)
				vs := variants
				if flex && !thorough {
					vs = []int{0, 1} // variants without >=0x80 bytes: not masked by the spin guard
				}
				for _, variant := range vs {
					if time.Now().After(deadline) {
						capped.Store(true)
						break
					}
					rq, _, _, err := c10Build(kv.Key, kv.Version, c10Gen{Variant: variant, SubLeaf: -1})
					if err != nil {
						genErr.Store(err.Error())
						break
					}
					valid := kmsg.NewRequestFormatter(kmsg.FormatterClientID("cid")).AppendRequest(nil, rq, 0x0a0b0c0d)
					payload := valid[4:]
					try := func(mut []byte, desc func() string) {
						o++
						if c10SpinGuard(mut) {
							skipped++
							return
						}
						evals++
						stream := c10Frame(mut)
						res := c10Drive(stream, 0)
						sigs.addOutcome(cprefix, &res, len(mut) >= 8)
						if res.PanicKey != "" {
							agg.add(res.PanicKey, o, stream, func() c10Viol {
								return c10Viol{
									Detail: fmt.Sprintf("ParseRequest panicked (%s) on %s v%d (variant %d) with %s", res.PanicMsg, kmsg.NameForKey(kv.Key), kv.Version, variant, desc()),
									Replay: c10Replay{Kind: "bytes", StreamHex: hex.EncodeToString(stream), Desc: desc()}}
							})
						}
					}
					try(payload, func() string { return "unmodified" })
					for cut := 0; cut < len(payload); cut++ {
						try(payload[:cut], func() string { return fmt.Sprintf("truncation to %d of %d bytes", cut, len(payload)) })
					}
					mut := make([]byte, len(payload), len(payload)+16)
					for off := 0; off < len(payload); off++ {
						for _, bv := range byteVals {
							if payload[off] == bv {
								continue
							}
							copy(mut, payload)
							mut[off] = bv
							try(mut, func() string { return fmt.Sprintf("byte %d set to 0x%02x", off, bv) })
						}
						for _, mv := range multi {
							if len(mv) <= 4 { // overwrite
								if off+len(mv) > len(payload) {
									continue
								}
								copy(mut, payload)
								copy(mut[off:], mv)
								try(mut, func() string { return fmt.Sprintf("bytes %d.. overwritten with %x", off, mv) })
							} else { // varint inserted in place of one byte
								ins := append(append(append([]byte{}, payload[:off]...), mv...), payload[off+1:]...)
								try(ins, func() string { return fmt.Sprintf("byte %d replaced by varint %x", off, mv) })
							}
						}
					}
				}
				rep.Eval(evals)
				rep.Count("cases_mutation", evals)
				rep.Count("spin_guard_header_only", skipped)
			}
		}()
	}
	for i := range pairs {
		jobs <- i
	}
	close(jobs)
	wg.Wait()
	if e := genErr.Load(); e != nil {
		t.Fatalf("HARNESS-ERROR %v", e)
	}
	if capped.Load() {
		rep.Cap("deadline hit in mutation phase")
	}
}

// ---- phase D: round trip ----

type c10RT struct {
	kv       c10KV
	gen      c10Gen
	corr     int32
	clientID *string
	tags     *string // raw header tagged-field section (flexible only); nil = kmsg formatter
	mode     int
}

func c10StrPtr(s string) *string { return &s }

// c10HeaderTagSections are well-formed KIP-482 tagged-field sections a client may send in a
// flexible request header.
func c10HeaderTagSections() []string {
	one := string(c10PutUvarint(c10PutUvarint(c10PutUvarint(nil, 1), 0), 3)) + "abc"
	two := string(c10PutUvarint(c10PutUvarint(c10PutUvarint(nil, 2), 0), 0)) + string(c10PutUvarint(c10PutUvarint(nil, 1<<31), 130)) + c10Long
	return []string{"\x00", one, two}
}

// c10RoundTrip runs one round trip; it returns ("", "") when the property holds, else a
// violation key and detail. sig is the outcome signature.
func c10RoundTrip(c c10RT) (key, detail, sig string, stream []byte, err error) {
	rq, _, subPath, err := c10Build(c.kv.Key, c.kv.Version, c.gen)
	if err != nil {
		return "", "", "", nil, err
	}
	flex := rq.IsFlexible()
	body := rq.AppendTo(nil)
	var frame []byte
	hk := "nonflexible"
	if flex {
		hk = "flexible"
	}
	if c.tags == nil {
		fm := kmsg.NewRequestFormatter()
		if c.clientID != nil {
			fm = kmsg.NewRequestFormatter(kmsg.FormatterClientID(*c.clientID))
		}
		frame = fm.AppendRequest(nil, rq, c.corr)
	} else {
		if !flex {
			return "", "", "", nil, fmt.Errorf("header tags on a non-flexible version")
		}
		if *c.tags != "\x00" {
			hk = "flexible-with-header-tags"
		}
		p := make([]byte, 8)
		binary.BigEndian.PutUint16(p[0:], uint16(c.kv.Key))
		binary.BigEndian.PutUint16(p[2:], uint16(c.kv.Version))
		binary.BigEndian.PutUint32(p[4:], uint32(c.corr))
		if c.clientID == nil {
			p = append(p, 0xff, 0xff)
		} else {
			p = append(p, byte(len(*c.clientID)>>8), byte(len(*c.clientID)))
			p = append(p, *c.clientID...)
		}
		p = append(p, *c.tags...)
		p = append(p, body...)
		frame = c10Frame(p)
	}
	if !bytes.HasSuffix(frame, body) || int(binary.BigEndian.Uint32(frame)) != len(frame)-4 {
		return "", "", "", nil, fmt.Errorf("encoder self-check failed for key %d v%d", c.kv.Key, c.kv.Version)
	}
	cidKind := "null"
	if c.clientID != nil {
		cidKind = fmt.Sprintf("len%d", len(*c.clientID))
	}
	gk := fmt.Sprintf("v%d", c.gen.Variant)
	if c.gen.SubLeaf >= 0 {
		gk = "sub"
	}
	bl := "body0"
	if len(body) > 0 {
		bl = "body+"
	}
	sig = fmt.Sprintf("D|%d|%d|%s|%s|%s|%s|", c.kv.Key, c.kv.Version, hk, gk, cidKind, bl)
	what := fmt.Sprintf("%s v%d gen=%+v", kmsg.NameForKey(c.kv.Key), c.kv.Version, c.gen)
	if subPath != "" {
		what += " leaf=" + subPath
	}
	// If the real header parser hands back a body that is not the client's body and that body
	// could stall kmsg (see c10SpinGuard), it is not decoded: the misalignment is the verdict.
	if got, misaligned := c10BodySplit(frame[4:], body); misaligned && c10SpinPattern(got) {
		return "roundtrip-body-misaligned:" + hk, fmt.Sprintf("ParseRequestHeader returned a %d-byte body, the client's body has %d bytes, for %s", len(got), len(body), what), sig + "misaligned", frame, nil
	}
	res := c10Drive(frame, c.mode)
	switch {
	case res.PanicKey != "":
		return res.PanicKey, fmt.Sprintf("panic (%s) parsing client-encoded %s", res.PanicMsg, what), sig + "panic", frame, nil
	case res.FrameErr != nil:
		return "roundtrip-frame-rejected", fmt.Sprintf("ReadFrame: %v for %s", res.FrameErr, what), sig + "frame-err", frame, nil
	case res.ParseErr != nil:
		return "roundtrip-rejected:" + hk, fmt.Sprintf("ParseRequest: %v for %s", res.ParseErr, what), sig + "parse-err", frame, nil
	}
	h := res.Hdr
	switch {
	case h == nil || res.Req == nil:
		return "roundtrip-nil-result", "nil header/request without error for " + what, sig + "nil", frame, nil
	case h.APIKey != c.kv.Key || res.Req.Key() != c.kv.Key:
		return "roundtrip-header-mismatch:api-key", fmt.Sprintf("api key %d/%d != %d for %s", h.APIKey, res.Req.Key(), c.kv.Key, what), sig + "key", frame, nil
	case h.APIVersion != c.kv.Version || res.Req.GetVersion() != c.kv.Version:
		return "roundtrip-header-mismatch:version", fmt.Sprintf("version %d/%d != %d for %s", h.APIVersion, res.Req.GetVersion(), c.kv.Version, what), sig + "version", frame, nil
	case h.CorrelationID != c.corr:
		return "roundtrip-header-mismatch:correlation-id", fmt.Sprintf("correlation id %d != %d for %s", h.CorrelationID, c.corr, what), sig + "corr", frame, nil
	case (h.ClientID == nil) != (c.clientID == nil):
		return "roundtrip-header-mismatch:client-id-nullness", fmt.Sprintf("client id null=%v, sent null=%v for %s", h.ClientID == nil, c.clientID == nil, what), sig + "cidnull", frame, nil
	case h.ClientID != nil && *h.ClientID != *c.clientID:
		return "roundtrip-header-mismatch:client-id", fmt.Sprintf("client id %q != %q for %s", *h.ClientID, *c.clientID, what), sig + "cid", frame, nil
	}
	if got := res.Req.AppendTo(nil); !bytes.Equal(got, body) {
		return "roundtrip-body-mismatch:" + hk, fmt.Sprintf("re-encoded parsed body (%d bytes) differs from the client's body (%d bytes) for %s", len(got), len(body), what), sig + "bodybytes", frame, nil
	}
	norm := kmsg.RequestForKey(c.kv.Key)
	norm.SetVersion(c.kv.Version)
	if nerr := norm.ReadFrom(body); nerr != nil {
		return "", "", "", nil, fmt.Errorf("kmsg cannot decode its own body for %s: %v", what, nerr)
	}
	if !reflect.DeepEqual(res.Req, norm) {
		return "roundtrip-body-mismatch:" + hk, "parsed request differs structurally from the normalised original for " + what, sig + "bodystruct", frame, nil
	}
	return "", "", sig + "same", frame, nil
}

func c10BodySplit(payload, body []byte) (got []byte, misaligned bool) {
	defer func() {
		if recover() != nil {
			got, misaligned = nil, false // the full drive classifies the panic
		}
	}()
	_, rest, err := ParseRequestHeader(payload)
	if err != nil {
		return nil, false
	}
	return rest, !bytes.Equal(rest, body)
}

func c10PhaseRoundTrip(t *testing.T, rep *vh.Report, agg *c10Agg, pairs []c10KV, thorough bool, deadline time.Time, ord *int64) {
	clientIDs := []*string{nil, c10StrPtr(""), c10StrPtr("a"), c10StrPtr(c10Long)}
	corrs := []int32{0, 1, -1, 1<<31 - 1, -(1 << 31)}
	modes := []int{0, -1, -2, 3, 9}
	tagSecs := c10HeaderTagSections()
	perPair := int64(1) << 24
	base := *ord
	*ord += perPair * int64(len(pairs))
	var capped atomic.Bool
	var genErr atomic.Value
	var wg sync.WaitGroup
	jobs := make(chan int)
	var sampleMu sync.Mutex
	var sampleN atomic.Int64
	for w := 0; w < c10Workers(); w++ {
		wg.Add(1)
		go func() {
			defer wg.Done()
			sigs := &c10Sigs{rep: rep, seen: map[string]bool{}}
			for pi := range jobs {
				kv := pairs[pi]
				o := base + perPair*int64(pi)
				var evals int64
				flex := c10IsFlexible(kv.Key, kv.Version)
				run := func(c c10RT) bool {
					o++
					evals++
					key, detail, sig, frame, err := c10RoundTrip(c)
					if err != nil {
						genErr.Store(err.Error())
						return false
					}
					nontriv := flex || c.gen.Variant != 0 || c.clientID != nil
					if sigs.add(sig, nontriv) && nontriv && key == "" && c.gen.Variant == 1 && c.gen.SubLeaf < 0 && c.clientID != nil && flex && sampleN.Add(1) <= 2 {
						sampleMu.Lock()
						rep.Sample(map[string]any{"phase": "D", "request": kmsg.NameForKey(kv.Key), "version": kv.Version, "frame_hex": hex.EncodeToString(frame), "outcome": "same"})
						sampleMu.Unlock()
					}
					if key != "" {
						var th *string
						if c.tags != nil {
							th = c10StrPtr(hex.EncodeToString([]byte(*c.tags)))
						}
						g := c.gen
						agg.add(key, o, frame, func() c10Viol {
							return c10Viol{Detail: detail,
								Replay: c10Replay{Kind: "roundtrip", Key: kv.Key, Version: kv.Version, Gen: &g, Corr: c.corr, ClientID: c.clientID, TagsHex: th, Mode: c.mode, StreamHex: hex.EncodeToString(frame)}}
						})
					}
					return true
				}
				ok := true
				nVariants := c10Alts
				for variant := 0; variant < nVariants && ok; variant++ {
					if time.Now().After(deadline) {
						capped.Store(true)
						break
					}
					for _, cid := range clientIDs {
						for _, corr := range corrs {
							var tagOpts []*string
							tagOpts = append(tagOpts, nil)
							if flex {
								for i := range tagSecs {
									tagOpts = append(tagOpts, &tagSecs[i])
								}
							}
							for _, tg := range tagOpts {
								for _, m := range modes {
									if m != 0 && !(corr == 1 || thorough) {
										continue // chunked readers once per (variant, client id, tags)
									}
									if ok = run(c10RT{kv: kv, gen: c10Gen{Variant: variant, SubLeaf: -1}, corr: corr, clientID: cid, tags: tg, mode: m}); !ok {
										break
									}
								}
							}
						}
					}
				}
				// every 1-leaf substitution of the base request
				if _, n, _, err := c10Build(kv.Key, kv.Version, c10Gen{Variant: 1, SubLeaf: -1}); err == nil && ok {
					for leaf := 0; leaf < n && ok; leaf++ {
						for alt := 0; alt < c10Alts && ok; alt++ {
							if alt == 1 {
								continue
							}
							ok = run(c10RT{kv: kv, gen: c10Gen{Variant: 1, SubLeaf: leaf, SubAlt: alt}, corr: 42, clientID: c10StrPtr("cid")})
							if ok && thorough && flex {
								ok = run(c10RT{kv: kv, gen: c10Gen{Variant: 1, SubLeaf: leaf, SubAlt: alt}, corr: 42, clientID: nil, tags: &tagSecs[1]})
							}
						}
					}
					rep.Count("request_leaves", int64(n))
				}
				rep.Eval(evals)
				rep.Count("cases_roundtrip", evals)
			}
		}()
	}
	for i := range pairs {
		jobs <- i
	}
	close(jobs)
	wg.Wait()
	if e := genErr.Load(); e != nil {
		t.Fatalf("HARNESS-ERROR %v", e)
	}
	if capped.Load() {
		rep.Cap("deadline hit in round-trip phase")
	}
}

// ---- server-level phase: the same bytes through Server.handleConnection ----

// c10PhaseServer runs the corpus through pkg/broker's real Server.handleConnection in a child
// `go test` built from the same overlay (mutants included). It returns stream -> verdict for
// annotating parser-level violations.
func c10PhaseServer(t *testing.T, rep *vh.Report, agg *c10Agg, corpus *c10Corpus) map[string]string {
	scratch := os.Getenv("VERIF_SCRATCH")
	repo := os.Getenv("VERIF_REPO")
	ov := filepath.Join(scratch, "overlay.json")
	if scratch == "" || repo == "" {
		rep.Cap("server-level phase skipped: not run under vcheck (no overlay)")
		return nil
	}
	if _, err := os.Stat(ov); err != nil {
		rep.Cap("server-level phase skipped: overlay.json missing")
		return nil
	}
	// the reported (smallest) parser-level counterexamples are always part of the corpus
	have := map[string]bool{}
	for _, e := range corpus.entries {
		have[string(e.Stream)] = true
	}
	for k, l := range agg.ex {
		if !strings.HasPrefix(k, "panic:") {
			continue
		}
		for _, v := range l {
			if v.Replay.Kind == "bytes" && v.Replay.Mode == 0 && len(v.Stream) >= 4 && binary.BigEndian.Uint32(v.Stream) < 1<<20 && !have[string(v.Stream)] {
				have[string(v.Stream)] = true
				corpus.entries = append(corpus.entries, c10CorpusEntry{Ord: v.Ord, Stream: v.Stream, Panicked: true})
			}
		}
	}
	sort.Slice(corpus.entries, func(i, j int) bool { return corpus.entries[i].Ord < corpus.entries[j].Ord })
	in := filepath.Join(scratch, "c10-corpus.txt")
	outp := filepath.Join(scratch, "c10-conn-results.txt")
	f, err := os.Create(in)
	if err != nil {
		t.Fatalf("HARNESS-ERROR %v", err)
	}
	w := bufio.NewWriter(f)
	for _, e := range corpus.entries {
		w.WriteString(hex.EncodeToString(e.Stream))
		w.WriteByte('\n')
	}
	w.Flush()
	f.Close()
	cmd := exec.Command("go", "test", "-tags", "verif", "-overlay", ov, "-vet=off", "-count=1", "-timeout=600s", "-run", "^TestVerifC10(Conn|PipeConn)$", "./pkg/broker")
	cmd.Dir = repo
	env := []string{}
	for _, kv := range os.Environ() {
		if strings.HasPrefix(kv, "VERIF_OUT=") || strings.HasPrefix(kv, "VERIF_REPLAY=") || strings.HasPrefix(kv, "VERIF_SHARD=") {
			continue
		}
		env = append(env, kv)
	}
	cmd.Env = append(env, "C10_CORPUS="+in, "C10_RESULTS="+outp)
	cmd.Env = append(cmd.Env, c10pConnEnv(scratch)...)
	t0 := time.Now()
	if b, err := cmd.CombinedOutput(); err != nil {
		tail := string(b)
		if len(tail) > 3000 {
			tail = tail[len(tail)-3000:]
		}
		t.Fatalf("HARNESS-ERROR server-level child run failed: %v\n%s", err, tail)
	}
	rep.SetInfo("server_phase_wall_s", time.Since(t0).Seconds())
	rb, err := os.ReadFile(outp)
	if err != nil {
		t.Fatalf("HARNESS-ERROR server-level results: %v", err)
	}
	lines := strings.Split(strings.TrimRight(string(rb), "\n"), "\n")
	if len(lines) != len(corpus.entries) {
		t.Fatalf("HARNESS-ERROR server-level results: %d lines for %d cases", len(lines), len(corpus.entries))
	}
	verdict := map[string]string{}
	var propagated, recovered, both int64
	sigs := &c10Sigs{rep: rep, seen: map[string]bool{}}
	for i, e := range corpus.entries {
		ln := lines[i]
		rep.Eval(1)
		connPanic := strings.HasPrefix(ln, "panic\t")
		switch {
		case connPanic && e.Panicked:
			propagated++
			verdict[string(e.Stream)] = "the panic propagates out of handleConnection (broker process dies)"
		case !connPanic && e.Panicked:
			recovered++
			verdict[string(e.Stream)] = "handleConnection returned normally (panic contained at server level)"
		case connPanic && !e.Panicked:
			parts := strings.SplitN(ln, "\t", 3)
			key, msg := "panic:unknown", ""
			if len(parts) == 3 {
				key, msg = parts[1], parts[2]
			}
			agg.add("server-"+key, e.Ord, e.Stream, func() c10Viol {
				return c10Viol{
					Detail: fmt.Sprintf("Server.handleConnection panicked (%s) on bytes that ReadFrame+ParseRequest handle without panic", msg),
					Replay: c10Replay{Kind: "bytes", StreamHex: hex.EncodeToString(e.Stream), Desc: "server-level only"}}
			})
		default:
			both++
		}
		sigs.add("S|"+strings.SplitN(ln, "\t", 3)[0]+fmt.Sprint(e.Panicked), true)
	}
	rep.Count("cases_server", int64(len(corpus.entries)))
	rep.SetInfo("server_phase", map[string]int64{"cases": int64(len(corpus.entries)), "no_panic": both, "parser_panic_propagates_out_of_handleConnection": propagated, "parser_panic_contained_by_server": recovered})
	return verdict
}

// ---- replay ----

func c10RunReplay(t *testing.T, rep *vh.Report, agg *c10Agg, rp c10Replay) {
	switch rp.Kind {
	case "bytes":
		stream, err := hex.DecodeString(rp.StreamHex)
		if err != nil {
			t.Fatalf("HARNESS-ERROR replay hex: %v", err)
		}
		res := c10Drive(stream, rp.Mode)
		rep.Eval(1)
		rep.Outcome("replay|"+c10OutcomeOf(&res), true)
		if res.PanicKey != "" {
			agg.add(res.PanicKey, 0, stream, func() c10Viol {
				return c10Viol{Detail: "replay: panic (" + res.PanicMsg + ") " + rp.Desc, Replay: rp}
			})
		}
	case "roundtrip":
		c := c10RT{kv: c10KV{rp.Key, rp.Version}, corr: rp.Corr, clientID: rp.ClientID, mode: rp.Mode}
		if rp.Gen != nil {
			c.gen = *rp.Gen
		}
		if rp.TagsHex != nil {
			b, err := hex.DecodeString(*rp.TagsHex)
			if err != nil {
				t.Fatalf("HARNESS-ERROR replay hex: %v", err)
			}
			c.tags = c10StrPtr(string(b))
		}
		key, detail, sig, frame, err := c10RoundTrip(c)
		if err != nil {
			t.Fatalf("HARNESS-ERROR replay: %v", err)
		}
		rep.Eval(1)
		rep.Outcome("replay|"+sig, true)
		if key != "" {
			agg.add(key, 0, frame, func() c10Viol { return c10Viol{Detail: "replay: " + detail, Replay: rp} })
		}
	default:
		t.Fatalf("HARNESS-ERROR unknown replay kind %q", rp.Kind)
	}
}
