//go:build verif

package protocol

// C10 (part "shared") — parsing one connection's request shares no mutable state with parsing
// another connection's request.
//
// The property quantifies over "any bytes a client sends"; the broker parses every connection
// in its own goroutine (Server.handleConnection), so "every supported request parses back to
// the same key, version, correlation id, client id and body" has to hold whatever another
// connection is parsing at the same moment. The parser has no synchronisation operation at
// which a cooperative scheduler could switch, so instead of enumerating interleavings this
// part decides the sufficient and necessary condition for interleaving-independence of two
// otherwise deterministic parses: no conflicting access (write/write or read/write) to shared
// memory between them.
//
// Technique (binary built with -race): for EVERY ordered pair (A,B) of valid request frames
// the real ReadFrame+ParseRequest runs on A in goroutine G1 and then on B in goroutine G2.
// The hand-off "G1 finished -> start G2" is hidden from the race detector
// (runtime.RaceDisable around the channel operations), so no happens-before edge exists
// between the two parses and the detector reports every conflicting access pair between them
// deterministically, whatever the real timing would have been. After the pair, the driver
// joins both goroutines VISIBLY, so later pairs happen-after this one and every report is
// attributable to exactly (A,B). The detector's log is read back after each pair.

import (
	"encoding/hex"
	"fmt"
	"os"
	"path/filepath"
	"regexp"
	"runtime"
	"sort"
	"strings"
	"testing"
	"time"

	"github.com/KafScale/platform/internal/verif/sched"
	"github.com/KafScale/platform/internal/verif/vh"
	"github.com/twmb/franz-go/pkg/kmsg"
)

type c10sFrame struct {
	Key        int16  `json:"key"`
	Version    int16  `json:"version"`
	Flexible   bool   `json:"flexible"`
	Advertised bool   `json:"advertised"`
	Variant    int    `json:"variant"`
	Hex        string `json:"stream_hex"`
	stream     []byte
}

func (f *c10sFrame) name() string {
	return fmt.Sprintf("%s v%d", kmsg.NameForKey(f.Key), f.Version)
}

type c10sReplay struct {
	Kind string     `json:"kind"` // "shared-pair"
	A    *c10sFrame `json:"a"`
	B    *c10sFrame `json:"b"`
}

// c10sFrames: one valid client-encoded frame per (advertised api key) x {min advertised
// version, max advertised version, first flexible version, the version before it} (thorough:
// every advertised version as well, and two field variants).
func c10sFrames(pairs []c10KV, ranges map[int16][2]int16, thorough bool) ([]*c10sFrame, error) {
	adv := map[c10KV]bool{}
	for _, kv := range pairs {
		adv[kv] = true
	}
	var keys []int16
	for k := range ranges {
		keys = append(keys, k)
	}
	sort.Slice(keys, func(i, j int) bool { return keys[i] < keys[j] })
	variants := []int{1}
	if thorough {
		variants = []int{1, 0}
	}
	var out []*c10sFrame
	for _, k := range keys {
		rq := kmsg.RequestForKey(k)
		if rq == nil {
			return nil, fmt.Errorf("kmsg has no request for advertised key %d", k)
		}
		r := ranges[k]
		cand := []int16{r[0], r[1]}
		if fb := c10FlexBoundary(k); fb >= 0 && fb <= rq.MaxVersion() {
			if fb > 0 {
				cand = append(cand, fb-1)
			}
			cand = append(cand, fb)
		}
		if thorough {
			for v := r[0]; v <= r[1]; v++ {
				cand = append(cand, v)
			}
		}
		sort.Slice(cand, func(i, j int) bool { return cand[i] < cand[j] })
		last := int16(-1)
		for _, v := range cand {
			if v == last {
				continue
			}
			last = v
			for _, variant := range variants {
				req, _, _, err := c10Build(k, v, c10Gen{Variant: variant, SubLeaf: -1})
				if err != nil {
					return nil, err
				}
				stream := kmsg.NewRequestFormatter(kmsg.FormatterClientID("cid")).AppendRequest(nil, req, 0x0a0b0c0d)
				out = append(out, &c10sFrame{Key: k, Version: v, Flexible: req.IsFlexible(), Advertised: adv[c10KV{k, v}], Variant: variant,
					Hex: hex.EncodeToString(stream), stream: stream})
			}
		}
	}
	return out, nil
}

// c10sRunPair runs fa in one goroutine and then fb in another one such that the race
// detector sees no happens-before edge between fa and fb, but sees both happen before the
// return (and therefore before everything the caller does or starts afterwards).
func c10sRunPair(fa, fb func()) {
	hidden := make(chan struct{})
	joined := make(chan struct{}, 2)
	go func() {
		fa()
		sched.RaceOff() // the detector must not learn that fb starts after fa ended
		hidden <- struct{}{}
		sched.RaceOn()
		joined <- struct{}{}
	}()
	sched.RaceOff()
	<-hidden
	sched.RaceOn()
	go func() {
		fb()
		joined <- struct{}{}
	}()
	<-joined
	<-joined
}

// ---- harness-owned controls: is the detector able to see a conflict between fa and fb, and
// does it stay silent on two parses that are ordered by the visible join? ----

var c10sCtlPos, c10sCtlPos2, c10sCtlNeg int

//go:noinline
func c10sTouchPos() { c10sCtlPos++ }

//go:noinline
func c10sTouchPos2() { c10sCtlPos2++ }

//go:noinline
func c10sTouchNeg() { c10sCtlNeg++ }

// ---- race log ----

type c10sAccess struct {
	Owner    string // innermost function outside runtime / standard library
	OwnerLib bool   // owner is a third-party module
	Harness  bool   // owner is harness or engine code
	RepoFn   string // innermost repository (non-harness) function on the stack
	Restored bool   // the detector could print this stack
}

type c10sRace struct {
	Key    string
	Report string
}

type c10sLog struct {
	base    string
	offsets map[string]int64
	repo    string
	goroot  string
}

func newC10sLog() *c10sLog {
	repo := os.Getenv("VERIF_REPO")
	if repo == "" {
		repo = "/repo"
	}
	return &c10sLog{base: os.Getenv("VERIF_RACE_LOG"), offsets: map[string]int64{}, repo: strings.TrimSuffix(repo, "/") + "/", goroot: runtime.GOROOT()}
}

var (
	c10sFrameRe  = regexp.MustCompile(`(?m)^  (\S.*)\n\s+(\S+\.go):(\d+)`)
	c10sAccessRe = regexp.MustCompile(`(?m)^(Previous )?(Read|Write|Atomic read|Atomic write|read|write|atomic read|atomic write) at 0x[0-9a-f]+ by .*$`)
)

func c10sShort(fn string) string {
	fn = strings.TrimSuffix(fn, "()")
	if i := strings.LastIndexByte(fn, '/'); i >= 0 {
		fn = fn[i+1:]
	}
	return fn
}

// c10sLibOp names a library operation without its receiver type: kmsg.(*MetadataRequest).SetVersion
// -> kmsg.SetVersion (one mechanism, whatever the request type).
func c10sLibOp(fn string) string {
	s := c10sShort(fn)
	i := strings.IndexByte(s, '.')
	j := strings.LastIndexByte(s, '.')
	if i < 0 || j <= i {
		return s
	}
	return s[:i] + s[j:]
}

func (l *c10sLog) classify(stack string) (a c10sAccess) {
	ms := c10sFrameRe.FindAllStringSubmatch(stack, -1)
	a.Restored = len(ms) > 0
	for _, m := range ms {
		fn, path := m[1], m[2]
		std := strings.Contains(path, "/toolchain@") || strings.Contains(path, "/go/src/") || strings.HasPrefix(path, "/usr/") ||
			(l.goroot != "" && strings.HasPrefix(path, l.goroot+"/"))
		if std {
			continue
		}
		harness := strings.Contains(path, "/internal/verif/") || strings.Contains(filepath.Base(path), "zz_verif_")
		lib := strings.Contains(path, "/pkg/mod/")
		if a.Owner == "" {
			a.Owner, a.OwnerLib, a.Harness = fn, lib, harness
		}
		if !harness && !lib && strings.HasPrefix(path, l.repo) && a.RepoFn == "" {
			a.RepoFn = fn
		}
	}
	return a
}

func (a c10sAccess) desc() string {
	switch {
	case !a.Restored:
		return "?"
	case a.OwnerLib:
		return c10sShort(a.RepoFn) + "@" + c10sLibOp(a.Owner)
	}
	return c10sShort(a.Owner)
}

// counts reports whether the access is made by repository code or by library code reached
// from repository code (never harness/engine code, never a bare runtime/stdlib stack).
func (a c10sAccess) counts() bool {
	return a.Restored && !a.Harness && a.Owner != "" && a.RepoFn != ""
}

// newRaces returns what the detector reported since the last call: the reports between two
// parser accesses, the number of reports owned by the harness controls, and the others
// (written out for inspection).
func (l *c10sLog) newRaces() (found []c10sRace, control []string, other []string) {
	if l.base == "" {
		return
	}
	files, _ := filepath.Glob(l.base + ".*")
	sort.Strings(files)
	for _, f := range files {
		st, err := os.Stat(f)
		if err != nil || st.Size() <= l.offsets[f] {
			continue
		}
		data, err := os.ReadFile(f)
		if err != nil {
			continue
		}
		off := l.offsets[f]
		chunk := string(data[off:])
		l.offsets[f] = int64(len(data))
		for _, rep := range strings.Split(chunk, "==================") {
			if !strings.Contains(rep, "WARNING: DATA RACE") {
				continue
			}
			body := rep
			if i := strings.Index(body, "\nGoroutine "); i >= 0 {
				body = body[:i]
			}
			parts := c10sAccessRe.Split(body, -1)
			if len(parts) < 3 {
				other = append(other, strings.TrimSpace(rep))
				continue
			}
			a1, a2 := l.classify(parts[1]), l.classify(parts[2])
			switch {
			case a1.Harness || a2.Harness:
				control = append(control, a1.Owner+"|"+a2.Owner)
			case (a1.counts() && (a2.counts() || !a2.Restored)) || (a2.counts() && !a1.Restored):
				ds := []string{a1.desc(), a2.desc()}
				sort.Strings(ds)
				found = append(found, c10sRace{Key: "shared-parser-state:" + ds[0] + "|" + ds[1], Report: strings.TrimSpace(rep)})
			default:
				other = append(other, strings.TrimSpace(rep))
			}
		}
	}
	return
}

// ---- the check ----

func c10sOutcome(r *c10Result) string {
	switch {
	case r.PanicKey != "":
		return "panic"
	case r.FrameErr != nil:
		return "frame-err"
	case r.ParseErr != nil:
		return "parse-err"
	case r.Hdr == nil || r.Req == nil:
		return "nil"
	}
	return "parsed"
}

func (l *c10sLog) runPair(a, b *c10sFrame) (ra, rb c10Result, races []c10sRace, control, other []string) {
	// every parse gets its own copy of the client's bytes (two connections never share a buffer)
	sa := append([]byte{}, a.stream...)
	sb := append([]byte{}, b.stream...)
	c10sRunPair(func() { ra = c10Drive(sa, 0) }, func() { rb = c10Drive(sb, 0) })
	races, control, other = l.newRaces()
	return
}

func TestVerifC10Shared(t *testing.T) {
	rep := vh.New(t, "C10")
	defer rep.Finish()
	rep.Rule = "(part shared, -race build) every ordered pair (A,B) of valid kmsg-encoded request frames over {advertised api key} x {min, max advertised version, first flexible version, the one before it}: ReadFrame+ParseRequest on A in goroutine G1, then on B in goroutine G2, with the G1->G2 hand-off hidden from the race detector (no happens-before edge between the two parses) and a visible join of both before the next pair; every detector report whose two accesses are in repository code or library code reached from it is a violation; distinct = (A,B, parser outcomes); non-trivial = both parses ran to a decoded request"
	rep.Assumptions = []string{
		"(part shared) the Go race detector is the oracle for 'conflicting accesses without happens-before'; it does not see accesses made in assembly or through sync.Pool hand-overs, and it suppresses a report whose two stacks equal an earlier report's",
		"(part shared) two sequential, deterministic parses that have no conflicting access to shared memory produce the same results under every interleaving; a conflicting access is reported as shared mutable parser state whether or not some interleaving actually corrupts a result",
	}
	if !sched.RaceBuild {
		t.Fatalf("HARNESS-ERROR C10 part TestVerifC10Shared must be built with -race")
	}
	lg := newC10sLog()
	if lg.base == "" {
		t.Fatalf("HARNESS-ERROR VERIF_RACE_LOG is not set (the detector's reports cannot be read back)")
	}

	report := func(a, b *c10sFrame, races []c10sRace) {
		for _, r := range races {
			rep.Violation(r.Key, fmt.Sprintf("parsing %s (connection 1) and parsing %s (connection 2) access the same memory without synchronisation, at least one of them writing:\n%s", a.name(), b.name(), r.Report),
				c10sReplay{Kind: "shared-pair", A: a, B: b})
		}
	}

	var rp c10sReplay
	if ok, err := vh.LoadReplay(&rp); ok {
		if err != nil {
			t.Fatalf("HARNESS-ERROR replay: %v", err)
		}
		if rp.Kind != "shared-pair" || rp.A == nil || rp.B == nil {
			return // a replay of the sequential half
		}
		for _, f := range []*c10sFrame{rp.A, rp.B} {
			if f.stream, err = hex.DecodeString(f.Hex); err != nil {
				t.Fatalf("HARNESS-ERROR replay hex: %v", err)
			}
		}
		ra, rb, races, _, other := lg.runPair(rp.A, rp.B)
		rep.Eval(1)
		rep.Outcome("replay|"+c10sOutcome(&ra)+"|"+c10sOutcome(&rb), true)
		fmt.Printf("REPLAY %s | %s: %s %s races=%d other=%d\n", rp.A.name(), rp.B.name(), c10sOutcome(&ra), c10sOutcome(&rb), len(races), len(other))
		for _, r := range races {
			fmt.Println(r.Report)
		}
		report(rp.A, rp.B, races)
		return
	}

	pairs, ranges, err := c10Supported()
	if err != nil {
		t.Fatalf("HARNESS-ERROR %v", err)
	}
	thorough := vh.Thorough()
	frames, err := c10sFrames(pairs, ranges, thorough)
	if err != nil {
		t.Fatalf("HARNESS-ERROR %v", err)
	}
	nflex := 0
	for _, f := range frames {
		if f.Flexible {
			nflex++
		}
	}
	rep.SetInfo("shared_frames", len(frames))
	rep.SetInfo("shared_frames_flexible", nflex)
	rep.SetInfo("shared_ordered_pairs", len(frames)*len(frames))

	// controls. (1) two parses ordered by the visible join must not be reported;
	// (2) a conflict between the two halves of one pair must be reported.
	c10sRunPair(c10sTouchNeg, func() {})
	c10sRunPair(c10sTouchNeg, func() {})
	if f, c, o := lg.newRaces(); len(f)+len(c)+len(o) != 0 {
		t.Fatalf("HARNESS-ERROR control: the detector reported a conflict between two pairs that are ordered by the join: %v %v %v", f, c, o)
	}
	c10sRunPair(c10sTouchPos, c10sTouchPos)
	if f, c, o := lg.newRaces(); len(c) != 1 || len(f)+len(o) != 0 {
		t.Fatalf("HARNESS-ERROR control: the detector did not report the conflicting writes of the two halves of one pair (hand-off not hidden, or log not readable): found=%v control=%v other=%v", f, c, o)
	}
	rep.Count("shared_control_reports", 1)

	deadline := vh.Deadline()
	shard, nsh := vh.Shard()
	var otherAll []string
	capped := false
	// Order: the detector prints a conflict between two given code locations once per process, so
	// the pairs on which shared state would change a result come first and get the report:
	// same api key with different header flexibility, then same key / different version, then
	// identical frames, then different keys. The set of pairs does not depend on the order.
	type pairIdx struct{ a, b, rank int }
	var order []pairIdx
	for ai, a := range frames {
		if ai%nsh != shard {
			continue
		}
		for bi, b := range frames {
			rank := 3
			switch {
			case a.Key == b.Key && a.Flexible != b.Flexible:
				rank = 0
			case a.Key == b.Key && a.Version != b.Version:
				rank = 1
			case a.Key == b.Key:
				rank = 2
			}
			order = append(order, pairIdx{ai, bi, rank})
		}
	}
	sort.SliceStable(order, func(i, j int) bool { return order[i].rank < order[j].rank })
	for n, pi := range order {
		if n%64 == 0 && time.Now().After(deadline) {
			capped = true
			break
		}
		a, b := frames[pi.a], frames[pi.b]
		{
			ra, rb, races, control, other := lg.runPair(a, b)
			rep.Eval(1)
			rep.Count("cases_shared_pairs", 1)
			oa, ob := c10sOutcome(&ra), c10sOutcome(&rb)
			rep.Outcome(fmt.Sprintf("SH|%d|%d|%d|%d|%d|%d|%s|%s", a.Key, a.Version, a.Variant, b.Key, b.Version, b.Variant, oa, ob), oa == "parsed" && ob == "parsed")
			if oa != "parsed" || ob != "parsed" {
				rep.Count("shared_pairs_not_both_parsed", 1)
			}
			if a.Key == b.Key && a.Flexible != b.Flexible && rep.WantSample() {
				rep.Sample(map[string]any{"phase": "shared", "connection_1": a.name(), "connection_2": b.name(), "stream_1_hex": a.Hex, "stream_2_hex": b.Hex, "outcome": oa + "," + ob, "detector_reports": len(races)})
			}
			report(a, b, races)
			if len(control) != 0 {
				t.Fatalf("HARNESS-ERROR the detector reported a conflict in harness code while parsing %s | %s: %v", a.name(), b.name(), control)
			}
			otherAll = append(otherAll, other...)
		}
	}
	if capped {
		rep.Cap("deadline hit in shared-state pair enumeration")
	}
	// the detector must still be alive and its log readable at the end
	c10sRunPair(c10sTouchPos2, c10sTouchPos2)
	if f, c, o := lg.newRaces(); len(c) != 1 || len(f)+len(o) != 0 {
		t.Fatalf("HARNESS-ERROR end control: the detector did not report the conflicting control writes: found=%v control=%v other=%v", f, c, o)
	}
	rep.Count("shared_control_reports", 1)
	rep.Count("shared_reports_outside_parser_code", int64(len(otherAll)))
	for i, o := range otherAll {
		if i < 3 {
			fmt.Printf("C10SHARED report outside parser code:\n%s\n", o)
		}
	}
}
