//go:build verif

package protocol

// C10, dimension "pipelined streams": a Kafka client sends several requests on one connection
// before it has read a response, so the bytes of one connection are a STREAM of request frames
// and one Read of the transport may return the end of one frame together with the beginning of
// the next. Every sequence of 2..3 valid client-encoded request frames over a small alphabet
// (flexible and non-flexible versions, empty and long bodies, null / short / long client ids;
// plus every advertised (key,version) once in first and once in second position) is delivered
// to repeated ReadFrame+ParseRequest calls on ONE reader — the loop of
// Server.handleConnection — under every chunking of a bounded family (everything in one Read,
// one byte per Read, one Read per frame, data together with io.EOF, and a split at every single
// offset of the stream). Oracle: the i-th call returns exactly the i-th request that was
// encoded (frame bytes, api key, version, correlation id, client id, body), for every i; a
// panic anywhere, including on a trailing partial frame followed by EOF, is a violation.
// The same sequences go through the real Server.handleConnection in the pkg/broker child
// (zz_verif_c10_pipe_conn_test.go).

import (
	"bytes"
	"encoding/hex"
	"encoding/json"
	"errors"
	"fmt"
	"io"
	"os"
	"path/filepath"
	"reflect"
	"sort"
	"strings"
	"sync"
	"sync/atomic"
	"testing"
	"time"

	"github.com/KafScale/platform/internal/verif/vh"
	"github.com/twmb/franz-go/pkg/kmsg"
)

// c10pSpec names one generated request frame of a pipelined stream.
type c10pSpec struct {
	Key      int16   `json:"key"`
	Version  int16   `json:"version"`
	Variant  int     `json:"variant"`
	ClientID *string `json:"client_id"`
	Corr     int32   `json:"corr"`
}

// c10pChunk describes how the stream is handed out by Read: "all" (as much as the caller's
// buffer takes), "byte" (one byte per Read), "frames"/"split" (a Read never crosses one of
// Cuts), "eof" (like all, the last bytes are returned together with io.EOF).
type c10pChunk struct {
	Mode string `json:"mode"`
	Cuts []int  `json:"cuts,omitempty"`
}

type c10pReplay struct {
	Frames  []c10pSpec `json:"frames"`
	Chunk   c10pChunk  `json:"chunk"`
	TailHex string     `json:"trailing_partial_frame_hex,omitempty"`
	Level   string     `json:"level"` // "parser" | "server"
}

type c10pFrame struct {
	spec  c10pSpec
	flex  bool
	frame []byte       // size prefix + header + body as the client codec emits it
	body  []byte       // the client's body bytes
	norm  kmsg.Request // kmsg's own decoding of body (normalised original)
}

func (f *c10pFrame) name() string {
	return fmt.Sprintf("%s v%d", kmsg.NameForKey(f.spec.Key), f.spec.Version)
}

func c10pBuild(s c10pSpec) (*c10pFrame, error) {
	rq, _, _, err := c10Build(s.Key, s.Version, c10Gen{Variant: s.Variant, SubLeaf: -1})
	if err != nil {
		return nil, err
	}
	fm := kmsg.NewRequestFormatter()
	if s.ClientID != nil {
		fm = kmsg.NewRequestFormatter(kmsg.FormatterClientID(*s.ClientID))
	}
	f := &c10pFrame{spec: s, flex: rq.IsFlexible(), body: rq.AppendTo(nil)}
	f.frame = fm.AppendRequest(nil, rq, s.Corr)
	if !bytes.HasSuffix(f.frame, f.body) {
		return nil, fmt.Errorf("encoder self-check failed for key %d v%d", s.Key, s.Version)
	}
	f.norm = kmsg.RequestForKey(s.Key)
	f.norm.SetVersion(s.Version)
	if err := f.norm.ReadFrom(f.body); err != nil {
		return nil, fmt.Errorf("kmsg cannot decode its own body for key %d v%d: %v", s.Key, s.Version, err)
	}
	return f, nil
}

// c10pReader hands out data according to a c10pChunk.
type c10pReader struct {
	data    []byte
	pos     int
	cuts    []int
	ci      int
	byteway bool
	eofData bool
}

func newC10pReader(data []byte, ch c10pChunk) *c10pReader {
	return &c10pReader{data: data, cuts: ch.Cuts, byteway: ch.Mode == "byte", eofData: ch.Mode == "eof"}
}

func (r *c10pReader) Read(p []byte) (int, error) {
	if r.pos >= len(r.data) {
		return 0, io.EOF
	}
	if len(p) == 0 {
		return 0, nil
	}
	end := len(r.data)
	if r.byteway {
		end = r.pos + 1
	} else {
		for r.ci < len(r.cuts) && r.cuts[r.ci] <= r.pos {
			r.ci++
		}
		if r.ci < len(r.cuts) && r.cuts[r.ci] < end {
			end = r.cuts[r.ci]
		}
	}
	n := copy(p, r.data[r.pos:end])
	r.pos += n
	if r.eofData && r.pos == len(r.data) {
		return n, io.EOF
	}
	return n, nil
}

func c10pErrClass(err error) string {
	switch {
	case errors.Is(err, io.ErrUnexpectedEOF):
		return "unexpected-eof"
	case errors.Is(err, io.EOF):
		return "eof"
	case strings.Contains(err.Error(), "invalid frame length"):
		return "bad-length"
	}
	return "other-error"
}

// c10pCompare checks one parsed request against the frame that was encoded. what = "" if same.
func c10pCompare(f *c10pFrame, h *RequestHeader, rq kmsg.Request) (what, detail string) {
	s := f.spec
	switch {
	case h == nil || rq == nil:
		return "nil-result", "nil header/request without error"
	case h.APIKey != s.Key || rq.Key() != s.Key:
		return "api-key", fmt.Sprintf("api key %d/%d, sent %d", h.APIKey, rq.Key(), s.Key)
	case h.APIVersion != s.Version || rq.GetVersion() != s.Version:
		return "version", fmt.Sprintf("version %d/%d, sent %d", h.APIVersion, rq.GetVersion(), s.Version)
	case h.CorrelationID != s.Corr:
		return "correlation-id", fmt.Sprintf("correlation id %d, sent %d", h.CorrelationID, s.Corr)
	case (h.ClientID == nil) != (s.ClientID == nil):
		return "client-id-nullness", fmt.Sprintf("client id null=%v, sent null=%v", h.ClientID == nil, s.ClientID == nil)
	case h.ClientID != nil && *h.ClientID != *s.ClientID:
		return "client-id", fmt.Sprintf("client id %q, sent %q", *h.ClientID, *s.ClientID)
	}
	if got := rq.AppendTo(nil); !bytes.Equal(got, f.body) {
		return "body", fmt.Sprintf("re-encoded parsed body (%d bytes) differs from the client's body (%d bytes)", len(got), len(f.body))
	}
	if !reflect.DeepEqual(rq, f.norm) {
		return "body", "parsed request differs structurally from the normalised original"
	}
	return "", ""
}

// c10pDrive runs the connection loop on one reader: ReadFrame, ParseRequest, once per sent
// frame, then once more (end of stream or trailing partial frame). It returns a violation key
// ("" = property holds) and the outcome of the final read.
func c10pDrive(frames []*c10pFrame, stream []byte, ch c10pChunk) (key, detail, last string) {
	i := 0
	defer func() {
		if p := recover(); p != nil {
			k, m := c10ClassifyPanic(p)
			key, detail = k, fmt.Sprintf("panic (%s) at read #%d of %d pipelined frames", m, i, len(frames))
		}
	}()
	r := newC10pReader(stream, ch)
	for ; i < len(frames); i++ {
		f := frames[i]
		pos := "first"
		if i > 0 {
			pos = "later"
		}
		fr, err := ReadFrame(r)
		if err != nil {
			return "pipelined-request-lost:" + c10pErrClass(err) + "@" + pos + "-frame",
				fmt.Sprintf("ReadFrame #%d (%s, all of its bytes are in the stream): %v", i, f.name(), err), ""
		}
		if fr == nil || !bytes.Equal(fr.Payload, f.frame[4:]) || int(fr.Length) != len(f.frame)-4 {
			n := -1
			if fr != nil {
				n = len(fr.Payload)
			}
			return "pipelined-misframed@" + pos + "-frame",
				fmt.Sprintf("ReadFrame #%d returned a %d-byte payload that is not the %d-byte payload the client sent (%s)", i, n, len(f.frame)-4, f.name()), ""
		}
		h, rq, err := ParseRequest(fr.Payload)
		if err != nil {
			return "pipelined-roundtrip-rejected@" + pos + "-frame", fmt.Sprintf("ParseRequest #%d (%s): %v", i, f.name(), err), ""
		}
		if what, d := c10pCompare(f, h, rq); what != "" {
			return "pipelined-roundtrip-mismatch:" + what + "@" + pos + "-frame", fmt.Sprintf("request #%d (%s): %s", i, f.name(), d), ""
		}
	}
	fr, err := ReadFrame(r)
	switch {
	case err != nil:
		last = "end:" + c10pErrClass(err)
	case fr != nil:
		last = "end:frame-without-error"
	}
	return "", "", last
}

// c10pChunkings: the bounded chunking family of a stream with the given frame boundaries.
func c10pChunkings(total int, bounds []int, everyOffset bool) []c10pChunk {
	out := []c10pChunk{{Mode: "all"}, {Mode: "byte"}, {Mode: "frames", Cuts: bounds}, {Mode: "eof"}}
	if everyOffset {
		for k := 1; k < total; k++ {
			out = append(out, c10pChunk{Mode: "split", Cuts: []int{k}})
		}
	}
	return out
}

type c10pAlphabet struct {
	specs []c10pSpec // without correlation id
}

// c10pAlphabetFor picks the frame alphabet from the advertised table (simplest first). It must
// contain a flexible and a non-flexible version.
func c10pAlphabetFor(ranges map[int16][2]int16, thorough bool) ([]c10pSpec, error) {
	type pick struct {
		key     int16
		max     bool
		variant int
		cid     *string
	}
	picks := []pick{
		{APIKeyApiVersion, false, 1, nil},            // smallest frame: non-flexible, empty body, null client id
		{APIKeyApiVersion, true, 1, c10StrPtr("a")},  // flexible
		{APIKeyMetadata, false, 1, c10StrPtr("cid")}, // non-flexible with an array of strings
		{APIKeyMetadata, true, 1, c10StrPtr("")},     // flexible, arrays, empty client id
		{APIKeyProduce, true, 3, c10StrPtr(c10Long)}, // long strings/bytes: frame > 255 bytes
	}
	if thorough {
		picks = append(picks,
			pick{APIKeyFetch, false, 2, c10StrPtr("cid")},
			pick{APIKeyJoinGroup, true, 4, nil})
	}
	var out []c10pSpec
	flex, nonflex := false, false
	for _, p := range picks {
		r, ok := ranges[p.key]
		if !ok {
			return nil, fmt.Errorf("pipelined alphabet: api key %d is not advertised", p.key)
		}
		v := r[0]
		if p.max {
			v = r[1]
		}
		out = append(out, c10pSpec{Key: p.key, Version: v, Variant: p.variant, ClientID: p.cid})
		if c10IsFlexible(p.key, v) {
			flex = true
		} else {
			nonflex = true
		}
	}
	if !flex || !nonflex {
		return nil, fmt.Errorf("pipelined alphabet lacks a flexible or a non-flexible version")
	}
	return out, nil
}

// c10pCorr: the correlation id identifies position and alphabet entry, so a lost, duplicated or
// reordered request cannot be mistaken for the right one.
func c10pCorr(pos, entry int) int32 { return int32(1000*(pos+1) + entry) }

type c10pCase struct {
	frames []*c10pFrame
	tail   []byte // trailing partial frame ("" = none)
	every  bool   // split at every offset
}

func (c *c10pCase) stream() (stream []byte, bounds []int) {
	for _, f := range c.frames {
		stream = append(stream, f.frame...)
		bounds = append(bounds, len(stream))
	}
	if len(c.tail) == 0 {
		bounds = bounds[:len(bounds)-1]
	}
	stream = append(stream, c.tail...)
	return
}

func (c *c10pCase) replay(ch c10pChunk, level string) *c10pReplay {
	rp := &c10pReplay{Chunk: ch, Level: level, TailHex: hex.EncodeToString(c.tail)}
	for _, f := range c.frames {
		rp.Frames = append(rp.Frames, f.spec)
	}
	return rp
}

// c10pConnInput is what the pkg/broker child enumerates (it builds the chunkings itself).
type c10pConnFrame struct {
	Name     string   `json:"name"`
	Spec     c10pSpec `json:"spec"`
	BodyHex  string   `json:"body_hex"`
	FrameHex string   `json:"frame_hex"`
}

type c10pConnCase struct {
	Frames  []int  `json:"frames"` // indices into Frames
	TailHex string `json:"tail_hex,omitempty"`
	Every   bool   `json:"every_offset"`
}

type c10pConnInput struct {
	Frames []c10pConnFrame `json:"frames"`
	Cases  []c10pConnCase  `json:"cases"`
}

type c10pConnViol struct {
	Key    string    `json:"key"`
	Detail string    `json:"detail"`
	Case   int       `json:"case"`
	Chunk  c10pChunk `json:"chunk"`
}

type c10pConnOutput struct {
	Capped     string           `json:"capped,omitempty"`
	Evals      int64            `json:"evals"`
	Sigs       map[string]bool  `json:"sigs"`
	Counts     map[string]int64 `json:"counts"`
	Violations []c10pConnViol   `json:"violations"`
}

const (
	c10pMaxViolPerCase = 6
	c10pMaxViolCases   = 8
	c10pConnIn         = "c10-pipe-cases.json"
	c10pConnOut        = "c10-pipe-results.json"
)

// c10pPhase enumerates the pipelined streams at parser level and writes the case list for the
// server-level child. It returns the cases (for attributing the child's results).
func c10pPhase(t *testing.T, rep *vh.Report, agg *c10Agg, pairs []c10KV, ranges map[int16][2]int16, thorough bool, deadline time.Time, ord *int64) []*c10pCase {
	alpha, err := c10pAlphabetFor(ranges, thorough)
	if err != nil {
		t.Fatalf("HARNESS-ERROR %v", err)
	}
	maxPos := 3
	// frames[pos][entry]
	cache := map[string]*c10pFrame{}
	var cacheMu sync.Mutex
	build := func(s c10pSpec) *c10pFrame {
		b, _ := json.Marshal(s)
		cacheMu.Lock()
		defer cacheMu.Unlock()
		if f, ok := cache[string(b)]; ok {
			return f
		}
		f, err := c10pBuild(s)
		if err != nil {
			t.Fatalf("HARNESS-ERROR %v", err)
		}
		cache[string(b)] = f
		return f
	}
	at := func(pos, entry int) *c10pFrame {
		s := alpha[entry]
		s.Corr = c10pCorr(pos, entry)
		return build(s)
	}
	var cases []*c10pCase
	// (1) every sequence of 2..3 alphabet frames, every chunking incl. every single split offset
	for n := 2; n <= maxPos; n++ {
		idx := make([]int, n)
		for {
			c := &c10pCase{every: true}
			for pos, e := range idx {
				c.frames = append(c.frames, at(pos, e))
			}
			cases = append(cases, c)
			k := n - 1
			for k >= 0 {
				idx[k]++
				if idx[k] < len(alpha) {
					break
				}
				idx[k] = 0
				k--
			}
			if k < 0 {
				break
			}
		}
	}
	nSeq := len(cases)
	// (2) every advertised (key,version) once behind and once in front of every alphabet frame
	cid := c10StrPtr("cid")
	for pi, kv := range pairs {
		for e := range alpha {
			p1 := build(c10pSpec{Key: kv.Key, Version: kv.Version, Variant: 1, ClientID: cid, Corr: int32(20000 + pi)})
			p0 := build(c10pSpec{Key: kv.Key, Version: kv.Version, Variant: 1, ClientID: cid, Corr: int32(10000 + pi)})
			cases = append(cases,
				&c10pCase{frames: []*c10pFrame{at(0, e), p1}, every: thorough},
				&c10pCase{frames: []*c10pFrame{p0, at(1, e)}, every: thorough})
		}
	}
	nAdv := len(cases) - nSeq
	// (3) 1..2 complete frames, then a partial frame, then EOF
	for n := 1; n <= 2; n++ {
		idx := make([]int, n)
		for {
			for te := range alpha {
				tf := at(n, te)
				seen := map[int]bool{}
				for _, cut := range []int{1, 3, 4, 5, len(tf.frame) / 2, len(tf.frame) - 1} {
					if cut <= 0 || cut >= len(tf.frame) || seen[cut] {
						continue
					}
					seen[cut] = true
					c := &c10pCase{tail: tf.frame[:cut]}
					for pos, e := range idx {
						c.frames = append(c.frames, at(pos, e))
					}
					cases = append(cases, c)
				}
			}
			k := n - 1
			for k >= 0 {
				idx[k]++
				if idx[k] < len(alpha) {
					break
				}
				idx[k] = 0
				k--
			}
			if k < 0 {
				break
			}
		}
	}
	nTail := len(cases) - nSeq - nAdv
	rep.SetInfo("pipelined", map[string]any{"alphabet": func() (s []string) {
		for e := range alpha {
			f := at(0, e)
			s = append(s, fmt.Sprintf("%s flexible=%v frame=%dB", f.name(), f.flex, len(f.frame)))
		}
		return
	}(), "sequences_len_2_3": nSeq, "advertised_pair_placements": nAdv, "trailing_partial_cases": nTail})

	// Violation budget (only ever reached on a broken tree): once a stream is mis-framed the
	// parser reads request bytes as a frame length and allocates up to 2 GiB per call, so the
	// enumeration stops deterministically: at most c10pMaxViolPerCase violating chunkings per
	// stream, and nothing after the c10pMaxViolCases-th violating stream (in enumeration order;
	// results of streams that other workers had already started beyond it are discarded).
	type pending struct {
		key, detail string
		ord         int64
		ch          c10pChunk
	}
	type caseResult struct {
		evals int64
		sigs  []string
		viols []pending
	}
	results := make([]*caseResult, len(cases))
	var violMu sync.Mutex
	var violCases []int
	violBefore := func(ci int) (n int) {
		violMu.Lock()
		defer violMu.Unlock()
		for _, v := range violCases {
			if v < ci {
				n++
			}
		}
		return
	}
	perCase := int64(1) << 14
	base := *ord
	*ord += perCase * int64(len(cases))
	var capped atomic.Bool
	var wg sync.WaitGroup
	jobs := make(chan int)
	for w := 0; w < c10Workers(); w++ {
		wg.Add(1)
		go func() {
			defer wg.Done()
			for ci := range jobs {
				if time.Now().After(deadline) {
					capped.Store(true)
					continue
				}
				if violBefore(ci) >= c10pMaxViolCases {
					continue
				}
				c := cases[ci]
				stream, bounds := c.stream()
				o := base + perCase*int64(ci)
				r := &caseResult{}
				seen := map[string]bool{}
				shape := make([]string, 0, len(c.frames))
				for _, f := range c.frames {
					if f.flex {
						shape = append(shape, "F")
					} else {
						shape = append(shape, "N")
					}
				}
				sh := strings.Join(shape, "")
				if len(c.tail) > 0 {
					sh += "+partial"
				}
				for _, ch := range c10pChunkings(len(stream), bounds, c.every) {
					o++
					r.evals++
					key, detail, last := c10pDrive(c.frames, stream, ch)
					res := "same"
					if key != "" {
						res = key
					}
					crosses := ch.Mode == "all" || ch.Mode == "eof" || (ch.Mode == "split" && !c10pIsBound(bounds, ch.Cuts[0]))
					sig := "P|" + sh + "|" + ch.Mode + "|crosses-frame=" + fmt.Sprint(crosses) + "|" + res + "|" + last
					if !seen[sig] {
						seen[sig] = true
						r.sigs = append(r.sigs, sig)
					}
					if key != "" {
						r.viols = append(r.viols, pending{key: key, detail: detail, ord: o, ch: ch})
						if len(r.viols) >= c10pMaxViolPerCase {
							break
						}
					}
				}
				if len(r.viols) > 0 {
					violMu.Lock()
					violCases = append(violCases, ci)
					violMu.Unlock()
				}
				results[ci] = r
			}
		}()
	}
	for i := range cases {
		jobs <- i
	}
	close(jobs)
	wg.Wait()
	if capped.Load() {
		rep.Cap("deadline hit in pipelined phase")
	}
	cutoff := len(cases) - 1
	sort.Ints(violCases)
	if len(violCases) >= c10pMaxViolCases {
		cutoff = violCases[c10pMaxViolCases-1]
		rep.Cap(fmt.Sprintf("pipelined phase stopped after %d violating streams (stream %d of %d)", c10pMaxViolCases, cutoff+1, len(cases)))
	}
	sigs := &c10Sigs{rep: rep, seen: map[string]bool{}}
	sampled := false
	var evals int64
	for ci := 0; ci <= cutoff; ci++ {
		r := results[ci]
		if r == nil {
			continue // deadline
		}
		c := cases[ci]
		evals += r.evals
		for _, s := range r.sigs {
			sigs.add(s, true)
		}
		stream, bounds := c.stream()
		if !sampled && len(r.viols) == 0 && c.every {
			sampled = true
			ch := c10pChunk{Mode: "split", Cuts: []int{len(c.frames[0].frame) + 5}}
			rep.Sample(map[string]any{"phase": "P", "frames": c.replay(ch, "parser").Frames, "chunk": ch, "stream_hex": hex.EncodeToString(stream), "outcome": "every request parsed back in order"})
		}
		for _, v := range r.viols {
			v := v
			agg.add(v.key, v.ord, stream, func() c10Viol {
				return c10Viol{Detail: fmt.Sprintf("%s; stream of %d frames (%d bytes, boundaries %v) delivered as %s%v", v.detail, len(c.frames), len(stream), bounds, v.ch.Mode, v.ch.Cuts),
					Replay: c10Replay{Kind: "pipelined", StreamHex: hex.EncodeToString(stream), Pipe: c.replay(v.ch, "parser")}}
			})
		}
	}
	rep.Eval(evals)
	rep.Count("cases_pipelined", evals)

	// case list for the server-level child
	if scratch := os.Getenv("VERIF_SCRATCH"); scratch != "" {
		var in c10pConnInput
		index := map[*c10pFrame]int{}
		for _, c := range cases {
			cc := c10pConnCase{TailHex: hex.EncodeToString(c.tail), Every: c.every}
			for _, f := range c.frames {
				i, ok := index[f]
				if !ok {
					i = len(in.Frames)
					index[f] = i
					in.Frames = append(in.Frames, c10pConnFrame{Name: f.name(), Spec: f.spec, BodyHex: hex.EncodeToString(f.body), FrameHex: hex.EncodeToString(f.frame)})
				}
				cc.Frames = append(cc.Frames, i)
			}
			in.Cases = append(in.Cases, cc)
		}
		b, err := json.Marshal(in)
		if err == nil {
			err = os.WriteFile(filepath.Join(scratch, c10pConnIn), b, 0o644)
		}
		if err != nil {
			t.Fatalf("HARNESS-ERROR %v", err)
		}
	}
	return cases
}

func c10pIsBound(bounds []int, k int) bool {
	for _, b := range bounds {
		if b == k {
			return true
		}
	}
	return false
}

// c10pConnEnv is added to the environment of the pkg/broker child run by c10PhaseServer.
func c10pConnEnv(scratch string) []string {
	return []string{"C10_PIPE_CASES=" + filepath.Join(scratch, c10pConnIn), "C10_PIPE_RESULTS=" + filepath.Join(scratch, c10pConnOut)}
}

// c10pConnResults merges what the pkg/broker child found on the pipelined streams.
func c10pConnResults(t *testing.T, rep *vh.Report, agg *c10Agg, cases []*c10pCase, ord *int64) {
	scratch := os.Getenv("VERIF_SCRATCH")
	if scratch == "" || cases == nil {
		return
	}
	if _, err := os.Stat(filepath.Join(scratch, "overlay.json")); err != nil {
		return // c10PhaseServer has reported the cap
	}
	b, err := os.ReadFile(filepath.Join(scratch, c10pConnOut))
	if err != nil {
		t.Fatalf("HARNESS-ERROR server-level pipelined results: %v", err)
	}
	var out c10pConnOutput
	if err := json.Unmarshal(b, &out); err != nil {
		t.Fatalf("HARNESS-ERROR server-level pipelined results: %v", err)
	}
	if out.Evals == 0 {
		t.Fatalf("HARNESS-ERROR server-level pipelined run executed no case")
	}
	rep.Eval(out.Evals)
	rep.Count("cases_pipelined_server", out.Evals)
	if out.Capped != "" {
		rep.Cap(out.Capped)
	}
	sigs := make([]string, 0, len(out.Sigs))
	for s := range out.Sigs {
		sigs = append(sigs, s)
	}
	sort.Strings(sigs)
	for _, s := range sigs {
		rep.Outcome("PS|"+s, out.Sigs[s])
	}
	base := *ord
	*ord += int64(len(out.Violations)) + 1
	listed := map[string]int64{}
	for i, v := range out.Violations {
		if v.Case < 0 || v.Case >= len(cases) {
			t.Fatalf("HARNESS-ERROR server-level pipelined results name case %d", v.Case)
		}
		c := cases[v.Case]
		stream, bounds := c.stream()
		listed[v.Key]++
		vv := v
		agg.add(v.Key, base+int64(i), stream, func() c10Viol {
			return c10Viol{Detail: fmt.Sprintf("%s; stream of %d frames (%d bytes, boundaries %v) read by Server.handleConnection as %s%v", vv.Detail, len(c.frames), len(stream), bounds, vv.Chunk.Mode, vv.Chunk.Cuts),
				Replay: c10Replay{Kind: "pipelined", StreamHex: hex.EncodeToString(stream), Pipe: c.replay(vv.Chunk, "server")}}
		})
	}
	agg.mu.Lock()
	for k, n := range out.Counts {
		if n > listed[k] {
			agg.count[k] += n - listed[k]
		}
	}
	agg.mu.Unlock()
}

// c10pRunReplay re-executes a pipelined counterexample at parser level (a server-level one is
// re-executed on the parser loop with the same stream and chunking).
func c10pRunReplay(t *testing.T, rep *vh.Report, agg *c10Agg, rp c10Replay) {
	if rp.Pipe == nil {
		t.Fatalf("HARNESS-ERROR replay: pipelined case without frames")
	}
	c := &c10pCase{}
	for _, s := range rp.Pipe.Frames {
		f, err := c10pBuild(s)
		if err != nil {
			t.Fatalf("HARNESS-ERROR replay: %v", err)
		}
		c.frames = append(c.frames, f)
	}
	tail, err := hex.DecodeString(rp.Pipe.TailHex)
	if err != nil {
		t.Fatalf("HARNESS-ERROR replay hex: %v", err)
	}
	c.tail = tail
	stream, _ := c.stream()
	key, detail, last := c10pDrive(c.frames, stream, rp.Pipe.Chunk)
	rep.Eval(1)
	rep.Outcome("replay|pipelined|"+key+"|"+last, true)
	if key != "" {
		agg.add(key, 0, stream, func() c10Viol { return c10Viol{Detail: "replay: " + detail, Replay: rp} })
	}
}
