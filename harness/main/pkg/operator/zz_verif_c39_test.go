//go:build verif

package operator

// C39 — operator metadata matches deployed brokers; derived bucket names are valid.
//
// Part A (metadata): for every cluster spec x topic set the broker StatefulSet is rendered by the
// real reconcileBrokerDeployment on the controller-runtime fake client and the metadata by the
// real BuildClusterMetadata; the oracle below is written from the property statement.
// Part H (history, zz_verif_c39_history_test.go): ordered pairs/triples of specs reconciled step by
// step on ONE fake API server (the cluster object is edited in between); Part A oracle on the
// StatefulSet then on the server, plus differential against a fresh server with the last spec.
// Part P (publish over an existing snapshot, zz_verif_c39_publish_test.go): operator publish, broker-side
// CreatePartitions / CreateTopic on the stored snapshot, operator publish again through the real
// build -> merge -> encode steps of PublishMetadataSnapshot; the oracle judges the published payload.
// Part B (bucket names): every (namespace, name) of the name alphabet goes through the real
// defaultEtcdSnapshotBucket / snapshotBucket and through the real managed-etcd renderers
// (SNAPSHOT_BUCKET of the etcd StatefulSet init container and of the snapshot CronJob); the
// outputs are checked against the S3 bucket-name grammar.

import (
	"context"
	"fmt"
	"os"
	"regexp"
	"sort"
	"strconv"
	"strings"
	"testing"
	"time"

	appsv1 "k8s.io/api/apps/v1"
	batchv1 "k8s.io/api/batch/v1"
	metav1 "k8s.io/apimachinery/pkg/apis/meta/v1"
	"k8s.io/apimachinery/pkg/runtime"
	"sigs.k8s.io/controller-runtime/pkg/client"

	kafscalev1alpha1 "github.com/KafScale/platform/api/v1alpha1"
	"github.com/KafScale/platform/internal/verif/enum"
	"github.com/KafScale/platform/internal/verif/vh"
	"github.com/KafScale/platform/pkg/metadata"
)

type c39Topic struct {
	Name       string `json:"name"`
	Partitions int32  `json:"partitions"`
}

type c39Replay struct {
	Kind    string     `json:"kind"` // "metadata" | "bucket" | "history" | "history-diff" | "publish"
	Spec    vopSpec    `json:"spec"`
	History []vopSpec  `json:"history,omitempty"` // specs reconciled on the same API server before the cluster was edited to Spec
	Topics  []c39Topic `json:"topics,omitempty"`
	// kind "publish": what the brokers did to the stored snapshot between the operator's two publishes
	Grown         []c39Topic `json:"grown,omitempty"`          // CreatePartitions: topic name, number of partitions ADDED
	BrokerCreated []c39Topic `json:"broker_created,omitempty"` // CreateTopic: topics that exist only in the stored snapshot
}

func c39Names(thorough bool) (names, namespaces []string) {
	names = []string{"a", "demo", "my.cluster", "Demo", vopLongName(41), vopLongName(42), vopLongName(63), vopLongName(253)}
	namespaces = []string{"d", "default", "Team-A", strings.Repeat("n", 63)}
	if thorough {
		names = append(names, "a-b", "a.b.c", "0", "x9", vopLongName(48), vopLongName(64), vopLongName(127))
		namespaces = append(namespaces, "kafscale", "n0", strings.Repeat("n", 34), strings.Repeat("n", 35))
	}
	return
}

func c39TopicSets(thorough bool) [][]c39Topic {
	maxTopics, maxParts := 2, int32(3)
	if thorough {
		maxTopics, maxParts = 3, 4
	}
	return append([][]c39Topic{nil}, c39TopicSetsN(1, maxTopics, maxParts)...)
}

// c39TopicSetsN: every topic set of minTopics..maxTopics topics with 1..maxParts partitions each, simplest first.
func c39TopicSetsN(minTopics, maxTopics int, maxParts int32) [][]c39Topic {
	tnames := []string{"orders", "payments", "t.3"}
	var sets [][]c39Topic
	for n := minTopics; n <= maxTopics; n++ {
		dims := make([]int, n)
		for i := range dims {
			dims[i] = int(maxParts)
		}
		enum.Product(dims, func(idx []int) bool {
			set := make([]c39Topic, n)
			for i := range idx {
				set[i] = c39Topic{Name: tnames[i], Partitions: int32(idx[i] + 1)}
			}
			sets = append(sets, set)
			return true
		})
	}
	return sets
}

// DNS-1123 subdomain shape, letter case ignored (upper case is in the design alphabet; the API server would refuse it)
var c39DNSShaped = regexp.MustCompile(`^(?i)[a-z0-9]([-a-z0-9_]*[a-z0-9])?(\.[a-z0-9]([-a-z0-9_]*[a-z0-9])?)*$`)

var c39IPRe = regexp.MustCompile(`^[0-9]+\.[0-9]+\.[0-9]+\.[0-9]+$`)

// c39BucketProblem checks the S3 general-purpose bucket grammar: 3-63 chars of [a-z0-9.-],
// letter/digit at both ends, no "..", not formatted as an IP address. "" = valid.
func c39BucketProblem(b string) string {
	switch {
	case len(b) < 3:
		return "bucket-too-short"
	case len(b) > 63:
		return "bucket-too-long"
	}
	for i := 0; i < len(b); i++ {
		ch := b[i]
		if !(ch >= 'a' && ch <= 'z' || ch >= '0' && ch <= '9' || ch == '.' || ch == '-') {
			return "bucket-bad-char"
		}
	}
	alnum := func(ch byte) bool { return ch >= 'a' && ch <= 'z' || ch >= '0' && ch <= '9' }
	if !alnum(b[0]) || !alnum(b[len(b)-1]) {
		return "bucket-bad-end"
	}
	if strings.Contains(b, "..") {
		return "bucket-dotdot"
	}
	if c39IPRe.MatchString(b) {
		return "bucket-ip-format"
	}
	return ""
}

type c39Rendered struct {
	sts *appsv1.StatefulSet
	err string
}

func c39RenderBrokers(scheme *runtime.Scheme, s vopSpec) (out c39Rendered) {
	defer func() {
		if p := recover(); p != nil {
			out.err = fmt.Sprintf("panic: %v", p)
		}
	}()
	cluster := vopCluster(s, "")
	c := vopNewClient(scheme, cluster)
	r := &ClusterReconciler{Client: c, Scheme: scheme}
	if err := r.reconcileBrokerDeployment(context.Background(), cluster, []string{"http://etcd:2379"}); err != nil {
		out.err = err.Error()
		return
	}
	sts := &appsv1.StatefulSet{}
	if err := c.Get(context.Background(), client.ObjectKey{Namespace: s.Namespace, Name: s.Name + "-broker"}, sts); err != nil {
		out.err = "get rendered StatefulSet: " + err.Error()
		return
	}
	out.sts = sts
	return
}

// c39PodAddress is the address pod `ordinal` of the rendered StatefulSet advertises according to its
// container environment, plus the port. An explicit KAFSCALE_BROKER_HOST wins; otherwise it is the
// pod's stable network identity <pod>.<governing service>.<namespace>.svc.cluster.local, which the
// environment must let the broker derive (POD_NAME / POD_NAMESPACE from the downward API and
// KAFSCALE_BROKER_SERVICE equal to the StatefulSet's serviceName).
func c39PodAddress(sts *appsv1.StatefulSet, ordinal int) (host string, port int, kind string, problem string) {
	if len(sts.Spec.Template.Spec.Containers) != 1 {
		return "", 0, "", "broker-container-count"
	}
	env := sts.Spec.Template.Spec.Containers[0].Env
	pv, ok := vopEnv(env, "KAFSCALE_BROKER_PORT")
	if !ok {
		return "", 0, "", "broker-port-env-missing"
	}
	port, err := strconv.Atoi(pv.Value)
	if err != nil {
		return "", 0, "", "broker-port-env-not-a-number"
	}
	if hv, ok := vopEnv(env, "KAFSCALE_BROKER_HOST"); ok && strings.TrimSpace(hv.Value) != "" {
		return strings.TrimSpace(hv.Value), port, "advertised", ""
	}
	pn, ok1 := vopEnv(env, "POD_NAME")
	pns, ok2 := vopEnv(env, "POD_NAMESPACE")
	svc, ok3 := vopEnv(env, "KAFSCALE_BROKER_SERVICE")
	if !ok1 || !ok2 || !ok3 || pn.ValueFrom == nil || pn.ValueFrom.FieldRef == nil || pn.ValueFrom.FieldRef.FieldPath != "metadata.name" ||
		pns.ValueFrom == nil || pns.ValueFrom.FieldRef == nil || pns.ValueFrom.FieldRef.FieldPath != "metadata.namespace" {
		return "", port, "pod-dns", "pod-identity-env-missing"
	}
	if svc.Value != sts.Spec.ServiceName {
		return "", port, "pod-dns", "broker-service-env-not-governing-service"
	}
	return fmt.Sprintf("%s-%d.%s.%s.svc.cluster.local", sts.Name, ordinal, sts.Spec.ServiceName, sts.Namespace), port, "pod-dns", ""
}

func c39BuildMetadata(cluster *kafscalev1alpha1.KafscaleCluster, topics []kafscalev1alpha1.KafscaleTopic) (m metadata.ClusterMetadata, perr string) {
	defer func() {
		if p := recover(); p != nil {
			perr = fmt.Sprint(p)
		}
	}()
	return BuildClusterMetadata(cluster, topics), ""
}

// c39CheckMetadata runs one (spec, topic set) case; returns the outcome signature and whether it is non-trivial.
// hist is empty for a StatefulSet rendered on a fresh API server; otherwise it lists the specs that were
// reconciled on the same API server before the cluster was edited to s (violation keys get the prefix
// "after-spec-edit:", because a stale object is a different mechanism from a wrong first render).
func c39CheckMetadata(rep *vh.Report, s vopSpec, rendered c39Rendered, topicSet []c39Topic, hist []vopSpec) (string, bool) {
	replay := c39Replay{Kind: "metadata", Spec: s, Topics: topicSet}
	kp, histStr := "", ""
	if len(hist) > 0 {
		replay.Kind, replay.History = "history", hist
		kp = "after-spec-edit:"
		histStr = "after reconciling " + c39HistStr(hist) + " on the same API server, then editing the cluster to: "
	}
	specStr := histStr + fmt.Sprintf("name=%q(len %d) namespace=%q(len %d) replicas=%s advertisedHost=%q advertisedPort=%s topics=%v",
		c39Short(s.Name), len(s.Name), c39Short(s.Namespace), len(s.Namespace), vopReplicasStr(s.Replicas), s.AdvHost, vopReplicasStr(s.AdvPort), topicSet)
	if rendered.sts == nil {
		// the fake API server refused the render: nothing deployed to compare with; not a verdict of this property
		return "render-error:" + rendered.err, false
	}
	sts := rendered.sts
	if sts.Spec.Replicas == nil {
		rep.Violationf(kp+"statefulset-replicas-unset", replay, "rendered StatefulSet has no replica count; %s", specStr)
		return "sts-replicas-nil", false
	}
	deployed := int(*sts.Spec.Replicas)

	cluster := vopCluster(s, "")
	topics := c39ResourceTopics(s, topicSet)
	meta, perr := c39BuildMetadata(cluster, topics)
	if perr != "" {
		rep.Violationf(kp+"metadata-render-panic", replay, "BuildClusterMetadata panicked (%s): nothing can be published; %s", perr, specStr)
		return "panic", true
	}
	sig, countOK, hostKind := c39CheckAgainstSts(rep, kp, replay, specStr, s, sts, meta)
	multiChoice := false
	for _, tp := range topicSet {
		if tp.Partitions >= 2 {
			multiChoice = true
		}
	}
	nontrivial := (deployed >= 2 && multiChoice) || hostKind == "advertised" || !countOK
	return sig, nontrivial
}

// c39ResourceTopics are the KafscaleTopic resources of a topic set (list order = name order, as the API server lists them).
func c39ResourceTopics(s vopSpec, topicSet []c39Topic) []kafscalev1alpha1.KafscaleTopic {
	topics := make([]kafscalev1alpha1.KafscaleTopic, len(topicSet))
	for i, tp := range topicSet {
		topics[i] = kafscalev1alpha1.KafscaleTopic{
			ObjectMeta: metav1.ObjectMeta{Name: tp.Name, Namespace: s.Namespace},
			Spec:       kafscalev1alpha1.KafscaleTopicSpec{ClusterRef: s.Name, Partitions: tp.Partitions},
		}
	}
	return topics
}

// c39CheckAgainstSts is the agreement oracle of the statement between a metadata snapshot and the broker
// StatefulSet (sts.Spec.Replicas must be set): one broker per replica with the pod ordinals as node ids and the
// pod's stable address, every leader among them, partitions of every topic numbered 0..n-1.
func c39CheckAgainstSts(rep *vh.Report, kp string, replay any, specStr string, s vopSpec, sts *appsv1.StatefulSet, meta metadata.ClusterMetadata) (sig string, countOK bool, hostKind string) {
	deployed := int(*sts.Spec.Replicas)
	class := "replicas-set"
	switch {
	case s.Replicas == nil:
		class = "replicas-unset"
	case *s.Replicas == 0:
		class = "replicas-zero"
	}
	sig = fmt.Sprintf("%s deployed=%d published=%d", class, deployed, len(meta.Brokers))
	countOK = len(meta.Brokers) == deployed
	if !countOK {
		rep.Violationf(kp+"broker-count:"+class, replay,
			"metadata lists %d broker(s) but the rendered StatefulSet %s deploys %d replica(s); %s", len(meta.Brokers), sts.Name, deployed, specStr)
	}

	ids := map[int32]bool{}
	for _, b := range meta.Brokers {
		ids[b.NodeID] = true
	}
	if countOK {
		// node ids are exactly the pod ordinals 0..deployed-1
		okIDs := len(ids) == deployed
		for i := 0; i < deployed; i++ {
			if !ids[int32(i)] {
				okIDs = false
			}
		}
		if !okIDs {
			rep.Violationf(kp+"node-id-not-pod-ordinal", replay, "published node ids %v are not the pod ordinals 0..%d; %s", c39IDs(meta), deployed-1, specStr)
		} else {
			for _, b := range meta.Brokers {
				host, port, kind, problem := c39PodAddress(sts, int(b.NodeID))
				hostKind = kind
				if problem != "" {
					rep.Violationf(kp+"pod-address:"+problem, replay, "rendered broker container env does not give pod %d a stable address (%s); %s", b.NodeID, problem, specStr)
					continue
				}
				if b.Host != host {
					rep.Violationf(kp+"broker-host-mismatch:"+kind, replay, "broker %d published at host %q but pod %s-%d advertises %q; %s", b.NodeID, b.Host, sts.Name, b.NodeID, host, specStr)
				}
				if int(b.Port) != port {
					rep.Violationf(kp+"broker-port-mismatch", replay, "broker %d published with port %d but the pod is told KAFSCALE_BROKER_PORT=%d; %s", b.NodeID, b.Port, port, specStr)
				}
			}
		}
	}
	sig += " host=" + hostKind
	if len(meta.Brokers) > 0 {
		sig += fmt.Sprintf(" port=%d", meta.Brokers[0].Port)
	}

	// leaders among the published brokers; partitions numbered 0..n-1
	for _, tp := range meta.Topics {
		name := ""
		if tp.Topic != nil {
			name = *tp.Topic
		}
		nums := make([]int, 0, len(tp.Partitions))
		leaders := make([]int32, 0, len(tp.Partitions))
		for _, p := range tp.Partitions {
			nums = append(nums, int(p.Partition))
			leaders = append(leaders, p.Leader)
			if !ids[p.Leader] {
				rep.Violationf(kp+"leader-not-a-broker", replay, "topic %q partition %d has leader %d which is not among the published brokers %v; %s", name, p.Partition, p.Leader, c39IDs(meta), specStr)
			} else if countOK && int(p.Leader) >= deployed {
				rep.Violationf(kp+"leader-not-a-deployed-pod", replay, "topic %q partition %d leader %d has no pod (replicas %d); %s", name, p.Partition, p.Leader, deployed, specStr)
			}
		}
		sorted := append([]int(nil), nums...)
		sort.Ints(sorted)
		for i, n := range sorted {
			if n != i {
				rep.Violationf(kp+"partition-numbering", replay, "topic %q partitions are numbered %v, not 0..%d; %s", name, nums, len(nums)-1, specStr)
				break
			}
		}
		sig += fmt.Sprintf(" t[%d]=%v", len(tp.Partitions), leaders)
	}
	return sig, countOK, hostKind
}

func c39IDs(m metadata.ClusterMetadata) []int32 {
	out := make([]int32, 0, len(m.Brokers))
	for _, b := range m.Brokers {
		out = append(out, b.NodeID)
	}
	return out
}

func c39Short(s string) string {
	if len(s) <= 24 {
		return s
	}
	return s[:10] + "…" + s[len(s)-10:]
}

// c39RenderedBuckets returns the SNAPSHOT_BUCKET values the real managed-etcd renderers put into the
// etcd StatefulSet (snapshot-download init container) and the snapshot CronJob (upload container).
func c39RenderedBuckets(scheme *runtime.Scheme, s vopSpec) (out map[string]string, errStr string) {
	defer func() {
		if p := recover(); p != nil {
			errStr = fmt.Sprintf("panic: %v", p)
		}
	}()
	out = map[string]string{}
	cluster := vopCluster(s, "")
	c := vopNewClient(scheme, cluster)
	ctx := context.Background()
	if err := reconcileEtcdStatefulSet(ctx, c, scheme, cluster); err != nil {
		return nil, err.Error()
	}
	if err := reconcileEtcdSnapshotCronJob(ctx, c, scheme, cluster); err != nil {
		return nil, err.Error()
	}
	sts := &appsv1.StatefulSet{}
	if err := c.Get(ctx, client.ObjectKey{Namespace: s.Namespace, Name: s.Name + "-etcd"}, sts); err != nil {
		return nil, err.Error()
	}
	for _, ic := range sts.Spec.Template.Spec.InitContainers {
		if e, ok := vopEnv(ic.Env, "SNAPSHOT_BUCKET"); ok {
			out["StatefulSet/-etcd initContainer "+ic.Name] = e.Value
		}
	}
	cron := &batchv1.CronJob{}
	if err := c.Get(ctx, client.ObjectKey{Namespace: s.Namespace, Name: s.Name + "-etcd-snapshot"}, cron); err != nil {
		return nil, err.Error()
	}
	for _, cc := range cron.Spec.JobTemplate.Spec.Template.Spec.Containers {
		if e, ok := vopEnv(cc.Env, "SNAPSHOT_BUCKET"); ok {
			out["CronJob/-etcd-snapshot container "+cc.Name] = e.Value
		}
	}
	return out, ""
}

func c39CheckBucket(rep *vh.Report, scheme *runtime.Scheme, namespace, name string, render bool) (string, bool) {
	s := vopSpec{Name: name, Namespace: namespace}
	replay := c39Replay{Kind: "bucket", Spec: s}
	cluster := vopCluster(s, "")
	outs := map[string]string{}
	func() {
		defer func() {
			if p := recover(); p != nil {
				rep.Violationf("bucket-derivation-panic", replay, "deriving the snapshot bucket panicked: %v; namespace %q name %q", p, namespace, name)
			}
		}()
		outs["defaultEtcdSnapshotBucket"] = defaultEtcdSnapshotBucket(cluster)
		outs["snapshotBucket"] = snapshotBucket(cluster)
	}()
	if render {
		rb, errStr := c39RenderedBuckets(scheme, s)
		if errStr != "" {
			return "render-error:" + errStr, false
		}
		if len(rb) < 2 {
			rep.Violationf("bucket-not-rendered", replay, "managed-etcd renderers produced %d SNAPSHOT_BUCKET values, expected the StatefulSet init container and the CronJob container; namespace %q name %q", len(rb), namespace, name)
		}
		for k, v := range rb {
			outs[k] = v
		}
	}
	keys := make([]string, 0, len(outs))
	for k := range outs {
		keys = append(keys, k)
	}
	// the two functions first (lower-case names sort after the rendered "CronJob/…", "StatefulSet/…" keys)
	sort.Slice(keys, func(i, j int) bool {
		fi, fj := !strings.Contains(keys[i], "/"), !strings.Contains(keys[j], "/")
		if fi != fj {
			return fi
		}
		return keys[i] < keys[j]
	})
	sig := ""
	reported := map[string]bool{}
	for _, k := range keys {
		b := outs[k]
		problem := c39BucketProblem(b)
		if problem != "" && !reported[problem] {
			reported[problem] = true
			rep.Violationf(problem, replay, "%s gives bucket %q (%d chars) for namespace %q (len %d), name %q (len %d): not a valid S3 bucket name",
				k, c39Short(b), len(b), c39Short(namespace), len(namespace), c39Short(name), len(name))
		}
		if k == "defaultEtcdSnapshotBucket" {
			sig = fmt.Sprintf("len=%d problem=%s", len(b), problem)
		}
	}
	raw := "kafscale-etcd-" + namespace + "-" + name
	rewritten := outs["defaultEtcdSnapshotBucket"] != raw
	return "bucket " + sig + fmt.Sprintf(" rewritten=%v", rewritten), rewritten || len(reported) > 0
}

func TestVerifC39(t *testing.T) {
	rep := vh.New(t, "C39")
	defer rep.Finish()
	// the operator environment must be the default one: bucket override and ACL pass-through unset
	for _, k := range []string{operatorEtcdSnapshotBucketEnv, operatorEtcdSnapshotPrefixEnv, operatorEtcdSnapshotEndpointEnv, operatorEtcdReplicasEnv, operatorEtcdStorageMemoryEnv} {
		os.Unsetenv(k)
	}
	scheme, err := vopScheme()
	if err != nil {
		t.Fatalf("HARNESS-ERROR scheme: %v", err)
	}
	rep.Rule = "Part A: product replicas x advertisedHost x advertisedPort x name x namespace x topic set; broker StatefulSet rendered by the real reconcileBrokerDeployment on the fake API server, metadata by the real BuildClusterMetadata; " +
		"oracle: #brokers == rendered replicas, node ids == pod ordinals, host == address the rendered container env gives that pod, port == KAFSCALE_BROKER_PORT, leaders among brokers, partitions 0..n-1. " +
		"Part H: every ordered pair (thorough: triple) of specs over replicas x advertisedHost x advertisedPort is reconciled step by step on ONE fake API server (cluster object updated between steps; real reconcileBrokerDeployment + reconcileBrokerHeadlessService); the Part A oracle is applied between the StatefulSet then on the server and BuildClusterMetadata(last spec), and the specs of all generated objects must equal those of a fresh server reconciled once with the last spec. Non-trivial (H): the last edit changes the fresh render. " +
		"Part P: replicas x topic-resource sets of 2-3 topics x broker-side change (one topic at any position grown by CreatePartitions, thorough: any vector of growths; and/or a broker-created topic): first publish, the brokers' real InMemoryStore changes the stored JSON, second publish by BuildClusterMetadata -> json.Unmarshal(stored) -> mergeSnapshots -> json.Marshal; the decoded payload must satisfy the Part A oracle, list every resource/stored topic once with max(resource, stored) partitions numbered 0..n-1, replica ids of deployed pods, stable topic ids, and each topic's entry must equal the one published when it is the only topic. Non-trivial (P): the brokers changed the stored snapshot. " +
		"Part B: (namespace, name) pairs through defaultEtcdSnapshotBucket/snapshotBucket and the rendered SNAPSHOT_BUCKET env values, checked against the S3 bucket grammar. " +
		"Non-trivial: >=2 deployed brokers with a multi-partition topic (leader choice matters), or the advertised host is used, or broker count differs (A); the sanitiser rewrote the raw name or the result is invalid (B)."
	rep.Assumptions = []string{
		"controller-runtime fake client stands for the API server: no admission/CRD defaulting, so replicas unset and replicas 0 reach the operator as written (the shipped Helm CRD has default 3 / minimum 1; both are enumerated because the Go type admits them and the code handles them explicitly)",
		"a pod's stable address is <statefulset>-<ordinal>.<spec.serviceName>.<namespace>.svc.cluster.local unless KAFSCALE_BROKER_HOST is set in its env",
		"S3 bucket grammar: 3-63 chars [a-z0-9.-], alphanumeric ends, no '..', not IP-formatted (reserved prefixes/suffixes not judged)",
		"operator environment at defaults (no KAFSCALE_OPERATOR_ETCD_SNAPSHOT_BUCKET override: an operator-supplied bucket is not a derived name)",
		"publish part: only the in-memory steps of PublishMetadataSnapshot run (no etcd Get/Txn/retry); both publishes use the same cluster spec and topic resources; broker-side changes are those of the real metadata.InMemoryStore persisted as JSON like EtcdStore does",
	}

	var rp c39Replay
	if replaying, err := vh.LoadReplay(&rp); replaying {
		if err != nil {
			t.Fatalf("HARNESS-ERROR replay: %v", err)
		}
		rep.Cap("replay of a single case")
		rep.Eval(1)
		switch rp.Kind {
		case "bucket":
			sig, nt := c39CheckBucket(rep, scheme, rp.Spec.Namespace, rp.Spec.Name, true)
			rep.Outcome(sig, nt)
		case "history", "history-diff":
			if len(rp.History) == 0 {
				t.Fatalf("HARNESS-ERROR replay: history case without history")
			}
			h := &c39HistCtx{rep: rep, scheme: scheme, kinds: vopListKinds(scheme), fresh: map[string]c39HistResult{}}
			h.c39CheckHistory(append(append([]vopSpec(nil), rp.History...), rp.Spec), [][]c39Topic{rp.Topics})
		case "publish":
			sig, nt := c39CheckPublish(rep, rp.Spec, c39RenderBrokers(scheme, rp.Spec), rp.Topics, rp.Grown, rp.BrokerCreated)
			rep.Outcome(sig, nt)
		default:
			sig, nt := c39CheckMetadata(rep, rp.Spec, c39RenderBrokers(scheme, rp.Spec), rp.Topics, nil)
			rep.Outcome(sig, nt)
		}
		return
	}

	thorough := vh.Thorough()
	deadline := vh.Deadline()
	replicas := []*int32{nil, vopI32(1), vopI32(2), vopI32(3), vopI32(0)}
	if thorough {
		replicas = append(replicas, vopI32(4), vopI32(5))
	}
	hosts := []string{"", "h"}
	if thorough {
		hosts = append(hosts, " kafka.example.com ")
	}
	ports := []*int32{nil, vopI32(0), vopI32(19092)}
	if thorough {
		ports = append(ports, vopI32(-1), vopI32(9092))
	}
	names, namespaces := c39Names(thorough)
	topicSets := c39TopicSets(thorough)
	rep.SetInfo("replicas", func() []string {
		var o []string
		for _, r := range replicas {
			o = append(o, vopReplicasStr(r))
		}
		return o
	}())
	rep.SetInfo("advertised_hosts", hosts)
	rep.SetInfo("advertised_ports", func() []string {
		var o []string
		for _, r := range ports {
			o = append(o, vopReplicasStr(r))
		}
		return o
	}())
	rep.SetInfo("name_lengths", func() []int {
		var o []int
		for _, n := range names {
			o = append(o, len(n))
		}
		return o
	}())
	rep.SetInfo("namespace_lengths", func() []int {
		var o []int
		for _, n := range namespaces {
			o = append(o, len(n))
		}
		return o
	}())
	rep.SetInfo("topic_sets", len(topicSets))

	// ---- Part A
	capped := false
	enum.Product([]int{len(names), len(namespaces), len(replicas), len(hosts), len(ports)}, func(idx []int) bool {
		if time.Now().After(deadline) {
			capped = true
			return false
		}
		s := vopSpec{Name: names[idx[0]], Namespace: namespaces[idx[1]], Replicas: replicas[idx[2]], AdvHost: hosts[idx[3]], AdvPort: ports[idx[4]]}
		rendered := c39RenderBrokers(scheme, s)
		rep.Count("statefulset_renders", 1)
		if rendered.sts == nil {
			rep.Count("render_errors", 1)
		}
		for _, ts := range topicSets {
			sig, nt := c39CheckMetadata(rep, s, rendered, ts, nil)
			rep.Eval(1)
			rep.Count("metadata_cases", 1)
			rep.Outcome(sig, nt)
			if nt && rep.WantSample() && len(ts) > 0 {
				rep.Sample(map[string]any{"spec": fmt.Sprintf("ns=%s name=%s replicas=%s host=%q port=%s", c39Short(s.Namespace), c39Short(s.Name), vopReplicasStr(s.Replicas), s.AdvHost, vopReplicasStr(s.AdvPort)), "topics": ts, "outcome": sig})
			}
		}
		return true
	})

	// ---- Part H: spec edit histories on one API server
	if !capped {
		capped = c39HistoryPart(rep, scheme, topicSets, thorough, deadline)
	}

	// ---- Part P: publish over an existing snapshot that the brokers have changed
	if !capped {
		capped = c39PublishPart(rep, scheme, thorough, deadline)
	}

	// ---- Part B (simplest first, so the first counterexample is the shortest)
	// all-'a' names of every length 1..64 (+100, 253) x namespace lengths, simplest first, and
	// every DNS-shaped string over {a,0,-,.,A} up to length 3 (direct calls; rendering adds nothing)
	nsLens := []int{1, 2, 7, 34, 48, 63}
	nameLens := []int{}
	for l := 1; l <= 64; l++ {
		nameLens = append(nameLens, l)
	}
	nameLens = append(nameLens, 100, 253)
	for _, nl := range nsLens {
		for _, l := range nameLens {
			sig, nt := c39CheckBucket(rep, scheme, strings.Repeat("n", nl), vopLongName(l), false)
			rep.Eval(1)
			rep.Count("bucket_cases_direct", 1)
			rep.Outcome(sig, nt)
		}
	}
	alpha := []byte{'a', '0', '-', '.', 'A'}
	maxLen := 3
	if thorough {
		alpha = append(alpha, 'z', '9', '_')
		maxLen = 4
	}
	var small []string
	enum.Sequences(len(alpha), maxLen, func(seq []int) bool {
		if len(seq) == 0 {
			return true
		}
		b := make([]byte, len(seq))
		for i, x := range seq {
			b[i] = alpha[x]
		}
		if c39DNSShaped.MatchString(string(b)) {
			small = append(small, string(b))
		}
		return true
	})
	for _, ns := range []string{"d", "a-0", "A0"} {
		for _, n := range small {
			sig, nt := c39CheckBucket(rep, scheme, ns, n, false)
			rep.Eval(1)
			rep.Count("bucket_cases_direct", 1)
			rep.Outcome(sig, nt)
		}
	}
	// the Part A name alphabet through the real managed-etcd renderers
	for _, ns := range namespaces {
		for _, n := range names {
			sig, nt := c39CheckBucket(rep, scheme, ns, n, true)
			rep.Eval(1)
			rep.Count("bucket_cases_rendered", 1)
			rep.Outcome(sig, nt)
		}
	}
	if capped {
		rep.Cap("deadline reached before the spec product was exhausted")
	}
}
