//go:build verif

package operator

// C42 — operator reconciliation is idempotent.
//
// For every generated cluster spec x operator environment the real ClusterReconciler.Reconcile
// runs three times against one controller-runtime fake API server; after each run every object
// of every listable kind is snapshotted (JSON incl. resourceVersion). Runs 2 and 3 must leave
// the snapshot byte-identical and must issue no successful write for a generated object
// (write log from a client interceptor). Seven more fresh fake API servers (one of them
// pre-populated with bystander objects) must render exactly the same objects as run 1.
//
// Spec-change histories (zz_verif_c42_history_test.go): every single-dimension edit of the
// cluster resource on a server that already reconciled the predecessor spec must end in the
// objects a fresh server renders for the successor.

import (
	"context"
	"crypto/sha256"
	"fmt"
	"os"
	"reflect"
	"runtime"
	"sort"
	"strings"
	"sync"
	"sync/atomic"
	"testing"
	"time"

	corev1 "k8s.io/api/core/v1"
	metav1 "k8s.io/apimachinery/pkg/apis/meta/v1"
	k8sruntime "k8s.io/apimachinery/pkg/runtime"
	"k8s.io/apimachinery/pkg/runtime/schema"
	"k8s.io/apimachinery/pkg/types"
	"sigs.k8s.io/controller-runtime/pkg/client"
	"sigs.k8s.io/controller-runtime/pkg/client/interceptor"
	"sigs.k8s.io/controller-runtime/pkg/reconcile"

	kafscalev1alpha1 "github.com/KafScale/platform/api/v1alpha1"
	"github.com/KafScale/platform/internal/testutil"
	"github.com/KafScale/platform/internal/verif/enum"
	"github.com/KafScale/platform/internal/verif/vh"
)

const c42FreshRenders = 8 // run 1 on the first server + 7 more fresh servers

// every variable the operator's renderers read; cleared before an environment variant is applied
var c42EnvKeys = []string{
	operatorEtcdEndpointsEnv, operatorEtcdImageEnv, operatorEtcdReplicasEnv, operatorEtcdStorageEnv, operatorEtcdClassEnv,
	operatorEtcdSnapshotBucketEnv, operatorEtcdSnapshotPrefixEnv, operatorEtcdSnapshotScheduleEnv, operatorEtcdSnapshotImageEnv,
	operatorEtcdSnapshotEtcdctlEnv, operatorEtcdSnapshotEndpointEnv, operatorEtcdSnapshotStaleAfterEnv, operatorEtcdSnapshotCreateBucketEnv,
	operatorEtcdSnapshotProtectBucketEnv, operatorEtcdStorageMemoryEnv, operatorEtcdQuotaBackendBytesEnv, operatorEtcdAutoCompactionRetentionEnv,
	operatorEtcdAutoCompactionModeEnv, operatorEtcdMaintenanceScheduleEnv, operatorEtcdMaintenanceCheckScheduleEnv, operatorEtcdMaintenanceEnabledEnv,
	operatorEtcdMaintenanceSizeThresholdPctEnv, operatorEtcdDefragScheduleEnv, operatorEtcdDefragEnabledEnv,
	operatorEtcdSnapshotSkipPreflightEnv, operatorEtcdSilenceLogsEnv,
	"KAFSCALE_ACL_ENABLED", "KAFSCALE_ACL_JSON", "KAFSCALE_ACL_FILE", "KAFSCALE_ACL_FAIL_OPEN", "KAFSCALE_PRINCIPAL_SOURCE",
	"KAFSCALE_PROXY_PROTOCOL", "KAFSCALE_LOG_LEVEL", "KAFSCALE_TRACE_KAFKA",
}

type c42EnvVariant struct {
	Name string
	Vars map[string]string
}

// operator environments, simplest first. Every variant skips the S3 preflight exactly as the
// repository's own TestClusterReconcilerReconcile does (it needs a live bucket) and silences etcd client logs.
func c42Envs() []c42EnvVariant {
	base := func(extra map[string]string) map[string]string {
		m := map[string]string{operatorEtcdSnapshotSkipPreflightEnv: "true", operatorEtcdSilenceLogsEnv: "true"}
		for k, v := range extra {
			m[k] = v
		}
		return m
	}
	return []c42EnvVariant{
		{Name: "default", Vars: base(nil)},
		{Name: "tuned", Vars: base(map[string]string{
			operatorEtcdStorageMemoryEnv: "true", operatorEtcdReplicasEnv: "1", operatorEtcdSnapshotBucketEnv: "custom-snapshots",
			operatorEtcdSnapshotPrefixEnv: "/team/etcd/", operatorEtcdSnapshotEndpointEnv: "http://s3.local:9000",
			operatorEtcdSnapshotCreateBucketEnv: "1", operatorEtcdSnapshotProtectBucketEnv: "yes", operatorEtcdMaintenanceEnabledEnv: "false",
			operatorEtcdQuotaBackendBytesEnv: "1073741824", operatorEtcdAutoCompactionModeEnv: "revision", operatorEtcdAutoCompactionRetentionEnv: "1000",
			operatorEtcdSnapshotScheduleEnv: "*/5 * * * *", operatorEtcdImageEnv: "registry.local/etcd:3.6",
			"KAFSCALE_ACL_ENABLED": "true", "KAFSCALE_ACL_JSON": `{"default":"deny"}`, "KAFSCALE_ACL_FAIL_OPEN": "false",
			"KAFSCALE_PRINCIPAL_SOURCE": "proxy", "KAFSCALE_PROXY_PROTOCOL": "true", "KAFSCALE_LOG_LEVEL": "debug", "KAFSCALE_TRACE_KAFKA": "1",
		})},
		{Name: "env-endpoints", Vars: base(map[string]string{
			operatorEtcdEndpointsEnv: "http://etcd-0.example:2379, http://etcd-1.example:2379",
			operatorEtcdClassEnv:     "fast", operatorEtcdStorageEnv: "20Gi", operatorEtcdMaintenanceScheduleEnv: "30 2 * * *",
			operatorEtcdMaintenanceSizeThresholdPctEnv: "50", "KAFSCALE_ACL_FILE": "/etc/kafscale/acl.json",
		})},
	}
}

func c42ApplyEnv(v c42EnvVariant) {
	for _, k := range c42EnvKeys {
		os.Unsetenv(k)
	}
	for k, val := range v.Vars {
		os.Setenv(k, val)
	}
}

type c42Replay struct {
	Spec vopSpec  `json:"spec"`
	Env  string   `json:"env"`
	Pred *vopSpec `json:"predecessor,omitempty"` // history section: the spec the cluster resource had before it was edited to Spec
}

type c42Write struct {
	Verb, Kind, Name string
}

type c42Viol struct {
	key, detail string
}

type c42Result struct {
	sig        string
	nontrivial bool
	viols      []c42Viol
	objects    int
	note       string // reconcile error / panic (not a verdict)
	done       bool
}

type c42Ctx struct {
	scheme *k8sruntime.Scheme
	kinds  []schema.GroupVersionKind
}

// c42Server is one fake API server holding the cluster resource (and optional bystanders).
type c42Server struct {
	c      client.WithWatch
	mu     sync.Mutex
	writes []c42Write
}

func c42KindOf(obj client.Object) string {
	t := reflect.TypeOf(obj)
	for t.Kind() == reflect.Ptr {
		t = t.Elem()
	}
	return t.Name()
}

func c42NewServer(cx *c42Ctx, cluster *kafscalev1alpha1.KafscaleCluster, extra ...client.Object) *c42Server {
	s := &c42Server{}
	log := func(verb string, obj client.Object, err error) {
		if err != nil {
			return
		}
		s.mu.Lock()
		s.writes = append(s.writes, c42Write{verb, c42KindOf(obj), obj.GetName()})
		s.mu.Unlock()
	}
	s.c = vopClientBuilder(cx.scheme, cluster, extra...).
		WithInterceptorFuncs(interceptor.Funcs{
			Create: func(ctx context.Context, c client.WithWatch, obj client.Object, opts ...client.CreateOption) error {
				err := c.Create(ctx, obj, opts...)
				log("create", obj, err)
				return err
			},
			Update: func(ctx context.Context, c client.WithWatch, obj client.Object, opts ...client.UpdateOption) error {
				err := c.Update(ctx, obj, opts...)
				log("update", obj, err)
				return err
			},
			Patch: func(ctx context.Context, c client.WithWatch, obj client.Object, patch client.Patch, opts ...client.PatchOption) error {
				err := c.Patch(ctx, obj, patch, opts...)
				log("patch", obj, err)
				return err
			},
			Delete: func(ctx context.Context, c client.WithWatch, obj client.Object, opts ...client.DeleteOption) error {
				err := c.Delete(ctx, obj, opts...)
				log("delete", obj, err)
				return err
			},
			DeleteAllOf: func(ctx context.Context, c client.WithWatch, obj client.Object, opts ...client.DeleteAllOfOption) error {
				err := c.DeleteAllOf(ctx, obj, opts...)
				log("deleteallof", obj, err)
				return err
			},
		}).Build()
	return s
}

func (s *c42Server) takeWrites() []c42Write {
	s.mu.Lock()
	defer s.mu.Unlock()
	w := s.writes
	s.writes = nil
	return w
}

// reconcile runs the real Reconcile once. For operator-managed etcd and for endpoints from the
// operator environment no etcd is reachable from a test process (cluster-internal DNS names), so the
// context is cancelled *before* the call: the fake API server ignores contexts, the etcd health poll and
// Publish fail at once instead of after ~40 s of dial retries, and Reconcile takes its "etcd
// unavailable" branch (status condition + requeue). With spec.etcd.endpoints the context is live and
// Publish really writes the snapshot into this worker's embedded etcd.
func (s *c42Server) reconcile(cx *c42Ctx, sp vopSpec, live bool) (res reconcile.Result, err error, panicked string) {
	defer func() {
		if p := recover(); p != nil {
			panicked = fmt.Sprint(p)
		}
	}()
	ctx, cancel := context.WithCancel(context.Background())
	if !live {
		cancel()
	}
	defer cancel()
	r := &ClusterReconciler{Client: s.c, Scheme: cx.scheme, Publisher: NewSnapshotPublisher(s.c)}
	res, err = r.Reconcile(ctx, reconcile.Request{NamespacedName: types.NamespacedName{Name: sp.Name, Namespace: sp.Namespace}})
	return
}

func c42Bystanders(sp vopSpec) ([]client.Object, map[string]bool) {
	objs := []client.Object{
		&kafscalev1alpha1.KafscaleTopic{ObjectMeta: metav1.ObjectMeta{Name: "orders", Namespace: sp.Namespace},
			Spec: kafscalev1alpha1.KafscaleTopicSpec{ClusterRef: sp.Name, Partitions: 3}},
		&kafscalev1alpha1.KafscaleTopic{ObjectMeta: metav1.ObjectMeta{Name: "foreign", Namespace: sp.Namespace},
			Spec: kafscalev1alpha1.KafscaleTopicSpec{ClusterRef: "zz-other", Partitions: 1}},
		&kafscalev1alpha1.KafscaleCluster{ObjectMeta: metav1.ObjectMeta{Name: "zz-other", Namespace: sp.Namespace, UID: "uid-verif-0002"},
			Spec: kafscalev1alpha1.KafscaleClusterSpec{S3: kafscalev1alpha1.S3Spec{Bucket: "b2", Region: "r2"}}},
		&corev1.Secret{ObjectMeta: metav1.ObjectMeta{Name: "creds", Namespace: sp.Namespace}, Data: map[string][]byte{"AWS_ACCESS_KEY_ID": []byte("k")}},
		&corev1.ConfigMap{ObjectMeta: metav1.ObjectMeta{Name: "zz-unrelated", Namespace: sp.Namespace}, Data: map[string]string{"k": "v"}},
	}
	skip := map[string]bool{"Secret/" + sp.Namespace + "/creds": true, "ConfigMap/" + sp.Namespace + "/zz-unrelated": true}
	return objs, skip
}

func c42RunSpec(cx *c42Ctx, sp vopSpec, envName, etcdEndpoint string) (out c42Result) {
	out.done = true
	live := sp.Etcd == "spec" && envName != ""
	role := func(key string) string { return vopRole(key, sp.Namespace, sp.Name) }
	add := func(key, format string, a ...any) {
		out.viols = append(out.viols, c42Viol{key, fmt.Sprintf(format, a...)})
	}
	specStr := fmt.Sprintf("%+v", c42Describe(sp)) + " env=" + envName

	srv := c42NewServer(cx, vopCluster(sp, etcdEndpoint))
	var snaps [3]map[string]string
	for run := 0; run < 3; run++ {
		_, err, pan := srv.reconcile(cx, sp, live)
		if pan != "" {
			out.note = fmt.Sprintf("reconcile %d panicked: %s", run+1, pan)
			out.sig = "panic"
			return
		}
		if err != nil {
			out.note = fmt.Sprintf("reconcile %d returned error: %v", run+1, err)
			out.sig = "reconcile-error"
			return
		}
		snap, serr := vopSnapshot(srv.c, cx.scheme, cx.kinds, nil)
		if serr != nil {
			out.note = "snapshot: " + serr.Error()
			out.sig = "harness-snapshot-error"
			return
		}
		snaps[run] = snap
		writes := srv.takeWrites()
		if run == 0 {
			continue
		}
		if df, differs := vopDiff(snaps[run-1], snap); differs {
			add(fmt.Sprintf("changed-on-reconcile-again:%s:%s", role(df.Key), df.Path),
				"reconcile #%d of the unchanged cluster changed %s at %s: before %s, after %s; spec: %s", run+1, df.Key, df.Path, df.Before, df.After, specStr)
		}
		for _, w := range writes {
			if w.Kind == "KafscaleCluster" {
				continue
			}
			add(fmt.Sprintf("write-on-reconcile-again:%s:%s/%s", w.Verb, w.Kind, strings.TrimPrefix(w.Name, sp.Name)),
				"reconcile #%d of the unchanged cluster issued a successful %s of %s %s; spec: %s", run+1, w.Verb, w.Kind, w.Name, specStr)
			break
		}
	}
	out.objects = len(snaps[0])

	// fresh API servers: the render must depend only on the cluster resource and the environment
	fresh := func(bystanders bool) (map[string]string, bool) {
		var extra []client.Object
		var skip map[string]bool
		if bystanders {
			extra, skip = c42Bystanders(sp)
		}
		fs := c42NewServer(cx, vopCluster(sp, etcdEndpoint), extra...)
		_, err, pan := fs.reconcile(cx, sp, live)
		if pan != "" || err != nil {
			out.note = fmt.Sprintf("fresh render: err=%v panic=%s", err, pan)
			out.sig = "fresh-render-error"
			return nil, false
		}
		snap, serr := vopSnapshot(fs.c, cx.scheme, cx.kinds, skip)
		if serr != nil {
			out.note = "snapshot: " + serr.Error()
			out.sig = "harness-snapshot-error"
			return nil, false
		}
		return snap, true
	}
	for k := 1; k < c42FreshRenders; k++ {
		bystanders := k == c42FreshRenders-1
		snap, ok := fresh(bystanders)
		if !ok {
			return
		}
		df, differs := vopDiff(snaps[0], snap)
		if !differs {
			continue
		}
		label := "render-differs-between-fresh-servers"
		if bystanders {
			// bystander dependence only if it reproduces: two more bystander renders must both differ from render 1
			label = "render-depends-on-bystander-objects"
			for i := 0; i < 2; i++ {
				again, ok := fresh(true)
				if !ok {
					return
				}
				if _, d := vopDiff(snaps[0], again); !d {
					label = "render-differs-between-fresh-servers"
				}
			}
		}
		add(fmt.Sprintf("%s:%s:%s", label, role(df.Key), df.Path),
			"fresh render %d of the same cluster resource and environment differs from render 1 in %s at %s: first %s, this %s; spec: %s", k+1, df.Key, df.Path, df.Before, df.After, specStr)
		break
	}

	// outcome signature: digest of the rendered object set (roles + bodies)
	keys := make([]string, 0, len(snaps[0]))
	for k := range snaps[0] {
		keys = append(keys, k)
	}
	sort.Strings(keys)
	h := sha256.New()
	for _, k := range keys {
		h.Write([]byte(k))
		h.Write([]byte(snaps[0][k]))
	}
	out.sig = fmt.Sprintf("env=%s objects=%d digest=%x", envName, len(keys), h.Sum(nil)[:8])
	out.nontrivial = sp.Etcd != "spec" || sp.Lfs != 0 || sp.Service != 0 || sp.Resources || sp.Config || sp.ReadRepl || sp.S3 != 0 || sp.AdvHost != "" || sp.AdvPort != nil || sp.Replicas != nil || envName != "default"
	return
}

func c42Describe(sp vopSpec) map[string]any {
	return map[string]any{"name": sp.Name, "namespace": sp.Namespace, "replicas": vopReplicasStr(sp.Replicas), "advertisedHost": sp.AdvHost,
		"advertisedPort": vopReplicasStr(sp.AdvPort), "etcd": sp.Etcd, "s3": sp.S3, "readReplica": sp.ReadRepl, "config": sp.Config,
		"resources": sp.Resources, "service": sp.Service, "lfs": sp.Lfs}
}

// c42Specs is the spec product, simplest value first in every dimension.
// quick: one name pair; the optional broker fields are switched in two groups (read-replica+config,
// resources) and the advertised port travels with the advertised host.
// thorough: every dimension independent with one more value each (replicas 0, S3 endpoint-only /
// credentials-only, NodePort service), plus the quick product again for 63-character name and namespace.
func c42Specs(thorough bool) []vopSpec {
	type hp struct {
		host string
		port *int32
	}
	type opt struct{ read, config, res bool }
	product := func(name, ns string, deep bool) []vopSpec {
		replicas := []*int32{nil, vopI32(1), vopI32(3)}
		hostPorts := []hp{{"", nil}, {"h", vopI32(19092)}}
		etcds := []string{"spec", "managed"}
		s3s := []int{0, 3}
		services := []int{0, 1}
		lfss := []int{0, 1, 2, 3}
		opts := []opt{{false, false, false}, {true, true, false}, {false, false, true}, {true, true, true}}
		if deep {
			replicas = []*int32{nil, vopI32(1), vopI32(3), vopI32(0)}
			hostPorts = []hp{{"", nil}, {"", vopI32(19092)}, {"h", nil}, {"h", vopI32(19092)}}
			s3s = []int{0, 1, 2, 3}
			services = []int{0, 1, 2}
			opts = nil
			for _, r := range []bool{false, true} {
				for _, c := range []bool{false, true} {
					for _, q := range []bool{false, true} {
						opts = append(opts, opt{r, c, q})
					}
				}
			}
		}
		var out []vopSpec
		enum.Product([]int{len(etcds), len(lfss), len(services), len(s3s), len(opts), len(replicas), len(hostPorts)}, func(i []int) bool {
			out = append(out, vopSpec{
				Name: name, Namespace: ns, Etcd: etcds[i[0]], Lfs: lfss[i[1]], Service: services[i[2]], S3: s3s[i[3]],
				ReadRepl: opts[i[4]].read, Config: opts[i[4]].config, Resources: opts[i[4]].res, Replicas: replicas[i[5]],
				AdvHost: hostPorts[i[6]].host, AdvPort: hostPorts[i[6]].port,
			})
			return true
		})
		return out
	}
	if !thorough {
		return product("demo", "default", false)
	}
	return append(product("my.cluster", "team-a", true), product(vopLongName(63), strings.Repeat("n", 63), false)...)
}

func TestVerifC42(t *testing.T) {
	rep := vh.New(t, "C42")
	defer rep.Finish()
	scheme, err := vopScheme()
	if err != nil {
		t.Fatalf("HARNESS-ERROR scheme: %v", err)
	}
	cx := &c42Ctx{scheme: scheme, kinds: vopListKinds(scheme)}
	if len(cx.kinds) < 10 {
		t.Fatalf("HARNESS-ERROR only %d listable kinds", len(cx.kinds))
	}
	rep.SetInfo("listable_kinds", len(cx.kinds))
	rep.Rule = "product of cluster-spec dimensions x operator-environment variants; per case: real Reconcile x3 on one fake API server (snapshot of every object of every listable kind after each run, " +
		"incl. resourceVersion; write log from a client interceptor) + 7 fresh fake API servers (the last pre-populated with bystander topics/cluster/secret/configmap) rendered once each. " +
		"Outcome signature = environment + digest of the rendered object set. Non-trivial: any spec dimension or the environment differs from the minimal spec (external etcd, nothing optional). " +
		"History section: every ordered pair (predecessor, successor) of specs that differ in exactly one dimension value (rest of the spec from a covering set of contexts), x every environment; per pair: predecessor reconciled until quiescent on one fake API server, " +
		"cluster resource updated to the successor on the SAME server, reconciled twice (second must be a no-op), and every object a fresh server renders for the successor compared with the history server's object outside status and API-server bookkeeping metadata. " +
		"Outcome signature = environment + objects the edit changes + leftover objects + stale fields. Non-trivial: the edit changes at least one rendered object (a stale value would be visible)."
	rep.Assumptions = []string{
		"controller-runtime fake client (over client-go's plain object tracker) stands for the API server: no admission defaulting, so update loops caused by server-side defaults are out of scope",
		"S3 preflight skipped via KAFSCALE_OPERATOR_ETCD_SNAPSHOT_SKIP_PREFLIGHT as in the repository's own Reconcile test",
		"spec.etcd.endpoints cases: live context, Publish writes to a per-worker embedded etcd (internal/testutil); managed-etcd and env-endpoint cases: context cancelled before Reconcile so the etcd health poll and Publish fail immediately (etcd unreachable branch); generated objects are all written before Publish",
		"map-iteration nondeterminism inside renderers is sampled with 8 fresh renders per case, not enumerated",
		"the cluster resource itself (status conditions carry wall-clock timestamps) and other kafscale.io resources are excluded from the comparison",
		"history section: 'depend only on the cluster resource and the environment' is read as: objects rendered for the CURRENT cluster resource are the same on an API server that reconciled an earlier version of the resource as on a fresh one; histories are single edits (one dimension value changed), not longer edit sequences",
		"history section: objects that exist only on the history server (rendered for the predecessor and not rendered for the successor) are not judged, only counted (leftover_objects); status, resourceVersion, generation, managedFields, creationTimestamp, uid are not compared; the fake API server allocates nothing (no clusterIP / nodePort allocation), so no server-owned spec field needs to be excluded",
	}

	envs := c42Envs()
	byName := map[string]c42EnvVariant{}
	for _, e := range envs {
		byName[e.Name] = e
	}

	var rp c42Replay
	if replaying, err := vh.LoadReplay(&rp); replaying {
		if err != nil {
			t.Fatalf("HARNESS-ERROR replay: %v", err)
		}
		rep.Cap("replay of a single case")
		ev, ok := byName[rp.Env]
		if !ok {
			t.Fatalf("HARNESS-ERROR replay names unknown environment %q", rp.Env)
		}
		c42ApplyEnv(ev)
		ep := ""
		if rp.Spec.Etcd == "spec" {
			ep = testutil.StartEmbeddedEtcd(t)[0]
		}
		if rp.Pred != nil {
			if rp.Pred.Etcd == "spec" && ep == "" {
				ep = testutil.StartEmbeddedEtcd(t)[0]
			}
			hres := c42RunHistory(cx, c42HistPair{Pred: *rp.Pred, Succ: rp.Spec, Edit: "replay"}, rp.Env, ep)
			rep.Eval(1)
			rep.Outcome(hres.sig, hres.nontrivial)
			for _, v := range hres.viols {
				rep.Violation(v.key, v.detail, rp)
			}
			if hres.note != "" {
				rep.SetInfo("note", hres.note)
			}
			return
		}
		res := c42RunSpec(cx, rp.Spec, rp.Env, ep)
		rep.Eval(1)
		rep.Outcome(res.sig, res.nontrivial)
		for _, v := range res.viols {
			rep.Violation(v.key, v.detail, rp)
		}
		if res.note != "" {
			rep.SetInfo("note", res.note)
		}
		return
	}

	thorough := vh.Thorough()
	deadline := vh.Deadline()
	specs := c42Specs(thorough)
	shard, nshards := vh.Shard()
	workers := runtime.GOMAXPROCS(0)
	if workers > 16 {
		workers = 16
	}
	if nshards > 1 {
		workers = (workers + nshards - 1) / nshards
	}
	if workers < 2 {
		workers = 2
	}
	endpoints := make([]string, workers)
	for w := range endpoints {
		endpoints[w] = testutil.StartEmbeddedEtcd(t)[0]
	}
	rep.SetInfo("spec_product", len(specs))
	rep.SetInfo("environments", func() []string {
		var o []string
		for _, e := range envs {
			o = append(o, e.Name)
		}
		return o
	}())
	rep.SetInfo("reconciles_per_case", 3+c42FreshRenders-1)
	rep.SetInfo("workers", workers)

	capped := false
	hist := c42NewHistState(rep, thorough)
	mainSampled := 0
	for _, ev := range envs {
		c42ApplyEnv(ev) // process-wide: environments are applied one after the other, cases of one environment run in parallel
		var mine []int
		for i := range specs {
			if i%nshards == shard {
				mine = append(mine, i)
			}
		}
		results := make([]c42Result, len(mine))
		var next int64 = -1
		var wg sync.WaitGroup
		for w := 0; w < workers; w++ {
			wg.Add(1)
			go func(w int) {
				defer wg.Done()
				for {
					j := int(atomic.AddInt64(&next, 1))
					if j >= len(mine) || time.Now().After(deadline) {
						return
					}
					results[j] = c42RunSpec(cx, specs[mine[j]], ev.Name, endpoints[w])
				}
			}(w)
		}
		wg.Wait()
		for j, res := range results {
			if !res.done {
				capped = true
				continue
			}
			sp := specs[mine[j]]
			rep.Eval(1)
			rep.Count("reconciles", int64(3+c42FreshRenders-1))
			rep.Count("objects_compared", int64(res.objects*(2+c42FreshRenders-1)))
			rep.Outcome(res.sig, res.nontrivial)
			if res.note != "" {
				rep.Count("cases_without_verdict", 1)
				rep.SetInfo("last_case_without_verdict", res.note+" spec="+fmt.Sprint(c42Describe(sp))+" env="+ev.Name)
			}
			for _, v := range res.viols {
				rep.Violation(v.key, v.detail, c42Replay{Spec: sp, Env: ev.Name})
			}
			if res.nontrivial && mainSampled < 4 && rep.WantSample() && (j%97 == 5) {
				mainSampled++
				rep.Sample(map[string]any{"spec": c42Describe(sp), "env": ev.Name, "outcome": res.sig})
			}
		}
		// spec-change histories under the same (process-wide) environment
		if hist.c42HistoryEnv(rep, cx, ev.Name, workers, endpoints, deadline) {
			capped = true
		}
	}
	if capped {
		rep.Cap("deadline reached before every case was executed")
	}
}
