//go:build verif

package operator

import (
	"context"
	"encoding/json"
	"fmt"
	"strings"
	"testing"
	"time"

	"github.com/KafScale/platform/internal/verif/fakeetcd"
	"github.com/KafScale/platform/internal/verif/sched"
	"github.com/KafScale/platform/internal/verif/vclientv3"
	"github.com/KafScale/platform/internal/verif/vh"
	"github.com/KafScale/platform/pkg/metadata"
	"github.com/KafScale/platform/pkg/protocol"
)

// C21 (operator half, schedules): the operator's PublishMetadataSnapshot (read the snapshot,
// merge the topic resources into it, compare-and-put, retry on conflict) interleaved with a
// broker's acknowledged admin operations on a real EtcdStore over the same (fake) etcd. The
// operator dials etcd itself; snapshot.go is built with its clientv3 import redirected to
// vclientv3, whose New hands out clients of the fake server. After quiescence every topic
// creation / partition growth the broker acknowledged must still be in the etcd snapshot and
// in the broker's own view, and the topics of the operator's resources must be there too.

type c21pScenario struct {
	Name    string
	Broker  string // ops of the broker thread: C = CreateTopic(p,2), G = CreatePartitions(o,6), c = CreateTopic(q,1)
	Publish int    // number of operator publishes (sequential, one thread)
	Init    bool   // a snapshot with topic o(3) already exists in etcd
}

func c21pScenarios() []c21pScenario {
	sc := []c21pScenario{
		{Name: "publish|create", Broker: "C", Publish: 1, Init: true},
		{Name: "publish|grow", Broker: "G", Publish: 1, Init: true},
		{Name: "publish|create,grow", Broker: "CG", Publish: 1, Init: true},
		{Name: "publish|create (no snapshot yet)", Broker: "C", Publish: 1, Init: false},
		{Name: "publish,publish|create", Broker: "C", Publish: 2, Init: true},
	}
	if vh.Thorough() {
		sc = append(sc,
			c21pScenario{Name: "publish,publish|create,grow", Broker: "CG", Publish: 2, Init: true},
			c21pScenario{Name: "publish|create,create,grow", Broker: "CcG", Publish: 1, Init: true},
		)
	}
	return sc
}

const c21pKey = "/kafscale/metadata/snapshot"

func c21pBody(sc c21pScenario) func(s *sched.Sched) {
	return func(s *sched.Sched) {
		srv := fakeetcd.NewServer()
		base := c21Snapshot([]int{0, 0, 0})
		base.Topics = nil
		if sc.Init {
			base.Topics = append(base.Topics, c21Topic("o", 3))
			payload, _ := json.Marshal(base)
			if err := srv.DirectPut(c21pKey, string(payload), 0); err != nil {
				s.Fail("harness", "seed snapshot: %v", err)
				return
			}
		}
		bcli := srv.NewClient("b1")
		store := metadata.VerifNewEtcdStore(bcli.C, base, true)
		nOp := 0
		vclientv3.SetNew(func(vclientv3.Config) (*vclientv3.Client, error) {
			nOp++
			return srv.NewClient(fmt.Sprintf("op%d", nOp)).C, nil
		})
		defer vclientv3.SetNew(nil)
		// what the operator's topic resources say: o with 3 partitions, r with 1
		desired := c21Snapshot([]int{0, 0, 0})
		desired.Topics = []protocol.MetadataTopic{c21Topic("o", 3), c21Topic("r", 1)}
		type ack struct {
			op  string
			err error
		}
		var acks []ack
		var pubErrs []error
		opCtx, opCancel := context.WithCancel(context.Background())
		defer opCancel()
		s.Go("B", func() {
			ctx := context.Background()
			for _, op := range sc.Broker {
				var err error
				switch op {
				case 'C':
					_, err = store.CreateTopic(ctx, metadata.TopicSpec{Name: "p", NumPartitions: 2, ReplicationFactor: 1})
				case 'c':
					_, err = store.CreateTopic(ctx, metadata.TopicSpec{Name: "q", NumPartitions: 1, ReplicationFactor: 1})
				case 'G':
					err = store.CreatePartitions(ctx, "o", 6)
				}
				acks = append(acks, ack{string(op), err})
			}
		})
		s.Go("OP", func() {
			for i := 0; i < sc.Publish; i++ {
				pubErrs = append(pubErrs, PublishMetadataSnapshot(opCtx, []string{"fake:2379"}, desired))
			}
		})
		s.Run()
		if s.Deadlock {
			s.Fail("deadlock", "blocked: %s", s.Blocked())
			return
		}
		// final etcd snapshot
		var final metadata.ClusterMetadata
		raw := srv.Dump(c21pKey)[c21pKey]
		if raw != "" {
			if err := json.Unmarshal([]byte(raw), &final); err != nil {
				s.Fail("harness", "final snapshot does not decode: %v", err)
				return
			}
		}
		count := func(m metadata.ClusterMetadata) map[string]int {
			out := map[string]int{}
			for _, tp := range m.Topics {
				if tp.Topic != nil {
					out[*tp.Topic] = len(tp.Partitions)
				}
			}
			return out
		}
		etcdView := count(final)
		own, merr := store.Metadata(context.Background(), nil)
		ownView := map[string]int{}
		if merr == nil && own != nil {
			ownView = count(*own)
		}
		want := map[string]int{}
		var acked []string
		for _, a := range acks {
			if a.err != nil {
				continue
			}
			acked = append(acked, a.op)
			switch a.op {
			case "C":
				want["p"] = 2
			case "c":
				want["q"] = 1
			case "G":
				want["o"] = 6
			}
		}
		for nm, n := range want {
			if etcdView[nm] < n {
				kind := "acked-topic-lost"
				if nm == "o" {
					kind = "acked-growth-lost"
				}
				s.Fail(kind+":operator-publish-overwrote-broker-write", "broker acknowledged %v; etcd snapshot now has %s with %d partitions (want >= %d); snapshot topics %v", acked, nm, etcdView[nm], n, etcdView)
			}
			if merr == nil && ownView[nm] < n {
				kind := "acked-topic-lost"
				if nm == "o" {
					kind = "acked-growth-lost"
				}
				s.Fail(kind+":broker-view-after-operator-publish", "broker acknowledged %v; its own view now has %s with %d partitions (want >= %d); view %v", acked, nm, ownView[nm], n, ownView)
			}
		}
		if sc.Init && etcdView["o"] < 3 {
			s.Fail("operator-publish-shrinks-topic", "topic o had 3 partitions, final snapshot %v", etcdView)
		}
		published := false
		for _, e := range pubErrs {
			if e == nil {
				published = true
			}
		}
		if published && etcdView["r"] < 1 {
			s.Fail("operator-publish-loses-resource-topic", "a publish returned nil but resource topic r is not in the final snapshot %v", etcdView)
		}
		var pe []string
		for _, e := range pubErrs {
			pe = append(pe, fmt.Sprint(e))
		}
		var ae []string
		for _, a := range acks {
			ae = append(ae, fmt.Sprintf("%s:%v", a.op, a.err == nil))
		}
		s.Note("acks=%s pub=%s etcd=%v", strings.Join(ae, ","), strings.Join(pe, ","), etcdView)
		store.Close()
		for _, id := range srv.LiveLeases() {
			srv.ExpireLease(id)
		}
	}
}

func TestVerifC21Publish(t *testing.T) {
	rep := vh.New(t, "C21")
	defer rep.Finish()
	rep.Rule = "operator half, schedules: DFS (delay bound) over interleavings of the operator's real PublishMetadataSnapshot (Get, merge, compare-and-put, retry) with a broker's admin operations on a real EtcdStore and its snapshot watcher over one fake etcd; after quiescence every acknowledged creation/growth is in the etcd snapshot and in the broker's view, resource topics of a successful publish are present; distinct = distinct (acks, publish results, final snapshot); non-trivial = >=1 non-default thread choice"
	rep.Assumptions = []string{"pkg/operator/snapshot.go built with its clientv3 import redirected to vclientv3 (same types; New returns a client of the fake etcd)", "scheduling points: etcd operations, watch deliveries, EtcdStore mutexes"}
	bound := 2
	if vh.Thorough() {
		bound = 3
	}
	rep.SetInfo("delay_bound_publish_scenarios", bound)
	deadline := vh.Deadline()
	shard, n := vh.Shard()
	var rp struct {
		Scenario string `json:"scenario"`
		Choices  []int  `json:"choices"`
		Publish  bool   `json:"publish"`
	}
	replaying, rerr := vh.LoadReplay(&rp)
	if rerr != nil {
		t.Fatalf("HARNESS-ERROR replay: %v", rerr)
	}
	if replaying && !rp.Publish {
		return
	}
	for _, sc := range c21pScenarios() {
		sc := sc
		if replaying {
			if sc.Name != rp.Scenario {
				continue
			}
			x := sched.RunOnce(t, sched.Config{MaxIdle: 16, IdleStep: 250 * time.Millisecond}, rp.Choices, true, c21pBody(sc))
			fmt.Printf("REPLAY %s choices=%v\n steps=%v\n notes=%v\n fails=%+v\n", sc.Name, rp.Choices, x.Steps, x.Notes, x.Fails)
			rep.Eval(1)
			for _, f := range x.Fails {
				rep.Violation(f.Key, sc.Name+": "+f.Detail, rp)
			}
			continue
		}
		st := sched.Explore(t, sched.Config{MaxPreempt: bound, MaxDev: 0, Deadline: deadline, Shard: shard, NShards: n, DelayBound: true, MaxIdle: 16, IdleStep: 250 * time.Millisecond}, c21pBody(sc), func(x *sched.Exec) {
			rep.Eval(1)
			sw, _ := x.NonDefault()
			rep.Outcome("publish|"+sc.Name+fmt.Sprint(x.Notes), sw > 0)
			if rep.WantSample() && sw > 1 {
				rep.Sample(map[string]any{"scenario": sc.Name, "choices": x.Choices, "outcome": x.Notes})
			}
			for _, f := range x.Fails {
				rep.Violation(f.Key, sc.Name+": "+f.Detail, map[string]any{"scenario": sc.Name, "choices": x.Choices, "publish": true})
			}
		})
		rep.Count("publish_executions", int64(st.Execs))
		if st.Capped {
			rep.Cap("deadline hit in publish scenario " + sc.Name)
		}
	}
}
