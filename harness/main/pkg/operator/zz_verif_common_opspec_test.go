//go:build verif

package operator

// Shared pieces of the C39 / C42 operator harnesses: a JSON-serialisable cluster-spec
// descriptor, the builder that turns it into a KafscaleCluster, a scheme with every API
// group the reconciler writes, and a generic "every generated object" snapshot of a fake
// API server.

import (
	"context"
	"encoding/json"
	"fmt"
	"sort"
	"strings"

	appsv1 "k8s.io/api/apps/v1"
	autoscalingv2 "k8s.io/api/autoscaling/v2"
	batchv1 "k8s.io/api/batch/v1"
	corev1 "k8s.io/api/core/v1"
	policyv1 "k8s.io/api/policy/v1"
	"k8s.io/apimachinery/pkg/api/meta"
	"k8s.io/apimachinery/pkg/api/resource"
	metav1 "k8s.io/apimachinery/pkg/apis/meta/v1"
	"k8s.io/apimachinery/pkg/runtime"
	"k8s.io/apimachinery/pkg/runtime/schema"
	"k8s.io/apimachinery/pkg/runtime/serializer"
	clienttesting "k8s.io/client-go/testing"
	"sigs.k8s.io/controller-runtime/pkg/client"
	"sigs.k8s.io/controller-runtime/pkg/client/fake"

	kafscalev1alpha1 "github.com/KafScale/platform/api/v1alpha1"
)

// vopSpec describes one generated cluster resource. Zero value = the minimal spec.
type vopSpec struct {
	Name      string `json:"name"`
	Namespace string `json:"namespace"`
	Replicas  *int32 `json:"replicas"`
	AdvHost   string `json:"adv_host"`
	AdvPort   *int32 `json:"adv_port"`
	// C42 dimensions
	Etcd      string `json:"etcd,omitempty"` // "" / "managed": operator-managed etcd; "spec": spec.etcd.endpoints set
	S3        int    `json:"s3,omitempty"`   // 0 bucket+region; 1 +endpoint; 2 +credentialsSecretRef; 3 both
	ReadRepl  bool   `json:"read_replica,omitempty"`
	Config    bool   `json:"config,omitempty"`
	Resources bool   `json:"resources,omitempty"`
	Service   int    `json:"service,omitempty"` // 0 default; 1 LoadBalancer with every option; 2 NodePort with node ports
	Lfs       int    `json:"lfs,omitempty"`     // 0 off; 1 on, defaults; 2 on, every option; 3 on, http on / metrics+health off
}

func vopI32(v int32) *int32 { return &v }
func vopI64(v int64) *int64 { return &v }
func vopBool(v bool) *bool  { return &v }

// vopLongName returns a DNS-1123 subdomain of exactly n characters (labels of at most 63).
func vopLongName(n int) string {
	if n <= 63 {
		return strings.Repeat("a", n)
	}
	first := 63
	if n == 64 { // never leave an empty label after the dot
		first = 62
	}
	return strings.Repeat("a", first) + "." + vopLongName(n-first-1)
}

func vopReplicasStr(p *int32) string {
	if p == nil {
		return "nil"
	}
	return fmt.Sprint(*p)
}

// vopCluster builds the cluster resource for a spec. etcdEndpoint is used for Etcd=="spec".
func vopCluster(s vopSpec, etcdEndpoint string) *kafscalev1alpha1.KafscaleCluster {
	c := &kafscalev1alpha1.KafscaleCluster{
		ObjectMeta: metav1.ObjectMeta{Name: s.Name, Namespace: s.Namespace, UID: "uid-verif-0001"},
		Spec: kafscalev1alpha1.KafscaleClusterSpec{
			Brokers: kafscalev1alpha1.BrokerSpec{AdvertisedHost: s.AdvHost},
			S3:      kafscalev1alpha1.S3Spec{Bucket: "bucket", Region: "us-east-1"},
		},
	}
	if s.Replicas != nil {
		c.Spec.Brokers.Replicas = vopI32(*s.Replicas)
	}
	if s.AdvPort != nil {
		c.Spec.Brokers.AdvertisedPort = vopI32(*s.AdvPort)
	}
	if s.Etcd == "spec" {
		c.Spec.Etcd.Endpoints = []string{etcdEndpoint}
	}
	if s.S3&1 != 0 {
		c.Spec.S3.Endpoint = "http://minio.local:9000"
	}
	if s.S3&2 != 0 {
		c.Spec.S3.CredentialsSecretRef = "creds"
	}
	if s.ReadRepl {
		c.Spec.S3.ReadBucket = "bucket-ro"
		c.Spec.S3.ReadRegion = "eu-west-1"
		c.Spec.S3.ReadEndpoint = "http://minio-ro.local:9000"
	}
	if s.Config {
		c.Spec.Config = kafscalev1alpha1.ClusterConfigSpec{SegmentBytes: 1 << 20, FlushIntervalMs: 250, CacheSize: "64Mi"}
	}
	if s.Resources {
		c.Spec.Brokers.Resources = kafscalev1alpha1.BrokerResources{
			Requests: corev1.ResourceList{
				corev1.ResourceCPU:              resource.MustParse("500m"),
				corev1.ResourceMemory:           resource.MustParse("1Gi"),
				corev1.ResourceEphemeralStorage: resource.MustParse("2Gi"),
			},
			Limits: corev1.ResourceList{
				corev1.ResourceCPU:    resource.MustParse("2"),
				corev1.ResourceMemory: resource.MustParse("1536Mi"),
			},
		}
	}
	switch s.Service {
	case 1:
		c.Spec.Brokers.Service = kafscalev1alpha1.BrokerServiceSpec{
			Type:                     string(corev1.ServiceTypeLoadBalancer),
			Annotations:              map[string]string{"lb.example.com/scheme": "internal", "lb.example.com/class": "nlb", "a": "1", "b": "2"},
			LoadBalancerIP:           "203.0.113.10",
			LoadBalancerSourceRanges: []string{"203.0.113.0/24", "198.51.100.0/24"},
			ExternalTrafficPolicy:    string(corev1.ServiceExternalTrafficPolicyTypeLocal),
		}
	case 2:
		c.Spec.Brokers.Service = kafscalev1alpha1.BrokerServiceSpec{
			Type:            string(corev1.ServiceTypeNodePort),
			KafkaNodePort:   vopI32(30092),
			MetricsNodePort: vopI32(30093),
		}
	}
	switch s.Lfs {
	case 1:
		c.Spec.LfsProxy = kafscalev1alpha1.LfsProxySpec{Enabled: true}
	case 2:
		c.Spec.LfsProxy = kafscalev1alpha1.LfsProxySpec{
			Enabled: true, Replicas: vopI32(3), Image: "registry.local/lfs:1", ImagePullPolicy: "Always",
			Backends: []string{"b0:9092", "b1:9092"}, AdvertisedHost: "lfs.example.com", AdvertisedPort: vopI32(19092),
			BackendCacheTTLSeconds: vopI32(30),
			Service: kafscalev1alpha1.LfsProxyServiceSpec{
				Type:                     string(corev1.ServiceTypeLoadBalancer),
				Annotations:              map[string]string{"x": "1", "y": "2", "z": "3"},
				LoadBalancerSourceRanges: []string{"10.0.0.0/8"},
				Port:                     vopI32(19092),
			},
			HTTP:    kafscalev1alpha1.LfsProxyHTTPSpec{Enabled: vopBool(true), Port: vopI32(18080), APIKeySecretRef: "lfs-api", APIKeySecretKey: "token"},
			Metrics: kafscalev1alpha1.LfsProxyMetricsSpec{Enabled: vopBool(true), Port: vopI32(19095)},
			Health:  kafscalev1alpha1.LfsProxyHealthSpec{Enabled: vopBool(true), Port: vopI32(19094)},
			S3: kafscalev1alpha1.LfsProxyS3Spec{Namespace: "lfs-ns", MaxBlobSize: vopI64(1 << 20), ChunkSize: vopI64(1 << 18),
				ForcePathStyle: vopBool(true), EnsureBucket: vopBool(true)},
		}
	case 3:
		c.Spec.LfsProxy = kafscalev1alpha1.LfsProxySpec{
			Enabled: true,
			HTTP:    kafscalev1alpha1.LfsProxyHTTPSpec{Enabled: vopBool(true), APIKeySecretRef: "lfs-api"},
			Metrics: kafscalev1alpha1.LfsProxyMetricsSpec{Enabled: vopBool(false)},
			Health:  kafscalev1alpha1.LfsProxyHealthSpec{Enabled: vopBool(false)},
		}
	}
	return c
}

// vopScheme registers every API group the reconciler writes to.
func vopScheme() (*runtime.Scheme, error) {
	s := runtime.NewScheme()
	for _, add := range []func(*runtime.Scheme) error{
		kafscalev1alpha1.AddToScheme, appsv1.AddToScheme, corev1.AddToScheme, policyv1.AddToScheme,
		batchv1.AddToScheme, autoscalingv2.AddToScheme,
	} {
		if err := add(s); err != nil {
			return nil, err
		}
	}
	return s, nil
}

// vopClientBuilder is the controller-runtime fake client over client-go's plain object tracker. The
// builder's default (field-managed) tracker builds a client-go scheme, type converters and a static
// REST mapper per client (~20 ms); it differs only in managedFields bookkeeping for server-side apply,
// which the operator does not use. resourceVersion and status-subresource semantics live in
// controller-runtime's versioned tracker and are identical.
func vopClientBuilder(scheme *runtime.Scheme, cluster *kafscalev1alpha1.KafscaleCluster, extra ...client.Object) *fake.ClientBuilder {
	objs := append([]client.Object{cluster}, extra...)
	tracker := clienttesting.NewObjectTracker(scheme, serializer.NewCodecFactory(scheme).UniversalDecoder())
	return fake.NewClientBuilder().WithScheme(scheme).WithObjectTracker(tracker).
		WithStatusSubresource(&kafscalev1alpha1.KafscaleCluster{}).WithObjects(objs...)
}

func vopNewClient(scheme *runtime.Scheme, cluster *kafscalev1alpha1.KafscaleCluster, extra ...client.Object) client.WithWatch {
	return vopClientBuilder(scheme, cluster, extra...).Build()
}

// vopListKinds returns every list kind of the scheme outside the kafscale.io group (the
// cluster/topic resources are inputs, not generated objects) that the fake client can list.
func vopListKinds(scheme *runtime.Scheme) []schema.GroupVersionKind {
	probe := fake.NewClientBuilder().WithScheme(scheme).Build()
	var out []schema.GroupVersionKind
	for gvk := range scheme.AllKnownTypes() {
		if gvk.Group == kafscalev1alpha1.GroupVersion.Group || gvk.Version == runtime.APIVersionInternal {
			continue
		}
		if !strings.HasSuffix(gvk.Kind, "List") || gvk.Kind == "List" {
			continue
		}
		obj, err := scheme.New(gvk)
		if err != nil {
			continue
		}
		ol, ok := obj.(client.ObjectList)
		if !ok || !meta.IsListType(obj) {
			continue
		}
		if err := probe.List(context.Background(), ol); err != nil {
			continue
		}
		out = append(out, gvk)
	}
	sort.Slice(out, func(i, j int) bool { return out[i].String() < out[j].String() })
	return out
}

// vopSnapshot returns "Kind/namespace/name" -> canonical JSON (resourceVersion included) of
// every object of every listable kind in the fake API server, except keys in skip.
func vopSnapshot(c client.Client, scheme *runtime.Scheme, kinds []schema.GroupVersionKind, skip map[string]bool) (map[string]string, error) {
	out := map[string]string{}
	for _, gvk := range kinds {
		obj, err := scheme.New(gvk)
		if err != nil {
			return nil, err
		}
		ol := obj.(client.ObjectList)
		if err := c.List(context.Background(), ol); err != nil {
			return nil, fmt.Errorf("list %s: %w", gvk, err)
		}
		items, err := meta.ExtractList(ol)
		if err != nil {
			return nil, err
		}
		kind := strings.TrimSuffix(gvk.Kind, "List")
		for _, it := range items {
			acc, err := meta.Accessor(it)
			if err != nil {
				return nil, err
			}
			key := kind + "/" + acc.GetNamespace() + "/" + acc.GetName()
			if skip[key] {
				continue
			}
			b, err := json.Marshal(it)
			if err != nil {
				return nil, err
			}
			out[key] = string(b)
		}
	}
	return out, nil
}

// vopDiffResult names the first difference between two snapshots (in key order).
type vopDiffResult struct {
	Key    string // "Kind/namespace/name"
	Path   string // json path, slice indices replaced by [] so that it names a field, not an element
	Before string // value at Path in the first snapshot (clipped)
	After  string
}

// vopDiff compares two snapshots. Inside an object a difference outside metadata.resourceVersion is
// preferred; a bare resourceVersion bump (an Update that changed nothing else) is reported as such.
func vopDiff(a, b map[string]string) (vopDiffResult, bool) {
	keys := map[string]bool{}
	for k := range a {
		keys[k] = true
	}
	for k := range b {
		keys[k] = true
	}
	sorted := make([]string, 0, len(keys))
	for k := range keys {
		sorted = append(sorted, k)
	}
	sort.Strings(sorted)
	for _, k := range sorted {
		av, aok := a[k]
		bv, bok := b[k]
		switch {
		case !aok:
			return vopDiffResult{Key: k, Path: "<object-added>", After: vopClip(bv)}, true
		case !bok:
			return vopDiffResult{Key: k, Path: "<object-removed>", Before: vopClip(av)}, true
		case av != bv:
			var x, y any
			_ = json.Unmarshal([]byte(av), &x)
			_ = json.Unmarshal([]byte(bv), &y)
			if p, xv, yv, ok := vopJSONPathDiff(x, y, "", true); ok {
				return vopDiffResult{Key: k, Path: p, Before: vopClip(vopJSON(xv)), After: vopClip(vopJSON(yv))}, true
			}
			p, xv, yv, _ := vopJSONPathDiff(x, y, "", false)
			return vopDiffResult{Key: k, Path: p, Before: vopClip(vopJSON(xv)), After: vopClip(vopJSON(yv))}, true
		}
	}
	return vopDiffResult{}, false
}

func vopJSON(v any) string {
	b, _ := json.Marshal(v)
	return string(b)
}

func vopClip(s string) string {
	if len(s) > 400 {
		return s[:400] + "…"
	}
	return s
}

func vopJSONPathDiff(x, y any, path string, skipRV bool) (string, any, any, bool) {
	if skipRV && path == ".metadata.resourceVersion" {
		return "", nil, nil, false
	}
	switch xv := x.(type) {
	case map[string]any:
		yv, ok := y.(map[string]any)
		if !ok {
			return path, x, y, true
		}
		ks := map[string]bool{}
		for k := range xv {
			ks[k] = true
		}
		for k := range yv {
			ks[k] = true
		}
		sorted := make([]string, 0, len(ks))
		for k := range ks {
			sorted = append(sorted, k)
		}
		sort.Strings(sorted)
		for _, k := range sorted {
			xe, xok := xv[k]
			ye, yok := yv[k]
			p := path + "." + k
			if skipRV && p == ".metadata.resourceVersion" {
				continue
			}
			if xok != yok {
				return p, xe, ye, true
			}
			if dp, dx, dy, differs := vopJSONPathDiff(xe, ye, p, skipRV); differs {
				return dp, dx, dy, true
			}
		}
		return "", nil, nil, false
	case []any:
		yv, ok := y.([]any)
		if !ok {
			return path, x, y, true
		}
		if len(xv) != len(yv) {
			return path + "[len]", len(xv), len(yv), true
		}
		for i := range xv {
			if dp, dx, dy, differs := vopJSONPathDiff(xv[i], yv[i], path+"[]", skipRV); differs {
				return dp, dx, dy, true
			}
		}
		return "", nil, nil, false
	default:
		if fmt.Sprint(x) != fmt.Sprint(y) {
			return path, x, y, true
		}
		return "", nil, nil, false
	}
}

// vopRole strips the cluster name / namespace from a snapshot key: "StatefulSet/<ns>/<name>-broker" -> "StatefulSet/-broker".
func vopRole(key, namespace, name string) string {
	parts := strings.SplitN(key, "/", 3)
	if len(parts) != 3 {
		return key
	}
	return parts[0] + "/" + strings.TrimPrefix(parts[2], name)
}

func vopEnv(env []corev1.EnvVar, key string) (corev1.EnvVar, bool) {
	for _, e := range env {
		if e.Name == key {
			return e, true
		}
	}
	return corev1.EnvVar{}, false
}
