//go:build verif

package operator

// C42, spec-change history dimension.
//
// "The rendered objects depend only on the cluster resource and the operator's environment": a cluster
// resource is an editable object, and the operator renders with CreateOrUpdate mutate functions on top of
// the LIVE object. So the objects must be the same whether the current cluster resource is reconciled on an
// empty API server or on one that still holds what was rendered for an earlier version of that resource.
//
// For every ordered pair (predecessor, successor) of a bounded spec family in which the successor differs
// from the predecessor in exactly ONE dimension value, under every operator environment:
//   1. the predecessor is reconciled on a fresh fake API server until quiescent (real Reconcile, at least twice);
//   2. the cluster resource on the SAME server is updated to the successor spec and reconciled twice;
//      the second reconcile must be a no-op (snapshot incl. resourceVersion, write log);
//   3. a fresh fake API server reconciles the successor once;
//   4. every object of the fresh server (kind/namespace/name) must exist on the history server and be equal
//      outside status and the API server's bookkeeping metadata (resourceVersion, generation, managedFields,
//      creationTimestamp, uid), every differing field is reported with its path.
// Objects that exist only on the history server (rendered for the predecessor, e.g. the LFS proxy Deployment
// after the proxy was switched off, the managed etcd objects after spec.etcd.endpoints was set) are not judged
// by this statement; they are counted (leftover_objects).

import (
	"context"
	"encoding/json"
	"fmt"
	"sort"
	"strings"
	"sync"
	"sync/atomic"
	"time"

	"sigs.k8s.io/controller-runtime/pkg/client"

	kafscalev1alpha1 "github.com/KafScale/platform/api/v1alpha1"
	"github.com/KafScale/platform/internal/verif/enum"
	"github.com/KafScale/platform/internal/verif/vh"
)

const (
	c42HistName      = "demo" // name and namespace are the identity of the cluster resource and cannot be edited
	c42HistNamespace = "default"
	c42HistMaxSettle = 4 // reconciles of the predecessor before the history gives up waiting for quiescence
)

// c42HistDim is one editable dimension of the cluster spec: values simplest first, on = index of the
// value used by the "everything on" core (index 0 is the value of the "all defaults" core).
type c42HistDim struct {
	name string
	vals []string
	on   int
	set  func(sp *vopSpec, i int)
}

// c42HistDims: wide adds one more value to three dimensions (thorough tier, contexts near the cores only).
func c42HistDims(wide bool) []c42HistDim {
	replicas := []*int32{nil, vopI32(1), vopI32(3), vopI32(5)}
	replicaNames := []string{"nil", "1", "3", "5"}
	lfs := []int{0, 1, 2}
	lfsNames := []string{"off", "on-defaults", "on-every-option"}
	services := []int{0, 1}
	serviceNames := []string{"default", "LoadBalancer+annotations"}
	if wide {
		replicas = append(replicas, vopI32(0))
		replicaNames = append(replicaNames, "0")
		lfs = append(lfs, 3)
		lfsNames = append(lfsNames, "on-http-only")
		services = append(services, 2)
		serviceNames = append(serviceNames, "NodePort+nodePorts")
	}
	return []c42HistDim{
		{name: "replicas", vals: replicaNames, on: 3, set: func(sp *vopSpec, i int) { sp.Replicas = replicas[i] }},
		{name: "lfs", vals: lfsNames, on: 2, set: func(sp *vopSpec, i int) { sp.Lfs = lfs[i] }},
		{name: "service", vals: serviceNames, on: 1, set: func(sp *vopSpec, i int) { sp.Service = services[i] }},
		{name: "s3", vals: []string{"plain", "endpoint+secret"}, on: 1, set: func(sp *vopSpec, i int) { sp.S3 = []int{0, 3}[i] }},
		{name: "resources", vals: []string{"none", "set"}, on: 1, set: func(sp *vopSpec, i int) { sp.Resources = i == 1 }},
		{name: "advertised", vals: []string{"none", "h:19092"}, on: 1, set: func(sp *vopSpec, i int) {
			sp.AdvHost, sp.AdvPort = "", nil
			if i == 1 {
				sp.AdvHost, sp.AdvPort = "h", vopI32(19092)
			}
		}},
		{name: "readreplica+config", vals: []string{"none", "set"}, on: 1, set: func(sp *vopSpec, i int) { sp.ReadRepl, sp.Config = i == 1, i == 1 }},
		{name: "etcd", vals: []string{"spec.endpoints", "managed"}, on: 1, set: func(sp *vopSpec, i int) { sp.Etcd = []string{"spec", "managed"}[i] }},
	}
}

func c42HistSpec(dims []c42HistDim, vec []int) vopSpec {
	sp := vopSpec{Name: c42HistName, Namespace: c42HistNamespace}
	for d, i := range vec {
		dims[d].set(&sp, i)
	}
	return sp
}

// c42HistPair is one history: the cluster resource is created as Pred, reconciled, edited to Succ, reconciled.
type c42HistPair struct {
	Pred, Succ vopSpec
	Edit       string // "<dimension>:<old>-><new>"
}

// c42HistContexts returns the value vectors that serve as the unedited rest of the spec.
// full: every vector of the product. Otherwise: the two cores (all defaults, everything on) and every
// vector that differs from a core in one dimension.
func c42HistContexts(dims []c42HistDim, full bool) [][]int {
	var out [][]int
	if full {
		sizes := make([]int, len(dims))
		for d := range dims {
			sizes[d] = len(dims[d].vals)
		}
		enum.Product(sizes, func(idx []int) bool {
			out = append(out, append([]int(nil), idx...))
			return true
		})
		return out
	}
	for _, on := range []bool{false, true} {
		core := make([]int, len(dims))
		for d := range dims {
			if on {
				core[d] = dims[d].on
			}
		}
		out = append(out, append([]int(nil), core...))
		for d := range dims {
			for v := range dims[d].vals {
				if v == core[d] {
					continue
				}
				dev := append([]int(nil), core...)
				dev[d] = v
				out = append(out, dev)
			}
		}
	}
	return out
}

// c42HistPairs: for every context vector, every dimension and every ordered pair of distinct values of that
// dimension: (context with old value, context with new value). Duplicates (contexts that differ only in the
// edited dimension) are produced once, in first-occurrence order; seen carries pairs already produced by an
// earlier call.
func c42HistPairs(dims []c42HistDim, contexts [][]int, seen map[string]bool) []c42HistPair {
	var out []c42HistPair
	for _, cv := range contexts {
		for d := range dims {
			for a := range dims[d].vals {
				for b := range dims[d].vals {
					if a == b {
						continue
					}
					pv := append([]int(nil), cv...)
					sv := append([]int(nil), cv...)
					pv[d], sv[d] = a, b
					p := c42HistPair{Pred: c42HistSpec(dims, pv), Succ: c42HistSpec(dims, sv),
						Edit: fmt.Sprintf("%s:%s->%s", dims[d].name, dims[d].vals[a], dims[d].vals[b])}
					k := vopJSON(p.Pred) + "|" + vopJSON(p.Succ)
					if seen[k] {
						continue
					}
					seen[k] = true
					out = append(out, p)
				}
			}
		}
	}
	return out
}

// c42HistFamily is the enumerated set of histories of a tier.
func c42HistFamily(thorough bool) (pairs []c42HistPair, describe string) {
	seen := map[string]bool{}
	base := c42HistDims(false)
	if !thorough {
		return c42HistPairs(base, c42HistContexts(base, false), seen),
			"single-dimension edits; rest of the spec = a core (all defaults / everything on) or a core with one further dimension changed"
	}
	pairs = c42HistPairs(base, c42HistContexts(base, true), seen)
	wide := c42HistDims(true)
	pairs = append(pairs, c42HistPairs(wide, c42HistContexts(wide, false), seen)...)
	return pairs, "single-dimension edits; rest of the spec = every vector of the product of the quick alphabets, plus the wider alphabets (replicas 0, LFS http-only, NodePort service) around the two cores"
}

type c42FieldDiff struct {
	Path, History, Fresh string
}

// c42DiffPaths collects every differing field (slice indices written [] so that a path names a field).
func c42DiffPaths(x, y any, path string, out *[]c42FieldDiff) {
	switch xv := x.(type) {
	case map[string]any:
		yv, ok := y.(map[string]any)
		if !ok {
			*out = append(*out, c42FieldDiff{path, vopClip(vopJSON(x)), vopClip(vopJSON(y))})
			return
		}
		ks := map[string]bool{}
		for k := range xv {
			ks[k] = true
		}
		for k := range yv {
			ks[k] = true
		}
		sorted := make([]string, 0, len(ks))
		for k := range ks {
			sorted = append(sorted, k)
		}
		sort.Strings(sorted)
		for _, k := range sorted {
			xe, xok := xv[k]
			ye, yok := yv[k]
			if xok != yok {
				hv, fv := "<absent>", "<absent>"
				if xok {
					hv = vopClip(vopJSON(xe))
				}
				if yok {
					fv = vopClip(vopJSON(ye))
				}
				*out = append(*out, c42FieldDiff{path + "." + k, hv, fv})
				continue
			}
			c42DiffPaths(xe, ye, path+"."+k, out)
		}
	case []any:
		yv, ok := y.([]any)
		if !ok {
			*out = append(*out, c42FieldDiff{path, vopClip(vopJSON(x)), vopClip(vopJSON(y))})
			return
		}
		if len(xv) != len(yv) {
			*out = append(*out, c42FieldDiff{path + "[len]", vopClip(vopJSON(x)), vopClip(vopJSON(y))})
			return
		}
		for i := range xv {
			c42DiffPaths(xv[i], yv[i], path+"[]", out)
		}
	default:
		if vopJSON(x) != vopJSON(y) {
			*out = append(*out, c42FieldDiff{path, vopClip(vopJSON(x)), vopClip(vopJSON(y))})
		}
	}
}

// c42Rendered decodes a snapshot entry and drops what legitimately depends on the number of writes:
// status and the API server's bookkeeping metadata. Everything else (spec, data, labels, annotations,
// ownerReferences, finalizers, ...) is what the operator rendered.
func c42Rendered(js string) (map[string]any, error) {
	var obj map[string]any
	if err := json.Unmarshal([]byte(js), &obj); err != nil {
		return nil, err
	}
	delete(obj, "status")
	if md, ok := obj["metadata"].(map[string]any); ok {
		for _, k := range []string{"resourceVersion", "generation", "managedFields", "creationTimestamp", "uid"} {
			delete(md, k)
		}
	}
	return obj, nil
}

// c42ChangedRoles names the objects ("role", "role:+" added, "role:-" removed) in which two snapshots differ
// outside status/bookkeeping.
func c42ChangedRoles(a, b map[string]string, ns, name string) []string {
	set := map[string]bool{}
	for k, av := range a {
		bv, ok := b[k]
		if !ok {
			set[vopRole(k, ns, name)+":-"] = true
			continue
		}
		x, _ := c42Rendered(av)
		y, _ := c42Rendered(bv)
		if vopJSON(x) != vopJSON(y) {
			set[vopRole(k, ns, name)] = true
		}
	}
	for k := range b {
		if _, ok := a[k]; !ok {
			set[vopRole(k, ns, name)+":+"] = true
		}
	}
	out := make([]string, 0, len(set))
	for k := range set {
		out = append(out, k)
	}
	sort.Strings(out)
	return out
}

type c42HistResult struct {
	done       bool
	sig        string
	nontrivial bool
	viols      []c42Viol
	note       string // reconcile error / panic / harness trouble: no verdict
	reconciles int
	compared   int
	leftover   []string // roles of objects that exist only on the history server
	unsettled  bool     // the predecessor did not become quiescent within c42HistMaxSettle reconciles
}

func c42HistLive(sp vopSpec) bool { return sp.Etcd == "spec" }

func c42RunHistory(cx *c42Ctx, hp c42HistPair, envName, etcdEndpoint string) (out c42HistResult) {
	out.done = true
	pred, succ := hp.Pred, hp.Succ
	role := func(key string) string { return vopRole(key, succ.Namespace, succ.Name) }
	add := func(key, format string, a ...any) {
		out.viols = append(out.viols, c42Viol{key, fmt.Sprintf(format, a...)})
	}
	histStr := fmt.Sprintf("edit %s; predecessor %v; successor %v; env=%s", hp.Edit, c42Describe(pred), c42Describe(succ), envName)
	fail := func(sig, format string, a ...any) c42HistResult {
		out.sig = "hist-" + sig
		out.note = fmt.Sprintf(format, a...)
		return out
	}
	step := func(srv *c42Server, sp vopSpec, what string) (map[string]string, string) {
		_, err, pan := srv.reconcile(cx, sp, c42HistLive(sp))
		out.reconciles++
		if pan != "" {
			return nil, fmt.Sprintf("%s panicked: %s", what, pan)
		}
		if err != nil {
			return nil, fmt.Sprintf("%s returned error: %v", what, err)
		}
		snap, serr := vopSnapshot(srv.c, cx.scheme, cx.kinds, nil)
		if serr != nil {
			return nil, "snapshot: " + serr.Error()
		}
		return snap, ""
	}

	// 1. predecessor until quiescent
	srv := c42NewServer(cx, vopCluster(pred, etcdEndpoint))
	var predSnap map[string]string
	settled := false
	for i := 0; i < c42HistMaxSettle && !settled; i++ {
		snap, msg := step(srv, pred, fmt.Sprintf("reconcile %d of the predecessor", i+1))
		if msg != "" {
			return fail("reconcile-error", "%s", msg)
		}
		if predSnap != nil {
			_, differs := vopDiff(predSnap, snap)
			settled = !differs
		}
		predSnap = snap
	}
	out.unsettled = !settled // judged by the single-spec part of this check, not here
	srv.takeWrites()

	// 2. edit the cluster resource on the same server, reconcile twice
	ctx := context.Background()
	live := &kafscalev1alpha1.KafscaleCluster{}
	if err := srv.c.Get(ctx, client.ObjectKey{Namespace: pred.Namespace, Name: pred.Name}, live); err != nil {
		return fail("harness-error", "get cluster before the edit: %v", err)
	}
	live.Spec = vopCluster(succ, etcdEndpoint).Spec
	if err := srv.c.Update(ctx, live); err != nil {
		return fail("harness-error", "update cluster to the successor spec: %v", err)
	}
	srv.takeWrites()
	snap1, msg := step(srv, succ, "reconcile 1 after the edit")
	if msg != "" {
		return fail("reconcile-error", "%s", msg)
	}
	srv.takeWrites()
	snap2, msg := step(srv, succ, "reconcile 2 after the edit")
	if msg != "" {
		return fail("reconcile-error", "%s", msg)
	}
	if df, differs := vopDiff(snap1, snap2); differs {
		add(fmt.Sprintf("after-spec-edit:changed-on-reconcile-again:%s:%s", role(df.Key), df.Path),
			"after the spec edit, reconcile #2 of the unchanged successor changed %s at %s: before %s, after %s; %s", df.Key, df.Path, df.Before, df.After, histStr)
	}
	for _, w := range srv.takeWrites() {
		if w.Kind == "KafscaleCluster" {
			continue
		}
		add(fmt.Sprintf("after-spec-edit:write-on-reconcile-again:%s:%s/%s", w.Verb, w.Kind, strings.TrimPrefix(w.Name, succ.Name)),
			"after the spec edit, reconcile #2 of the unchanged successor issued a successful %s of %s %s; %s", w.Verb, w.Kind, w.Name, histStr)
		break
	}

	// 3. the same successor resource on a fresh server
	fs := c42NewServer(cx, vopCluster(succ, etcdEndpoint))
	fresh, msg := step(fs, succ, "fresh render of the successor")
	if msg != "" {
		return fail("fresh-render-error", "%s", msg)
	}

	// 4. every object the fresh server renders must be the same on the history server
	keys := make([]string, 0, len(fresh))
	for k := range fresh {
		keys = append(keys, k)
	}
	sort.Strings(keys)
	var stale []string
	for _, k := range keys {
		out.compared++
		hv, ok := snap2[k]
		if !ok {
			stale = append(stale, role(k)+":<missing>")
			add("successor-object-missing-after-history:"+role(k),
				"a fresh API server renders %s for the successor, the API server that reconciled the predecessor first does not hold it; %s", k, histStr)
			continue
		}
		x, err1 := c42Rendered(hv)
		y, err2 := c42Rendered(fresh[k])
		if err1 != nil || err2 != nil {
			return fail("harness-error", "decode %s: %v %v", k, err1, err2)
		}
		var ds []c42FieldDiff
		c42DiffPaths(x, y, "", &ds)
		reported := map[string]bool{}
		for _, d := range ds {
			if reported[d.Path] {
				continue
			}
			reported[d.Path] = true
			stale = append(stale, role(k)+":"+d.Path)
			add(fmt.Sprintf("successor-object-depends-on-history:%s:%s", role(k), d.Path),
				"%s at %s is %s on the API server that reconciled the predecessor spec before, but %s on a fresh API server reconciled with the same successor cluster resource and environment; %s",
				k, d.Path, d.History, d.Fresh, histStr)
		}
	}
	for k := range snap2 {
		if _, ok := fresh[k]; !ok {
			out.leftover = append(out.leftover, role(k))
		}
	}
	sort.Strings(out.leftover)

	// outcome: what the edit changes in the render, what is left over, what is stale
	changed := c42ChangedRoles(predSnap, fresh, succ.Namespace, succ.Name)
	out.nontrivial = len(changed) > 0
	out.sig = fmt.Sprintf("hist env=%s edit-changes=[%s] leftover=[%s] stale=[%s]", envName, strings.Join(changed, ","), strings.Join(out.leftover, ","), strings.Join(stale, ","))
	return
}

// c42HistState accumulates the history section's info across environments.
type c42HistState struct {
	pairs         []c42HistPair
	leftoverRoles map[string]bool
	sampled       int
}

func c42NewHistState(rep *vh.Report, thorough bool) *c42HistState {
	pairs, describe := c42HistFamily(thorough)
	rep.SetInfo("history_pairs_per_environment", len(pairs))
	rep.SetInfo("history_family", describe)
	var dimsInfo []string
	for _, d := range c42HistDims(thorough) {
		dimsInfo = append(dimsInfo, d.name+"{"+strings.Join(d.vals, ",")+"}")
	}
	rep.SetInfo("history_dimensions", dimsInfo)
	return &c42HistState{pairs: pairs, leftoverRoles: map[string]bool{}}
}

// c42HistoryEnv runs every history of the family under the environment that is currently applied
// (process-wide). Returns true when the deadline cut the enumeration.
func (hs *c42HistState) c42HistoryEnv(rep *vh.Report, cx *c42Ctx, envName string, workers int, endpoints []string, deadline time.Time) bool {
	shard, nshards := vh.Shard()
	var mine []int
	for i := range hs.pairs {
		if i%nshards == shard {
			mine = append(mine, i)
		}
	}
	results := make([]c42HistResult, len(mine))
	var next int64 = -1
	var wg sync.WaitGroup
	for w := 0; w < workers; w++ {
		wg.Add(1)
		go func(w int) {
			defer wg.Done()
			for {
				j := int(atomic.AddInt64(&next, 1))
				if j >= len(mine) || time.Now().After(deadline) {
					return
				}
				results[j] = c42RunHistory(cx, hs.pairs[mine[j]], envName, endpoints[w])
			}
		}(w)
	}
	wg.Wait()
	capped := false
	for j, res := range results {
		if !res.done {
			capped = true
			continue
		}
		hp := hs.pairs[mine[j]]
		rep.Eval(1)
		rep.Count("history_pairs", 1)
		rep.Count("history_reconciles", int64(res.reconciles))
		rep.Count("reconciles", int64(res.reconciles))
		rep.Count("history_objects_compared", int64(res.compared))
		rep.Count("leftover_objects", int64(len(res.leftover)))
		for _, r := range res.leftover {
			hs.leftoverRoles[r] = true
		}
		if res.unsettled {
			rep.Count("history_predecessor_not_quiescent", 1)
		}
		rep.Outcome(res.sig, res.nontrivial)
		if res.note != "" {
			rep.Count("cases_without_verdict", 1)
			rep.SetInfo("last_case_without_verdict", res.note+" history: "+hp.Edit+" successor="+fmt.Sprint(c42Describe(hp.Succ))+" env="+envName)
		}
		pred := hp.Pred
		for _, v := range res.viols {
			rep.Violation(v.key, v.detail, c42Replay{Spec: hp.Succ, Env: envName, Pred: &pred})
		}
		if res.nontrivial && hs.sampled < 2 && rep.WantSample() && j%41 == 7 {
			hs.sampled++
			rep.Sample(map[string]any{"history_edit": hp.Edit, "predecessor": c42Describe(hp.Pred), "successor": c42Describe(hp.Succ), "env": envName, "outcome": res.sig})
		}
	}
	roles := make([]string, 0, len(hs.leftoverRoles))
	for r := range hs.leftoverRoles {
		roles = append(roles, r)
	}
	sort.Strings(roles)
	rep.SetInfo("leftover_object_roles", roles)
	return capped
}
