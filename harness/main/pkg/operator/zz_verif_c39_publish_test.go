//go:build verif

package operator

// C39, publish dimension (Part P): the statement is about the metadata the operator PUBLISHES. The
// operator never publishes BuildClusterMetadata's result as it is: PublishMetadataSnapshot reads the
// snapshot stored in etcd, merges it (mergeSnapshots) and writes the JSON encoding of the merge. The
// stored snapshot is shared with the brokers, which grow topics (CreatePartitions) and create topics
// (CreateTopic) in it. So the agreement oracle must also hold for the RESULT of a publish over a
// snapshot that the brokers have changed since the operator's previous publish.
//
// One case = (replicas, topic resources, broker-side changes):
//   1. first publish on an empty key: JSON(BuildClusterMetadata(cluster, topics));
//   2. broker side, by the real store the brokers use (metadata.InMemoryStore loaded from the stored
//      JSON, CreatePartitions / CreateTopic, JSON of Metadata(nil) exactly like EtcdStore.persistSnapshot);
//   3. second publish with unchanged resources, step by step as PublishMetadataSnapshot does it:
//      BuildClusterMetadata -> json.Unmarshal(stored) -> mergeSnapshots -> json.Marshal;
//   4. the payload is decoded like a broker would and judged.

import (
	"bytes"
	"context"
	"encoding/json"
	"fmt"
	"sort"
	"strings"
	"time"

	"k8s.io/apimachinery/pkg/runtime"

	kafscalev1alpha1 "github.com/KafScale/platform/api/v1alpha1"
	"github.com/KafScale/platform/internal/verif/enum"
	"github.com/KafScale/platform/internal/verif/vh"
	"github.com/KafScale/platform/pkg/metadata"
	"github.com/KafScale/platform/pkg/protocol"
)

const (
	c39PubKey          = "publish-over-snapshot:"
	c39BrokerTopicName = "zz.broker-made"
)

// c39PublishOver is the in-memory part of PublishMetadataSnapshot (snapshot.go): build, merge with the
// stored value if it decodes, encode. stored == nil: nothing under the key yet.
func c39PublishOver(cluster *kafscalev1alpha1.KafscaleCluster, topics []kafscalev1alpha1.KafscaleTopic, stored []byte) (payload []byte, perr string) {
	defer func() {
		if p := recover(); p != nil {
			perr = fmt.Sprint(p)
		}
	}()
	snapshot := BuildClusterMetadata(cluster, topics)
	if stored != nil {
		existing := metadata.ClusterMetadata{}
		if err := json.Unmarshal(stored, &existing); err == nil {
			snapshot = mergeSnapshots(snapshot, existing)
		}
	}
	payload, err := json.Marshal(snapshot)
	if err != nil {
		return nil, "marshal: " + err.Error()
	}
	return payload, ""
}

// c39BrokerSide applies the brokers' changes to the stored snapshot with the store the brokers run
// (EtcdStore keeps an InMemoryStore, changes it and persists json.Marshal(Metadata(nil))).
func c39BrokerSide(stored []byte, grown, created []c39Topic) (out []byte, err error) {
	defer func() {
		if p := recover(); p != nil {
			err = fmt.Errorf("panic: %v", p)
		}
	}()
	var state metadata.ClusterMetadata
	if err := json.Unmarshal(stored, &state); err != nil {
		return nil, err
	}
	ctx := context.Background()
	store := metadata.NewInMemoryStore(state)
	for _, g := range grown {
		cur, err := store.Metadata(ctx, []string{g.Name})
		if err != nil {
			return nil, err
		}
		if len(cur.Topics) != 1 || cur.Topics[0].ErrorCode != 0 {
			return nil, fmt.Errorf("topic %q not in the stored snapshot", g.Name)
		}
		if err := store.CreatePartitions(ctx, g.Name, int32(len(cur.Topics[0].Partitions))+g.Partitions); err != nil {
			return nil, fmt.Errorf("CreatePartitions(%s,+%d): %w", g.Name, g.Partitions, err)
		}
	}
	for _, c := range created {
		if _, err := store.CreateTopic(ctx, metadata.TopicSpec{Name: c.Name, NumPartitions: c.Partitions, ReplicationFactor: 1}); err != nil {
			return nil, fmt.Errorf("CreateTopic(%s,%d): %w", c.Name, c.Partitions, err)
		}
	}
	next, err := store.Metadata(ctx, nil)
	if err != nil {
		return nil, err
	}
	return json.Marshal(next)
}

func c39TopicName(tp protocol.MetadataTopic) string {
	if tp.Topic == nil {
		return ""
	}
	return *tp.Topic
}

// c39OnlyTopic restricts a stored snapshot to one topic.
func c39OnlyTopic(stored []byte, name string) ([]byte, error) {
	var state metadata.ClusterMetadata
	if err := json.Unmarshal(stored, &state); err != nil {
		return nil, err
	}
	var keep []protocol.MetadataTopic
	for _, tp := range state.Topics {
		if c39TopicName(tp) == name {
			keep = append(keep, tp)
		}
	}
	state.Topics = keep
	return json.Marshal(state)
}

func c39PartitionNumbers(tp protocol.MetadataTopic) []int32 {
	out := make([]int32, 0, len(tp.Partitions))
	for _, p := range tp.Partitions {
		out = append(out, p.Partition)
	}
	return out
}

// c39CheckPublish runs one publish-over-snapshot case; returns the outcome signature and whether it is
// non-trivial (the brokers changed the stored snapshot between the two publishes).
func c39CheckPublish(rep *vh.Report, s vopSpec, rendered c39Rendered, topicSet, grown, created []c39Topic) (string, bool) {
	replay := c39Replay{Kind: "publish", Spec: s, Topics: topicSet, Grown: grown, BrokerCreated: created}
	nontrivial := len(grown)+len(created) > 0
	var steps []string
	for _, g := range grown {
		steps = append(steps, fmt.Sprintf("CreatePartitions(%s, +%d)", g.Name, g.Partitions))
	}
	for _, c := range created {
		steps = append(steps, fmt.Sprintf("CreateTopic(%s, %d)", c.Name, c.Partitions))
	}
	specStr := fmt.Sprintf("replicas=%s, topic resources %v: operator publishes, brokers do [%s] on the stored snapshot, operator publishes again (unchanged resources)",
		vopReplicasStr(s.Replicas), topicSet, strings.Join(steps, ", "))
	if rendered.sts == nil {
		return "render-error:" + rendered.err, false
	}
	sts := rendered.sts
	if sts.Spec.Replicas == nil {
		return "sts-replicas-nil", false // reported by Part A
	}
	deployed := int(*sts.Spec.Replicas)
	cluster := vopCluster(s, "")
	topics := c39ResourceTopics(s, topicSet)

	stored0, perr := c39PublishOver(cluster, topics, nil)
	rep.Count("publish_pipeline_runs", 1)
	if perr != "" {
		rep.Violationf(c39PubKey+"publish-panic", replay, "first publish failed (%s): nothing can be published; %s", perr, specStr)
		return "panic-first", true
	}
	stored, err := c39BrokerSide(stored0, grown, created)
	if err != nil {
		// the brokers' store refused the step: no stored snapshot to publish over; not a verdict of this property
		rep.Count("publish_broker_side_errors", 1)
		rep.Cap("broker-side step failed, case not judged: " + err.Error())
		return "broker-side-error", false
	}
	payload, perr := c39PublishOver(cluster, topics, stored)
	rep.Count("publish_pipeline_runs", 1)
	if perr != "" {
		rep.Violationf(c39PubKey+"publish-panic", replay, "publish over the stored snapshot failed (%s): nothing can be published; %s", perr, specStr)
		return "panic-second", true
	}
	var pub, before metadata.ClusterMetadata
	if err := json.Unmarshal(payload, &pub); err != nil {
		rep.Violationf(c39PubKey+"published-snapshot-undecodable", replay, "brokers cannot decode the published snapshot (%v); %s", err, specStr)
		return "undecodable", true
	}
	if err := json.Unmarshal(stored, &before); err != nil {
		rep.Cap("stored snapshot does not decode: " + err.Error())
		return "stored-undecodable", false
	}

	// (a) the statement's agreement oracle on the published result: brokers per replica with pod
	// addresses, leaders among them, partitions of every topic numbered 0..n-1
	sig, countOK, _ := c39CheckAgainstSts(rep, c39PubKey, replay, specStr, s, sts, pub)

	// (b) every topic of the resources and of the stored snapshot is listed exactly once with
	// n = max(resource count, stored count) partitions
	wantParts := map[string]int{}
	var order []string
	for _, tp := range topicSet {
		wantParts[tp.Name] = int(tp.Partitions)
		order = append(order, tp.Name)
	}
	storedID := map[string][16]byte{}
	for _, tp := range before.Topics {
		name := c39TopicName(tp)
		if _, ok := wantParts[name]; !ok {
			order = append(order, name)
		}
		if len(tp.Partitions) > wantParts[name] {
			wantParts[name] = len(tp.Partitions)
		}
		storedID[name] = tp.TopicID
	}
	listed := map[string]int{}
	byName := map[string]protocol.MetadataTopic{}
	idOwner := map[[16]byte]string{}
	for _, tp := range pub.Topics {
		name := c39TopicName(tp)
		listed[name]++
		if _, ok := wantParts[name]; !ok {
			rep.Violationf(c39PubKey+"topic-unexpected", replay, "published snapshot lists topic %q which is neither a topic resource nor in the stored snapshot; %s", name, specStr)
			continue
		}
		if listed[name] == 2 {
			rep.Violationf(c39PubKey+"topic-listed-twice", replay, "published snapshot lists topic %q more than once; %s", name, specStr)
		}
		if listed[name] > 1 {
			continue
		}
		byName[name] = tp
		// (c) topic ids: one id per name, the id the stored snapshot already gave the topic
		if other, dup := idOwner[tp.TopicID]; dup {
			rep.Violationf(c39PubKey+"topic-id-shared", replay, "topics %q and %q are published with the same topic id %x; %s", other, name, tp.TopicID, specStr)
		}
		idOwner[tp.TopicID] = name
		if id, ok := storedID[name]; ok && id != tp.TopicID {
			rep.Violationf(c39PubKey+"topic-id-changed", replay, "topic %q had id %x in the stored snapshot and is published with id %x; %s", name, id, tp.TopicID, specStr)
		}
		if len(tp.Partitions) != wantParts[name] {
			rep.Violationf(c39PubKey+"partition-count", replay, "topic %q is published with %d partition entries %v; the topic resource and the stored snapshot give it %d; %s",
				name, len(tp.Partitions), c39PartitionNumbers(tp), wantParts[name], specStr)
		}
		// (d) replica / ISR lists name deployed pods (leaders are judged in (a))
		if countOK {
			for _, p := range tp.Partitions {
				for _, id := range append(append([]int32(nil), p.Replicas...), p.ISR...) {
					if id < 0 || int(id) >= deployed {
						rep.Violationf(c39PubKey+"replica-not-a-deployed-pod", replay, "topic %q partition %d lists replica %d which has no pod (replicas %d); %s", name, p.Partition, id, deployed, specStr)
						break
					}
				}
			}
		}
	}
	for _, name := range order {
		if listed[name] == 0 {
			rep.Violationf(c39PubKey+"topic-missing", replay, "topic %q (%d partitions) is not in the published snapshot; %s", name, wantParts[name], specStr)
		}
	}

	// (e) no interference: the entries published for a topic are those published when that topic is the
	// only one (same pipeline, resources and stored snapshot restricted to the topic)
	for _, name := range order {
		got, ok := byName[name]
		if !ok {
			continue
		}
		var only []kafscalev1alpha1.KafscaleTopic
		for _, tp := range topics {
			if tp.Name == name {
				only = append(only, tp)
			}
		}
		storedOnly, err := c39OnlyTopic(stored, name)
		if err != nil {
			rep.Cap("stored snapshot does not decode: " + err.Error())
			continue
		}
		alonePayload, perr := c39PublishOver(cluster, only, storedOnly)
		rep.Count("publish_pipeline_runs", 1)
		if perr != "" {
			rep.Violationf(c39PubKey+"publish-panic", replay, "publish of topic %q alone failed (%s); %s", name, perr, specStr)
			continue
		}
		var alone metadata.ClusterMetadata
		if err := json.Unmarshal(alonePayload, &alone); err != nil || len(alone.Topics) != 1 {
			// a single-topic publish that is itself wrong is a single-topic defect, judged by (a)-(d) of its own case
			continue
		}
		gj, _ := json.Marshal(got)
		aj, _ := json.Marshal(alone.Topics[0])
		if !bytes.Equal(gj, aj) {
			rep.Violationf(c39PubKey+"topic-entries-depend-on-other-topics", replay,
				"topic %q is published with partitions %v / leaders %v, but the same publish with %q as the only topic gives partitions %v / leaders %v: another topic's entries leaked into it; %s",
				name, c39PartitionNumbers(got), c39Leaders(got), name, c39PartitionNumbers(alone.Topics[0]), c39Leaders(alone.Topics[0]), specStr)
		}
	}

	names := make([]string, 0, len(listed))
	for n := range listed {
		names = append(names, n)
	}
	sort.Strings(names)
	return fmt.Sprintf("publish res=%v grown=%v created=%v -> topics=%v %s", topicSet, grown, created, names, sig), nontrivial
}

func c39Leaders(tp protocol.MetadataTopic) []int32 {
	out := make([]int32, 0, len(tp.Partitions))
	for _, p := range tp.Partitions {
		out = append(out, p.Leader)
	}
	return out
}

// c39PublishPart enumerates the publish-over-snapshot cases; returns true when the deadline cut it.
func c39PublishPart(rep *vh.Report, scheme *runtime.Scheme, thorough bool, deadline time.Time) bool {
	replicas := []int32{1, 2, 3}
	maxParts, maxGrow := int32(3), int32(2)
	if thorough {
		replicas = append(replicas, 5)
		maxParts = 4
	}
	topicSets := c39TopicSetsN(2, 3, maxParts)
	createdOpts := [][]c39Topic{nil}
	for n := int32(1); n <= 2; n++ {
		createdOpts = append(createdOpts, []c39Topic{{Name: c39BrokerTopicName, Partitions: n}})
	}
	rep.SetInfo("publish_topic_sets", len(topicSets))
	capped := false
	for _, r := range replicas {
		s := vopSpec{Name: c39HistName, Namespace: c39HistNamespace, Replicas: vopI32(r)}
		rendered := c39RenderBrokers(scheme, s)
		for _, ts := range topicSets {
			// broker-side growth, simplest first. quick: none, or ONE topic (every position) grown by 1..maxGrow;
			// thorough: every vector of growths 0..maxGrow over the topics.
			var growths [][]c39Topic
			if thorough {
				dims := make([]int, len(ts))
				for i := range dims {
					dims[i] = int(maxGrow) + 1
				}
				enum.Product(dims, func(idx []int) bool {
					var g []c39Topic
					for i, by := range idx {
						if by > 0 {
							g = append(g, c39Topic{Name: ts[i].Name, Partitions: int32(by)})
						}
					}
					growths = append(growths, g)
					return true
				})
			} else {
				growths = append(growths, nil)
				for i := range ts {
					for by := int32(1); by <= maxGrow; by++ {
						growths = append(growths, []c39Topic{{Name: ts[i].Name, Partitions: by}})
					}
				}
			}
			for _, g := range growths {
				for _, cr := range createdOpts {
					if time.Now().After(deadline) {
						return true
					}
					sig, nt := c39CheckPublish(rep, s, rendered, ts, g, cr)
					rep.Eval(1)
					rep.Count("publish_cases", 1)
					rep.Outcome(fmt.Sprintf("r=%d %s", r, sig), nt)
					if nt && len(g) > 0 && r >= 2 && rep.WantSample() {
						rep.Sample(map[string]any{"part": "publish-over-snapshot", "replicas": r, "topics": ts, "grown_by_brokers": g, "created_by_brokers": cr, "outcome": sig})
					}
				}
			}
		}
	}
	return capped
}
