//go:build verif

package operator

// C39, history dimension (Part H): the statement quantifies over cluster specs, and a cluster spec is
// an editable object. So the deployed brokers must agree with the published metadata not only when a
// spec is reconciled on an empty API server, but also when the API server already holds the objects
// generated for earlier specs of the same cluster.
//
// For every ordered sequence (A, B) (thorough: also (A, B, C)) over a reduced spec alphabet the real
// reconcilers run for A on a fresh fake API server, the cluster object is then updated to B on the
// SAME server and the reconcilers run again. Oracles:
//   1. the Part A agreement oracle between the broker StatefulSet as it now exists on the API server
//      and BuildClusterMetadata(B);
//   2. differential: the specs of all generated objects reached via A -> B equal those reached by
//      reconciling B on a fresh server (any difference is reported with its field path).

import (
	"context"
	"encoding/json"
	"fmt"
	"sort"
	"strings"
	"time"

	appsv1 "k8s.io/api/apps/v1"
	"k8s.io/apimachinery/pkg/runtime"
	"k8s.io/apimachinery/pkg/runtime/schema"
	"sigs.k8s.io/controller-runtime/pkg/client"

	kafscalev1alpha1 "github.com/KafScale/platform/api/v1alpha1"
	"github.com/KafScale/platform/internal/verif/enum"
	"github.com/KafScale/platform/internal/verif/vh"
)

const (
	c39HistName      = "demo"
	c39HistNamespace = "default"
)

func c39SpecStr(s vopSpec) string {
	return fmt.Sprintf("{replicas=%s advertisedHost=%q advertisedPort=%s}", vopReplicasStr(s.Replicas), s.AdvHost, vopReplicasStr(s.AdvPort))
}

func c39HistStr(h []vopSpec) string {
	parts := make([]string, len(h))
	for i, s := range h {
		parts[i] = c39SpecStr(s)
	}
	return strings.Join(parts, " then ")
}

// c39HistAlphabet: simplest first. base is used for pairs (quick) and triples (thorough); wide (thorough)
// adds values for pairs only. Name and namespace are the identity of the cluster object and cannot be edited.
func c39HistAlphabet(wide bool) []vopSpec {
	replicas := []*int32{nil, vopI32(1), vopI32(2), vopI32(3), vopI32(5)}
	hosts := []string{"", "h"}
	ports := []*int32{nil, vopI32(19092)}
	if wide {
		replicas = append(replicas, vopI32(0), vopI32(4))
		hosts = append(hosts, " kafka.example.com ")
		ports = append(ports, vopI32(0))
	}
	var out []vopSpec
	enum.Product([]int{len(replicas), len(hosts), len(ports)}, func(idx []int) bool {
		out = append(out, vopSpec{Name: c39HistName, Namespace: c39HistNamespace, Replicas: replicas[idx[0]], AdvHost: hosts[idx[1]], AdvPort: ports[idx[2]]})
		return true
	})
	return out
}

// c39ReconcileBrokers is the part of ClusterReconciler.Reconcile that decides which broker pods exist
// and what their stable addresses are: read the cluster from the API server, reconcile the broker
// StatefulSet and its governing headless Service.
func c39ReconcileBrokers(c client.Client, scheme *runtime.Scheme, key client.ObjectKey) error {
	ctx := context.Background()
	live := &kafscalev1alpha1.KafscaleCluster{}
	if err := c.Get(ctx, key, live); err != nil {
		return fmt.Errorf("get cluster: %w", err)
	}
	r := &ClusterReconciler{Client: c, Scheme: scheme}
	if err := r.reconcileBrokerDeployment(ctx, live, []string{"http://etcd:2379"}); err != nil {
		return fmt.Errorf("reconcileBrokerDeployment: %w", err)
	}
	if err := r.reconcileBrokerHeadlessService(ctx, live); err != nil {
		return fmt.Errorf("reconcileBrokerHeadlessService: %w", err)
	}
	return nil
}

type c39HistResult struct {
	sts   *appsv1.StatefulSet
	specs map[string]any // "Kind/namespace/name" -> decoded .spec of every generated object on the API server
	err   string
}

// c39RunHistory reconciles specs[0] on a fresh fake API server, then for every further spec updates the
// cluster object on that server and reconciles again.
func c39RunHistory(scheme *runtime.Scheme, kinds []schema.GroupVersionKind, specs []vopSpec) (out c39HistResult) {
	defer func() {
		if p := recover(); p != nil {
			out.err = fmt.Sprintf("panic: %v", p)
		}
	}()
	ctx := context.Background()
	c := vopNewClient(scheme, vopCluster(specs[0], ""))
	key := client.ObjectKey{Namespace: specs[0].Namespace, Name: specs[0].Name}
	for i, s := range specs {
		if i > 0 {
			live := &kafscalev1alpha1.KafscaleCluster{}
			if err := c.Get(ctx, key, live); err != nil {
				out.err = fmt.Sprintf("step %d get cluster: %v", i, err)
				return
			}
			live.Spec = vopCluster(s, "").Spec
			if err := c.Update(ctx, live); err != nil {
				out.err = fmt.Sprintf("step %d update cluster: %v", i, err)
				return
			}
		}
		if err := c39ReconcileBrokers(c, scheme, key); err != nil {
			out.err = fmt.Sprintf("step %d %v", i, err)
			return
		}
	}
	snap, err := vopSnapshot(c, scheme, kinds, nil)
	if err != nil {
		out.err = "snapshot: " + err.Error()
		return
	}
	out.specs = map[string]any{}
	for k, v := range snap {
		var obj map[string]any
		if err := json.Unmarshal([]byte(v), &obj); err != nil {
			out.err = "snapshot decode: " + err.Error()
			return
		}
		out.specs[k] = obj["spec"]
	}
	sts := &appsv1.StatefulSet{}
	last := specs[len(specs)-1]
	if err := c.Get(ctx, client.ObjectKey{Namespace: last.Namespace, Name: last.Name + "-broker"}, sts); err != nil {
		out.err = "get broker StatefulSet: " + err.Error()
		return
	}
	out.sts = sts
	return
}

type c39FieldDiff struct {
	Path, Before, After string
}

// c39DiffPaths collects every differing field path (slice indices written [] so that a path names a field).
func c39DiffPaths(x, y any, path string, out *[]c39FieldDiff) {
	switch xv := x.(type) {
	case map[string]any:
		yv, ok := y.(map[string]any)
		if !ok {
			*out = append(*out, c39FieldDiff{path, vopClip(vopJSON(x)), vopClip(vopJSON(y))})
			return
		}
		ks := map[string]bool{}
		for k := range xv {
			ks[k] = true
		}
		for k := range yv {
			ks[k] = true
		}
		sorted := make([]string, 0, len(ks))
		for k := range ks {
			sorted = append(sorted, k)
		}
		sort.Strings(sorted)
		for _, k := range sorted {
			xe, xok := xv[k]
			ye, yok := yv[k]
			if xok != yok {
				*out = append(*out, c39FieldDiff{path + "." + k, vopClip(vopJSON(xe)), vopClip(vopJSON(ye))})
				continue
			}
			c39DiffPaths(xe, ye, path+"."+k, out)
		}
	case []any:
		yv, ok := y.([]any)
		if !ok {
			*out = append(*out, c39FieldDiff{path, vopClip(vopJSON(x)), vopClip(vopJSON(y))})
			return
		}
		if len(xv) != len(yv) {
			*out = append(*out, c39FieldDiff{path + "[len]", vopClip(vopJSON(x)), vopClip(vopJSON(y))})
			return
		}
		for i := range xv {
			c39DiffPaths(xv[i], yv[i], path+"[]", out)
		}
	default:
		if vopJSON(x) != vopJSON(y) {
			*out = append(*out, c39FieldDiff{path, vopClip(vopJSON(x)), vopClip(vopJSON(y))})
		}
	}
}

// c39DiffObjects compares the generated objects' specs of two API servers; returns "role:path" -> diff, keys sorted.
func c39DiffObjects(a, b map[string]any, namespace, name string) (keys []string, diffs map[string]c39FieldDiff) {
	diffs = map[string]c39FieldDiff{}
	all := map[string]bool{}
	for k := range a {
		all[k] = true
	}
	for k := range b {
		all[k] = true
	}
	for k := range all {
		role := vopRole(k, namespace, name)
		av, aok := a[k]
		bv, bok := b[k]
		switch {
		case !aok:
			diffs[role+":<object-missing>"] = c39FieldDiff{"<object>", "absent", "present"}
		case !bok:
			diffs[role+":<object-extra>"] = c39FieldDiff{"<object>", "present", "absent"}
		default:
			var ds []c39FieldDiff
			c39DiffPaths(av, bv, ".spec", &ds)
			for _, d := range ds {
				if _, dup := diffs[role+":"+d.Path]; !dup {
					diffs[role+":"+d.Path] = d
				}
			}
		}
	}
	for k := range diffs {
		keys = append(keys, k)
	}
	sort.Strings(keys)
	return
}

type c39HistCtx struct {
	rep       *vh.Report
	scheme    *runtime.Scheme
	kinds     []schema.GroupVersionKind
	topicSets [][]c39Topic
	fresh     map[string]c39HistResult // spec -> objects of a fresh API server reconciled once with that spec
}

func (h *c39HistCtx) freshRender(s vopSpec) c39HistResult {
	k := vopJSON(s)
	if r, ok := h.fresh[k]; ok {
		return r
	}
	r := c39RunHistory(h.scheme, h.kinds, []vopSpec{s})
	h.rep.Count("history_fresh_renders", 1)
	h.fresh[k] = r
	return r
}

// c39CheckHistory runs one history (len >= 2): differential oracle (1 evaluation) and the agreement oracle
// for every topic set of topicSets (1 evaluation each).
func (h *c39HistCtx) c39CheckHistory(specs []vopSpec, topicSets [][]c39Topic) {
	rep := h.rep
	final := specs[len(specs)-1]
	hist := specs[:len(specs)-1]
	res := c39RunHistory(h.scheme, h.kinds, specs)
	rep.Count("histories", 1)
	rep.Count("history_reconciles", int64(len(specs)))
	fresh := h.freshRender(final)
	prev := h.freshRender(hist[len(hist)-1])
	if res.err != "" || fresh.err != "" || prev.err != "" {
		// the fake API server refused a step: nothing deployed to compare with; not a verdict of this property
		rep.Count("history_errors", 1)
		rep.Eval(1)
		rep.Outcome("history-error:"+res.err+"|"+fresh.err+"|"+prev.err, false)
		return
	}
	// what the last edit changes in a fresh render: a history is non-trivial when a stale object would be visible
	editKeys, _ := c39DiffObjects(prev.specs, fresh.specs, final.Namespace, final.Name)
	edit := strings.Join(editKeys, ",")
	nontrivial := len(editKeys) > 0

	// 2. differential oracle
	keys, diffs := c39DiffObjects(res.specs, fresh.specs, final.Namespace, final.Name)
	for _, k := range keys {
		d := diffs[k]
		rep.Violationf("history-dependent-render:"+k, c39Replay{Kind: "history-diff", Spec: final, History: hist},
			"after reconciling %s on one API server, then editing the cluster to %s and reconciling again, %s is %s, but a fresh API server reconciled with the same final spec has %s: the deployed brokers depend on earlier specs, not only on the spec the metadata is built from",
			c39HistStr(hist), c39SpecStr(final), k, d.Before, d.After)
	}
	rep.Eval(1)
	rep.Count("history_differential_cases", 1)
	rep.Outcome(fmt.Sprintf("hist-diff len=%d edit=[%s] stale=[%s]", len(specs), edit, strings.Join(keys, ",")), nontrivial)

	// 1. agreement oracle on the StatefulSet as it now exists on the API server
	for _, ts := range topicSets {
		sig, nt := c39CheckMetadata(rep, final, c39Rendered{sts: res.sts}, ts, hist)
		rep.Eval(1)
		rep.Count("history_metadata_cases", 1)
		rep.Outcome(fmt.Sprintf("hist len=%d edit=[%s] %s", len(specs), edit, sig), nt && nontrivial)
	}
}

// c39HistoryPart enumerates the histories; returns true when the deadline cut it.
func c39HistoryPart(rep *vh.Report, scheme *runtime.Scheme, topicSets [][]c39Topic, thorough bool, deadline time.Time) bool {
	h := &c39HistCtx{rep: rep, scheme: scheme, kinds: vopListKinds(scheme), topicSets: topicSets, fresh: map[string]c39HistResult{}}
	base := c39HistAlphabet(false)
	rep.SetInfo("history_spec_alphabet", len(base))
	capped := false
	run := func(alpha []vopSpec, length int, skip func(idx []int) bool) {
		dims := make([]int, length)
		for i := range dims {
			dims[i] = len(alpha)
		}
		enum.Product(dims, func(idx []int) bool {
			if time.Now().After(deadline) {
				capped = true
				return false
			}
			if skip != nil && skip(idx) {
				return true
			}
			specs := make([]vopSpec, length)
			for i, x := range idx {
				specs[i] = alpha[x]
			}
			h.c39CheckHistory(specs, topicSets)
			return true
		})
	}
	run(base, 2, nil)
	if thorough && !capped {
		run(base, 3, nil)
	}
	if thorough && !capped {
		wide := c39HistAlphabet(true)
		rep.SetInfo("history_spec_alphabet_wide_pairs", len(wide))
		inBase := map[string]bool{}
		for _, s := range base {
			inBase[vopJSON(s)] = true
		}
		// pairs already enumerated over the base alphabet are not repeated
		run(wide, 2, func(idx []int) bool { return inBase[vopJSON(wide[idx[0]])] && inBase[vopJSON(wide[idx[1]])] })
	}
	return capped
}
