//go:build verif

package operator

import (
	"fmt"
	"sort"
	"testing"

	"github.com/KafScale/platform/internal/verif/enum"
	"github.com/KafScale/platform/internal/verif/vh"
	"github.com/KafScale/platform/pkg/metadata"
	"github.com/KafScale/platform/pkg/protocol"
)

// C21 (operator half): publishing a snapshot built from topic resources over an existing
// snapshot never makes an existing topic disappear or shrink. PublishMetadataSnapshot is
// Get + mergeSnapshots + compare-and-put, so the merge decides what survives.

func c21Topic(name string, n int) protocol.MetadataTopic {
	nm := name
	var parts []protocol.MetadataPartition
	for p := 0; p < n; p++ {
		parts = append(parts, protocol.MetadataPartition{Partition: int32(p), Leader: 0, Replicas: []int32{0}, ISR: []int32{0}})
	}
	return protocol.MetadataTopic{Topic: &nm, TopicID: metadata.TopicIDForName(name), Partitions: parts}
}

func c21Snapshot(counts []int) metadata.ClusterMetadata {
	names := []string{"a", "b", "c"}
	m := metadata.ClusterMetadata{Brokers: []protocol.MetadataBroker{{NodeID: 0, Host: "h", Port: 9092}}}
	for i, n := range counts {
		if n > 0 {
			m.Topics = append(m.Topics, c21Topic(names[i], n))
		}
	}
	return m
}

func TestVerifC21(t *testing.T) {
	rep := vh.New(t, "C21")
	defer rep.Finish()
	rep.Rule = "operator half: mergeSnapshots(next, existing) for every pair of snapshots over topics {a,b,c} with partition counts 0..3 each (0 = absent); distinct = distinct (next, existing) count vectors; non-trivial = some topic present in both with different counts or only in existing"
	if _, n := vh.Shard(); n > 1 {
		if i, _ := vh.Shard(); i != 0 {
			return
		}
	}
	dims := []int{4, 4, 4, 4, 4, 4}
	enum.Product(dims, func(idx []int) bool {
		next := c21Snapshot(idx[0:3])
		existing := c21Snapshot(idx[3:6])
		merged := mergeSnapshots(next, existing)
		got := map[string]int{}
		for _, tp := range merged.Topics {
			if tp.Topic != nil {
				got[*tp.Topic] = len(tp.Partitions)
			}
		}
		rep.Eval(1)
		nontrivial := false
		names := []string{"a", "b", "c"}
		for i, nm := range names {
			ex, nx := idx[3+i], idx[i]
			if ex > 0 && (nx == 0 || nx != ex) {
				nontrivial = true
			}
			if ex > 0 {
				g, ok := got[nm]
				if !ok {
					rep.Violationf("operator-publish-drops-topic", map[string]any{"next": idx[0:3], "existing": idx[3:6]}, "existing topic %s(%d) missing after merge with next=%v", nm, ex, idx[0:3])
				} else if g < ex {
					rep.Violationf("operator-publish-shrinks-topic", map[string]any{"next": append([]int{}, idx[0:3]...), "existing": append([]int{}, idx[3:6]...)}, "topic %s: existing %d partitions, resource says %d, merged snapshot has %d", nm, ex, nx, g)
				}
			}
			if nx > 0 {
				if g, ok := got[nm]; !ok || g < nx {
					rep.Violationf("operator-publish-loses-resource-topic", map[string]any{"next": append([]int{}, idx[0:3]...), "existing": append([]int{}, idx[3:6]...)}, "resource topic %s(%d) missing or smaller (%d) after merge", nm, nx, g)
				}
			}
		}
		// partitions must stay numbered 0..n-1
		for _, tp := range merged.Topics {
			var ids []int
			for _, p := range tp.Partitions {
				ids = append(ids, int(p.Partition))
			}
			sort.Ints(ids)
			for i, id := range ids {
				if id != i {
					rep.Violationf("operator-merge-partition-gap", map[string]any{"next": append([]int{}, idx[0:3]...), "existing": append([]int{}, idx[3:6]...)}, "topic %s partitions %v", *tp.Topic, ids)
					break
				}
			}
		}
		rep.Outcome(fmt.Sprint(idx, got), nontrivial)
		if nontrivial {
			rep.Sample(map[string]any{"next": append([]int{}, idx[0:3]...), "existing": append([]int{}, idx[3:6]...), "merged": got})
		}
		return true
	})
}
