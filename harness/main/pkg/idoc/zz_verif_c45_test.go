//go:build verif

package idoc

import (
	"fmt"
	"runtime"
	"sort"
	"strconv"
	"strings"
	"sync"
	"testing"
	"time"

	"github.com/KafScale/platform/internal/verif/vh"
)

// C45 — IDoc explode emits each element once with consistent routing.
//
// Bounded-exhaustive enumeration of well-formed XML trees x routing configurations on the
// real ExplodeXML, compared with a reference that walks the generator's own tree (it never
// parses XML): Segments = one entry per element in close (post-) order; each routed list =
// the sub-sequence of segments whose name is configured for that route; Fields of a routed
// segment = its direct children whose trimmed text is non-empty.

// ---------- generator ----------

var c45Names = []string{"A", "B", "ITEM", "LINK", "br", "COL"}
var c45Texts = []string{"", "x", " \n "}

const c45Routes = 4 // Items, Partners, Statuses, Dates (bit 0..3)

var c45RouteNames = []string{"Items", "Partners", "Statuses", "Dates"}

type c45Node struct {
	Name string     `json:"name"`
	Text string     `json:"text,omitempty"`
	Attr bool       `json:"attr,omitempty"`
	Raw  string     `json:"raw,omitempty"`  // lexical form of the leading text when it differs from Text (CDATA, comment or PI splitting it)
	Tail string     `json:"tail,omitempty"` // character data after the last child, before the end tag
	Kids []*c45Node `json:"kids,omitempty"`
}

type c45Case struct {
	Family string              `json:"family"`
	Tree   *c45Node            `json:"tree"`
	XML    string              `json:"xml"`
	Routes map[string][]string `json:"routes"`        // route name -> configured element names
	Pad    int                 `json:"pad,omitempty"` // spelling of the configured names (index into c45Pads)
}

// c45Shapes returns every ordered rooted tree with exactly n nodes and depth <= maxDepth as a
// parent-index vector in preorder (parent[0] = -1).
func c45Shapes(n, maxDepth int) [][]int {
	var out [][]int
	parent := make([]int, n)
	depth := make([]int, n)
	parent[0], depth[0] = -1, 1
	var rec func(i int)
	rec = func(i int) {
		if i == n {
			out = append(out, append([]int(nil), parent...))
			return
		}
		// candidates: node i-1 and its ancestors (rightmost path), deepest first gives chains
		// first; we want simplest (flat) first, so collect and reverse.
		var cands []int
		for p := i - 1; p >= 0; p = parent[p] {
			cands = append(cands, p)
		}
		for k := len(cands) - 1; k >= 0; k-- {
			p := cands[k]
			if depth[p]+1 > maxDepth {
				continue
			}
			parent[i], depth[i] = p, depth[p]+1
			rec(i + 1)
		}
	}
	rec(1)
	return out
}

// c45Lex: lexical variants of an element's leading character data (raw XML, resulting text): the
// decoder delivers these as more than one CharData token or through a CDATA section.
var c45Lex = []struct{ raw, val string }{
	{"x", "x"},
	{"x<!--c-->y", "xy"},
	{"<![CDATA[x]]>", "x"},
	{"x<![CDATA[y]]>", "xy"},
	{"x<?p q?>\n", "x\n"},
	{"", ""},
}
var c45Tails = []string{"", " \n ", "z"}

func c45Build(fam *c45Family, parent []int, names, texts []int, attrs []bool) *c45Node {
	nodes := make([]*c45Node, len(parent))
	for i := range parent {
		if fam.lex {
			lx := c45Lex[texts[i]%len(c45Lex)]
			nodes[i] = &c45Node{Name: c45Names[names[i]], Text: lx.val, Raw: lx.raw, Tail: c45Tails[texts[i]/len(c45Lex)], Attr: attrs[i]}
		} else {
			nodes[i] = &c45Node{Name: c45Names[names[i]], Text: c45Texts[texts[i]], Attr: attrs[i]}
		}
		if parent[i] >= 0 {
			nodes[parent[i]].Kids = append(nodes[parent[i]].Kids, nodes[i])
		}
	}
	return nodes[0]
}

func (n *c45Node) write(sb *strings.Builder) {
	sb.WriteByte('<')
	sb.WriteString(n.Name)
	if n.Attr {
		sb.WriteString(` k="v"`)
	}
	sb.WriteByte('>')
	if n.Raw != "" {
		sb.WriteString(n.Raw)
	} else {
		sb.WriteString(n.Text)
	}
	for _, k := range n.Kids {
		k.write(sb)
	}
	sb.WriteString(n.Tail)
	sb.WriteString("</")
	sb.WriteString(n.Name)
	sb.WriteByte('>')
}

// ---------- reference (walks the generator tree, from the property statement) ----------

type c45RefSeg struct {
	Name   string
	Fields map[string][]string // child name -> non-empty trimmed texts of direct children with that name
}

func c45Ref(n *c45Node, out *[]c45RefSeg) {
	for _, k := range n.Kids {
		c45Ref(k, out)
	}
	f := map[string][]string{}
	for _, k := range n.Kids {
		if v := strings.TrimSpace(k.Text + k.Tail); v != "" {
			f[k.Name] = append(f[k.Name], v)
		}
	}
	*out = append(*out, c45RefSeg{Name: n.Name, Fields: f})
}

// HTML void elements: names for which encoding/xml's HTMLAutoClose mode (meant for HTML, not
// XML) invents an end tag. Used ONLY to classify a failure (violation key), never for the verdict.
var c45HTMLVoid = []string{"basefont", "br", "area", "link", "img", "param", "hr", "input", "col", "frame", "isindex", "base", "meta"}

func c45IsVoidLike(name string) bool {
	for _, v := range c45HTMLVoid {
		if strings.EqualFold(v, name) {
			return true
		}
	}
	return false
}

func c45TreeHasVoid(n *c45Node) bool {
	if c45IsVoidLike(n.Name) {
		return true
	}
	for _, k := range n.Kids {
		if c45TreeHasVoid(k) {
			return true
		}
	}
	return false
}

func c45Names2(segs []Segment) []string {
	out := make([]string, len(segs))
	for i, s := range segs {
		out[i] = s.Name
	}
	return out
}

type c45Viol struct{ key, detail string }

func c45SameStrings(a, b []string) bool {
	if len(a) != len(b) {
		return false
	}
	for i := range a {
		if a[i] != b[i] {
			return false
		}
	}
	return true
}

// c45Check runs the real ExplodeXML on one case and returns the violation (if any) and the
// outcome signature parts.
func c45Check(raw []byte, ref []c45RefSeg, hasVoid bool, masks map[string]uint, pad int) (v *c45Viol, sig string, nontrivial bool) {
	cfg := ExplodeConfig{}
	lists := [c45Routes]*[]string{&cfg.ItemSegments, &cfg.PartnerSegments, &cfg.StatusSegments, &cfg.DateSegments}
	// deterministic order of configured names
	for _, nm := range c45Names {
		m, ok := masks[nm]
		if !ok {
			continue
		}
		for r := 0; r < c45Routes; r++ {
			if m&(1<<uint(r)) != 0 {
				*lists[r] = append(*lists[r], c45Pads[pad](nm))
			}
		}
	}
	var res Result
	var err error
	var panicked any
	func() {
		defer func() { panicked = recover() }()
		res, err = ExplodeXML(raw, cfg)
	}()
	suffix := ""
	if hasVoid {
		suffix = "-html-void-name"
	}
	if panicked != nil {
		return &c45Viol{"panic" + suffix, fmt.Sprintf("ExplodeXML panicked: %v", panicked)}, "panic", true
	}
	if err != nil {
		return &c45Viol{"wellformed-rejected" + suffix, fmt.Sprintf("well-formed document rejected: %v", err)}, "err", true
	}
	// (1) one entry per element, close order
	want := make([]string, len(ref))
	for i, s := range ref {
		want[i] = s.Name
	}
	got := c45Names2(res.Segments)
	if !c45SameStrings(got, want) {
		key := "segments-order"
		if len(got) != len(want) {
			key = "segments-count"
		}
		return &c45Viol{key + suffix, fmt.Sprintf("Segments (close order) = %v, elements close in order %v", got, want)}, "segmismatch", true
	}
	// (2) routed lists
	actual := [c45Routes][]Segment{res.Items, res.Partners, res.Statuses, res.Dates}
	routedTotal, fieldTotal := 0, 0
	counts := make([]int, c45Routes)
	for r := 0; r < c45Routes; r++ {
		var wantIdx []int
		for i, s := range ref {
			if masks[s.Name]&(1<<uint(r)) != 0 {
				wantIdx = append(wantIdx, i)
			}
		}
		counts[r] = len(wantIdx)
		routedTotal += len(wantIdx)
		wantNames := make([]string, len(wantIdx))
		for j, i := range wantIdx {
			wantNames[j] = ref[i].Name
		}
		gotNames := c45Names2(actual[r])
		if !c45SameStrings(gotNames, wantNames) {
			// classify: are all missing names also configured for an earlier route?
			key := "routed-list-mismatch"
			if len(gotNames) < len(wantNames) {
				gotSet := map[string]int{}
				for _, g := range gotNames {
					gotSet[g]++
				}
				allOverlap, extra := true, false
				wantSet := map[string]int{}
				for _, w := range wantNames {
					wantSet[w]++
				}
				for nm, c := range wantSet {
					if gotSet[nm] == c {
						continue
					}
					if gotSet[nm] != 0 || masks[nm]&((1<<uint(r))-1) == 0 {
						allOverlap = false
					}
				}
				for nm := range gotSet {
					if wantSet[nm] == 0 {
						extra = true
					}
				}
				if allOverlap && !extra {
					key = "overlap-route-only-first-list"
				}
			}
			return &c45Viol{key + suffix, fmt.Sprintf("%s = %v, want %v (segments whose name is configured for the route; config %v)", c45RouteNames[r], gotNames, wantNames, c45MaskStr(masks))}, "routemismatch", true
		}
		// the routed entries must be the segment entries themselves
		for j, i := range wantIdx {
			if !c45SegEqual(actual[r][j], res.Segments[i]) {
				return &c45Viol{"routed-entry-differs-from-segment" + suffix, fmt.Sprintf("%s[%d] = %+v but Segments[%d] = %+v", c45RouteNames[r], j, actual[r][j], i, res.Segments[i])}, "routeentry", true
			}
		}
	}
	// (3) fields of routed segments
	for i, s := range ref {
		if masks[s.Name] == 0 {
			continue
		}
		gotF := res.Segments[i].Fields
		fieldTotal += len(s.Fields)
		bad := len(gotF) != len(s.Fields)
		for nm, val := range gotF {
			ok := false
			for _, w := range s.Fields[nm] {
				if w == val {
					ok = true
				}
			}
			if !ok {
				bad = true
			}
		}
		if bad {
			return &c45Viol{"routed-fields-mismatch" + suffix, fmt.Sprintf("segment %d (%s) Fields = %v, direct children with non-empty text = %v", i, s.Name, gotF, s.Fields)}, "fields", true
		}
	}
	sb := make([]byte, 0, 48)
	sb = append(sb, "ok n="...)
	sb = strconv.AppendInt(sb, int64(len(ref)), 10)
	sb = append(sb, " routes="...)
	for _, c := range counts {
		sb = strconv.AppendInt(sb, int64(c), 10)
		sb = append(sb, ',')
	}
	sb = append(sb, " fields="...)
	sb = strconv.AppendInt(sb, int64(fieldTotal), 10)
	return nil, string(sb), routedTotal > 0
}

func c45SegEqual(a, b Segment) bool {
	if a.Name != b.Name || a.Path != b.Path || a.Value != b.Value || len(a.Fields) != len(b.Fields) || len(a.Attributes) != len(b.Attributes) {
		return false
	}
	for k, v := range a.Fields {
		if w, ok := b.Fields[k]; !ok || w != v {
			return false
		}
	}
	for k, v := range a.Attributes {
		if w, ok := b.Attributes[k]; !ok || w != v {
			return false
		}
	}
	return true
}

func c45MaskStr(masks map[string]uint) string {
	var parts []string
	for _, nm := range c45Names {
		m, ok := masks[nm]
		if !ok {
			continue
		}
		var rs []string
		for r := 0; r < c45Routes; r++ {
			if m&(1<<uint(r)) != 0 {
				rs = append(rs, c45RouteNames[r])
			}
		}
		parts = append(parts, nm+"->{"+strings.Join(rs, ",")+"}")
	}
	return strings.Join(parts, " ")
}

func c45RoutesJSON(masks map[string]uint) map[string][]string {
	out := map[string][]string{}
	for r := 0; r < c45Routes; r++ {
		out[c45RouteNames[r]] = []string{}
	}
	for _, nm := range c45Names {
		for r := 0; r < c45Routes; r++ {
			if masks[nm]&(1<<uint(r)) != 0 {
				out[c45RouteNames[r]] = append(out[c45RouteNames[r]], nm)
			}
		}
	}
	return out
}

// c45Pads: spellings of a configured segment name. The configuration lists come from comma-separated settings and
// the package trims every entry (sliceToSet), so a padded entry names the same segment as the exact one.
var c45Pads = []func(string) string{
	func(s string) string { return s },
	func(s string) string { return " " + s },
	func(s string) string { return s + " " },
	func(s string) string { return "\t" + s + "\n" },
}

// ---------- enumeration ----------

type c45Family struct {
	name    string
	texts   []int    // per-element text alphabet (indices into c45Texts)
	attrs   []bool   // per-element attribute alphabet
	lex     bool     // texts index c45Lex x c45Tails (text split into several character-data chunks) instead of c45Texts
	subsets []uint   // per-present-name route-subset alphabet (nil => use global configs)
	global  []string // global config generators when subsets == nil
	pads    []int    // spellings of the configured names (indices into c45Pads); nil = exact only
}

type c45Job struct {
	seq    int64
	fam    *c45Family
	parent []int
	names  []int
}

// c45Collector keeps, per violation key, the count and the earliest case in generation order
// (so the reported counterexample is the smallest one whatever the worker timing).
type c45Collector struct {
	mu    sync.Mutex
	count map[string]int64
	best  map[string]c45Found
}

type c45Found struct {
	seq    int64
	detail string
	replay c45Case
}

func (c *c45Collector) add(key string, f c45Found) {
	c.mu.Lock()
	c.count[key]++
	if b, ok := c.best[key]; !ok || f.seq < b.seq {
		c.best[key] = f
	}
	c.mu.Unlock()
}

func TestVerifC45(t *testing.T) {
	rep := vh.New(t, "C45")
	defer rep.Finish()
	rep.Rule = "cases = (XML tree built by the generator, routing config); families: routing = every tree (names only, text x on every element) x every assignment of each present name to a subset of the 4 routes; chunks = every tree (3 names) with per-element leading text in 6 lexical forms x 3 tail texts x every assignment of each present name to {no route, Items, Dates}; content = every tree with per-element name x text{none,x,whitespace} x attribute{none,one} x every assignment of each present name to {no route, Items, Dates}; spelling = every tree (3 names, text {none,x}) x every assignment of each present name to {no route, Items, Dates} x 3 padded spellings of the configured names (the package trims configured names); shape = every tree up to 5 elements (names only) x 3 global configs; signature = family | shape (parent vector) | verdict class | element count | per-route expected counts | expected field count; non-trivial = at least one element is routed, or the run deviates from the reference"
	rep.Assumptions = []string{
		"well-formed input only (generator emits <N k=\"v\">text<children/>tail</N>; comments, processing instructions and CDATA only inside the chunks family; no namespaces)",
		"an element's text is the concatenation of its direct character data (comments/PIs contribute nothing, CDATA its content)",
		"'non-empty text' is read as non-empty after trimming whitespace; two same-named children with text: Fields may hold either value",
		"configuring a name that does not occur in the document is not enumerated (no element to route)",
	}
	// replay of a single case
	var rc c45Case
	if ok, err := vh.LoadReplay(&rc); ok {
		if err != nil {
			t.Fatalf("HARNESS-ERROR replay: %v", err)
		}
		masks := map[string]uint{}
		for r, nm := range c45RouteNames {
			for _, el := range rc.Routes[nm] {
				masks[el] |= 1 << uint(r)
			}
		}
		var sb strings.Builder
		rc.Tree.write(&sb)
		var ref []c45RefSeg
		c45Ref(rc.Tree, &ref)
		rep.Eval(1)
		if rc.Pad < 0 || rc.Pad >= len(c45Pads) {
			t.Fatalf("HARNESS-ERROR replay: pad %d", rc.Pad)
		}
		v, sig, nt := c45Check([]byte(sb.String()), ref, c45TreeHasVoid(rc.Tree), masks, rc.Pad)
		rep.Outcome(sig, nt)
		if v != nil {
			rc.XML = sb.String()
			rep.Violation(v.key, v.detail, rc)
		}
		return
	}

	all16 := make([]uint, 16)
	for i := range all16 {
		all16[i] = uint(i)
	}
	routing := &c45Family{name: "routing", texts: []int{1}, attrs: []bool{false}, subsets: all16}
	content := &c45Family{name: "content", texts: []int{0, 1, 2}, attrs: []bool{false, true}, subsets: []uint{0, 1, 8}}
	chunkTexts := make([]int, len(c45Lex)*len(c45Tails))
	for i := range chunkTexts {
		chunkTexts[i] = i
	}
	chunks := &c45Family{name: "chunks", lex: true, texts: chunkTexts, attrs: []bool{false}, subsets: []uint{0, 1, 8}}
	spelling := &c45Family{name: "spelling", texts: []int{0, 1}, attrs: []bool{false}, subsets: []uint{0, 1, 8}, pads: []int{1, 2, 3}}
	shape := &c45Family{name: "shape", texts: []int{1}, attrs: []bool{false}, global: []string{"none", "all->Items", "all->all4"}}
	// blocks are enumerated in this order (smallest first; a deadline cap can only cut the tail)
	type block struct {
		fam    *c45Family
		n      int // exact number of elements
		nnames int // the first nnames entries of c45Names
	}
	var blocks []block
	for n := 1; n <= 3; n++ {
		blocks = append(blocks, block{routing, n, 6}, block{content, n, 6}, block{chunks, n, 3}, block{spelling, n, 3})
	}
	for n := 1; n <= 5; n++ {
		blocks = append(blocks, block{shape, n, 6})
	}
	maxEl := map[string]string{"routing": "<=3 elements, 6 names", "content": "<=3 elements, 6 names", "chunks": "<=3 elements, names {A,B,ITEM}; per element leading text in 6 lexical forms (plain, split by a comment, CDATA, text+CDATA, split by a PI, none) x tail text after the children {none, whitespace, z}", "shape": "<=5 elements, 6 names",
		"spelling": "<=3 elements, names {A,B,ITEM}, text {none,x}; every configured name spelled with a leading blank, a trailing blank, or tab+newline around it"}
	if vh.Thorough() {
		blocks = append(blocks, block{routing, 4, 4}, block{content, 4, 4})
		maxEl["routing"] += "; 4 elements, names {A,B,ITEM,LINK}"
		maxEl["content"] += "; 4 elements, names {A,B,ITEM,LINK}"
	}
	rep.SetInfo("names", c45Names)
	rep.SetInfo("texts", c45Texts)
	rep.SetInfo("max_depth", 3)
	rep.SetInfo("elements", maxEl)
	rep.SetInfo("route_subsets", map[string]any{"routing": "all 16 subsets of {Items,Partners,Statuses,Dates} per present name", "content": "{none},{Items},{Dates} per present name", "shape": shape.global})

	deadline := vh.Deadline()
	col := &c45Collector{count: map[string]int64{}, best: map[string]c45Found{}}
	var seq int64
	jobs := make(chan c45Job, 1024)
	var wg sync.WaitGroup
	var capped sync.Once
	var stop bool
	var stopMu sync.Mutex
	isStopped := func() bool {
		stopMu.Lock()
		defer stopMu.Unlock()
		return stop
	}
	workers := runtime.GOMAXPROCS(0)
	for w := 0; w < workers; w++ {
		wg.Add(1)
		go func() {
			defer wg.Done()
			for j := range jobs {
				if isStopped() {
					continue
				}
				if time.Now().After(deadline) {
					stopMu.Lock()
					stop = true
					stopMu.Unlock()
					capped.Do(func() { rep.Cap("deadline hit before all trees were enumerated") })
					continue
				}
				c45RunJob(rep, col, j)
			}
		}()
	}
	shapesTotal := 0
	for _, bl := range blocks {
		fam, n := bl.fam, bl.n
		shapes := c45Shapes(n, 3)
		shapesTotal += len(shapes)
		rep.Count("shapes_"+fam.name, int64(len(shapes)))
		for _, sh := range shapes {
			// one job per (shape, name vector)
			names := make([]int, n)
			var rec func(i int)
			rec = func(i int) {
				if i == n {
					seq++
					jobs <- c45Job{seq: seq << 24, fam: fam, parent: sh, names: append([]int(nil), names...)}
					return
				}
				for k := 0; k < bl.nnames; k++ {
					names[i] = k
					rec(i + 1)
				}
			}
			rec(0)
		}
	}
	close(jobs)
	wg.Wait()
	keys := make([]string, 0, len(col.best))
	for k := range col.best {
		keys = append(keys, k)
	}
	sort.Strings(keys)
	for _, k := range keys {
		b := col.best[k]
		rep.Violation(k, fmt.Sprintf("%s (%d failing cases with this key)", b.detail, col.count[k]), b.replay)
		rep.ViolCount[k] = col.count[k]
	}
}

func c45RunJob(rep *vh.Report, col *c45Collector, j c45Job) {
	n := len(j.parent)
	fam := j.fam
	// present names in alphabet order
	var present []string
	seen := map[string]bool{}
	for _, k := range j.names {
		seen[c45Names[k]] = true
	}
	for _, nm := range c45Names {
		if seen[nm] {
			present = append(present, nm)
		}
	}
	// configs
	var configs []map[string]uint
	if fam.subsets != nil {
		idx := make([]int, len(present))
		for {
			m := map[string]uint{}
			for i, nm := range present {
				if s := fam.subsets[idx[i]]; s != 0 {
					m[nm] = s
				}
			}
			configs = append(configs, m)
			i := len(idx) - 1
			for i >= 0 {
				idx[i]++
				if idx[i] < len(fam.subsets) {
					break
				}
				idx[i] = 0
				i--
			}
			if i < 0 {
				break
			}
		}
	} else {
		for _, g := range fam.global {
			m := map[string]uint{}
			for _, nm := range present {
				switch g {
				case "all->Items":
					m[nm] = 1
				case "all->all4":
					m[nm] = 15
				}
			}
			configs = append(configs, m)
		}
	}
	texts := make([]int, n)
	attrs := make([]bool, n)
	var evals int64
	shapeStr := fmt.Sprint(j.parent)
	sigs := map[string]bool{}
	var rec func(i int)
	run := func() {
		tree := c45Build(fam, j.parent, j.names, texts, attrs)
		var sb strings.Builder
		tree.write(&sb)
		raw := []byte(sb.String())
		var ref []c45RefSeg
		c45Ref(tree, &ref)
		hasVoid := c45TreeHasVoid(tree)
		pads := fam.pads
		if pads == nil {
			pads = []int{0}
		}
		for _, masks := range configs {
			for _, pad := range pads {
				evals++
				v, sig, nt := c45Check(raw, ref, hasVoid, masks, pad)
				sg := fam.name + "|" + shapeStr + "|" + sig
				sigs[sg] = sigs[sg] || nt
				if v != nil {
					key := v.key
					if pad != 0 {
						key += ":padded-config-name"
					}
					col.add(key, c45Found{seq: j.seq + evals, detail: fam.name + ": " + strings.ReplaceAll(sb.String(), "\n", "\\n") + " :: " + v.detail, replay: c45Case{Family: fam.name, Tree: tree, XML: sb.String(), Routes: c45RoutesJSON(masks), Pad: pad}})
				} else if nt && rep.WantSample() {
					rep.Sample(map[string]any{"family": fam.name, "xml": sb.String(), "routes": c45RoutesJSON(masks), "pad": pad, "outcome": sig})
				}
			}
		}
	}
	rec = func(i int) {
		if i == n {
			run()
			return
		}
		for _, tx := range fam.texts {
			for _, at := range fam.attrs {
				texts[i], attrs[i] = tx, at
				rec(i + 1)
			}
		}
	}
	rec(0)
	for sg, nt := range sigs {
		rep.Outcome(sg, nt)
	}
	rep.Eval(evals)
	rep.Count("cases_"+fam.name, evals)
}
