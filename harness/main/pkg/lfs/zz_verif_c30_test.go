//go:build verif

package lfs

// C30 (part 0: library readers) — Resolver.Resolve and Consumer.Unwrap never return a blob that fails
// the checksum its envelope declares, nor one above the configured size limit.
//
// Enumerates envelopes (algorithm x checksum field x sha256 field) x what the storage returns for the
// envelope's key (exact / bit flipped / truncated / extended / empty / nil / fetch error / data+error) x
// resolver MaxSize x validation flag, runs the real Resolve / Unwrap with a fake fetcher and judges every
// returned payload with an independent checksum implementation. Part 1 (cmd/proxy) covers the download
// endpoint.

import (
	"context"
	"crypto/md5"
	"crypto/sha256"
	"encoding/base64"
	"encoding/hex"
	"encoding/json"
	"errors"
	"fmt"
	"hash/crc32"
	"io"
	"strconv"
	"strings"
	"testing"

	"github.com/KafScale/platform/internal/verif/enum"
	"github.com/KafScale/platform/internal/verif/vh"
)

type c30Case struct {
	API      string `json:"api"` // "resolve" | "unwrap"
	Validate bool   `json:"validate"`
	MaxSize  int64  `json:"max_size"`
	Alg      string `json:"alg"`
	Checksum string `json:"checksum"`
	SHA256   string `json:"sha256"`
	BlobB64  string `json:"blob_b64"`   // what the producer uploaded (envelope size = its length)
	Stored   string `json:"stored"`     // class of what the storage returns
	StoreB64 string `json:"stored_b64"` // bytes the storage returns
	StoreNil bool   `json:"stored_nil"`
	FetchErr bool   `json:"fetch_err"`
	// classes, for signatures only
	ckClass, shaClass, maxClass string
}

type c30Fetcher struct {
	key   string
	data  []byte
	isNil bool
	err   error
	calls int
	other int
}

func (f *c30Fetcher) Fetch(ctx context.Context, key string) ([]byte, error) {
	f.calls++
	if key != f.key {
		f.other++
		return nil, errors.New("verif: NoSuchKey " + key)
	}
	if f.isNil {
		return nil, f.err
	}
	return append([]byte{}, f.data...), f.err
}

func (f *c30Fetcher) Stream(ctx context.Context, key string) (io.ReadCloser, int64, error) {
	return nil, 0, errors.New("verif: Stream is not part of this check")
}

// --- independent reference -------------------------------------------------------------------------

func c30Norm(alg string) (string, bool) {
	a := strings.ToLower(strings.TrimSpace(alg))
	switch a {
	case "":
		return "sha256", true
	case "sha256", "md5", "crc32", "none":
		return a, true
	}
	return a, false
}

func c30Digest(alg string, b []byte) string {
	switch alg {
	case "md5":
		s := md5.Sum(b)
		return hex.EncodeToString(s[:])
	case "crc32":
		return fmt.Sprintf("%08x", crc32.ChecksumIEEE(b))
	default:
		s := sha256.Sum256(b)
		return hex.EncodeToString(s[:])
	}
}

func c30Flip(b []byte) []byte {
	out := append([]byte{}, b...)
	if len(out) > 0 {
		out[len(out)-1] ^= 0x01
	}
	return out
}

const c30Key = "ns/topic/lfs/2026/01/02/obj-c30"

func c30EnvelopeJSON(c c30Case, size int) []byte {
	// written by hand so that empty members stay present (EncodeEnvelope refuses an empty sha256)
	q := func(v string) string { b, _ := json.Marshal(v); return string(b) }
	s := `{"kfs_lfs":1,"bucket":"b","key":` + q(c30Key) + `,"size":` + strconv.Itoa(size) + `,"sha256":` + q(c.SHA256)
	if c.Checksum != "" {
		s += `,"checksum":` + q(c.Checksum)
	}
	if c.Alg != "" {
		s += `,"checksum_alg":` + q(c.Alg)
	}
	return []byte(s + "}")
}

type c30Result struct {
	returned bool
	payload  []byte
	err      error
	kind     string
}

func c30ErrKind(err error) string {
	if err == nil {
		return "ok"
	}
	var ce *ChecksumError
	if errors.As(err, &ce) {
		return "checksum-mismatch"
	}
	var le *LfsError
	if errors.As(err, &le) {
		return "lfs-" + le.Op
	}
	msg := err.Error()
	switch {
	case strings.Contains(msg, "exceeds max"):
		return "over-max"
	case strings.Contains(msg, "unsupported checksum"):
		return "unsupported-alg"
	case strings.Contains(msg, "verif:"):
		return "fetch"
	case strings.Contains(msg, "invalid envelope"):
		return "decode"
	}
	return "other"
}

func c30Run(c c30Case, blob, stored []byte) (c30Result, *c30Fetcher) {
	f := &c30Fetcher{key: c30Key, data: stored, isNil: c.StoreNil}
	if c.FetchErr {
		f.err = errors.New("verif: injected fetch failure")
	}
	value := c30EnvelopeJSON(c, len(blob))
	var res c30Result
	switch c.API {
	case "resolve":
		r := NewResolver(ResolverConfig{MaxSize: c.MaxSize, ValidateChecksum: c.Validate}, f)
		rec, ok, err := r.Resolve(context.Background(), value)
		res.err = err
		if !ok && err == nil {
			res.kind = "not-an-envelope"
			return res, f
		}
		res.payload = rec.Payload
		res.returned = err == nil || len(rec.Payload) > 0
	case "unwrap":
		cons := NewConsumer(f, WithChecksumValidation(c.Validate))
		env, blobOut, err := cons.Unwrap(context.Background(), value)
		res.err = err
		if env == nil && err == nil {
			res.kind = "not-an-envelope"
			return res, f
		}
		res.payload = blobOut
		res.returned = err == nil || len(blobOut) > 0
	}
	res.kind = c30ErrKind(res.err)
	return res, f
}

// c30Judge applies the property statement to one returned payload. It returns violation key + detail, and
// an observation label ("" if none).
func c30Judge(c c30Case, payload []byte) (key, detail, observation string) {
	if c.API == "resolve" && c.MaxSize > 0 && int64(len(payload)) > c.MaxSize {
		return "resolve-served-blob-over-max-size", fmt.Sprintf("payload of %d bytes returned with MaxSize=%d", len(payload), c.MaxSize), ""
	}
	if !c.Validate {
		return "", "", ""
	}
	alg, known := c30Norm(c.Alg)
	if !known {
		return c.API + "-served-blob-for-unknown-checksum-alg", fmt.Sprintf("checksum_alg=%q cannot be verified, yet a payload was returned", c.Alg), ""
	}
	if alg == "none" {
		return "", "", "checksum_alg-none-served-unverified"
	}
	type cand struct{ alg, want string }
	var cands []cand
	if c.Checksum != "" {
		cands = append(cands, cand{alg, c.Checksum})
	}
	if c.SHA256 != "" {
		cands = append(cands, cand{"sha256", c.SHA256})
	}
	if len(cands) == 0 {
		return c.API + "-served-blob-without-declared-checksum", "envelope declares no checksum value at all", ""
	}
	match, contradict := 0, 0
	var notes []string
	for _, cd := range cands {
		got := c30Digest(cd.alg, payload)
		if strings.EqualFold(got, strings.TrimSpace(cd.want)) {
			match++
		} else {
			contradict++
			notes = append(notes, fmt.Sprintf("%s(payload)=%s declared %s", cd.alg, got, cd.want))
		}
	}
	if match == 0 {
		return c.API + "-served-blob-failing-declared-" + alg + "-checksum",
			fmt.Sprintf("returned %d-byte payload %q matches none of the declared checksums: %s", len(payload), c30Short(payload), strings.Join(notes, "; ")), ""
	}
	if contradict > 0 {
		return "", "", "served-matching-one-declared-checksum-contradicting-the-other"
	}
	return "", "", ""
}

func c30Short(b []byte) string {
	if len(b) > 40 {
		return string(b[:40]) + "..."
	}
	return string(b)
}

// --- enumeration -----------------------------------------------------------------------------------

type c30Stored struct {
	class string
	data  []byte
	isNil bool
	err   bool
}

func c30StoredVariants(blob []byte) []c30Stored {
	out := []c30Stored{{class: "exact", data: blob}}
	if len(blob) > 0 {
		out = append(out, c30Stored{class: "bitflip", data: c30Flip(blob)})
		out = append(out, c30Stored{class: "truncated", data: blob[:len(blob)-1]})
	}
	out = append(out, c30Stored{class: "extended", data: append(append([]byte{}, blob...), 0)})
	if len(blob) > 1 {
		out = append(out, c30Stored{class: "empty", data: []byte{}})
	}
	out = append(out,
		c30Stored{class: "nil-no-error", isNil: true},
		c30Stored{class: "fetch-error", isNil: true, err: true},
		c30Stored{class: "data-and-error", data: blob, err: true},
	)
	return out
}

func TestVerifC30(t *testing.T) {
	rep := vh.New(t, "C30")
	defer rep.Finish()
	rep.Rule = "library part: case = (API in Resolve/Unwrap) x validation flag x resolver MaxSize {0,len-1,len,len+1} x checksum_alg " +
		"{sha256,md5,crc32,\"\",SHA256,\" Md5 \",none,bogus} x checksum member {empty, right, digest of the bit-flipped blob, upper-case right, " +
		"right digest of another algorithm} x sha256 member {right, digest of the bit-flipped blob, empty, upper-case} x what the storage " +
		"returns {exact, 1 bit flipped, truncated, extended, empty, nil, fetch error, data+error} x blob; non-trivial = anything but " +
		"'exact object, all members right, no limit'; signature = API, flags, algorithm, member classes, storage class, outcome. " +
		"library history part: ONE long-lived reader instance {Consumer.Unwrap, Resolver.Resolve (MaxSize 0 / len), a new Record per read on one " +
		"Consumer, one Record re-read} x validation flag x envelope form x every ordered sequence of 2 (thorough 3) reads, the stored object being " +
		"rewritten before each read to {intact, 1 bit flipped, truncated, extended, replaced by another valid object, fetch error}: (a) the same " +
		"envelope every time, all envelope forms; (b) sequences naming >= 2 of the envelopes E1=(K1,P) E2=(K1,Q) E3=(K2,P) (shared key / shared " +
		"checksum), core forms; every read is judged like a single-shot case; non-trivial = anything but 'E1 intact every time, all members right'; " +
		"signature = reader, flags, form, per read (envelope, storage state, outcome). " +
		"proxy part (cmd/proxy, handleHTTPDownload with fake s3API): case = request (mode {default,stream,presign} x integrity.sha256 " +
		"{of the uploaded blob, of the stored object, upper-case, padded, unrelated, empty, non-hex, short, no integrity block} x " +
		"integrity.size {len(blob), len(stored), len+1, len-1, omitted, -1} x checksum_alg x proxy max blob) x bucket content {exact, " +
		"bit flipped, truncated, extended, empty, half, read error midway / at end, missing} x blob {1 B, 26 B, 40000 B}; non-trivial = " +
		"anything but 'stream, exact object, right sha256 and size'; signature = request classes, storage class, HTTP status, error code."
	rep.Assumptions = []string{
		"the checksum an envelope declares = (checksum_alg, checksum) when checksum is non-empty, and (sha256, sha256 member); a returned payload must match at least one of them (the reading that accepts the code's documented sha256 fallback); hex digests compare case-insensitively",
		"checksum_alg:none declares no checksum: payloads returned for it are counted as an observation, not a violation",
		"MaxSize <= 0 means no configured limit",
	}
	var cases []c30Case
	var rp c30Case
	if ok, err := vh.LoadReplay(&rp); ok {
		if err != nil {
			t.Fatalf("HARNESS-ERROR C30: replay: %v", err)
		}
		if rp.API == "history" {
			var hc c30HCase
			if _, err := vh.LoadReplay(&hc); err != nil {
				t.Fatalf("HARNESS-ERROR C30: replay: %v", err)
			}
			c30History(t, rep, &hc)
			return
		}
		if rp.API == "concurrent" {
			var cc c30CCase
			if _, err := vh.LoadReplay(&cc); err != nil {
				t.Fatalf("HARNESS-ERROR C30: replay: %v", err)
			}
			c30Concurrent(t, rep, &cc)
			return
		}
		if rp.API != "resolve" && rp.API != "unwrap" {
			t.Skipf("replay belongs to another part of C30 (api=%q)", rp.API)
		}
		cases = []c30Case{rp}
	} else {
		blobs := [][]byte{[]byte("a"), []byte("hello-lfs-blob-0123456789"), {}}
		if vh.Thorough() {
			big := make([]byte, 70000)
			for i := range big {
				big[i] = byte(i*7 + i>>8)
			}
			blobs = append(blobs, big)
		}
		algs := []string{"sha256", "md5", "crc32", "", "SHA256", " Md5 ", "none", "bogus"}
		if vh.Thorough() {
			algs = append(algs, "NONE", "sha-256", "sha256\x00")
		}
		for _, blob := range blobs {
			stored := c30StoredVariants(blob)
			n := int64(len(blob))
			maxes := []int64{0}
			for _, m := range []int64{n - 1, n, n + 1} {
				dup := false
				for _, x := range maxes {
					dup = dup || x == m
				}
				if !dup {
					maxes = append(maxes, m)
				}
			}
			for _, alg := range algs {
				a, _ := c30Norm(alg)
				if a == "none" || (a != "md5" && a != "crc32") {
					a = "sha256"
				}
				other := "sha256"
				if a == "sha256" {
					other = "md5"
				}
				type fv struct{ class, v string }
				cks := []fv{{"empty", ""}, {"right", c30Digest(a, blob)}, {"of-flipped", c30Digest(a, c30Flip(blob))},
					{"upper", strings.ToUpper(c30Digest(a, blob))}, {"other-alg", c30Digest(other, blob)}}
				shas := []fv{{"right", c30Digest("sha256", blob)}, {"of-flipped", c30Digest("sha256", c30Flip(blob))}, {"empty", ""},
					{"upper", strings.ToUpper(c30Digest("sha256", blob))}}
				type am struct {
					api      string
					validate bool
					max      int64
				}
				var apis []am
				for _, v := range []bool{true, false} {
					for _, m := range maxes {
						apis = append(apis, am{"resolve", v, m})
					}
					apis = append(apis, am{"unwrap", v, 0})
				}
				enum.Product([]int{len(apis), len(cks), len(shas), len(stored)}, func(i []int) bool {
					ap, ck, sh, st := apis[i[0]], cks[i[1]], shas[i[2]], stored[i[3]]
					mc := "none"
					switch {
					case ap.max > 0 && ap.max < n:
						mc = "below"
					case ap.max > 0 && ap.max == n:
						mc = "equal"
					case ap.max > n:
						mc = "above"
					case ap.max < 0:
						mc = "negative"
					}
					cases = append(cases, c30Case{API: ap.api, Validate: ap.validate, MaxSize: ap.max, Alg: alg, Checksum: ck.v, SHA256: sh.v,
						BlobB64: base64.StdEncoding.EncodeToString(blob), Stored: st.class, StoreB64: base64.StdEncoding.EncodeToString(st.data),
						StoreNil: st.isNil, FetchErr: st.err, ckClass: ck.class, shaClass: sh.class, maxClass: mc})
					return true
				})
			}
		}
	}
	rep.SetInfo("library_cases", len(cases))
	served, observations := 0, map[string]int64{}
	for _, c := range cases {
		blob, err1 := base64.StdEncoding.DecodeString(c.BlobB64)
		stored, err2 := base64.StdEncoding.DecodeString(c.StoreB64)
		if err1 != nil || err2 != nil {
			t.Fatalf("HARNESS-ERROR C30: bad case encoding")
		}
		res, f := c30Run(c, blob, stored)
		rep.Eval(1)
		if res.kind == "not-an-envelope" {
			t.Fatalf("HARNESS-ERROR C30: generated envelope is not recognised: %s", c30EnvelopeJSON(c, len(blob)))
		}
		if f.other > 0 {
			t.Fatalf("HARNESS-ERROR C30: the reader fetched a key other than the envelope's")
		}
		outcome := res.kind
		if res.returned {
			served++
			outcome = "served/" + res.kind
			key, detail, obs := c30Judge(c, res.payload)
			if obs != "" {
				observations[obs]++
				outcome += "/" + obs
			}
			if key != "" {
				rc := c
				if len(rc.BlobB64) > 200 {
					rc.BlobB64, rc.StoreB64 = "(large; regenerate from the thorough alphabet)", ""
				}
				rep.Violationf(key, rc, "%s(validate=%v,max=%d) envelope %s, storage returned %s object: %s",
					c.API, c.Validate, c.MaxSize, c30Short(c30EnvelopeJSON(c, len(blob))), c.Stored, detail)
			}
		}
		algN, _ := c30Norm(c.Alg)
		sig := strings.Join([]string{c.API, fmt.Sprint(c.Validate), c.maxClass, algN, c.ckClass, c.shaClass, c.Stored, outcome}, "|")
		trivial := c.Stored == "exact" && c.ckClass == "right" && c.shaClass == "right" && c.MaxSize == 0 && (algN == "sha256" || algN == "md5" || algN == "crc32")
		rep.Outcome(sig, !trivial)
		if served <= 2 && res.returned || (c.Stored == "bitflip" && res.kind == "checksum-mismatch" && rep.WantSample()) {
			rep.Sample(map[string]any{"api": c.API, "validate": c.Validate, "max_size": c.MaxSize, "envelope": string(c30EnvelopeJSON(c, len(blob))),
				"storage_returns": c.Stored, "outcome": outcome})
		}
	}
	rep.Count("library_payloads_returned", int64(served))
	for k, v := range observations {
		rep.Count("obs_"+k, v)
	}
	if served == 0 && vh.ReplayFile() == "" {
		t.Fatalf("HARNESS-ERROR C30: no case returned a payload; the check would be vacuous")
	}
	if vh.ReplayFile() == "" {
		c30History(t, rep, nil)
		c30Concurrent(t, rep, nil)
	}
}
