//go:build verif

package lfs

// C30 (part 0, concurrency dimension) — OVERLAPPING reads on ONE long-lived reader.
//
// The single-shot and the history parts run one read at a time. A real consumer resolves records of several
// partitions at once on the same Consumer / Resolver. This file runs 2 (and 3) reads as goroutines on ONE
// reader instance inside a testing/synctest bubble. The fake storage is GATED: every Fetch blocks on its own
// channel until the harness releases it. After every harness action the bubble is brought to quiescence with
// synctest.Wait(), then EVERY enabled next action is explored: start a call that has not been started yet, or
// release one of the pending fetches. All start orders x all release orders (and all their interleavings)
// are enumerated by a stateless depth-first search (odometer over choice lists, one fresh reader and fresh
// goroutines per schedule). No sleeps, no timing: the order of events is fully decided by the harness.
//
// World (same as the history dimension): keys K1, K2, blobs P, Q of equal length, envelopes
//
//	E1 = (K1, declares P)    E2 = (K1, declares Q)    E3 = (K2, declares P)
//
// and the storage holds, per key, one of {P, Q, P with one bit flipped, fetch error}; it does not change
// during a case. Oracle, per call (c30Judge, i.e. the single-shot oracle): a call that returns bytes must
// return bytes that match a checksum declared by the envelope of THAT call.

import (
	"context"
	"encoding/base64"
	"errors"
	"fmt"
	"io"
	"sort"
	"strings"
	"sync"
	"testing"
	"testing/synctest"

	"github.com/KafScale/platform/internal/verif/enum"
	"github.com/KafScale/platform/internal/verif/vh"
)

var c30CStoreStates = []string{"P", "Q", "flipP", "fetch-error"}

type c30CCase struct {
	API      string    `json:"api"`    // "concurrent"
	Reader   string    `json:"reader"` // unwrap | resolve | record-value
	Validate bool      `json:"validate"`
	Alg      string    `json:"alg"`
	CkClass  string    `json:"checksum_class"`
	ShaClass string    `json:"sha256_class"`
	PB64     string    `json:"p_b64"`
	QB64     string    `json:"q_b64"`
	Envs     []int     `json:"envs"`     // envelope of call i (0: E1, 1: E2, 2: E3)
	Store    [2]string `json:"store"`    // what K1, K2 hold
	Schedule []string  `json:"schedule"` // "start:<call>" / "release:<call>" in the order the harness performed them
}

type c30CCallKey struct{}

type c30CFetch struct {
	call int
	key  string
	seq  int
	ch   chan c30Stored
}

// c30CGate is the gated storage: a Fetch registers itself and blocks until the harness releases it.
type c30CGate struct {
	mu      sync.Mutex
	pending []*c30CFetch
	total   int
}

func (g *c30CGate) Fetch(ctx context.Context, key string) ([]byte, error) {
	id := -1
	if v, ok := ctx.Value(c30CCallKey{}).(int); ok {
		id = v
	}
	f := &c30CFetch{call: id, key: key, ch: make(chan c30Stored, 1)}
	g.mu.Lock()
	f.seq = g.total
	g.total++
	g.pending = append(g.pending, f)
	g.mu.Unlock()
	o := <-f.ch
	if o.class == "missing" {
		return nil, errors.New("verif: NoSuchKey " + key)
	}
	if o.err {
		return nil, errors.New("verif: injected fetch failure")
	}
	return append([]byte{}, o.data...), nil
}

func (g *c30CGate) Stream(ctx context.Context, key string) (io.ReadCloser, int64, error) {
	return nil, 0, errors.New("verif: Stream is not part of this check")
}

func (w *c30HWorld) c30CObject(state string) c30Stored {
	switch state {
	case "P":
		return c30Stored{class: state, data: w.p}
	case "Q":
		return c30Stored{class: state, data: w.q}
	case "flipP":
		return c30Stored{class: state, data: c30Flip(w.p)}
	}
	return c30Stored{class: "fetch-error", isNil: true, err: true}
}

type c30CRunOut struct {
	results    []c30Result
	done       []bool
	schedule   []string
	overlap    bool // at some action two calls were started and not finished
	maxPending int
	fetches    int
	herr       string
}

// c30CRun executes ONE schedule on a fresh reader. choose picks the next action among the enabled ones.
// Must be called inside a synctest bubble.
func c30CRun(w *c30HWorld, envs []int, store [2]string, choose func(step int, enabled []string) int) c30CRunOut {
	n := len(envs)
	out := c30CRunOut{results: make([]c30Result, n), done: make([]bool, n)}
	gate := &c30CGate{}
	var res *Resolver
	var cons *Consumer
	if w.reader == "resolve" {
		res = NewResolver(ResolverConfig{MaxSize: w.max, ValidateChecksum: w.validate}, gate)
	} else {
		cons = NewConsumer(gate, WithChecksumValidation(w.validate))
	}
	objOf := func(key string) c30Stored {
		switch key {
		case c30HKey1:
			return w.c30CObject(store[0])
		case c30HKey2:
			return w.c30CObject(store[1])
		}
		return c30Stored{class: "missing"}
	}
	var mu sync.Mutex
	started := make([]bool, n)
	call := func(i int) {
		ctx := context.WithValue(context.Background(), c30CCallKey{}, i)
		value := w.values[envs[i]]
		var r c30Result
		func() {
			defer func() {
				if p := recover(); p != nil {
					r.err = fmt.Errorf("verif: panic in reader: %v", p)
				}
			}()
			switch w.reader {
			case "resolve":
				rec, ok, err := res.Resolve(ctx, value)
				r.err = err
				if !ok && err == nil {
					r.kind = "not-an-envelope"
					return
				}
				r.payload = rec.Payload
			case "unwrap":
				env, blob, err := cons.Unwrap(ctx, value)
				r.err = err
				if env == nil && err == nil {
					r.kind = "not-an-envelope"
					return
				}
				r.payload = blob
			case "record-value":
				blob, err := NewRecord(value, cons).Value(ctx)
				r.err, r.payload = err, blob
			}
		}()
		if r.kind == "" {
			r.returned = r.err == nil || len(r.payload) > 0
			r.kind = c30ErrKind(r.err)
		}
		mu.Lock()
		out.results[i], out.done[i] = r, true
		mu.Unlock()
	}
	for step := 0; ; step++ {
		synctest.Wait()
		gate.mu.Lock()
		pend := append([]*c30CFetch{}, gate.pending...)
		gate.mu.Unlock()
		sort.SliceStable(pend, func(a, b int) bool {
			if pend[a].call != pend[b].call {
				return pend[a].call < pend[b].call
			}
			return pend[a].seq < pend[b].seq
		})
		if len(pend) > out.maxPending {
			out.maxPending = len(pend)
		}
		var enabled []string
		for i := 0; i < n; i++ {
			if !started[i] {
				enabled = append(enabled, fmt.Sprintf("start:%d", i))
			}
		}
		nStart := len(enabled)
		seen := map[int]int{}
		for _, f := range pend {
			name := fmt.Sprintf("release:%d", f.call)
			if k := seen[f.call]; k > 0 {
				name += fmt.Sprintf("#%d", k)
			}
			seen[f.call]++
			enabled = append(enabled, name)
		}
		if len(enabled) == 0 {
			break
		}
		if step > 4*n+8 {
			out.herr = "schedule does not terminate"
			break
		}
		k := choose(step, enabled)
		if k < 0 || k >= len(enabled) {
			out.herr = fmt.Sprintf("choice %d not among the enabled actions %v at step %d", k, enabled, step)
			// drain so that no goroutine is left behind in the bubble
			k = 0
		}
		mu.Lock()
		live := 0
		for i := 0; i < n; i++ {
			if started[i] && !out.done[i] {
				live++
			}
		}
		mu.Unlock()
		if live >= 2 || (live >= 1 && k < nStart) {
			out.overlap = true
		}
		out.schedule = append(out.schedule, enabled[k])
		if k < nStart {
			var i int
			fmt.Sscanf(enabled[k], "start:%d", &i)
			started[i] = true
			go call(i)
		} else {
			f := pend[k-nStart]
			gate.mu.Lock()
			for j, p := range gate.pending {
				if p == f {
					gate.pending = append(gate.pending[:j:j], gate.pending[j+1:]...)
					break
				}
			}
			gate.mu.Unlock()
			f.ch <- objOf(f.key)
		}
	}
	mu.Lock()
	defer mu.Unlock()
	out.fetches = gate.total
	for i := 0; i < n; i++ {
		if !out.done[i] && out.herr == "" {
			out.herr = fmt.Sprintf("call %d has not returned although every call was started and no fetch is pending (schedule %v)", i, out.schedule)
		}
	}
	return out
}

// c30CRelation names how the envelope of the violating call relates to the other calls in flight on the reader.
func c30CRelation(envs []int, i int) string {
	rel := "other-key"
	for j, e := range envs {
		if j == i {
			continue
		}
		sameKey := (e == 2) == (envs[i] == 2)
		switch {
		case sameKey && e != envs[i]:
			return "same-key-different-checksum"
		case e == envs[i]:
			rel = "same-envelope"
		case !sameKey && (e == 1) == (envs[i] == 1) && rel == "other-key":
			rel = "same-checksum-other-key"
		}
	}
	return rel
}

type c30CStats struct {
	cases, schedules, overlapping, calls, served, rejected int64
	maxPending, maxScheds                                  int
	mismatchRejectedWhileMatchServed                       int64 // same key, both overlapping, one served and one rejected
	violations                                             int64
	observations                                           map[string]int64
}

// c30CJudgeRun judges every call of one executed schedule.
func c30CJudgeRun(t *testing.T, rep *vh.Report, w *c30HWorld, cc c30CCase, out c30CRunOut, stats *c30CStats) {
	if out.herr != "" {
		t.Fatalf("HARNESS-ERROR C30: concurrency part: %s (case %+v)", out.herr, cc)
	}
	cc.Schedule = out.schedule
	algN, _ := c30Norm(cc.Alg)
	var sig strings.Builder
	fmt.Fprintf(&sig, "conc|%s|%v|%s|%s|%s|%v|%s,%s|%s", cc.Reader, cc.Validate, algN, cc.CkClass, cc.ShaClass, cc.Envs, cc.Store[0], cc.Store[1], strings.Join(out.schedule, ","))
	trivial := cc.CkClass == "right" && cc.ShaClass == "right" && (algN == "sha256" || algN == "md5" || algN == "crc32") && cc.Store[0] == "P"
	servedK1, rejectedK1 := false, false
	for i, e := range cc.Envs {
		if e != 0 {
			trivial = false
		}
		r := out.results[i]
		stats.calls++
		if r.kind == "not-an-envelope" {
			t.Fatalf("HARNESS-ERROR C30: generated envelope is not recognised: %s", w.values[e])
		}
		outcome := r.kind
		if r.returned {
			stats.served++
			if e != 2 && r.err == nil {
				servedK1 = true
			}
			outcome = "served/" + r.kind
			key, detail, obs := c30Judge(w.judge[e], r.payload)
			if obs != "" {
				stats.observations[obs]++
				outcome += "/" + obs
			}
			if key != "" {
				// same mechanism as a single-shot case if this call ALONE on a fresh reader does the same
				solo := c30CRun(w, []int{e}, cc.Store, func(int, []string) int { return 0 })
				if solo.herr != "" {
					t.Fatalf("HARNESS-ERROR C30: concurrency part (solo run): %s", solo.herr)
				}
				if sk, _, _ := c30Judge(w.judge[e], solo.results[0].payload); !(solo.results[0].returned && sk != "") {
					key = cc.Reader + "-overlapping-call-served-unverified-blob-with-" + c30CRelation(cc.Envs, i) + "-call-in-flight"
				}
				stats.violations++
				rep.Violationf(key, cc, "%s(validate=%v) call #%d of %d OVERLAPPING calls on ONE reader instance, envelope %s, storage holds K1=%s K2=%s: %s (envelopes of the calls: %s; schedule: %s; storage fetches performed: %d)",
					cc.Reader, cc.Validate, i, len(cc.Envs), c30Short(w.values[e]), cc.Store[0], cc.Store[1], detail, c30CDescribe(cc.Envs), strings.Join(out.schedule, " "), out.fetches)
			}
		} else {
			stats.rejected++
			if e != 2 && r.kind == "checksum-mismatch" {
				rejectedK1 = true
			}
		}
		fmt.Fprintf(&sig, "|%s", outcome)
	}
	if out.overlap {
		stats.overlapping++
		if servedK1 && rejectedK1 {
			stats.mismatchRejectedWhileMatchServed++
		}
	}
	if out.maxPending > stats.maxPending {
		stats.maxPending = out.maxPending
	}
	stats.schedules++
	rep.Eval(1)
	rep.Outcome(sig.String(), !trivial)
}

func c30CDescribe(envs []int) string {
	var parts []string
	for i, e := range envs {
		parts = append(parts, fmt.Sprintf("#%d=E%d", i, e+1))
	}
	return strings.Join(parts, " ")
}

// c30CExplore runs every schedule of one case (stateless DFS over the choice lists).
func c30CExplore(t *testing.T, rep *vh.Report, w *c30HWorld, cc c30CCase, stats *c30CStats) {
	var prefix []int
	scheds := 0
	for {
		var widths, taken []int
		out := c30CRun(w, cc.Envs, cc.Store, func(step int, enabled []string) int {
			k := 0
			if step < len(prefix) {
				k = prefix[step]
			}
			widths = append(widths, len(enabled))
			taken = append(taken, k)
			return k
		})
		c30CJudgeRun(t, rep, w, cc, out, stats)
		scheds++
		i := len(widths) - 1
		for i >= 0 && taken[i]+1 >= widths[i] {
			i--
		}
		if i < 0 {
			break
		}
		prefix = append(append([]int{}, taken[:i]...), taken[i]+1)
	}
	if scheds > stats.maxScheds {
		stats.maxScheds = scheds
	}
	stats.cases++
}

// c30Concurrent enumerates the concurrency dimension (or replays one schedule).
func c30Concurrent(t *testing.T, rep *vh.Report, replay *c30CCase) {
	stats := &c30CStats{observations: map[string]int64{}}
	if replay != nil {
		p, err1 := base64.StdEncoding.DecodeString(replay.PB64)
		q, err2 := base64.StdEncoding.DecodeString(replay.QB64)
		if err1 != nil || err2 != nil || len(p) == 0 || len(p) != len(q) || len(replay.Envs) == 0 {
			t.Fatalf("HARNESS-ERROR C30: bad concurrent replay encoding")
		}
		for _, e := range replay.Envs {
			if e < 0 || e > 2 {
				t.Fatalf("HARNESS-ERROR C30: bad concurrent replay envelope")
			}
		}
		w := c30HNewWorld(replay.Reader, replay.Validate, 0, replay.Alg, replay.CkClass, replay.ShaClass, p, q)
		synctest.Test(t, func(t *testing.T) {
			want := replay.Schedule
			out := c30CRun(w, replay.Envs, replay.Store, func(step int, enabled []string) int {
				if step < len(want) {
					for k, a := range enabled {
						if a == want[step] {
							return k
						}
					}
					return -1
				}
				return 0
			})
			c30CJudgeRun(t, rep, w, *replay, out, stats)
		})
		return
	}

	pairs := [][2][]byte{
		{[]byte("a"), []byte("b")},
		{[]byte("hello-lfs-blob-0123456789"), []byte("other-lfs-blob-9876543210")},
	}
	var coreForms []c30HForm
	for _, a := range []string{"sha256", "md5", "crc32", ""} {
		for _, m := range [][2]string{{"right", "right"}, {"empty", "right"}, {"right", "empty"}} {
			coreForms = append(coreForms, c30HForm{a, m[0], m[1]})
		}
	}
	tripleForms := []c30HForm{{"sha256", "right", "right"}, {"md5", "right", "empty"}, {"", "empty", "right"}}
	allConfigs := []c30HConfig{{"unwrap", true, false}, {"resolve", true, false}, {"record-value", true, false},
		{"unwrap", false, false}, {"resolve", false, false}}
	onConfigs := allConfigs[:3]
	triplePairs := pairs[1:]
	if vh.Thorough() {
		tripleForms, onConfigs, triplePairs = coreForms, allConfigs, pairs
	}
	// multisets of envelopes (the start orders are part of the schedule enumeration)
	multisets := func(n int) [][]int {
		var out [][]int
		dims := make([]int, n)
		for i := range dims {
			dims[i] = 3
		}
		enum.Product(dims, func(ix []int) bool {
			for i := 1; i < n; i++ {
				if ix[i] < ix[i-1] {
					return true
				}
			}
			out = append(out, append([]int{}, ix...))
			return true
		})
		return out
	}
	run := func(n int, forms []c30HForm, cfgs []c30HConfig, blobPairs [][2][]byte) {
		for _, pq := range blobPairs {
			pb, qb := base64.StdEncoding.EncodeToString(pq[0]), base64.StdEncoding.EncodeToString(pq[1])
			for _, f := range forms {
				for _, cf := range cfgs {
					w := c30HNewWorld(cf.reader, cf.validate, 0, f.alg, f.ck, f.sha, pq[0], pq[1])
					for _, envs := range multisets(n) {
						usesK2 := false
						for _, e := range envs {
							usesK2 = usesK2 || e == 2
						}
						for _, s1 := range c30CStoreStates {
							for _, s2 := range c30CStoreStates {
								if !usesK2 && s2 != "P" {
									continue // K2 is never read
								}
								if envs[0] == 2 && s1 != "P" {
									continue // K1 is never read (envs sorted: first is E3 => all E3)
								}
								c30CExplore(t, rep, w, c30CCase{API: "concurrent", Reader: cf.reader, Validate: cf.validate, Alg: f.alg,
									CkClass: f.ck, ShaClass: f.sha, PB64: pb, QB64: qb, Envs: envs, Store: [2]string{s1, s2}}, stats)
							}
						}
					}
				}
			}
		}
	}
	// one bubble for the whole enumeration: every schedule creates its own reader, gate and goroutines, and
	// all of them have finished before the next schedule starts
	synctest.Test(t, func(t *testing.T) {
		run(2, coreForms, allConfigs, pairs)
		run(3, tripleForms, onConfigs, triplePairs)
	})

	rep.SetInfo("concurrent_calls_per_case", "2 and 3")
	rep.SetInfo("concurrent_max_schedules_per_case", stats.maxScheds)
	rep.SetInfo("concurrent_max_pending_fetches", stats.maxPending)
	rep.Count("concurrent_cases", stats.cases)
	rep.Count("concurrent_schedules", stats.schedules)
	rep.Count("concurrent_schedules_with_overlapping_calls", stats.overlapping)
	rep.Count("concurrent_calls", stats.calls)
	rep.Count("concurrent_payloads_returned", stats.served)
	rep.Count("concurrent_calls_rejected", stats.rejected)
	rep.Count("concurrent_schedules_mismatching_call_rejected_while_matching_call_on_same_key_served", stats.mismatchRejectedWhileMatchServed)
	for k, v := range stats.observations {
		rep.Count("obs_concurrent_"+k, v)
	}
	if stats.violations == 0 && (stats.overlapping == 0 || stats.maxPending < 2 || stats.mismatchRejectedWhileMatchServed == 0) {
		t.Fatalf("HARNESS-ERROR C30: the concurrency dimension never had two fetches pending at once / never rejected a mismatching call next to a served one; it would be vacuous")
	}
}
