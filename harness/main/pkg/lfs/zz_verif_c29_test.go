//go:build verif

package lfs

// C29 — LFS envelopes round-trip and are recognized by every SDK.
//
// The Go half generates one corpus (Go-encoded envelopes over field alphabets, and byte strings built
// around the detection marker), evaluates the Go reference (EncodeEnvelope / DecodeEnvelope /
// IsLfsEnvelope), then hands the very same bytes to the Python SDK (lfs_sdk/envelope.py, loaded by file
// path under python3) and the JavaScript SDK (src/envelope.ts, type-stripped and run under node) through
// the runner scripts in $VERIF_DIR/harness/sdk/, and compares the three answers item by item.

import (
	"bytes"
	"crypto/md5"
	"crypto/sha256"
	"encoding/base64"
	"encoding/hex"
	"encoding/json"
	"fmt"
	"hash/crc32"
	"os"
	"os/exec"
	"path/filepath"
	"sort"
	"strconv"
	"strings"
	"testing"
	"unicode/utf8"

	"github.com/KafScale/platform/internal/verif/enum"
	"github.com/KafScale/platform/internal/verif/vh"
)

const c29Marker = `"kfs_lfs"`

type c29Raw struct {
	Sub string
	B   []byte
}

type c29Replay struct {
	Class string    `json:"class"` // "raw" | "env"
	Sub   string    `json:"sub,omitempty"`
	B64   string    `json:"b64,omitempty"`
	Text  string    `json:"text,omitempty"` // %q rendering, informational
	Env   *Envelope `json:"env,omitempty"`
}

type c29Res struct {
	Is  *bool          `json:"is"`
	Ok  bool           `json:"ok"`
	Dec map[string]any `json:"dec"`
	Err string         `json:"err"`
}

type c29Out struct {
	Lang    string   `json:"lang"`
	Version string   `json:"version"`
	Env     []c29Res `json:"env"`
	Obs     []c29Res `json:"obs"`
	Raw     string   `json:"raw"`
}

// ---------------------------------------------------------------- corpus: envelopes

func c29Envelopes(thorough bool) []Envelope {
	blob := []byte("a")
	sum := sha256.Sum256(blob)
	sha := hex.EncodeToString(sum[:])
	m5 := md5.Sum(blob)
	md5hex := hex.EncodeToString(m5[:])
	crc := fmt.Sprintf("%08x", crc32.ChecksumIEEE(blob))

	key40 := "ns/topic-0123456789/lfs/2026/01/02/obj-x"
	if len(key40) != 40 {
		panic("c29: key40 is not 40 bytes")
	}
	versions := []int{1}
	buckets := []string{"b", "kafscale-prod-bucket", "bücket-日本語"}
	keys := []string{
		"ns/t/lfs/2026/01/02/obj-1",
		key40,
		"ns/tópico-ключ/lfs/2026/01/02/obj-🔑",
		"ns/q\"uo\\te/lfs/<&>/obj-\n\t \x7f",
		"ns/\"kfs_lfs\"/lfs/obj",
	}
	sizes := []int64{1, 0, 5 << 30, 1<<53 - 1}
	type ck struct{ sum, alg string }
	cks := []ck{{"", ""}, {sha, "sha256"}, {md5hex, "md5"}, {crc, "crc32"}, {"", "none"}}
	cts := []string{"", "application/octet-stream"}
	hdrs := []map[string]string{
		nil,
		{"content-type": "x"},
		{"ключ": "значение 🔑", "q\"k": "v\n", "__proto__": "p"},
	}
	created := []string{"", "2026-01-02T03:04:05Z"}
	proxies := []string{"", "proxy-1"}
	if thorough {
		versions = append(versions, 2, 1<<31-1)
		buckets = append(buckets, strings.Repeat("a", 63))
		keys = append(keys,
			strings.Repeat("k/", 150),
			"ns/é-vs-é/lfs/obj", // NFD vs NFC must not be normalised
			"ns/nul\x00/lfs/�/obj",
			"ns/\U0001F511\U0001F511/lfs/"+strings.Repeat("日", 20),
		)
		sizes = append(sizes, 1<<31, 1<<32+1)
		cts = append(cts, `text/plain; charset="utf-8"`)
		hdrs = append(hdrs, map[string]string{}, map[string]string{"b": "2", "a": "1", "c": ""})
	}
	var out []Envelope
	dims := []int{len(versions), len(buckets), len(keys), len(sizes), len(cks), len(cts), len(hdrs), len(created), len(proxies)}
	enum.Product(dims, func(i []int) bool {
		out = append(out, Envelope{
			Version: versions[i[0]], Bucket: buckets[i[1]], Key: keys[i[2]], Size: sizes[i[3]], SHA256: sha,
			Checksum: cks[i[4]].sum, ChecksumAlg: cks[i[4]].alg, ContentType: cts[i[5]],
			OriginalHeaders: hdrs[i[6]], CreatedAt: created[i[7]], ProxyID: proxies[i[8]],
		})
		return true
	})
	return out
}

// c29ObsEnvelopes: assignments outside what the statement quantifies over (sizes no proxy can produce,
// field values that are not text). Differences here are reported as observations, never as violations.
func c29ObsEnvelopes() []Envelope {
	sum := sha256.Sum256([]byte("a"))
	sha := hex.EncodeToString(sum[:])
	base := Envelope{Version: 1, Bucket: "b", Key: "ns/t/lfs/obj", Size: 1, SHA256: sha}
	var out []Envelope
	for _, sz := range []int64{1 << 53, 1<<53 + 1, 1<<63 - 1, -1} {
		e := base
		e.Size = sz
		out = append(out, e)
	}
	e := base
	e.ContentType = "bin\xff"
	out = append(out, e)
	e = base
	e.OriginalHeaders = map[string]string{"content-type": "\xc3("}
	out = append(out, e)
	return out
}

// ---------------------------------------------------------------- corpus: byte strings

func c29PadBytes(unit string, n int) []byte {
	if n <= 0 {
		return nil
	}
	return []byte(strings.Repeat(unit, n/len(unit)+1))[:n] // may cut a multi-byte character: intended
}

func c29RawCorpus(thorough bool) []c29Raw {
	var out []c29Raw
	seen := map[string]bool{}
	add := func(sub string, b []byte) {
		if seen[string(b)] {
			return
		}
		seen[string(b)] = true
		out = append(out, c29Raw{sub, append([]byte(nil), b...)})
	}
	valid, err := EncodeEnvelope(Envelope{Version: 1, Bucket: "b", Key: "ns/t/lfs/2026/01/02/obj-1", Size: 1, SHA256: "ab", ProxyID: "p"})
	if err != nil {
		panic(err)
	}
	long := `{"kfs_lfs":1,"bucket":"b","key":"k","sha256":"x"}`
	short := `{"kfs_lfs":1}`

	// lengths 13-16 around the 15-byte rule
	add("len", []byte(""))
	for _, s := range []string{`{"kfs_lfs":1}`, `{"kfs_lfs":12}`, `{"kfs_lfs":123}`, `{"kfs_lfs":1234}`, `{"kfs_lfs":""}`, `{"kfs_lfs":{}}`} {
		add("len", []byte(s))
	}
	for k := 0; k <= 8; k++ {
		sp := strings.Repeat(" ", k)
		add("len", []byte(`{"kfs_lfs"`+sp))
		add("len", []byte(`{"kfs_lfs":1`+sp+`}`))
		add("len", []byte(`{`+sp+`"kfs_lfs":1}`))
		add("len", []byte(`{"kfs_lfs":`+sp+`1}`))
	}
	// every prefix of a valid envelope
	for n := 0; n <= len(valid); n++ {
		add("prefix", valid[:n])
	}
	// marker at every position
	maxPos := 60
	if thorough {
		maxPos = 72
	}
	tails := []string{"", ":1}", `:1,"bucket":"b","key":"k","sha256":"x"}`}
	for p := 0; p <= maxPos; p++ {
		for _, unit := range []string{" ", "x", "é", "日", "🔑"} {
			for _, tail := range tails {
				var b []byte
				if p > 0 {
					b = append(b, '{')
					b = append(b, c29PadBytes(unit, p-1)...)
				}
				b = append(b, c29Marker...)
				b = append(b, tail...)
				add("pos", b)
				if p > 0 && len(unit) > 1 {
					// same, with the padding aligned so that whole characters end right before the marker
					n := p - 1
					b2 := []byte{'{'}
					b2 = append(b2, bytes.Repeat([]byte(" "), n%len(unit))...)
					b2 = append(b2, []byte(strings.Repeat(unit, n/len(unit)))...)
					b2 = append(b2, c29Marker...)
					b2 = append(b2, tail...)
					add("pos", b2)
				}
			}
		}
	}
	// a JSON object with the same members in another order: key length pushes the marker across byte 50
	for n := 0; n <= maxPos; n++ {
		for _, unit := range []string{"k", "é", "🔑"} {
			k := strings.Repeat(unit, n/len(unit)) + strings.Repeat("k", n%len(unit))
			add("reorder", []byte(`{"key":"`+k+`","kfs_lfs":1,"bucket":"b","size":1,"sha256":"ab"}`))
		}
	}
	// bytes inserted inside the marker (invalid UTF-8 included)
	multi := []string{"\xc3", "\xe2\x82", "\xf0\x9f\x94", "\xed\xa0\x80", "\xc0\xaf", "\xf8", "\xff\xfe", "\xef\xbb\xbf", "é", "\xc3\xff", "\x80\x80"}
	for off := 0; off <= len(c29Marker); off++ {
		for _, ctx := range []string{long, short} {
			at := 1 + off
			for v := 0; v < 256; v++ {
				b := append([]byte(ctx[:at]), byte(v))
				b = append(b, ctx[at:]...)
				add("insert", b)
			}
			for _, seq := range multi {
				b := append([]byte(ctx[:at]), seq...)
				b = append(b, ctx[at:]...)
				add("insert", b)
			}
		}
	}
	// each marker byte replaced
	for off := 0; off < len(c29Marker); off++ {
		for _, v := range []byte{0xff, 0x00, ' ', 'K', '\'', 0xc3} {
			b := []byte(long)
			b[1+off] = v
			add("replace", b)
		}
	}
	// first byte
	for v := 0; v < 256; v++ {
		b := append([]byte{byte(v)}, valid[1:]...)
		add("first", b)
	}
	for _, pre := range []string{"\xef\xbb\xbf", " ", "\n", "[", "\x00"} {
		add("first", append([]byte(pre), valid...))
	}
	// all token sequences
	tokens := []string{"{", c29Marker, `"kfs_`, `lfs"`, ":1", "}", " ", "\xff", "\xc3", "0123456789", `"KFS_LFS"`, "\xe2\x82"}
	maxTok := 4
	if thorough {
		maxTok = 5
	}
	enum.Sequences(len(tokens), maxTok, func(seq []int) bool {
		var b []byte
		for _, t := range seq {
			b = append(b, tokens[t]...)
		}
		add("tokens", b)
		return true
	})
	sort.SliceStable(out, func(i, j int) bool { return len(out[i].B) < len(out[j].B) })
	return out
}

// ---------------------------------------------------------------- running the SDKs

func c29Env(name, def string) string {
	if v := os.Getenv(name); v != "" {
		return v
	}
	return def
}

// c29SDKPath resolves an SDK source file: a vcheck --mutant entry for it (recorded in the scratch
// overlay.json), else $VERIF_MUTANT_<NAME>, else the file in the repository.
func c29SDKPath(repo, rel, envName string) (string, bool) {
	abs := filepath.Join(repo, rel)
	for _, ov := range []string{filepath.Join(os.Getenv("VERIF_SCRATCH"), "overlay.json")} {
		b, err := os.ReadFile(ov)
		if err != nil {
			continue
		}
		var doc struct{ Replace map[string]string }
		if json.Unmarshal(b, &doc) == nil {
			if p, ok := doc.Replace[abs]; ok && p != "" {
				return p, true
			}
		}
	}
	if p := os.Getenv(envName); p != "" {
		return p, true
	}
	return abs, false
}

func c29RunSDK(t *testing.T, lang string, argv []string, outPath string) c29Out {
	t.Helper()
	if _, err := exec.LookPath(argv[0]); err != nil {
		t.Fatalf("HARNESS-ERROR C29: %s not found in PATH: %v", argv[0], err)
	}
	cmd := exec.Command(argv[0], argv[1:]...)
	cmd.Env = append(os.Environ(), "PYTHONDONTWRITEBYTECODE=1", "PYTHONIOENCODING=utf-8", "NODE_OPTIONS=")
	var stderr bytes.Buffer
	cmd.Stderr = &stderr
	cmd.Stdout = &stderr
	if err := cmd.Run(); err != nil {
		t.Fatalf("HARNESS-ERROR C29: %s runner failed (%v): %s", lang, err, strings.TrimSpace(stderr.String()))
	}
	b, err := os.ReadFile(outPath)
	if err != nil {
		t.Fatalf("HARNESS-ERROR C29: %s runner wrote no output: %v", lang, err)
	}
	var out c29Out
	dec := json.NewDecoder(bytes.NewReader(b))
	dec.UseNumber()
	if err := dec.Decode(&out); err != nil {
		t.Fatalf("HARNESS-ERROR C29: %s runner output unreadable: %v", lang, err)
	}
	return out
}

// ---------------------------------------------------------------- oracle helpers

func c29OptString(dec map[string]any, name string) (string, bool) {
	v, ok := dec[name]
	if !ok || v == nil {
		return "", true
	}
	s, ok := v.(string)
	return s, ok
}

// c29CompareDecoded returns "" when the SDK's decoded object carries the same fields as want, else the
// name of the first differing field. Optional members: Go zero value <=> absent / null / empty.
func c29CompareDecoded(want Envelope, dec map[string]any) (string, string) {
	num := func(name string, w int64) (string, string) {
		n, ok := dec[name].(json.Number)
		if !ok {
			return name, fmt.Sprintf("%s is %T %v, want number %d", name, dec[name], dec[name], w)
		}
		if n.String() != strconv.FormatInt(w, 10) {
			// 1.0 / 1e0 spellings of the same integer are the same value
			if f, err := strconv.ParseFloat(n.String(), 64); err != nil || f != float64(w) || (w > 1<<53 || w < -(1<<53)) {
				return name, fmt.Sprintf("%s=%s, want %d", name, n.String(), w)
			}
		}
		return "", ""
	}
	if f, d := num("kfs_lfs", int64(want.Version)); f != "" {
		return f, d
	}
	if f, d := num("size", want.Size); f != "" {
		return f, d
	}
	for _, r := range []struct {
		name string
		w    string
	}{{"bucket", want.Bucket}, {"key", want.Key}, {"sha256", want.SHA256}, {"checksum", want.Checksum},
		{"checksum_alg", want.ChecksumAlg}, {"content_type", want.ContentType}, {"created_at", want.CreatedAt}, {"proxy_id", want.ProxyID}} {
		got, ok := c29OptString(dec, r.name)
		if !ok || got != r.w {
			return r.name, fmt.Sprintf("%s=%q, want %q", r.name, fmt.Sprint(dec[r.name]), r.w)
		}
	}
	var gotH map[string]any
	if v, ok := dec["original_headers"]; ok && v != nil {
		gotH, ok = v.(map[string]any)
		if !ok {
			return "original_headers", fmt.Sprintf("original_headers is %T", v)
		}
	}
	if len(gotH) != len(want.OriginalHeaders) {
		return "original_headers", fmt.Sprintf("original_headers=%v, want %v", gotH, want.OriginalHeaders)
	}
	for k, w := range want.OriginalHeaders {
		if g, ok := gotH[k].(string); !ok || g != w {
			return "original_headers", fmt.Sprintf("original_headers[%q]=%v, want %q", k, gotH[k], w)
		}
	}
	known := map[string]bool{"kfs_lfs": true, "bucket": true, "key": true, "size": true, "sha256": true, "checksum": true,
		"checksum_alg": true, "content_type": true, "original_headers": true, "created_at": true, "proxy_id": true}
	for k := range dec {
		if !known[k] {
			return "extra:" + k, "unexpected member " + k
		}
	}
	return "", ""
}

func c29GoRoundTrip(want Envelope, data []byte) (string, string) {
	got, err := DecodeEnvelope(data)
	if err != nil {
		return "decode-error", err.Error()
	}
	// compare the struct DecodeEnvelope returned, field by field
	if got.Version != want.Version || got.Size != want.Size {
		return "number", fmt.Sprintf("version/size %d/%d, want %d/%d", got.Version, got.Size, want.Version, want.Size)
	}
	pairs := [][3]string{{"bucket", got.Bucket, want.Bucket}, {"key", got.Key, want.Key}, {"sha256", got.SHA256, want.SHA256},
		{"checksum", got.Checksum, want.Checksum}, {"checksum_alg", got.ChecksumAlg, want.ChecksumAlg},
		{"content_type", got.ContentType, want.ContentType}, {"created_at", got.CreatedAt, want.CreatedAt}, {"proxy_id", got.ProxyID, want.ProxyID}}
	for _, p := range pairs {
		if p[1] != p[2] {
			return p[0], fmt.Sprintf("%s=%q, want %q", p[0], p[1], p[2])
		}
	}
	if len(got.OriginalHeaders) != len(want.OriginalHeaders) {
		return "original_headers", fmt.Sprintf("%v, want %v", got.OriginalHeaders, want.OriginalHeaders)
	}
	for k, w := range want.OriginalHeaders {
		if g, ok := got.OriginalHeaders[k]; !ok || g != w {
			return "original_headers", fmt.Sprintf("[%q]=%q, want %q", k, g, w)
		}
	}
	return "", ""
}

func c29Bit(b bool) string {
	if b {
		return "1"
	}
	return "0"
}

// c29DetectKey classifies a disagreement of the three predicates by mechanism.
func c29DetectKey(b []byte, g, p, j byte) string {
	pre := b
	if len(pre) > 50 {
		pre = pre[:50]
	}
	switch {
	case g == 'E' || p == 'E' || j == 'E':
		return fmt.Sprintf("detect-predicate-threw-go%c-py%c-js%c", g, p, j)
	case j == '1' && g == '0' && p == '0' && len(b) < 15:
		return "detect-js-accepts-value-shorter-than-15-bytes"
	case p == '1' && g == '0' && j == '0' && !utf8.Valid(pre):
		return "detect-python-drops-invalid-utf8-inside-marker"
	case g == '1' && p == '1' && j == '0' && !utf8.Valid(pre):
		return "detect-js-misses-marker-next-to-invalid-utf8"
	}
	return fmt.Sprintf("detect-disagree-go%c-py%c-js%c", g, p, j)
}

func c29MarkerClass(b []byte) string {
	i := bytes.Index(b, []byte(c29Marker))
	switch {
	case i < 0:
		if bytes.Contains(b, []byte("kfs")) || bytes.Contains(b, []byte("lfs")) {
			return "pieces"
		}
		return "none"
	case i+len(c29Marker) <= 50:
		return "in" + strconv.Itoa(i/10)
	case i < 50:
		return "straddle"
	}
	return "beyond"
}

// ---------------------------------------------------------------- the check

func TestVerifC29(t *testing.T) {
	rep := vh.New(t, "C29")
	defer rep.Finish()
	rep.Rule = "case = one corpus item evaluated by all three libraries. (a) envelopes: every assignment of the field " +
		"alphabets (bucket, key incl. unicode / 40-char / escapes, size, checksum+alg, content type, header map, created_at, " +
		"proxy_id), encoded by Go's EncodeEnvelope, decoded and detected by Go, Python and JS; non-trivial = at least one " +
		"optional member present or non-ASCII content. (b) byte strings: lengths 13-16, every prefix of a valid envelope, the " +
		"marker at every byte position (5 padding alphabets, 3 tails), reordered JSON objects, every byte value and 11 " +
		"multi-byte sequences inserted at every offset of the marker, every first byte, all sequences of <= N tokens over a " +
		"12-token alphabet of marker pieces; non-trivial = the string contains a marker piece or some predicate answers true. " +
		"Signature = generator class, the three answers, length class, marker position class, UTF-8 validity of the first 50 bytes."
	rep.Assumptions = []string{
		"python3 and node (v20) of the build machine execute the SDK sources; the TypeScript file is run after a regex-level type stripper (annotations only; no statement is rewritten); a strip or load failure is a harness error",
		"'envelope the proxy produces' = lfs.EncodeEnvelope of an Envelope whose string members are valid UTF-8 and whose size is < 2^53; sizes beyond that and non-UTF-8 member values are run too but only reported as observations",
		"optional members: Go zero value, JSON absence, Python None and JS undefined are the same value",
	}
	thorough := vh.Thorough()
	repo := c29Env("VERIF_REPO", "/repo")
	vdir := c29Env("VERIF_DIR", "/verif")
	scratch := os.Getenv("VERIF_SCRATCH")
	if scratch == "" {
		scratch = t.TempDir()
	}
	work, err := os.MkdirTemp(scratch, "c29-")
	if err != nil {
		t.Fatalf("HARNESS-ERROR C29: scratch dir: %v", err)
	}

	envs := c29Envelopes(thorough)
	obs := c29ObsEnvelopes()
	raws := c29RawCorpus(thorough)
	var rp c29Replay
	if ok, err := vh.LoadReplay(&rp); ok {
		if err != nil {
			t.Fatalf("HARNESS-ERROR C29: replay: %v", err)
		}
		envs, obs, raws = nil, nil, nil
		if rp.Class == "env" && rp.Env != nil {
			envs = []Envelope{*rp.Env}
		} else {
			b, err := base64.StdEncoding.DecodeString(rp.B64)
			if err != nil {
				t.Fatalf("HARNESS-ERROR C29: replay b64: %v", err)
			}
			raws = []c29Raw{{rp.Sub, b}}
		}
	}
	rep.SetInfo("envelopes", len(envs))
	rep.SetInfo("byte_strings", len(raws))
	rep.SetInfo("observation_envelopes", len(obs))
	rep.SetInfo("token_sequence_max_len", map[bool]int{false: 4, true: 5}[thorough])

	// Go side
	type corpusDoc struct {
		Env []string `json:"env"`
		Obs []string `json:"obs"`
		Raw []string `json:"raw"`
	}
	doc := corpusDoc{Env: []string{}, Obs: []string{}, Raw: []string{}}
	encode := func(list []Envelope) [][]byte {
		var out [][]byte
		for _, e := range list {
			b, err := EncodeEnvelope(e)
			if err != nil {
				t.Fatalf("HARNESS-ERROR C29: EncodeEnvelope(%+v): %v", e, err)
			}
			out = append(out, b)
		}
		return out
	}
	envBytes, obsBytes := encode(envs), encode(obs)
	for _, b := range envBytes {
		doc.Env = append(doc.Env, base64.StdEncoding.EncodeToString(b))
	}
	for _, b := range obsBytes {
		doc.Obs = append(doc.Obs, base64.StdEncoding.EncodeToString(b))
	}
	for _, r := range raws {
		doc.Raw = append(doc.Raw, base64.StdEncoding.EncodeToString(r.B))
	}
	corpusPath := filepath.Join(work, "corpus.json")
	cb, _ := json.Marshal(doc)
	if err := os.WriteFile(corpusPath, cb, 0o644); err != nil {
		t.Fatalf("HARNESS-ERROR C29: write corpus: %v", err)
	}

	pyPath, pyMut := c29SDKPath(repo, "lfs-client-sdk/python/lfs_sdk/envelope.py", "VERIF_MUTANT_PY")
	jsPath, jsMut := c29SDKPath(repo, "lfs-client-sdk/js/src/envelope.ts", "VERIF_MUTANT_JS")
	if pyMut || jsMut {
		rep.SetInfo("sdk_files_replaced", map[string]string{"python": pyPath, "js": jsPath})
	}
	pyOut := c29RunSDK(t, "python", []string{"python3", filepath.Join(vdir, "harness/sdk/c29_runner.py"), pyPath, corpusPath, filepath.Join(work, "out_py.json")}, filepath.Join(work, "out_py.json"))
	jsOut := c29RunSDK(t, "js", []string{"node", filepath.Join(vdir, "harness/sdk/c29_runner.js"), jsPath, corpusPath, filepath.Join(work, "out_js.json"), work}, filepath.Join(work, "out_js.json"))
	rep.SetInfo("interpreters", map[string]string{"python": pyOut.Version, "node": jsOut.Version})
	for _, o := range []c29Out{pyOut, jsOut} {
		if len(o.Env) != len(envs) || len(o.Obs) != len(obs) || len(o.Raw) != len(raws) {
			t.Fatalf("HARNESS-ERROR C29: %s runner answered %d/%d/%d items, corpus has %d/%d/%d", o.Lang, len(o.Env), len(o.Obs), len(o.Raw), len(envs), len(obs), len(raws))
		}
	}

	// (a) envelopes
	sdks := []struct {
		name string
		out  c29Out
	}{{"python", pyOut}, {"js", jsOut}}
	for i, e := range envs {
		data := envBytes[i]
		rep.Eval(1)
		e := e
		replay := c29Replay{Class: "env", Env: &e, Text: string(data)}
		sig := []string{"env"}
		opt := 0
		for bi, present := range []bool{e.Checksum != "", e.ChecksumAlg != "", e.ContentType != "", len(e.OriginalHeaders) > 0, e.CreatedAt != "", e.ProxyID != ""} {
			if present {
				opt |= 1 << bi
			}
		}
		ascii := true
		for _, c := range data {
			if c >= 0x80 {
				ascii = false
			}
		}
		sig = append(sig, strconv.Itoa(opt), c29Bit(ascii), strconv.Itoa(len(e.Key)/20), strconv.Itoa(len(strconv.FormatInt(e.Size, 10))/4), strconv.Itoa(len(e.OriginalHeaders)))
		if !IsLfsEnvelope(data) {
			rep.Violationf("env-not-detected-go", replay, "Go IsLfsEnvelope rejects the Go-encoded envelope %s", data)
		}
		if f, d := c29GoRoundTrip(e, data); f != "" {
			rep.Violationf("env-roundtrip-go-"+f, replay, "Go DecodeEnvelope(EncodeEnvelope(e)) differs: %s; json=%s", d, data)
		}
		for _, s := range sdks {
			r := s.out.Env[i]
			switch {
			case r.Is == nil:
				rep.Violationf("env-predicate-threw-"+s.name, replay, "%s: %s; json=%s", s.name, r.Err, data)
			case !*r.Is:
				rep.Violationf("env-not-detected-"+s.name, replay, "%s does not recognise the Go-encoded envelope %s", s.name, data)
			}
			if !r.Ok {
				rep.Violationf("env-decode-error-"+s.name, replay, "%s cannot decode the Go-encoded envelope: %s; json=%s", s.name, r.Err, data)
				sig = append(sig, s.name+":err")
				continue
			}
			if f, d := c29CompareDecoded(e, r.Dec); f != "" {
				rep.Violationf("env-decode-field-"+s.name+"-"+strings.SplitN(f, ":", 2)[0], replay, "%s decodes a different %s: %s; json=%s", s.name, f, d, data)
				sig = append(sig, s.name+":"+f)
			}
		}
		rep.Outcome(strings.Join(sig, "|"), opt != 0 || !ascii)
		if i == 0 || i == len(envs)/2 || i == len(envs)-1 {
			rep.Sample(map[string]any{"class": "envelope", "json": string(data), "detected": "go,python,js", "decoded_equal": true})
		}
	}

	// observations (never violations)
	obsNotes := map[string]int{}
	for i, e := range obs {
		data := obsBytes[i]
		rep.Eval(1)
		if f, _ := c29GoRoundTrip(e, data); f != "" {
			obsNotes["go:"+f]++
		}
		for _, s := range sdks {
			r := s.out.Obs[i]
			if !r.Ok {
				obsNotes[s.name+":decode-error"]++
			} else if f, _ := c29CompareDecoded(e, r.Dec); f != "" {
				obsNotes[s.name+":"+f]++
			}
			if r.Is == nil || !*r.Is {
				obsNotes[s.name+":not-detected"]++
			}
		}
		rep.Outcome("obs|"+strconv.Itoa(i), false)
	}
	if len(obsNotes) > 0 {
		rep.SetInfo("observations_outside_quantifier", obsNotes)
	}

	// (b) byte strings
	perClass := map[string]int{}
	sampled := map[string]bool{}
	for i, r := range raws {
		rep.Eval(1)
		perClass[r.Sub]++
		g := byte('0')
		if IsLfsEnvelope(r.B) {
			g = '1'
		}
		p, j := pyOut.Raw[i], jsOut.Raw[i]
		pre := r.B
		if len(pre) > 50 {
			pre = pre[:50]
		}
		lc := "ge50"
		switch {
		case len(r.B) < 15:
			lc = "lt15"
		case len(r.B) < 50:
			lc = "lt50"
		}
		mc := c29MarkerClass(r.B)
		first := len(r.B) > 0 && r.B[0] == '{'
		sig := strings.Join([]string{"raw", r.Sub, string([]byte{g, p, j}), lc, mc, c29Bit(utf8.Valid(pre)), c29Bit(first)}, "|")
		rep.Outcome(sig, mc != "none" || g == '1' || p == '1' || j == '1')
		if g != p || g != j {
			key := c29DetectKey(r.B, g, p, j)
			rep.Violationf(key, c29Replay{Class: "raw", Sub: r.Sub, B64: base64.StdEncoding.EncodeToString(r.B), Text: fmt.Sprintf("%q", r.B)},
				"is-envelope predicates disagree on %q (%d bytes): go=%c python=%c js=%c", r.B, len(r.B), g, p, j)
		}
		if !sampled[r.Sub] && g == '1' {
			sampled[r.Sub] = true
			rep.Sample(map[string]any{"class": "bytes/" + r.Sub, "value": fmt.Sprintf("%q", r.B), "go": string(g), "python": string(p), "js": string(j)})
		}
	}
	rep.SetInfo("byte_strings_per_generator", perClass)
}
