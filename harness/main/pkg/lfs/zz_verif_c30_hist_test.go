//go:build verif

package lfs

// C30 (part 0, history dimension) — long-lived readers.
//
// The single-shot part builds a fresh reader per case. Real readers live for the whole consumer session and
// see the same envelope again (rewind, replay, duplicate record) while the storage is untrusted the whole
// time. This file enumerates every ordered sequence of reads on ONE reader instance, the stored object being
// mutated between the reads, and applies the single-shot oracle (c30Judge) to EVERY read: a returned payload
// must match a checksum the envelope of THAT read declares.
//
// World: two keys K1, K2 and two blobs P, Q (same length). Envelopes, all written in the same form
// (checksum_alg x checksum member class x sha256 member class):
//
//	E1 = (K1, declares P)    E2 = (K1, declares Q)  -- shares the key with E1
//	E3 = (K2, declares P)                           -- shares the checksum with E1
//
// Step = (envelope, state of that envelope's key set just before the read), state relative to the blob X
// the envelope declares: intact (X), tampered same size (1 bit flipped), truncated, extended, replaced by
// the other valid object, read error.

import (
	"context"
	"encoding/base64"
	"errors"
	"fmt"
	"io"
	"strconv"
	"strings"
	"testing"

	"github.com/KafScale/platform/internal/verif/enum"
	"github.com/KafScale/platform/internal/verif/vh"
)

const (
	c30HKey1 = "ns/topic/lfs/2026/01/02/obj-c30-h1"
	c30HKey2 = "ns/topic/lfs/2026/01/02/obj-c30-h2"
)

var c30HStates = []string{"intact", "bitflip", "truncated", "extended", "replaced", "fetch-error"}

type c30HStep struct {
	Env   int    `json:"env"`   // 0: E1 (K1, declares P)  1: E2 (K1, declares Q)  2: E3 (K2, declares P)
	State string `json:"state"` // what the storage holds under that envelope's key when the read happens
}

type c30HCase struct {
	API      string     `json:"api"`    // "history"
	Reader   string     `json:"reader"` // resolve | unwrap | record-value | record-reread
	Validate bool       `json:"validate"`
	MaxSize  int64      `json:"max_size"`
	Alg      string     `json:"alg"`
	CkClass  string     `json:"checksum_class"`
	ShaClass string     `json:"sha256_class"`
	PB64     string     `json:"p_b64"`
	QB64     string     `json:"q_b64"`
	Steps    []c30HStep `json:"steps"`
}

// c30HStore is a mutable object store: the harness rewrites an object between two reads.
type c30HStore struct {
	objs map[string]c30Stored
}

func (s *c30HStore) Fetch(ctx context.Context, key string) ([]byte, error) {
	o, ok := s.objs[key]
	if !ok {
		return nil, errors.New("verif: NoSuchKey " + key)
	}
	if o.err {
		return nil, errors.New("verif: injected fetch failure")
	}
	return append([]byte{}, o.data...), nil
}

func (s *c30HStore) Stream(ctx context.Context, key string) (io.ReadCloser, int64, error) {
	return nil, 0, errors.New("verif: Stream is not part of this check")
}

// c30HMembers computes the checksum / sha256 members of an envelope declaring blob, by class (same classes
// as the single-shot enumeration).
func c30HMembers(alg, ckClass, shaClass string, blob []byte) (ck, sha string) {
	a, _ := c30Norm(alg)
	if a != "md5" && a != "crc32" {
		a = "sha256"
	}
	other := "sha256"
	if a == "sha256" {
		other = "md5"
	}
	switch ckClass {
	case "right":
		ck = c30Digest(a, blob)
	case "of-flipped":
		ck = c30Digest(a, c30Flip(blob))
	case "upper":
		ck = strings.ToUpper(c30Digest(a, blob))
	case "other-alg":
		ck = c30Digest(other, blob)
	}
	switch shaClass {
	case "right":
		sha = c30Digest("sha256", blob)
	case "of-flipped":
		sha = c30Digest("sha256", c30Flip(blob))
	case "upper":
		sha = strings.ToUpper(c30Digest("sha256", blob))
	}
	return ck, sha
}

func c30HEnvelopeJSON(key, alg, ck, sha string, size int) []byte {
	s := `{"kfs_lfs":1,"bucket":"b","key":` + strconv.Quote(key) + `,"size":` + strconv.Itoa(size) + `,"sha256":` + strconv.Quote(sha)
	if ck != "" {
		s += `,"checksum":` + strconv.Quote(ck)
	}
	if alg != "" {
		s += `,"checksum_alg":` + strconv.Quote(alg)
	}
	return []byte(s + "}")
}

func c30HStateObject(state string, declared, other []byte) c30Stored {
	switch state {
	case "intact":
		return c30Stored{class: state, data: declared}
	case "bitflip":
		return c30Stored{class: state, data: c30Flip(declared)}
	case "truncated":
		return c30Stored{class: state, data: declared[:len(declared)-1]}
	case "extended":
		return c30Stored{class: state, data: append(append([]byte{}, declared...), 0)}
	case "replaced":
		return c30Stored{class: state, data: other}
	}
	return c30Stored{class: "fetch-error", isNil: true, err: true}
}

// c30HWorld is everything that is fixed for one (blob pair, envelope form, reader configuration).
type c30HWorld struct {
	reader   string
	validate bool
	max      int64
	p, q     []byte
	keys     [3]string
	declared [3][]byte
	other    [3][]byte
	values   [3][]byte  // envelope record values
	judge    [3]c30Case // what c30Judge needs to know about each envelope
}

func c30HNewWorld(reader string, validate bool, max int64, alg, ckClass, shaClass string, p, q []byte) *c30HWorld {
	w := &c30HWorld{reader: reader, validate: validate, max: max, p: p, q: q}
	w.keys = [3]string{c30HKey1, c30HKey1, c30HKey2}
	w.declared = [3][]byte{p, q, p}
	w.other = [3][]byte{q, p, q}
	api := reader
	if reader != "resolve" {
		api = "unwrap" // MaxSize is a Resolver setting
	}
	for e := 0; e < 3; e++ {
		ck, sha := c30HMembers(alg, ckClass, shaClass, w.declared[e])
		w.values[e] = c30HEnvelopeJSON(w.keys[e], alg, ck, sha, len(w.declared[e]))
		w.judge[e] = c30Case{API: api, Validate: validate, MaxSize: max, Alg: alg, Checksum: ck, SHA256: sha}
	}
	return w
}

type c30HReader struct {
	w     *c30HWorld
	store *c30HStore
	res   *Resolver
	cons  *Consumer
	recs  map[int]*Record
}

func (w *c30HWorld) newReader() *c30HReader {
	r := &c30HReader{w: w, store: &c30HStore{objs: map[string]c30Stored{}}}
	switch w.reader {
	case "resolve":
		r.res = NewResolver(ResolverConfig{MaxSize: w.max, ValidateChecksum: w.validate}, r.store)
	default:
		r.cons = NewConsumer(r.store, WithChecksumValidation(w.validate))
		r.recs = map[int]*Record{}
	}
	return r
}

// read mutates the storage as the step says, then performs one read of the step's envelope on the reader.
func (r *c30HReader) read(st c30HStep) c30Result {
	w := r.w
	r.store.objs[w.keys[st.Env]] = c30HStateObject(st.State, w.declared[st.Env], w.other[st.Env])
	value := w.values[st.Env]
	var res c30Result
	switch w.reader {
	case "resolve":
		rec, ok, err := r.res.Resolve(context.Background(), value)
		res.err = err
		if !ok && err == nil {
			res.kind = "not-an-envelope"
			return res
		}
		res.payload = rec.Payload
	case "unwrap":
		env, blob, err := r.cons.Unwrap(context.Background(), value)
		res.err = err
		if env == nil && err == nil {
			res.kind = "not-an-envelope"
			return res
		}
		res.payload = blob
	case "record-value": // the documented loop: one Consumer, a new Record per Kafka record
		blob, err := NewRecord(value, r.cons).Value(context.Background())
		res.err, res.payload = err, blob
	case "record-reread": // one Record read again and again
		rec := r.recs[st.Env]
		if rec == nil {
			rec = NewRecord(value, r.cons)
			r.recs[st.Env] = rec
		}
		blob, err := rec.Value(context.Background())
		res.err, res.payload = err, blob
	}
	res.returned = res.err == nil || len(res.payload) > 0
	res.kind = c30ErrKind(res.err)
	return res
}

// c30HRelation names how the violating read is related to the earlier reads on the same reader.
func c30HRelation(steps []c30HStep, i int) string {
	sameKey := func(a, b int) bool { return (a == 2) == (b == 2) }
	sameSum := func(a, b int) bool { return (a == 1) == (b == 1) }
	rel := ""
	for j := 0; j < i; j++ {
		switch {
		case steps[j].Env == steps[i].Env:
			return "same-envelope"
		case sameKey(steps[j].Env, steps[i].Env):
			rel = "same-key-envelope"
		case sameSum(steps[j].Env, steps[i].Env) && rel == "":
			rel = "same-checksum-envelope"
		}
	}
	if rel == "" {
		rel = "unrelated-envelope"
	}
	return rel
}

type c30HStats struct {
	seqs, reads, served, rejected, servedAfterChange, rejectedAfterChange int64
	observations                                                          map[string]int64
}

// c30HRunCase executes one history on one reader instance and judges every read.
func c30HRunCase(t *testing.T, rep *vh.Report, w *c30HWorld, hc c30HCase, stats *c30HStats) {
	rd := w.newReader()
	var sig strings.Builder
	algN, _ := c30Norm(hc.Alg)
	fmt.Fprintf(&sig, "history|%s|%v|%d|%s|%s|%s", hc.Reader, hc.Validate, hc.MaxSize, algN, hc.CkClass, hc.ShaClass)
	trivial := hc.CkClass == "right" && hc.ShaClass == "right" && hc.MaxSize == 0 && (algN == "sha256" || algN == "md5" || algN == "crc32")
	changed := false
	for i, st := range hc.Steps {
		res := rd.read(st)
		stats.reads++
		if res.kind == "not-an-envelope" {
			t.Fatalf("HARNESS-ERROR C30: generated envelope is not recognised: %s", w.values[st.Env])
		}
		if st.State != "intact" || st.Env != 0 {
			trivial = false
		}
		if i > 0 && (st.State != hc.Steps[i-1].State || st.Env != hc.Steps[i-1].Env) {
			changed = true
		}
		outcome := res.kind
		if res.returned {
			stats.served++
			if changed {
				stats.servedAfterChange++
			}
			outcome = "served/" + res.kind
			key, detail, obs := c30Judge(w.judge[st.Env], res.payload)
			if obs != "" {
				stats.observations[obs]++
				outcome += "/" + obs
			}
			if key != "" {
				// same mechanism as a single-shot case if a fresh reader does the same on this very read
				fresh := w.newReader().read(st)
				if fk, _, _ := c30Judge(w.judge[st.Env], fresh.payload); !(fresh.returned && fk != "") {
					key = hc.Reader + "-later-read-served-unverified-blob-after-" + c30HRelation(hc.Steps, i)
				}
				rep.Violationf(key, hc, "%s(validate=%v,max=%d) read #%d of %d on ONE reader instance, envelope %s, storage now holds the %s object: %s (earlier reads: %s)",
					hc.Reader, hc.Validate, hc.MaxSize, i+1, len(hc.Steps), c30Short(w.values[st.Env]), st.State, detail, c30HDescribe(hc.Steps[:i]))
			}
		} else {
			stats.rejected++
			if changed {
				stats.rejectedAfterChange++
			}
		}
		fmt.Fprintf(&sig, "|E%d:%s:%s", st.Env+1, st.State, outcome)
	}
	stats.seqs++
	rep.Eval(1)
	rep.Outcome(sig.String(), !trivial)
}

func c30HDescribe(steps []c30HStep) string {
	var parts []string
	for _, s := range steps {
		parts = append(parts, fmt.Sprintf("E%d with %s object", s.Env+1, s.State))
	}
	if len(parts) == 0 {
		return "none"
	}
	return strings.Join(parts, ", then ")
}

type c30HForm struct{ alg, ck, sha string }

type c30HConfig struct {
	reader   string
	validate bool
	maxLen   bool // MaxSize = len(P) instead of 0
}

// c30History enumerates the history dimension (or replays one history).
func c30History(t *testing.T, rep *vh.Report, replay *c30HCase) {
	stats := &c30HStats{observations: map[string]int64{}}
	if replay != nil {
		p, err1 := base64.StdEncoding.DecodeString(replay.PB64)
		q, err2 := base64.StdEncoding.DecodeString(replay.QB64)
		if err1 != nil || err2 != nil || len(p) == 0 || len(p) != len(q) {
			t.Fatalf("HARNESS-ERROR C30: bad history replay encoding")
		}
		for _, s := range replay.Steps {
			if s.Env < 0 || s.Env > 2 {
				t.Fatalf("HARNESS-ERROR C30: bad history replay step")
			}
		}
		w := c30HNewWorld(replay.Reader, replay.Validate, replay.MaxSize, replay.Alg, replay.CkClass, replay.ShaClass, p, q)
		c30HRunCase(t, rep, w, *replay, stats)
		return
	}
	depth := 2
	if vh.Thorough() {
		depth = 3
	}
	pairs := [][2][]byte{
		{[]byte("a"), []byte("b")},
		{[]byte("hello-lfs-blob-0123456789"), []byte("other-lfs-blob-9876543210")},
	}
	algs := []string{"sha256", "md5", "crc32", "", "SHA256", " Md5 ", "none", "bogus"}
	cks := []string{"empty", "right", "of-flipped", "upper", "other-alg"}
	shas := []string{"right", "of-flipped", "empty", "upper"}
	var fullForms, coreForms []c30HForm
	for _, a := range algs {
		for _, ck := range cks {
			for _, sh := range shas {
				fullForms = append(fullForms, c30HForm{a, ck, sh})
			}
		}
	}
	for _, a := range []string{"sha256", "md5", "crc32", ""} {
		for _, m := range [][2]string{{"right", "right"}, {"empty", "right"}, {"right", "empty"}} {
			coreForms = append(coreForms, c30HForm{a, m[0], m[1]})
		}
	}
	configs := []c30HConfig{
		{"unwrap", true, false}, {"resolve", true, false}, {"resolve", true, true}, {"record-value", true, false},
		{"unwrap", false, false}, {"resolve", false, false}, {"resolve", false, true},
	}
	// (a) the SAME envelope read again and again: all envelope forms, all state sequences
	// (b) two or three different envelopes sharing a key or a checksum: core forms, all (envelope,state) sequences
	//     that name at least two different envelopes
	type step = c30HStep
	var sameSeqs, mixSeqs [][]c30HStep
	ns := len(c30HStates)
	dims := make([]int, depth)
	for i := range dims {
		dims[i] = ns
	}
	enum.Product(dims, func(ix []int) bool {
		s := make([]c30HStep, depth)
		for i, v := range ix {
			s[i] = step{Env: 0, State: c30HStates[v]}
		}
		sameSeqs = append(sameSeqs, s)
		return true
	})
	for i := range dims {
		dims[i] = 3 * ns
	}
	enum.Product(dims, func(ix []int) bool {
		s := make([]c30HStep, depth)
		distinct := false
		for i, v := range ix {
			s[i] = step{Env: v / ns, State: c30HStates[v%ns]}
			distinct = distinct || s[i].Env != s[0].Env
		}
		if distinct {
			mixSeqs = append(mixSeqs, s)
		}
		return true
	})
	run := func(forms []c30HForm, cfgs []c30HConfig, seqs [][]c30HStep) {
		for _, pq := range pairs {
			pb, qb := base64.StdEncoding.EncodeToString(pq[0]), base64.StdEncoding.EncodeToString(pq[1])
			for _, f := range forms {
				for _, cf := range cfgs {
					var max int64
					if cf.maxLen {
						max = int64(len(pq[0]))
					}
					w := c30HNewWorld(cf.reader, cf.validate, max, f.alg, f.ck, f.sha, pq[0], pq[1])
					for _, s := range seqs {
						c30HRunCase(t, rep, w, c30HCase{API: "history", Reader: cf.reader, Validate: cf.validate, MaxSize: max,
							Alg: f.alg, CkClass: f.ck, ShaClass: f.sha, PB64: pb, QB64: qb, Steps: s}, stats)
					}
				}
			}
		}
	}
	run(fullForms, append(append([]c30HConfig{}, configs...), c30HConfig{"record-reread", true, false}), sameSeqs)
	run(coreForms, configs, mixSeqs)

	rep.SetInfo("history_depth", depth)
	rep.SetInfo("history_same_envelope_sequences", len(sameSeqs))
	rep.SetInfo("history_interleaved_envelope_sequences", len(mixSeqs))
	rep.Count("history_sequences", stats.seqs)
	rep.Count("history_reads", stats.reads)
	rep.Count("history_payloads_returned", stats.served)
	rep.Count("history_reads_rejected", stats.rejected)
	rep.Count("history_payloads_returned_after_storage_or_envelope_change", stats.servedAfterChange)
	rep.Count("history_reads_rejected_after_storage_or_envelope_change", stats.rejectedAfterChange)
	for k, v := range stats.observations {
		rep.Count("obs_history_"+k, v)
	}
	if stats.servedAfterChange == 0 || stats.rejectedAfterChange == 0 {
		t.Fatalf("HARNESS-ERROR C30: the history dimension never served / never rejected a later read; it would be vacuous")
	}
}
