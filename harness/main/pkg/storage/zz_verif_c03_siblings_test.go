//go:build verif

package storage

// C03 world dimension "siblings": the bucket of the partition under test also holds the
// flushed segments of other logs whose object keys are textual neighbours of its own
// keys. They are written once, by real PartitionLogs, before the history starts and are
// never touched again (static background). Whatever the history does — in particular a
// reopen from S3, which lists the bucket by key prefix — every read of the partition
// under test must still return only its own acknowledged batches.

import (
	"bytes"
	"context"
	"fmt"
	"strings"
)

// c03Worlds is the world alphabet, simplest first.
//
//	plain    : partition under test t/0, mirrored decoys t/1 and u/0
//	siblings : partition under test t/1, mirrored decoys t/2 and u/1, static siblings c03SiblingSpecs
var c03Worlds = []string{"plain", "siblings"}

// c03SiblingSpec is one static sibling log: script over {a,b,c: append a 1-/2-/3-record
// batch; F: flush}. Segment base offsets are chosen to coincide with base offsets the
// partition under test can have (0,1,2,3,4,5), with different last offsets and sizes.
type c03SiblingSpec struct {
	Topic  string
	Part   int32
	Tag    string
	Script string
}

var c03SiblingSpecs = []c03SiblingSpec{
	// same topic, partition number has the partition under test's number as a decimal prefix
	{"t", 10, "A", "cFaFaFbF"}, // segments 0[0..2] 3[3..3] 4[4..4] 5[5..6]
	{"t", 11, "B", "aFbFcF"},   // segments 0[0..0] 1[1..2] 3[3..5]
	// topic+partition concatenation collides with t/10
	{"t1", 0, "C", "bFcF"}, // segments 0[0..1] 2[2..4]
	// topic name extends the topic name, same partition number
	{"tt", 1, "D", "caFabF"}, // segments 0[0..3] 4[4..6]
}

// c03NewSys builds the system of one world. The returned siblings are not part of
// s.parts: no history event touches them.
func c03NewSys(cfg rpCfg, world string) (*rpSys, []*rpPart, error) {
	switch world {
	case "", "plain":
		return rpNewSys(cfg, true), nil, nil
	case "siblings":
	default:
		return nil, nil, fmt.Errorf("unknown world %q", world)
	}
	s := &rpSys{cfg: cfg, s3: rpNewS3(), cache: cfg.newCache()}
	var sibs []*rpPart
	for _, spec := range c03SiblingSpecs {
		// a writer of its own: no cache, explicit flushes only, same index interval
		bg := &rpSys{cfg: rpCfg{Cache: "off", Interval: cfg.Interval}, s3: s.s3}
		q := &rpPart{Topic: spec.Topic, Part: spec.Part, Tag: spec.Tag, published: -1}
		bg.parts = []*rpPart{q}
		bg.open(q, 0)
		for i := 0; i < len(spec.Script); i++ {
			var err error
			if spec.Script[i] == 'F' {
				err = bg.flush(false, false)
			} else {
				err = bg.appendClass(spec.Script[i])
			}
			if err != nil {
				return nil, nil, fmt.Errorf("sibling %s/%d script %q step %d: %w", spec.Topic, spec.Part, spec.Script, i, err)
			}
		}
		if q.durable != len(q.ref) || q.log.buffer.Size() != 0 {
			return nil, nil, fmt.Errorf("sibling %s/%d not fully flushed", spec.Topic, spec.Part)
		}
		sibs = append(sibs, q)
	}
	s.parts = []*rpPart{
		{Topic: "t", Part: 1, Tag: "P", published: -1},
		{Topic: "t", Part: 2, Tag: "Q", published: -1},
		{Topic: "u", Part: 1, Tag: "R", published: -1},
	}
	for _, p := range s.parts {
		s.open(p, 0)
	}
	return s, sibs, nil
}

// c03SiblingObjects counts the bucket objects of the static siblings (report only) and
// checks that the world is what it claims: every sibling key has the partition under
// test's key prefix minus its final separator as a textual prefix or neighbour.
func c03SiblingObjects() (int, error) {
	s, sibs, err := c03NewSys(rpCfg{Cache: "off", Interval: 1}, "siblings")
	if err != nil {
		return 0, err
	}
	n := 0
	for _, q := range sibs {
		objs, err := s.s3.MemoryS3Client.ListSegments(context.Background(), q.log.segmentPrefix())
		if err != nil {
			return 0, err
		}
		for _, o := range objs {
			if strings.HasSuffix(o.Key, ".kfs") {
				n++
			}
		}
	}
	own, err := s.s3.MemoryS3Client.ListSegments(context.Background(), "default/t/1/")
	if err != nil {
		return 0, err
	}
	if len(own) != 0 {
		return 0, fmt.Errorf("bucket holds %d objects under the partition under test's own prefix before the history starts", len(own))
	}
	return n, nil
}

// c03Refine sharpens the classification of a read result that is not a run of the
// partition's own log, using the static siblings and the segment file format.
func c03Refine(r *rpRead, p *rpPart, sibs []*rpPart, data []byte) {
	if r.Problem != "bytes-never-appended" {
		return
	}
	probe := data
	if len(probe) > 61+8 {
		probe = probe[8:] // skip a base offset field that may coincide
	}
	if len(probe) > 16 {
		probe = probe[:min(len(probe), 80)]
		for _, q := range sibs {
			qa, _ := q.concat()
			if bytes.Contains(qa, probe) {
				r.Problem = "neighbour-key-partition-data"
				r.Detail = fmt.Sprintf("returned bytes belong to the sibling log %s/%d whose object keys are textual neighbours", q.Topic, q.Part)
				return
			}
		}
	}
	// own log bytes followed by (part of) a segment footer: the byte range of the read
	// was computed from a size that is not the size of the object it was applied to
	if i := bytes.LastIndex(data, []byte(footerMagic)); i >= 0 && i+len(footerMagic) == len(data) && len(data) >= segmentFooterLen {
		body := data[:len(data)-segmentFooterLen]
		all, pos := p.concat()
		for k := range p.ref {
			if bytes.HasPrefix(all[pos[k]:], body) {
				r.Problem = "run-overruns-into-segment-footer"
				r.Detail = fmt.Sprintf("returned %d bytes = %d bytes of the log from batch %d followed by the 16-byte segment footer", len(data), len(body), k)
				return
			}
		}
	}
}
