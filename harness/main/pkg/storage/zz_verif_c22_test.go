//go:build verif

package storage

import (
	"context"
	"fmt"
	"strings"
	"testing"

	"github.com/KafScale/platform/internal/verif/enum"
	"github.com/KafScale/platform/internal/verif/vh"
	"github.com/KafScale/platform/pkg/metadata"
	"github.com/KafScale/platform/pkg/protocol"
)

// C22 (storage half): S3 object keys, listing prefix and cache key of partitions {0,1}
// of every pair of accepted topic names never coincide, and no object key of one topic
// lies under the listing prefix of another topic's partition.

func c22sNames() []string {
	alphabet := []string{"a", "b", "/", ".", ":", "0", " "}
	var out []string
	enum.Sequences(len(alphabet), 3, func(idx []int) bool {
		if len(idx) == 0 {
			return true
		}
		var sb strings.Builder
		for _, v := range idx {
			sb.WriteString(alphabet[v])
		}
		out = append(out, sb.String())
		return true
	})
	out = append(out, "", "..", "a/..", "a/../b", "a/0", "t/partitions/0", "a:0", "A", "a_b", "a-b", "a.b", "a.kfs", "a.index", ".kfs", ".index", "a.kfs.index", "a.index.kfs", "segment-0", "a.kfst", strings.Repeat("a", 249), strings.Repeat("a", 250), "a\x00b", "é")
	return out
}

func c22sAccepted(name string) bool {
	cid := "verif"
	mem := metadata.NewInMemoryStore(metadata.ClusterMetadata{Brokers: []protocol.MetadataBroker{{NodeID: 1, Host: "h", Port: 1}}, ControllerID: 1, ClusterID: &cid})
	_, err := mem.CreateTopic(context.Background(), metadata.TopicSpec{Name: name, NumPartitions: 2, ReplicationFactor: 1})
	return err == nil
}

func TestVerifC22(t *testing.T) {
	rep := vh.New(t, "C22")
	defer rep.Finish()
	rep.Rule = "storage half: same name enumeration; acceptance by the real InMemoryStore.CreateTopic (EtcdStore delegates to it); S3 segment/index keys at base offsets {0,5}, listing prefixes and cache keys of partitions {0,1} compared for every pair of accepted names"
	var accepted []string
	names := c22sNames()
	seenName := map[string]bool{}
	for _, n := range names {
		if seenName[n] {
			continue
		}
		seenName[n] = true
		if c22sAccepted(n) {
			accepted = append(accepted, n)
		}
	}
	rep.Count("names_enumerated", int64(len(names)))
	rep.Count("names_accepted", int64(len(accepted)))
	type ks struct {
		keys     map[string]string
		prefixes map[string]string
	}
	all := make([]ks, len(accepted))
	for i, n := range accepted {
		k := ks{keys: map[string]string{}, prefixes: map[string]string{}}
		for _, p := range []int32{0, 1} {
			l := NewPartitionLog("default", n, p, 0, NewMemoryS3Client(), nil, PartitionLogConfig{}, nil, nil, nil)
			for _, base := range []int64{0, 5} {
				k.keys[l.segmentKey(base)] = fmt.Sprintf("segmentKey(%q,%d,%d)", n, p, base)
				k.keys[l.indexKey(base)] = fmt.Sprintf("indexKey(%q,%d,%d)", n, p, base)
			}
			k.prefixes[l.segmentPrefix()] = fmt.Sprintf("segmentPrefix(%q,%d)", n, p)
			k.keys["cache:"+l.cacheTopicKey()+fmt.Sprintf("#%d", p)] = fmt.Sprintf("cacheTopicKey(%q)+partition %d", n, p)
		}
		all[i] = k
	}
	class := func(n string) string {
		switch {
		case strings.Contains(n, "/"):
			return "separator"
		case strings.Contains(n, ":"):
			return "colon"
		case strings.Trim(n, ".") == "" && n != "":
			return "dot-segment"
		case strings.TrimSpace(n) == "":
			return "blank"
		}
		return "other"
	}
	for i := range accepted {
		for j := range accepted {
			if i == j {
				continue
			}
			rep.Eval(1)
			a, b := accepted[i], accepted[j]
			rep.Outcome("s3\x00"+a+"\x00"+b, true)
			for k, da := range all[i].keys {
				if db, ok := all[j].keys[k]; ok && i < j {
					rep.Violationf("s3-key-shared:"+class(a)+"+"+class(b), []string{a, b}, "topics %q and %q share %s (%s / %s)", a, b, k, da, db)
				}
				for pfx, dp := range all[j].prefixes {
					if strings.HasPrefix(k, pfx) {
						rep.Violationf("s3-key-under-foreign-prefix:"+class(a)+"+"+class(b), []string{a, b}, "%s (%s) of topic %q lies under %s", k, da, a, dp)
					}
				}
			}
		}
	}
	// keys must also stay inside the namespace
	for i, n := range accepted {
		for k, d := range all[i].keys {
			if !strings.HasPrefix(k, "cache:") && !strings.HasPrefix(k, "default/") {
				rep.Violationf("s3-key-escapes-namespace:"+class(n), []string{n}, "%s = %s is outside namespace default/", d, k)
			}
		}
	}
	if len(accepted) > 0 {
		rep.Sample(map[string]any{"accepted_examples": accepted[:min(8, len(accepted))]})
	}
}
