//go:build verif

package storage

// C08, schedule part — the order in which the S3 requests of a restore take effect.
//
// The sequential enumeration (TestVerifC08) lets every S3 call finish before the next is issued.
// Here the real RecoverTopicToTimestamp runs as a thread of the controlled scheduler: every S3 call
// (copy and clean-up) is a scheduling point at which the call takes effect, goroutines the restore
// spawns become threads at their first S3 call, and whether a call fails is an explorer decision.
// For a small set of source histories every schedule within the preemption bound x every failure
// placement within the deviation bound is executed; the oracle of the statement is applied when
// the restore has returned AND every request it issued has completed (quiescence).

import (
	"fmt"
	"strings"
	"testing"

	"github.com/KafScale/platform/internal/verif/sched"
	"github.com/KafScale/platform/internal/verif/vh"
)

type c08ConcReplay struct {
	Conc    bool    `json:"conc"`
	Case    c08Case `json:"case"`
	Choices []int   `json:"choices"`
}

// c08ConcHistories: one partition with <=maxRecs records in <=2 segments (<=2 batches each) at the
// base configuration, every createdAt / record timestamp in {T-1,T,T+1} (so the cut lies before,
// inside and after every segment), then two partitions with one single-record segment each (the
// clean-up spans partitions) x filter {none,{1}}.
func c08ConcHistories(maxRecs int, f func(c08Case)) {
	c08PartHistories(1, maxRecs, 0, func(p c08Part) bool {
		if len(p.Segs) <= 2 {
			f(c08Case{Cfg: c08BaseCfg, Parts: []c08Part{p}, Fault: c08Fault{Call: -1}})
		}
		return true
	})
	var one []c08Part
	c08PartHistories(1, 1, 0, func(p c08Part) bool { one = append(one, p); return true })
	for _, p0 := range one {
		for _, p1 := range one {
			for _, fl := range [][]int32{nil, {1}} {
				f(c08Case{Cfg: c08BaseCfg, Parts: []c08Part{p0, p1}, Filter: fl, Fault: c08Fault{Call: -1}})
			}
		}
	}
}

// c08ConcBody is one execution: the restore as the only explicit thread, run to quiescence, judged.
func c08ConcBody(src *c08Source, c *c08Case, last *c08Result, lastOps *[]string) func(s *sched.Sched) {
	return func(s *sched.Sched) {
		s3 := c08NewS3(src.obj, c08Fault{Call: -1})
		s3.points = true
		s3.deleted = map[string]bool{}
		s3.late = map[string]string{}
		var out *TopicRecoveryResult
		var err error
		var panicked *c08Problem
		s.Go("restore", func() {
			out, err, panicked = c08Restore(s3, c)
			s3.mu.Lock()
			s3.returned = true
			s3.mu.Unlock()
		})
		s.Run() // returns when the restore has returned and no thread is parked at an S3 call any more
		if s.Deadlock {
			s.Fail("restore-never-returns", "threads blocked for ever: %s", s.Blocked())
			*last = c08Result{sig: "deadlock", nontrivial: true}
			return
		}
		res, o := s3.judge(src, c, out, err, panicked)
		if o.ninjected > 1 {
			res.sig += fmt.Sprintf("|copy-failures=%d", o.ninjected)
		}
		for _, p := range res.probs {
			s.Fail(p.Key, "%s", p.Detail)
		}
		*last = res
		*lastOps = o.ops
	}
}

func TestVerifC08Conc(t *testing.T) {
	rep := vh.New(t, "C08")
	defer rep.Finish()
	P, D, maxRecs := 2, 2, 2
	if vh.Thorough() {
		P, D, maxRecs = 3, 3, 3
	}
	rep.Rule = "schedule part: case = source history (one partition, <=2 segments x <=2 batches, createdAt and record timestamps in {T-1,T,T+1}; or two one-record partitions x filter) x schedule of the restore's threads at S3-call granularity (preemption bound) x failure decisions (every copy call may fail, puts also 'written but error returned', every clean-up delete may fail; deviation bound). Non-trivial = >=1 failure decision or >=1 thread switch or the model cuts the source."
	rep.Assumptions = []string{
		"schedule part: an S3 call takes effect atomically at one point between its issue and its return (the scheduling point); a request that was issued completes even if its issuer has returned",
		"schedule part: goroutines spawned by the restore become scheduler threads at their first S3 call; code between two S3 calls of a thread runs atomically",
	}
	rep.SetInfo("conc_preemption_bound", P)
	rep.SetInfo("conc_deviation_bound", D)
	rep.SetInfo("conc_histories", fmt.Sprintf("one partition <=%d records in <=2 segments x <=2 batches, all timestamps in {T-1,T,T+1}; two partitions of one record each x filter {none,{1}}", maxRecs))

	var rp c08ConcReplay
	if ok, err := vh.LoadReplay(&rp); ok {
		if err != nil || !rp.Conc {
			return // a replay of the sequential enumeration (TestVerifC08)
		}
		src, err := c08BuildSource(&rp.Case)
		if err != nil {
			t.Fatalf("HARNESS-ERROR replay build: %v", err)
		}
		var last c08Result
		var ops []string
		x := sched.RunOnce(t, sched.Config{}, rp.Choices, true, c08ConcBody(src, &rp.Case, &last, &ops))
		fmt.Printf("REPLAY choices=%v\n steps=%v\n s3 calls in effect order:\n  %s\n outcome=%s\n fails=%+v deadlock=%v %s diverged=%q\n",
			rp.Choices, x.Steps, strings.Join(ops, "\n  "), last.sig, x.Fails, x.Deadlock, x.Blocked, x.Diverged)
		rep.Eval(1)
		rep.Outcome(last.sig, true)
		for _, f := range x.Fails {
			rep.Violation(f.Key, f.Detail, rp)
		}
		return
	}

	deadline := vh.Deadline()
	shard, nshards := vh.Shard()
	var histories, maxThreads, schedules, multi int64
	idx := 0
	capped := false
	c08ConcHistories(maxRecs, func(c c08Case) {
		i := idx
		idx++
		if i%nshards != shard || capped {
			return
		}
		src, err := c08BuildSource(&c)
		if err != nil {
			t.Fatalf("HARNESS-ERROR building source %+v: %v", c, err)
		}
		histories++
		var last c08Result
		var ops []string
		seenSched := map[string]bool{}
		st := sched.Explore(t, sched.Config{MaxPreempt: P, MaxDev: D, Deadline: deadline}, c08ConcBody(src, &c, &last, &ops), func(x *sched.Exec) {
			rep.Eval(1)
			sw, dev := x.NonDefault()
			nthreads := int64(1)
			var tsig strings.Builder
			for _, d := range x.Trace {
				if !d.Env {
					fmt.Fprintf(&tsig, "%d/%d,", d.C, d.N)
					if int64(d.N) > nthreads {
						nthreads = int64(d.N)
					}
				}
			}
			if nthreads > maxThreads {
				maxThreads = nthreads
			}
			if !seenSched[tsig.String()] {
				seenSched[tsig.String()] = true
				schedules++
			}
			sig := fmt.Sprintf("conc|%s|sw=%d", last.sig, sw)
			nontrivial := last.nontrivial || sw > 0 || dev > 0
			rep.Outcome(sig, nontrivial)
			if rep.WantSample() && dev > 0 && i%7 == 3 {
				rep.Sample(map[string]any{"case": c, "choices": x.Choices, "outcome": sig})
			}
			for _, f := range x.Fails {
				rep.Violation(f.Key, f.Detail, c08ConcReplay{Conc: true, Case: c, Choices: x.Choices})
			}
		})
		if len(seenSched) > 1 {
			multi++
		}
		if st.Capped {
			capped = true
		}
	})
	rep.Count("conc_histories", histories)
	rep.Count("conc_distinct_thread_schedules", schedules)
	rep.Count("conc_histories_with_more_than_one_schedule", multi)
	rep.SetInfo("conc_max_simultaneously_enabled_threads", maxThreads)
	if capped {
		rep.Cap("deadline reached in the schedule part")
	}
}
