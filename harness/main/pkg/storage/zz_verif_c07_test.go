//go:build verif

package storage

import (
	"bytes"
	"fmt"
	"math"
	"testing"
	"time"

	"github.com/KafScale/platform/internal/verif/enum"
	"github.com/KafScale/platform/internal/verif/vh"
)

// TestVerifC07 (main-module half): every element of the deterministic corpus enum.C07Corpus
// (sequences of well-formed Kafka v2 record batches) is serialised by the real
// NewRecordBatchFromBytes + BuildSegment. The segment must be byte-identical to the segment
// the independent builder enum.RefSegment produces from the same batches (header magic /
// version / flags / base offset / message count / created, body = concatenation, footer
// CRC-32C / last offset / magic); the index must have a valid header and rows that point at
// batch starts (file coordinates) in strictly increasing offset order; the point-in-time
// restore scanner (collectRecoverableBatches with cutoff = +inf, scanRecord on every record,
// buildRestorePlan with a far-future cutoff) must recover exactly the produced records, and so
// must the whole restore (RecoverTopicToTimestamp over the in-memory S3, see
// zz_verif_c07_restore_test.go, which also adds the wide timestamp-delta family).
// The decoder halves (iceberg / sql / skeleton modules) regenerate the same corpus and feed
// the (byte-identical) segments to their decoders.
func TestVerifC07(t *testing.T) {
	rep := vh.New(t, "C07")
	defer rep.Finish()
	rep.Rule = "cases = enum.C07Corpus (families 1x1 full record product, 1x2 all pairs, 1x3 all triples, edge offsets/timestamps, multi: every sequence of <=3 batches x <=3 records x interval {1,2,100} x {contiguous,gap}) + main-half family wide (base timestamp {now,0} x every sequence of <=2, thorough <=3, records over the 43 varlong-width boundary timestamp deltas); every case also goes through RecoverTopicToTimestamp over the in-memory S3 with two cut-offs at/after all records; signature = family + batch layout + wire features present + checks passed; non-trivial = more than one record or any null/empty/long field, header, or non-zero timestamp delta"
	rep.Assumptions = []string{
		"uncompressed batches only (decoders and exact PITR explicitly reject compressed batches)",
		"the independent builder enum.RefSegment/enum.MakeBatch is written from kafscale-spec.md and the Kafka v2 batch format",
	}
	thorough := vh.Thorough()
	var only = -1
	var rp struct {
		Idx  int    `json:"idx"`
		Tier string `json:"tier"`
	}
	if ok, err := vh.LoadReplay(&rp); ok {
		if err != nil {
			t.Fatalf("HARNESS-ERROR replay: %v", err)
		}
		only = rp.Idx
		thorough = rp.Tier == "thorough"
	}
	shard, nshards := vh.Shard()
	deadline := vh.Deadline()
	fam := map[string]int64{}
	total := 0
	stopped := false
	visit := func(c *enum.SegCase) bool {
		total++
		if only >= 0 && c.Idx != only {
			return true
		}
		if c.Idx%nshards != shard {
			return true
		}
		if c.Idx%512 == 0 && time.Now().After(deadline) {
			rep.Cap(fmt.Sprintf("deadline hit at corpus element %d", c.Idx))
			stopped = true
			return false
		}
		vC07Main(rep, c, thorough)
		fam[c.Family]++
		return true
	}
	enum.C07Corpus(thorough, visit)
	if !stopped {
		// main-half extension: every varlong width of the timestamp delta (zz_verif_c07_restore_test.go);
		// indices continue after the shared corpus
		vC07WideCorpus(thorough, total, visit)
	}
	for k, v := range fam {
		rep.Count("cases_"+k, v)
	}
	rep.SetInfo("corpus_size", total)
	rep.SetInfo("timestamp_deltas", enum.C07TimestampDeltas(thorough))
	rep.SetInfo("wide_timestamp_deltas", vC07WideDeltas())
	rep.SetInfo("wide_base_timestamps", vC07WideBaseTs)
	rep.SetInfo("restore_cutoffs", []string{"max(record timestamps, batch base timestamps)", "far future (MaxInt64 ms)"})
	rep.SetInfo("index_intervals", []int{1, 2, 100})
}

func vC07Replay(c *enum.SegCase, thorough bool) map[string]any {
	tier := "quick"
	if thorough {
		tier = "thorough"
	}
	d := c.Describe()
	d["tier"] = tier
	return d
}

func vC07Main(rep *vh.Report, c *enum.SegCase, thorough bool) {
	rep.Eval(1)
	sig, nontrivial := c.Shape()
	nviol := 0
	fail := func(key, format string, a ...any) {
		nviol++
		rep.Violation(key, fmt.Sprintf("case %d %s/%s: ", c.Idx, c.Family, c.Name)+fmt.Sprintf(format, a...), vC07Replay(c, thorough))
	}
	defer func() {
		if r := recover(); r != nil {
			if s, ok := r.(string); ok && len(s) > 13 && s[:13] == "HARNESS-ERROR" {
				panic(r)
			}
			fail("panic-in-segment-writer-or-scanner", "panic: %v", r)
		}
		rep.Outcome(fmt.Sprintf("%s|viol=%d", sig, nviol), nontrivial)
		if nontrivial && rep.WantSample() && c.Idx%97 == 5 {
			rep.Sample(c.Describe())
		}
	}()

	raw := c.BatchBytes()
	want := c.Expected()
	// generator self-check (harness error, not a verdict)
	if ref, err := enum.DecodeBatches(bytes.Join(raw, nil)); err != nil {
		panic(fmt.Sprintf("HARNESS-ERROR corpus element %d not well-formed: %v", c.Idx, err))
	} else {
		i := 0
		for _, b := range ref {
			if !b.CRCValid {
				panic("HARNESS-ERROR corpus batch CRC")
			}
			for _, r := range b.Records {
				hk, hv := vC07Hdrs(r.Headers)
				if f := enum.SameRecord(r.Offset, r.Timestamp, r.Key, r.Value, hk, hv, want[i]); f != "" {
					panic("HARNESS-ERROR corpus self-check: " + f)
				}
				i++
			}
		}
		if i != len(want) {
			panic("HARNESS-ERROR corpus self-check: count")
		}
	}

	// --- the broker's write path
	batches := make([]RecordBatch, len(raw))
	for i, b := range raw {
		rb, err := NewRecordBatchFromBytes(b)
		if err != nil {
			fail("record-batch-rejected", "NewRecordBatchFromBytes(batch %d): %v", i, err)
			return
		}
		batches[i] = rb
	}
	created := time.UnixMilli(c.CreatedMs)
	art, err := BuildSegment(SegmentWriterConfig{IndexIntervalMessages: c.Interval}, batches, created)
	if err != nil {
		fail("build-segment-error", "BuildSegment: %v", err)
		return
	}
	seg := art.SegmentBytes
	ref := c.RefSegment()
	if !bytes.Equal(seg, ref) {
		field := vC07DiffField(seg, ref)
		fail("segment-differs-from-spec:"+field, "BuildSegment output differs from the independent builder at %s (got %d bytes, want %d)", field, len(seg), len(ref))
	}
	// explicit conformance (also holds the field-level keys when only one thing is off)
	if si, err := enum.ParseSegment(seg); err != nil {
		fail("segment-too-short", "%v", err)
	} else {
		if si.Magic != "KAFS" || si.Version != 1 {
			fail("header-magic-or-version", "magic %q version %d", si.Magic, si.Version)
		}
		if si.BaseOffset != c.BaseOffset() {
			fail("header-base-offset", "header base offset %d, first produced offset %d", si.BaseOffset, c.BaseOffset())
		}
		if si.MessageCount != c.MessageCount() {
			fail("header-message-count", "header message count %d, produced %d", si.MessageCount, c.MessageCount())
		}
		if si.CreatedMs != c.CreatedMs {
			fail("header-created", "header created %d, want %d", si.CreatedMs, c.CreatedMs)
		}
		if si.FooterMagic != "END!" {
			fail("footer-magic", "footer magic %q", si.FooterMagic)
		}
		if si.LastOffset != c.LastOffset() {
			fail("footer-last-offset", "footer last offset %d, last produced offset %d", si.LastOffset, c.LastOffset())
		}
		if si.CRC != si.BodyCRC {
			fail("footer-crc", "footer crc %08x, CRC-32C(body) %08x", si.CRC, si.BodyCRC)
		}
		if !bytes.Equal(si.Body, bytes.Join(raw, nil)) {
			fail("body-not-produced-batches", "segment body is not the concatenation of the produced batches")
		}
	}
	if art.BaseOffset != c.BaseOffset() || art.LastOffset != c.LastOffset() || art.MessageCount != c.MessageCount() {
		fail("artifact-metadata", "artifact base/last/count = %d/%d/%d want %d/%d/%d", art.BaseOffset, art.LastOffset, art.MessageCount, c.BaseOffset(), c.LastOffset(), c.MessageCount())
	}
	if lo, err := parseSegmentFooter(seg[len(seg)-segmentFooterLen:]); err != nil || lo != c.LastOffset() {
		fail("footer-reader-disagrees", "parseSegmentFooter = %d, %v; want %d", lo, err, c.LastOffset())
	}
	if ts, err := parseSegmentHeaderCreatedAt(seg[:segmentHeaderLen]); err != nil || ts.UnixMilli() != c.CreatedMs {
		fail("header-reader-disagrees", "parseSegmentHeaderCreatedAt = %v, %v; want %d", ts, err, c.CreatedMs)
	}

	// --- index
	starts := c.BatchStarts()
	if xi, err := enum.ParseIndexRef(art.IndexBytes); err != nil {
		fail("index-too-short", "%v", err)
	} else {
		if xi.Magic != "IDX\x00" || xi.Version != 1 {
			fail("index-header-magic-or-version", "magic %q version %d", xi.Magic, xi.Version)
		}
		if int(xi.Count) != len(xi.Entries) || xi.Trailing != 0 {
			fail("index-header-count", "header says %d rows, file holds %d rows + %d stray bytes", xi.Count, len(xi.Entries), xi.Trailing)
		}
		wantIv := c.Interval
		if xi.Interval != wantIv {
			fail("index-header-interval", "header interval %d, writer interval %d", xi.Interval, wantIv)
		}
		for i, e := range xi.Entries {
			if i > 0 && e.Offset <= xi.Entries[i-1].Offset {
				fail("index-offsets-not-increasing", "row %d offset %d after %d", i, e.Offset, xi.Entries[i-1].Offset)
			}
			found := false
			for _, s := range starts {
				if s.Position == e.Position {
					found = true
					if s.Offset != e.Offset {
						fail("index-offset-not-batch-base", "row %d: position %d is the batch with base offset %d, row says %d", i, e.Position, s.Offset, e.Offset)
					}
				}
			}
			if !found {
				fail("index-position-not-batch-start", "row %d: position %d is not the file position of a batch (batch starts %v)", i, e.Position, starts)
			}
		}
		// the broker's own reader sees the same rows
		got, err := ParseIndex(art.IndexBytes)
		if err != nil || len(got) != len(xi.Entries) {
			fail("index-reader-disagrees", "ParseIndex: %d rows, %v; file holds %d", len(got), err, len(xi.Entries))
		} else {
			for i := range got {
				if got[i].Offset != xi.Entries[i].Offset || got[i].Position != xi.Entries[i].Position {
					fail("index-reader-disagrees", "ParseIndex row %d = %+v, file %+v", i, *got[i], xi.Entries[i])
				}
			}
		}
	}

	// --- point-in-time restore scanner, cutoff = +inf
	rec, err := collectRecoverableBatches(seg, math.MaxInt64)
	if err != nil {
		fail("pitr-scan-error", "collectRecoverableBatches: %v", err)
	} else if len(rec) != len(raw) {
		fail("pitr-batch-count", "scanner recovered %d batches of %d", len(rec), len(raw))
	} else {
		for i := range rec {
			if !bytes.Equal(rec[i].Bytes, raw[i]) {
				fail("pitr-batch-bytes", "recovered batch %d differs from the produced batch", i)
			}
			b := c.Batches[i]
			if rec[i].BaseOffset != b.Opts.BaseOffset || rec[i].MessageCount != int32(len(b.Recs)) || rec[i].LastOffsetDelta != int32(len(b.Recs)-1) {
				fail("pitr-batch-metadata", "recovered batch %d base/count/lastDelta = %d/%d/%d", i, rec[i].BaseOffset, rec[i].MessageCount, rec[i].LastOffsetDelta)
			}
		}
		// records carried by the recovered batches
		var all []byte
		for i := range rec {
			all = append(all, rec[i].Bytes...)
		}
		if dec, err := enum.DecodeBatches(all); err != nil {
			fail("pitr-recovered-not-decodable", "%v", err)
		} else {
			i := 0
			for _, b := range dec {
				for _, r := range b.Records {
					if i < len(want) {
						hk, hv := vC07Hdrs(r.Headers)
						if f := enum.SameRecord(r.Offset, r.Timestamp, r.Key, r.Value, hk, hv, want[i]); f != "" {
							fail("pitr-record-"+f, "recovered record %d differs in %s", i, f)
						}
					}
					i++
				}
			}
			if i != len(want) {
				fail("pitr-record-count", "recovered %d records of %d", i, len(want))
			}
		}
	}
	// scanRecord walks every record of every batch
	for bi, b := range raw {
		rd := bytes.NewReader(b[recordBatchHeaderLen:])
		for ri, r := range c.Batches[bi].Recs {
			td, od, err := scanRecord(rd)
			if err != nil {
				fail("pitr-scanrecord-error", "batch %d record %d: %v", bi, ri, err)
				break
			}
			if td != r.TimestampDelta {
				fail("pitr-scanrecord-timestamp", "batch %d record %d: timestamp delta %d, produced %d", bi, ri, td, r.TimestampDelta)
			}
			if od != r.OffsetDelta {
				fail("pitr-scanrecord-offset", "batch %d record %d: offset delta %d, produced %d", bi, ri, od, r.OffsetDelta)
			}
		}
		if rd.Len() != 0 && nviol == 0 {
			fail("pitr-scanrecord-leftover", "batch %d: %d bytes left after scanning all records", bi, rd.Len())
		}
	}
	// a restore to the far future rewrites the identical segment and index
	farFuture := time.UnixMilli(math.MaxInt64)
	if farFuture.UnixMilli() != math.MaxInt64 {
		panic("HARNESS-ERROR far-future cutoff does not round-trip")
	}
	plan, err := buildRestorePlan(seg, art.IndexBytes, farFuture, created)
	if err != nil {
		fail("pitr-plan-error", "buildRestorePlan: %v", err)
	} else if !plan.keep || !bytes.Equal(plan.segmentBytes, ref) || !bytes.Equal(plan.indexBytes, art.IndexBytes) || plan.baseOffset != c.BaseOffset() || plan.lastOffset != c.LastOffset() {
		fail("pitr-plan-differs", "restore plan (cutoff far future) keep=%v base=%d last=%d, segment equal=%v index equal=%v", plan.keep, plan.baseOffset, plan.lastOffset, bytes.Equal(plan.segmentBytes, ref), bytes.Equal(plan.indexBytes, art.IndexBytes))
	}
	// --- the whole restore path as one more reader of the segment: RecoverTopicToTimestamp over an
	// in-memory S3 holding exactly what the segment writer produced
	vC07Restore(c, seg, art.IndexBytes, want, fail)
}

func vC07Hdrs(h []enum.Header) ([]string, [][]byte) {
	k := make([]string, len(h))
	v := make([][]byte, len(h))
	for i := range h {
		k[i], v[i] = h[i].Key, h[i].Value
	}
	return k, v
}

// vC07DiffField names the first region in which got differs from want.
func vC07DiffField(got, want []byte) string {
	if len(got) != len(want) {
		return "length"
	}
	i := 0
	for i < len(got) && got[i] == want[i] {
		i++
	}
	n := len(got)
	switch {
	case i < 4:
		return "header-magic"
	case i < 6:
		return "header-version"
	case i < 8:
		return "header-flags"
	case i < 16:
		return "header-base-offset"
	case i < 20:
		return "header-message-count"
	case i < 28:
		return "header-created"
	case i < 32:
		return "header-reserved"
	case i < n-16:
		return "body"
	case i < n-12:
		return "footer-crc"
	case i < n-4:
		return "footer-last-offset"
	}
	return "footer-magic"
}
