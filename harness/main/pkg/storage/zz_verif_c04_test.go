//go:build verif

package storage

// C04 — a fetch below the high watermark always makes progress.
//
// E3: bounded-exhaustive enumeration of segment layouts (batch size classes x flush
// positions) x index interval x read path (range read, cached, cold cache + read-ahead)
// x every offset below the end of the flushed log x every positive byte limit from a
// boundary-derived alphabet, on real PartitionLog objects. Plus gap layouts (restored
// segments with a hole) and the broker's real configuration (IndexIntervalMessages=100).
// Plus the storage-variant dimension "log reopened from the bucket": every layout x every
// subset of segments whose .index object is missing when a fresh PartitionLog runs
// RestoreFromS3 (committed offset = end of the flushed log). A failed restore means the
// partition is not served (cmd/broker getPartitionLog returns the error and registers no
// log): nothing to fetch, counted. A successful restore is judged by the same progress
// oracle over every offset x byte limit.

import (
	"bytes"
	"context"
	"encoding/binary"
	"errors"
	"fmt"
	"hash/fnv"
	"runtime"
	"runtime/debug"
	"sort"
	"strings"
	"sync"
	"testing"
	"testing/synctest"
	"time"

	"github.com/KafScale/platform/internal/verif/enum"
	"github.com/KafScale/platform/internal/verif/vh"
	"github.com/KafScale/platform/pkg/cache"
)

type c04Job struct {
	Kind     string `json:"kind"`   // "layout" | "gap" | "broker" | "restore"
	Layout   string `json:"layout"` // batches a|b, '|' = flush; a final flush is implied. broker: "<n>x<valueBytes>"
	Interval int32  `json:"index_interval_messages"`
	Path     string `json:"path"` // "range" (cache off) | "cached" (cache on, populated by the flush) | "cold" (cache on, restart, read-ahead 1)
	// restore: state of the .index object of segment k (in offset order) when the log is
	// reopened: 'p' present as written, 'm' missing, 'z' replaced by a well-formed index
	// with zero entries (no writer produces one; informational, not judged).
	Index string `json:"index_objects,omitempty"`
	seq   int64
}

type c04Viol struct {
	key, detail string
	o           int64
	mb          int32
}

type c04Out struct {
	sig     string
	nontriv bool
	viols   []c04Viol // first per key
	harness string
	reads   int64
	stuck   map[int32][]int64 // byte limit -> offsets whose read does not reach the batch holding them
	// restore jobs
	notServed string // non-empty: RestoreFromS3 failed (class of the error); no reads
	unindexed int    // restored segments that carry no index entries
}

// c04Check judges one read below the high watermark.
func c04Check(s *rpSys, p *rpPart, o int64, mb int32, data []byte, err error) (*c04Viol, rpRead) {
	mk := func(key, format string, a ...any) *c04Viol {
		return &c04Viol{key: key, detail: fmt.Sprintf("Read(offset=%d, maxBytes=%d): ", o, mb) + fmt.Sprintf(format, a...), o: o, mb: mb}
	}
	r := rpClassify(s, p, o, data, err)
	if err != nil {
		return mk("read-error-below-high-watermark", "error %v although the log ends at %d", err, p.end()), r
	}
	if len(data) == 0 {
		return mk("empty-response-below-high-watermark", "no bytes although the log ends at %d", p.end()), r
	}
	if r.Problem != "" {
		return mk("response-"+r.Problem, "%s", r.Detail), r
	}
	if r.Target < 0 {
		return mk("harness-no-target", "no reference batch at or after the offset"), r
	}
	if r.Reaches {
		return nil, r
	}
	// the run ends before the first byte of the batch holding o: which mechanism?
	tb := p.ref[r.Target]
	l := p.log
	l.mu.Lock()
	var entries []*IndexEntry
	var tseg *segmentRange // the segment holding the target batch
	for _, sg := range l.segments {
		if tb.Base >= sg.baseOffset && tb.Base <= sg.lastOffset {
			entries = l.indexEntries[sg.baseOffset]
			c := sg
			tseg = &c
		}
	}
	l.mu.Unlock()
	var ent *IndexEntry
	for _, e := range entries {
		if e.Offset <= tb.Base {
			ent = e
		}
	}
	sb := p.ref[r.Start]
	what := fmt.Sprintf("returned %d bytes = batches %d..%d (offsets %d..) of which %d complete, all before batch %d [%d..%d] that holds the offset; the same request repeats forever", len(data), r.Start, r.Target-1, sb.Base, r.Complete, r.Target, tb.Base, tb.Last)
	switch {
	case tseg != nil && len(entries) == 0 && sb.Base == tseg.baseOffset && int64(len(data)) == int64(mb):
		return mk("unindexed-segment-read-from-segment-start-capped-by-maxbytes", "%s (segment [%d..%d] is served with no index entries: the read returns the first maxBytes bytes of the segment whatever the offset)", what, tseg.baseOffset, tseg.lastOffset), r
	case ent != nil && sb.Base == ent.Offset && ent.Offset < tb.Base && int64(len(data)) == int64(mb):
		return mk("sparse-index-start-capped-by-maxbytes", "%s (read starts at the sparse index entry for offset %d, %d index entries for the segment, and is cut at maxBytes)", what, ent.Offset, len(entries)), r
	case ent != nil && sb.Base < ent.Offset:
		return mk("start-before-index-entry-capped-by-maxbytes", "%s (read starts at offset %d although the index has an entry at %d)", what, sb.Base, ent.Offset), r
	}
	return mk("response-ends-before-requested-offset", "%s", what), r
}

// c04ReadAll issues every read below end and returns per-key first violations.
func c04ReadAll(s *rpSys, p *rpPart, offsets []int64, mbs []int32, out *c04Out, passes int) {
	h := fnv.New64a()
	seen := map[string]bool{}
	for pass := 0; pass < passes; pass++ {
		for _, o := range offsets {
			for _, mb := range mbs {
				data, err := p.log.Read(context.Background(), o, mb)
				synctest.Wait()
				out.reads++
				v, r := c04Check(s, p, o, mb, data, err)
				fmt.Fprintf(h, "%d,%d:%d>%d r=%v l=%d;", o, mb, r.Start, r.Target, r.Reaches, r.Len)
				if r.Start >= 0 && r.Start < r.Target {
					out.nontriv = true // the read started at an earlier batch than the one holding o
				}
				if v != nil && pass == 0 {
					if out.stuck == nil {
						out.stuck = map[int32][]int64{}
					}
					out.stuck[mb] = append(out.stuck[mb], o)
				}
				if v != nil && !seen[v.key] {
					seen[v.key] = true
					out.viols = append(out.viols, *v)
				}
			}
		}
	}
	out.sig = fmt.Sprintf("%x", h.Sum64())
}

func c04Cfg(job *c04Job) rpCfg {
	cfg := rpCfg{Cache: "off", Interval: job.Interval}
	switch job.Path {
	case "cached":
		cfg.Cache = "large"
	case "cold":
		cfg.Cache, cfg.ReadAhead = "large", 1
	}
	return cfg
}

func c04RunLayout(job *c04Job, out *c04Out) {
	s := rpNewSys(c04Cfg(job), false)
	p := s.parts[0]
	for i := 0; i < len(job.Layout); i++ {
		var err error
		if job.Layout[i] == '|' {
			err = s.flush(false, false)
		} else {
			err = s.appendClass(job.Layout[i])
		}
		if err != nil {
			out.harness = err.Error()
			return
		}
	}
	if err := s.flush(false, false); err != nil {
		out.harness = err.Error()
		return
	}
	if job.Path == "cold" {
		if err := s.restart(); err != nil {
			out.harness = err.Error()
			return
		}
	}
	var offs []int64
	for o := int64(0); o < p.end(); o++ {
		offs = append(offs, o)
	}
	passes := 1
	if job.Path == "cold" {
		passes = 2 // second pass finds segments the read-ahead put into the cache
	}
	c04ReadAll(s, p, offs, rpMaxBytes(p, true), out, passes)
	out.sig = fmt.Sprintf("%s/%d/%s|%s|full=%d,range=%d", job.Path, job.Interval, c03Layout(p), out.sig, s.s3.FullGets, s.s3.RangeGets)
}

// c04RunGap: '_' in the layout flushes and re-opens the log two offsets later, which
// leaves a hole between two segments (what a skipped orphan segment leaves behind);
// a fresh log then restores all segments from the bucket and serves the reads.
func c04RunGap(job *c04Job, out *c04Out) {
	s := rpNewSys(c04Cfg(job), false)
	p := s.parts[0]
	for i := 0; i < len(job.Layout); i++ {
		var err error
		switch job.Layout[i] {
		case '|':
			err = s.flush(false, false)
		case '_':
			if err = s.flush(false, false); err == nil {
				p.skipTo = p.end() + 2
				s.open(p, p.skipTo)
			}
		default:
			err = s.appendClass(job.Layout[i])
		}
		if err != nil {
			out.harness = err.Error()
			return
		}
	}
	if err := s.flush(false, false); err != nil {
		out.harness = err.Error()
		return
	}
	if err := s.restart(); err != nil {
		out.harness = err.Error()
		return
	}
	p.log.mu.Lock()
	nseg := len(p.log.segments)
	p.log.mu.Unlock()
	if nseg < 2 {
		out.harness = fmt.Sprintf("gap layout restored %d segments", nseg)
		return
	}
	var offs []int64
	for o := int64(0); o < p.end(); o++ {
		offs = append(offs, o)
	}
	passes := 1
	if job.Path == "cold" {
		passes = 2
	}
	c04ReadAll(s, p, offs, rpMaxBytes(p, true), out, passes)
	out.nontriv = true
	out.sig = fmt.Sprintf("gap/%s/%d/%s|%s", job.Path, job.Interval, c03Layout(p), out.sig)
}

// c04RunRestore: build the layout, flush, then change the .index objects in the bucket as
// job.Index says (segment k in offset order: p = untouched, m = deleted, z = rewritten as a
// well-formed index with zero entries), and reopen the partition the way cmd/broker
// getPartitionLog does: fresh PartitionLog at the committed offset (= end of the flushed
// log), fresh cache, RestoreFromS3. An error = the partition is not served (no reads).
func c04RunRestore(job *c04Job, out *c04Out) {
	s := rpNewSys(c04Cfg(job), false)
	p := s.parts[0]
	ctx := context.Background()
	for i := 0; i < len(job.Layout); i++ {
		var err error
		if job.Layout[i] == '|' {
			err = s.flush(false, false)
		} else {
			err = s.appendClass(job.Layout[i])
		}
		if err != nil {
			out.harness = err.Error()
			return
		}
	}
	if err := s.flush(false, false); err != nil {
		out.harness = err.Error()
		return
	}
	p.log.mu.Lock()
	segs := append([]segmentRange(nil), p.log.segments...)
	p.log.mu.Unlock()
	if len(segs) != len(job.Index) {
		out.harness = fmt.Sprintf("restore layout has %d segments, index_objects %q", len(segs), job.Index)
		return
	}
	if p.published+1 != p.end() || p.durable != len(p.ref) {
		out.harness = fmt.Sprintf("restore layout: committed offset %d, log end %d", p.published+1, p.end())
		return
	}
	for k, sg := range segs {
		key := p.log.indexKey(sg.baseOffset)
		switch job.Index[k] {
		case 'p':
		case 'm':
			if err := s.s3.DeleteIndex(ctx, key); err != nil {
				out.harness = err.Error()
				return
			}
		case 'z':
			cur, err := s.s3.DownloadIndex(ctx, key)
			if err != nil || len(cur) < indexHeaderLen {
				out.harness = fmt.Sprintf("index %s: %d bytes, %v", key, len(cur), err)
				return
			}
			hdr := append([]byte(nil), cur[:indexHeaderLen]...)
			binary.BigEndian.PutUint32(hdr[6:10], 0) // entry count
			if err := s.s3.MemoryS3Client.UploadIndex(ctx, key, hdr); err != nil {
				out.harness = err.Error()
				return
			}
		default:
			out.harness = "bad index_objects " + job.Index
			return
		}
	}
	s.cache = s.cfg.newCache()
	s.open(p, p.published+1)
	if _, err := p.log.RestoreFromS3(ctx); err != nil {
		out.notServed = "other-error"
		if errors.Is(err, ErrNotFound) {
			out.notServed = "index-not-found"
		}
		// coarse signature: the refusal does not depend on batch sizes or path
		out.sig = fmt.Sprintf("restore/not-served:%s/segments=%d/first-missing=%d", out.notServed, len(segs), strings.IndexByte(job.Index, 'm'))
		out.nontriv = true
		return
	}
	p.log.mu.Lock()
	for _, sg := range p.log.segments {
		if len(p.log.indexEntries[sg.baseOffset]) == 0 {
			out.unindexed++
		}
	}
	p.log.mu.Unlock()
	var offs []int64
	for o := int64(0); o < p.end(); o++ {
		offs = append(offs, o)
	}
	passes := 1
	if job.Path == "cold" {
		passes = 2 // second pass: segments the first pass or the read-ahead put into the cache
	}
	c04ReadAll(s, p, offs, rpMaxBytes(p, true), out, passes)
	if out.unindexed > 0 {
		out.nontriv = true
	}
	out.sig = fmt.Sprintf("restore/%s/%d/%s/%s|%s|full=%d,range=%d", job.Path, job.Interval, job.Index, c03Layout(p), out.sig, s.s3.FullGets, s.s3.RangeGets)
}

// c04IndexVariants: every assignment of {present, missing} to the .index objects of n
// segments, fewest missing first (all present first).
func c04IndexVariants(n int) []string {
	var out []string
	for miss := 0; miss <= n; miss++ {
		for mask := 0; mask < 1<<n; mask++ {
			c := 0
			b := make([]byte, n)
			for k := 0; k < n; k++ {
				b[k] = 'p'
				if mask&(1<<k) != 0 {
					b[k] = 'm'
					c++
				}
			}
			if c == miss {
				out = append(out, string(b))
			}
		}
	}
	return out
}

// c04RunBroker uses the PartitionLogConfig literal of cmd/broker newHandler (defaults).
func c04RunBroker(job *c04Job, out *c04Out) {
	var n, vlen int
	if _, err := fmt.Sscanf(job.Layout, "%dx%d", &n, &vlen); err != nil {
		out.harness = "bad broker layout " + job.Layout
		return
	}
	s := &rpSys{cfg: rpCfg{Cache: "large", Interval: 100, ReadAhead: 2}, s3: rpNewS3(), cache: cache.NewSegmentCache(32 << 20)}
	s.logCfg = &PartitionLogConfig{
		Buffer:            WriteBufferConfig{MaxBytes: 4 << 20, FlushInterval: 500 * time.Millisecond},
		Segment:           SegmentWriterConfig{IndexIntervalMessages: 100},
		ReadAheadSegments: 2,
		CacheEnabled:      true,
		Logger:            rpDiscard,
	}
	p := &rpPart{Topic: "t", Part: 0, Tag: "P", published: -1}
	s.parts = []*rpPart{p}
	s.open(p, 0)
	val := bytes.Repeat([]byte{'v'}, vlen)
	err := error(nil)
	for i := 0; i < n && err == nil; i++ {
		err = s.appendWith(func(p *rpPart) ([]byte, int) {
			return enum.MakeBatch([]enum.Rec{{Key: []byte(fmt.Sprintf("k%05d", p.seq)), Value: val}}, enum.BatchOpts{BaseTimestamp: 1000}), 1
		})
	}
	if err == nil {
		err = s.flush(false, false)
	}
	if err != nil {
		out.harness = err.Error()
		return
	}
	p.log.mu.Lock()
	nseg := len(p.log.segments)
	p.log.mu.Unlock()
	if nseg != 1 {
		out.harness = fmt.Sprintf("broker layout: expected one segment, have %d", nseg)
		return
	}
	if job.Path == "cold" {
		s.cfg.Cache = "large"
		if err := s.restart(); err != nil {
			out.harness = err.Error()
			return
		}
	}
	bl := int32(len(p.ref[0].Bytes))
	mbs := []int32{bl, 10 * bl, 50*bl - 1, 99 * bl, 1 << 20, 50 << 20}
	var offs []int64
	for o := int64(0); o < p.end(); o++ {
		offs = append(offs, o)
	}
	c04ReadAll(s, p, offs, mbs, out, 1)
	out.nontriv = true
	out.sig = fmt.Sprintf("broker/%s/%s|%s", job.Path, job.Layout, out.sig)
}

func c04Run(t *testing.T, job *c04Job) (out c04Out) {
	rpInBubble(t, func() {
		defer func() {
			if r := recover(); r != nil {
				out.viols = append(out.viols, c04Viol{key: "panic", detail: fmt.Sprintf("panic in storage code: %v\n%s", r, debug.Stack())})
			}
			synctest.Wait()
		}()
		switch job.Kind {
		case "layout":
			c04RunLayout(job, &out)
		case "gap":
			c04RunGap(job, &out)
		case "broker":
			c04RunBroker(job, &out)
		case "restore":
			c04RunRestore(job, &out)
		default:
			out.harness = "unknown job kind " + job.Kind
		}
	})
	return
}

// c04Layouts: every sequence of 1..maxBatches batches over {a,b} with every subset of
// flush positions between batches; shortest first.
func c04Layouts(maxBatches int) []string {
	var out []string
	for n := 1; n <= maxBatches; n++ {
		enum.Product(append(rep2(n, 2), rep2(n-1, 2)...), func(idx []int) bool {
			var b []byte
			for i := 0; i < n; i++ {
				b = append(b, "ab"[idx[i]])
				if i < n-1 && idx[n+i] == 1 {
					b = append(b, '|')
				}
			}
			out = append(out, string(b))
			return true
		})
	}
	return out
}

func rep2(n, v int) []int {
	if n < 0 {
		n = 0
	}
	out := make([]int, n)
	for i := range out {
		out[i] = v
	}
	return out
}

func TestVerifC04(t *testing.T) {
	rep := vh.New(t, "C04")
	defer rep.Finish()
	rep.Rule = "case = one flushed log (layout: 1..N batches of size class a (1 record) or b (2 records) with every subset of flush positions; gap layouts; broker-configuration layouts) x IndexIntervalMessages in {1,2,3,100} x path (range read with cache off | cached | cold cache after restart with read-ahead) on a real PartitionLog; plus restore cases = layout (1..M batches) x every subset of segments whose .index object is missing from the bucket x interval x path (range | cold), where a fresh PartitionLog at the committed offset runs RestoreFromS3: a restore error = partition not served (no reads, counted), a successful restore is read like any other case; in each case every Read(o, maxBytes) for every o below the end of the flushed log and every positive maxBytes from {every distance between two batch boundaries, +-1, 1, 60, 61, 62, 1MiB} is executed; the run must start at a batch boundary at or before the batch holding o (first batch after o in a gap) and extend past the first byte of that batch; outcome signature = path + interval + segment layout (+ index objects) + hash of (start batch, target batch, reaches, length) of all reads, or for a refused restore the error class + segment count + first missing index; non-trivial = some read starts at an earlier batch than the one holding o (sparse index start), or the restore met a missing index object (refused, or served with an unindexed segment)"
	rep.Assumptions = []string{
		"high watermark = end of the flushed log (default flush-on-ack configuration); every enumerated offset is below it",
		"'includes the start of the batch holding o' is read as: the returned run extends beyond the first byte of that batch (a stricter reading would also reject a run cut inside that batch's header)",
		"S3 = storage.MemoryS3Client semantics; synctest bubble per case, quiesced after every read",
		"restore cases: committed offset (metadata store next offset) = end of the flushed log, so every segment is committed; a RestoreFromS3 error means the partition is not served (cmd/broker getPartitionLog returns the error and keeps no log), which is not a fetch and not judged",
		"zero-entry .index objects (well-formed header, count 0) are executed for information only (info_* counters): no writer in the repository produces one, so they are outside the layouts the property quantifies over",
		"broker configuration = the PartitionLogConfig literal of cmd/broker newHandler with default environment (IndexIntervalMessages 100, MaxBytes 4MiB, FlushInterval 500ms in virtual time, ReadAheadSegments 2, cache 32MiB)",
	}
	thorough := vh.Thorough()
	maxBatches := 5
	if thorough {
		maxBatches = 7
	}
	rep.SetInfo("max_batches", maxBatches)
	rep.SetInfo("intervals", []int{1, 2, 3, 100})
	rep.SetInfo("paths", []string{"range", "cached", "cold"})

	var rp c04Job
	if ok, err := vh.LoadReplay(&rp); ok {
		if err != nil {
			t.Fatalf("HARNESS-ERROR load replay: %v", err)
		}
		if rp.Kind == "fetch" {
			return // a replay of the handler part (cmd/broker TestVerifC04Fetch)
		}
		o := c04Run(t, &rp)
		rep.Eval(o.reads)
		rep.Outcome(o.sig, true)
		rep.Cap("replay of one case")
		if o.harness != "" {
			t.Fatalf("HARNESS-ERROR %s", o.harness)
		}
		for _, v := range o.viols {
			rep.Violation(v.key, v.detail, rp)
		}
		return
	}

	defer debug.SetGCPercent(debug.SetGCPercent(400))
	var jobs []*c04Job
	paths := []string{"range", "cached", "cold"}
	for _, lay := range c04Layouts(maxBatches) {
		for _, iv := range []int32{1, 2, 3, 100} {
			for _, path := range paths {
				jobs = append(jobs, &c04Job{Kind: "layout", Layout: lay, Interval: iv, Path: path})
			}
		}
	}
	gaps := []string{"a_a", "ab_ab", "aa_aab", "a|b_aa|b"}
	if thorough {
		gaps = append(gaps, "aab_baa", "ab|a_a|ab", "b_bbb")
	}
	for _, lay := range gaps {
		for _, iv := range []int32{1, 2, 3, 100} {
			for _, path := range []string{"range", "cold"} {
				jobs = append(jobs, &c04Job{Kind: "gap", Layout: lay, Interval: iv, Path: path})
			}
		}
	}
	brokers := []string{"120x10", "120x12288"}
	if thorough {
		brokers = append(brokers, "250x10", "101x1024")
	}
	for _, lay := range brokers {
		for _, path := range []string{"cached", "cold"} {
			jobs = append(jobs, &c04Job{Kind: "broker", Layout: lay, Interval: 100, Path: path})
		}
	}
	// storage variant: the log reopened from the bucket with every subset of .index
	// objects missing (all present first), then the informational zero-entry variants.
	restoreMax := maxBatches
	if thorough {
		restoreMax = maxBatches - 1
	}
	restorePaths := []string{"range", "cold"}
	nRestore, nZero := 0, 0
	for _, lay := range c04Layouts(restoreMax) {
		nseg := strings.Count(lay, "|") + 1
		for _, ix := range c04IndexVariants(nseg) {
			for _, iv := range []int32{1, 2, 3, 100} {
				for _, path := range restorePaths {
					jobs = append(jobs, &c04Job{Kind: "restore", Layout: lay, Interval: iv, Path: path, Index: ix})
					nRestore++
				}
			}
		}
	}
	for _, lay := range c04Layouts(restoreMax) {
		nseg := strings.Count(lay, "|") + 1
		for k := 0; k < nseg; k++ {
			ix := strings.Repeat("p", k) + "z" + strings.Repeat("p", nseg-k-1)
			for _, path := range restorePaths {
				jobs = append(jobs, &c04Job{Kind: "restore", Layout: lay, Interval: 1, Path: path, Index: ix})
				nZero++
			}
		}
	}
	for i, j := range jobs {
		j.seq = int64(i)
	}
	rep.SetInfo("cases", len(jobs))
	rep.SetInfo("restore_max_batches", restoreMax)
	rep.SetInfo("restore_cases_index_missing_or_present", nRestore)
	rep.SetInfo("restore_cases_zero_entry_index_informational", nZero)
	rep.SetInfo("gap_layouts", gaps)
	rep.SetInfo("broker_layouts_batches_x_valuebytes", brokers)

	deadline := vh.Deadline()
	shard, nshards := vh.Shard()
	type found struct {
		job *c04Job
		v   c04Viol
	}
	var mu sync.Mutex
	var zeroFirst *found
	best := map[string][]found{}
	counts := map[string]int64{}
	harnessErr := ""
	capped := false
	type sample struct {
		seq int64
		v   any
	}
	var samples []sample
	ch := make(chan *c04Job, 256)
	var wg sync.WaitGroup
	for w := 0; w < runtime.GOMAXPROCS(0); w++ {
		wg.Add(1)
		go func() {
			defer wg.Done()
			for job := range ch {
				o := c04Run(t, job)
				if job.Kind == "restore" && strings.IndexByte(job.Index, 'z') >= 0 {
					rep.Count("info_zero_entry_index_reads_not_judged", o.reads)
				} else {
					rep.Eval(o.reads)
					rep.Count("cases", 1)
				}
				if o.harness != "" {
					mu.Lock()
					if harnessErr == "" {
						harnessErr = fmt.Sprintf("%s in %+v", o.harness, *job)
					}
					mu.Unlock()
					continue
				}
				if job.Kind == "broker" {
					sum := map[string]string{}
					for mb, offs := range o.stuck {
						sum[fmt.Sprintf("maxBytes=%d", mb)] = fmt.Sprintf("%d offsets without progress (%d..%d)", len(offs), offs[0], offs[len(offs)-1])
					}
					rep.SetInfo(fmt.Sprintf("broker_config_%s_%s", job.Layout, job.Path), sum)
				}
				if job.Kind == "restore" {
					if strings.IndexByte(job.Index, 'z') >= 0 {
						// informational only: no writer produces a zero-entry index
						rep.Count("info_zero_entry_index_cases", 1)
						switch {
						case o.notServed != "":
							rep.Count("info_zero_entry_index_restore_refused", 1)
						case len(o.viols) > 0:
							rep.Count("info_zero_entry_index_served_with_stuck_reads", 1)
							mu.Lock()
							if zeroFirst == nil || job.seq < zeroFirst.job.seq {
								zeroFirst = &found{job, o.viols[0]}
							}
							mu.Unlock()
						default:
							rep.Count("info_zero_entry_index_served_all_reads_progress", 1)
						}
						continue
					}
					if strings.IndexByte(job.Index, 'm') >= 0 {
						rep.Count("restore_cases_with_missing_index", 1)
					}
					if o.notServed != "" {
						rep.Count("restore_not_served_"+o.notServed, 1)
					} else {
						rep.Count("restore_served", 1)
						if o.unindexed > 0 {
							rep.Count("restore_served_with_unindexed_segment", 1)
						}
					}
				}
				sig := o.sig
				for _, v := range o.viols {
					sig += "|VIOL:" + v.key
				}
				rep.Outcome(sig, o.nontriv)
				if o.nontriv && job.seq%211 == 0 {
					mu.Lock()
					samples = append(samples, sample{job.seq, map[string]any{"case": job, "reads": o.reads, "outcome": sig}})
					mu.Unlock()
				}
				if len(o.viols) > 0 {
					mu.Lock()
					for _, v := range o.viols {
						counts[v.key]++
						l := append(best[v.key], found{job, v})
						sort.Slice(l, func(i, j int) bool { return l[i].job.seq < l[j].job.seq })
						if len(l) > 3 {
							l = l[:3]
						}
						best[v.key] = l
					}
					mu.Unlock()
				}
			}
		}()
	}
	for i, job := range jobs {
		if i%nshards != shard {
			continue
		}
		if i%32 == 0 && time.Now().After(deadline) {
			capped = true
			break
		}
		ch <- job
	}
	close(ch)
	wg.Wait()
	sort.Slice(samples, func(i, j int) bool { return samples[i].seq < samples[j].seq })
	for i := 0; i < len(samples); i += 1 + len(samples)/6 {
		rep.Sample(samples[i].v)
	}
	if capped {
		rep.Cap("deadline hit during case enumeration")
	}
	if harnessErr != "" {
		t.Fatalf("HARNESS-ERROR %s", harnessErr)
	}
	if zeroFirst != nil {
		rep.SetInfo("info_zero_entry_index_first_stuck_case", map[string]any{"case": zeroFirst.job, "key": zeroFirst.v.key, "detail": zeroFirst.v.detail})
	}
	keys := make([]string, 0, len(best))
	for k := range best {
		keys = append(keys, k)
	}
	sort.Strings(keys)
	for _, k := range keys {
		rep.Count("violating_cases_"+k, counts[k])
		for _, f := range best[k] {
			ix := ""
			if f.job.Kind == "restore" {
				ix = fmt.Sprintf(" reopened from the bucket with index objects %q (p present, m missing),", f.job.Index)
			}
			rep.Violation(k, fmt.Sprintf("%s layout %q%s interval=%d path=%s: %s", f.job.Kind, f.job.Layout, ix, f.job.Interval, f.job.Path, f.v.detail),
				map[string]any{"kind": f.job.Kind, "layout": f.job.Layout, "index_interval_messages": f.job.Interval, "path": f.job.Path, "index_objects": f.job.Index, "offset": f.v.o, "max_bytes": f.v.mb})
		}
	}
}
