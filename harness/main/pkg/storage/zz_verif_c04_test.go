//go:build verif

package storage

// C04 — a fetch below the high watermark always makes progress.
//
// E3: bounded-exhaustive enumeration of segment layouts (batch size classes x flush
// positions) x index interval x read path (range read, cached, cold cache + read-ahead)
// x every offset below the end of the flushed log x every positive byte limit from a
// boundary-derived alphabet, on real PartitionLog objects. Plus gap layouts (restored
// segments with a hole) and the broker's real configuration (IndexIntervalMessages=100).

import (
	"bytes"
	"context"
	"fmt"
	"hash/fnv"
	"runtime"
	"runtime/debug"
	"sort"
	"sync"
	"testing"
	"testing/synctest"
	"time"

	"github.com/KafScale/platform/internal/verif/enum"
	"github.com/KafScale/platform/internal/verif/vh"
	"github.com/KafScale/platform/pkg/cache"
)

type c04Job struct {
	Kind     string `json:"kind"`   // "layout" | "gap" | "broker"
	Layout   string `json:"layout"` // batches a|b, '|' = flush; a final flush is implied. broker: "<n>x<valueBytes>"
	Interval int32  `json:"index_interval_messages"`
	Path     string `json:"path"` // "range" (cache off) | "cached" (cache on, populated by the flush) | "cold" (cache on, restart, read-ahead 1)
	seq      int64
}

type c04Viol struct {
	key, detail string
	o           int64
	mb          int32
}

type c04Out struct {
	sig     string
	nontriv bool
	viols   []c04Viol // first per key
	harness string
	reads   int64
	stuck   map[int32][]int64 // byte limit -> offsets whose read does not reach the batch holding them
}

// c04Check judges one read below the high watermark.
func c04Check(s *rpSys, p *rpPart, o int64, mb int32, data []byte, err error) (*c04Viol, rpRead) {
	mk := func(key, format string, a ...any) *c04Viol {
		return &c04Viol{key: key, detail: fmt.Sprintf("Read(offset=%d, maxBytes=%d): ", o, mb) + fmt.Sprintf(format, a...), o: o, mb: mb}
	}
	r := rpClassify(s, p, o, data, err)
	if err != nil {
		return mk("read-error-below-high-watermark", "error %v although the log ends at %d", err, p.end()), r
	}
	if len(data) == 0 {
		return mk("empty-response-below-high-watermark", "no bytes although the log ends at %d", p.end()), r
	}
	if r.Problem != "" {
		return mk("response-"+r.Problem, "%s", r.Detail), r
	}
	if r.Target < 0 {
		return mk("harness-no-target", "no reference batch at or after the offset"), r
	}
	if r.Reaches {
		return nil, r
	}
	// the run ends before the first byte of the batch holding o: which mechanism?
	tb := p.ref[r.Target]
	l := p.log
	l.mu.Lock()
	var entries []*IndexEntry
	for _, sg := range l.segments {
		if tb.Base >= sg.baseOffset && tb.Base <= sg.lastOffset {
			entries = l.indexEntries[sg.baseOffset]
		}
	}
	l.mu.Unlock()
	var ent *IndexEntry
	for _, e := range entries {
		if e.Offset <= tb.Base {
			ent = e
		}
	}
	sb := p.ref[r.Start]
	what := fmt.Sprintf("returned %d bytes = batches %d..%d (offsets %d..) of which %d complete, all before batch %d [%d..%d] that holds the offset; the same request repeats forever", len(data), r.Start, r.Target-1, sb.Base, r.Complete, r.Target, tb.Base, tb.Last)
	switch {
	case ent != nil && sb.Base == ent.Offset && ent.Offset < tb.Base && int64(len(data)) == int64(mb):
		return mk("sparse-index-start-capped-by-maxbytes", "%s (read starts at the sparse index entry for offset %d, %d index entries for the segment, and is cut at maxBytes)", what, ent.Offset, len(entries)), r
	case ent != nil && sb.Base < ent.Offset:
		return mk("start-before-index-entry-capped-by-maxbytes", "%s (read starts at offset %d although the index has an entry at %d)", what, sb.Base, ent.Offset), r
	}
	return mk("response-ends-before-requested-offset", "%s", what), r
}

// c04ReadAll issues every read below end and returns per-key first violations.
func c04ReadAll(s *rpSys, p *rpPart, offsets []int64, mbs []int32, out *c04Out, passes int) {
	h := fnv.New64a()
	seen := map[string]bool{}
	for pass := 0; pass < passes; pass++ {
		for _, o := range offsets {
			for _, mb := range mbs {
				data, err := p.log.Read(context.Background(), o, mb)
				synctest.Wait()
				out.reads++
				v, r := c04Check(s, p, o, mb, data, err)
				fmt.Fprintf(h, "%d,%d:%d>%d r=%v l=%d;", o, mb, r.Start, r.Target, r.Reaches, r.Len)
				if r.Start >= 0 && r.Start < r.Target {
					out.nontriv = true // the read started at an earlier batch than the one holding o
				}
				if v != nil && pass == 0 {
					if out.stuck == nil {
						out.stuck = map[int32][]int64{}
					}
					out.stuck[mb] = append(out.stuck[mb], o)
				}
				if v != nil && !seen[v.key] {
					seen[v.key] = true
					out.viols = append(out.viols, *v)
				}
			}
		}
	}
	out.sig = fmt.Sprintf("%x", h.Sum64())
}

func c04Cfg(job *c04Job) rpCfg {
	cfg := rpCfg{Cache: "off", Interval: job.Interval}
	switch job.Path {
	case "cached":
		cfg.Cache = "large"
	case "cold":
		cfg.Cache, cfg.ReadAhead = "large", 1
	}
	return cfg
}

func c04RunLayout(job *c04Job, out *c04Out) {
	s := rpNewSys(c04Cfg(job), false)
	p := s.parts[0]
	for i := 0; i < len(job.Layout); i++ {
		var err error
		if job.Layout[i] == '|' {
			err = s.flush(false, false)
		} else {
			err = s.appendClass(job.Layout[i])
		}
		if err != nil {
			out.harness = err.Error()
			return
		}
	}
	if err := s.flush(false, false); err != nil {
		out.harness = err.Error()
		return
	}
	if job.Path == "cold" {
		if err := s.restart(); err != nil {
			out.harness = err.Error()
			return
		}
	}
	var offs []int64
	for o := int64(0); o < p.end(); o++ {
		offs = append(offs, o)
	}
	passes := 1
	if job.Path == "cold" {
		passes = 2 // second pass finds segments the read-ahead put into the cache
	}
	c04ReadAll(s, p, offs, rpMaxBytes(p, true), out, passes)
	out.sig = fmt.Sprintf("%s/%d/%s|%s|full=%d,range=%d", job.Path, job.Interval, c03Layout(p), out.sig, s.s3.FullGets, s.s3.RangeGets)
}

// c04RunGap: '_' in the layout flushes and re-opens the log two offsets later, which
// leaves a hole between two segments (what a skipped orphan segment leaves behind);
// a fresh log then restores all segments from the bucket and serves the reads.
func c04RunGap(job *c04Job, out *c04Out) {
	s := rpNewSys(c04Cfg(job), false)
	p := s.parts[0]
	for i := 0; i < len(job.Layout); i++ {
		var err error
		switch job.Layout[i] {
		case '|':
			err = s.flush(false, false)
		case '_':
			if err = s.flush(false, false); err == nil {
				p.skipTo = p.end() + 2
				s.open(p, p.skipTo)
			}
		default:
			err = s.appendClass(job.Layout[i])
		}
		if err != nil {
			out.harness = err.Error()
			return
		}
	}
	if err := s.flush(false, false); err != nil {
		out.harness = err.Error()
		return
	}
	if err := s.restart(); err != nil {
		out.harness = err.Error()
		return
	}
	p.log.mu.Lock()
	nseg := len(p.log.segments)
	p.log.mu.Unlock()
	if nseg < 2 {
		out.harness = fmt.Sprintf("gap layout restored %d segments", nseg)
		return
	}
	var offs []int64
	for o := int64(0); o < p.end(); o++ {
		offs = append(offs, o)
	}
	passes := 1
	if job.Path == "cold" {
		passes = 2
	}
	c04ReadAll(s, p, offs, rpMaxBytes(p, true), out, passes)
	out.nontriv = true
	out.sig = fmt.Sprintf("gap/%s/%d/%s|%s", job.Path, job.Interval, c03Layout(p), out.sig)
}

// c04RunBroker uses the PartitionLogConfig literal of cmd/broker newHandler (defaults).
func c04RunBroker(job *c04Job, out *c04Out) {
	var n, vlen int
	if _, err := fmt.Sscanf(job.Layout, "%dx%d", &n, &vlen); err != nil {
		out.harness = "bad broker layout " + job.Layout
		return
	}
	s := &rpSys{cfg: rpCfg{Cache: "large", Interval: 100, ReadAhead: 2}, s3: rpNewS3(), cache: cache.NewSegmentCache(32 << 20)}
	s.logCfg = &PartitionLogConfig{
		Buffer:            WriteBufferConfig{MaxBytes: 4 << 20, FlushInterval: 500 * time.Millisecond},
		Segment:           SegmentWriterConfig{IndexIntervalMessages: 100},
		ReadAheadSegments: 2,
		CacheEnabled:      true,
		Logger:            rpDiscard,
	}
	p := &rpPart{Topic: "t", Part: 0, Tag: "P", published: -1}
	s.parts = []*rpPart{p}
	s.open(p, 0)
	val := bytes.Repeat([]byte{'v'}, vlen)
	err := error(nil)
	for i := 0; i < n && err == nil; i++ {
		err = s.appendWith(func(p *rpPart) ([]byte, int) {
			return enum.MakeBatch([]enum.Rec{{Key: []byte(fmt.Sprintf("k%05d", p.seq)), Value: val}}, enum.BatchOpts{BaseTimestamp: 1000}), 1
		})
	}
	if err == nil {
		err = s.flush(false, false)
	}
	if err != nil {
		out.harness = err.Error()
		return
	}
	p.log.mu.Lock()
	nseg := len(p.log.segments)
	p.log.mu.Unlock()
	if nseg != 1 {
		out.harness = fmt.Sprintf("broker layout: expected one segment, have %d", nseg)
		return
	}
	if job.Path == "cold" {
		s.cfg.Cache = "large"
		if err := s.restart(); err != nil {
			out.harness = err.Error()
			return
		}
	}
	bl := int32(len(p.ref[0].Bytes))
	mbs := []int32{bl, 10 * bl, 50*bl - 1, 99 * bl, 1 << 20, 50 << 20}
	var offs []int64
	for o := int64(0); o < p.end(); o++ {
		offs = append(offs, o)
	}
	c04ReadAll(s, p, offs, mbs, out, 1)
	out.nontriv = true
	out.sig = fmt.Sprintf("broker/%s/%s|%s", job.Path, job.Layout, out.sig)
}

func c04Run(t *testing.T, job *c04Job) (out c04Out) {
	rpInBubble(t, func() {
		defer func() {
			if r := recover(); r != nil {
				out.viols = append(out.viols, c04Viol{key: "panic", detail: fmt.Sprintf("panic in storage code: %v\n%s", r, debug.Stack())})
			}
			synctest.Wait()
		}()
		switch job.Kind {
		case "layout":
			c04RunLayout(job, &out)
		case "gap":
			c04RunGap(job, &out)
		case "broker":
			c04RunBroker(job, &out)
		default:
			out.harness = "unknown job kind " + job.Kind
		}
	})
	return
}

// c04Layouts: every sequence of 1..maxBatches batches over {a,b} with every subset of
// flush positions between batches; shortest first.
func c04Layouts(maxBatches int) []string {
	var out []string
	for n := 1; n <= maxBatches; n++ {
		enum.Product(append(rep2(n, 2), rep2(n-1, 2)...), func(idx []int) bool {
			var b []byte
			for i := 0; i < n; i++ {
				b = append(b, "ab"[idx[i]])
				if i < n-1 && idx[n+i] == 1 {
					b = append(b, '|')
				}
			}
			out = append(out, string(b))
			return true
		})
	}
	return out
}

func rep2(n, v int) []int {
	if n < 0 {
		n = 0
	}
	out := make([]int, n)
	for i := range out {
		out[i] = v
	}
	return out
}

func TestVerifC04(t *testing.T) {
	rep := vh.New(t, "C04")
	defer rep.Finish()
	rep.Rule = "case = one flushed log (layout: 1..N batches of size class a (1 record) or b (2 records) with every subset of flush positions; gap layouts; broker-configuration layouts) x IndexIntervalMessages in {1,2,3,100} x path (range read with cache off | cached | cold cache after restart with read-ahead) on a real PartitionLog; in it every Read(o, maxBytes) for every o below the end of the flushed log and every positive maxBytes from {every distance between two batch boundaries, +-1, 1, 60, 61, 62, 1MiB} is executed; the run must start at a batch boundary at or before the batch holding o (first batch after o in a gap) and extend past the first byte of that batch; outcome signature = path + interval + segment layout + hash of (start batch, target batch, reaches, length) of all reads; non-trivial = some read starts at an earlier batch than the one holding o (sparse index start)"
	rep.Assumptions = []string{
		"high watermark = end of the flushed log (default flush-on-ack configuration); every enumerated offset is below it",
		"'includes the start of the batch holding o' is read as: the returned run extends beyond the first byte of that batch (a stricter reading would also reject a run cut inside that batch's header)",
		"S3 = storage.MemoryS3Client semantics; synctest bubble per case, quiesced after every read",
		"broker configuration = the PartitionLogConfig literal of cmd/broker newHandler with default environment (IndexIntervalMessages 100, MaxBytes 4MiB, FlushInterval 500ms in virtual time, ReadAheadSegments 2, cache 32MiB)",
	}
	thorough := vh.Thorough()
	maxBatches := 5
	if thorough {
		maxBatches = 7
	}
	rep.SetInfo("max_batches", maxBatches)
	rep.SetInfo("intervals", []int{1, 2, 3, 100})
	rep.SetInfo("paths", []string{"range", "cached", "cold"})

	var rp c04Job
	if ok, err := vh.LoadReplay(&rp); ok {
		if err != nil {
			t.Fatalf("HARNESS-ERROR load replay: %v", err)
		}
		o := c04Run(t, &rp)
		rep.Eval(o.reads)
		rep.Outcome(o.sig, true)
		rep.Cap("replay of one case")
		if o.harness != "" {
			t.Fatalf("HARNESS-ERROR %s", o.harness)
		}
		for _, v := range o.viols {
			rep.Violation(v.key, v.detail, rp)
		}
		return
	}

	defer debug.SetGCPercent(debug.SetGCPercent(400))
	var jobs []*c04Job
	paths := []string{"range", "cached", "cold"}
	for _, lay := range c04Layouts(maxBatches) {
		for _, iv := range []int32{1, 2, 3, 100} {
			for _, path := range paths {
				jobs = append(jobs, &c04Job{Kind: "layout", Layout: lay, Interval: iv, Path: path})
			}
		}
	}
	gaps := []string{"a_a", "ab_ab", "aa_aab", "a|b_aa|b"}
	if thorough {
		gaps = append(gaps, "aab_baa", "ab|a_a|ab", "b_bbb")
	}
	for _, lay := range gaps {
		for _, iv := range []int32{1, 2, 3, 100} {
			for _, path := range []string{"range", "cold"} {
				jobs = append(jobs, &c04Job{Kind: "gap", Layout: lay, Interval: iv, Path: path})
			}
		}
	}
	brokers := []string{"120x10", "120x12288"}
	if thorough {
		brokers = append(brokers, "250x10", "101x1024")
	}
	for _, lay := range brokers {
		for _, path := range []string{"cached", "cold"} {
			jobs = append(jobs, &c04Job{Kind: "broker", Layout: lay, Interval: 100, Path: path})
		}
	}
	for i, j := range jobs {
		j.seq = int64(i)
	}
	rep.SetInfo("cases", len(jobs))
	rep.SetInfo("gap_layouts", gaps)
	rep.SetInfo("broker_layouts_batches_x_valuebytes", brokers)

	deadline := vh.Deadline()
	shard, nshards := vh.Shard()
	type found struct {
		job *c04Job
		v   c04Viol
	}
	var mu sync.Mutex
	best := map[string][]found{}
	counts := map[string]int64{}
	harnessErr := ""
	capped := false
	type sample struct {
		seq int64
		v   any
	}
	var samples []sample
	ch := make(chan *c04Job, 256)
	var wg sync.WaitGroup
	for w := 0; w < runtime.GOMAXPROCS(0); w++ {
		wg.Add(1)
		go func() {
			defer wg.Done()
			for job := range ch {
				o := c04Run(t, job)
				rep.Eval(o.reads)
				rep.Count("cases", 1)
				if o.harness != "" {
					mu.Lock()
					if harnessErr == "" {
						harnessErr = fmt.Sprintf("%s in %+v", o.harness, *job)
					}
					mu.Unlock()
					continue
				}
				if job.Kind == "broker" {
					sum := map[string]string{}
					for mb, offs := range o.stuck {
						sum[fmt.Sprintf("maxBytes=%d", mb)] = fmt.Sprintf("%d offsets without progress (%d..%d)", len(offs), offs[0], offs[len(offs)-1])
					}
					rep.SetInfo(fmt.Sprintf("broker_config_%s_%s", job.Layout, job.Path), sum)
				}
				sig := o.sig
				for _, v := range o.viols {
					sig += "|VIOL:" + v.key
				}
				rep.Outcome(sig, o.nontriv)
				if o.nontriv && job.seq%211 == 0 {
					mu.Lock()
					samples = append(samples, sample{job.seq, map[string]any{"case": job, "reads": o.reads, "outcome": sig}})
					mu.Unlock()
				}
				if len(o.viols) > 0 {
					mu.Lock()
					for _, v := range o.viols {
						counts[v.key]++
						l := append(best[v.key], found{job, v})
						sort.Slice(l, func(i, j int) bool { return l[i].job.seq < l[j].job.seq })
						if len(l) > 3 {
							l = l[:3]
						}
						best[v.key] = l
					}
					mu.Unlock()
				}
			}
		}()
	}
	for i, job := range jobs {
		if i%nshards != shard {
			continue
		}
		if i%32 == 0 && time.Now().After(deadline) {
			capped = true
			break
		}
		ch <- job
	}
	close(ch)
	wg.Wait()
	sort.Slice(samples, func(i, j int) bool { return samples[i].seq < samples[j].seq })
	for i := 0; i < len(samples); i += 1 + len(samples)/6 {
		rep.Sample(samples[i].v)
	}
	if capped {
		rep.Cap("deadline hit during case enumeration")
	}
	if harnessErr != "" {
		t.Fatalf("HARNESS-ERROR %s", harnessErr)
	}
	keys := make([]string, 0, len(best))
	for k := range best {
		keys = append(keys, k)
	}
	sort.Strings(keys)
	for _, k := range keys {
		rep.Count("violating_cases_"+k, counts[k])
		for _, f := range best[k] {
			rep.Violation(k, fmt.Sprintf("%s layout %q interval=%d path=%s: %s", f.job.Kind, f.job.Layout, f.job.Interval, f.job.Path, f.v.detail),
				map[string]any{"kind": f.job.Kind, "layout": f.job.Layout, "index_interval_messages": f.job.Interval, "path": f.job.Path, "offset": f.v.o, "max_bytes": f.v.mb})
		}
	}
}
