//go:build verif

package storage

// Shared read-path harness for C03 (fetch returns exactly the acknowledged bytes) and
// C04 (a fetch below the high watermark makes progress): real PartitionLog objects over
// an S3 fake that can fail or park uploads, an optional real cache.SegmentCache, and a
// reference model = the list of appended batches with patched base offsets.

import (
	"bytes"
	"context"
	"encoding/binary"
	"errors"
	"fmt"
	"io"
	"log/slog"
	"sync"
	"testing"
	"testing/synctest"

	"github.com/KafScale/platform/internal/verif/enum"
	"github.com/KafScale/platform/pkg/cache"
)

var rpErrInjected = errors.New("verif: injected s3 upload failure")

// rpS3 is storage.MemoryS3Client plus upload failures, parked uploads and download counters.
type rpS3 struct {
	*MemoryS3Client
	mu          sync.Mutex
	failSegment bool   // UploadSegment fails (while set)
	failIndex   bool   // UploadIndex fails (while set)
	parkPrefix  string // uploads of keys with this prefix park on release
	release     chan error
	parked      int
	FullGets    int
	RangeGets   int
}

func rpNewS3() *rpS3 { return &rpS3{MemoryS3Client: NewMemoryS3Client()} }

func (s *rpS3) park(key string, isSegment bool) error {
	s.mu.Lock()
	pp, ch := s.parkPrefix, s.release
	if pp != "" && len(key) >= len(pp) && key[:len(pp)] == pp && ch != nil {
		s.parked++
		s.mu.Unlock()
		err := <-ch // closed channel = proceed; a sent error = fail (segment upload only takes it)
		if err != nil && isSegment {
			return err
		}
		return nil
	}
	s.mu.Unlock()
	return nil
}

func (s *rpS3) UploadSegment(ctx context.Context, key string, body []byte) error {
	if err := s.park(key, true); err != nil {
		return err
	}
	s.mu.Lock()
	f := s.failSegment
	s.mu.Unlock()
	if f {
		return rpErrInjected
	}
	return s.MemoryS3Client.UploadSegment(ctx, key, body)
}

func (s *rpS3) UploadIndex(ctx context.Context, key string, body []byte) error {
	if err := s.park(key, false); err != nil {
		return err
	}
	s.mu.Lock()
	f := s.failIndex
	s.mu.Unlock()
	if f {
		return rpErrInjected
	}
	return s.MemoryS3Client.UploadIndex(ctx, key, body)
}

func (s *rpS3) DownloadSegment(ctx context.Context, key string, rng *ByteRange) ([]byte, error) {
	s.mu.Lock()
	if rng == nil {
		s.FullGets++
	} else {
		s.RangeGets++
	}
	s.mu.Unlock()
	return s.MemoryS3Client.DownloadSegment(ctx, key, rng)
}

func (s *rpS3) setFail(seg, idx bool) {
	s.mu.Lock()
	s.failSegment, s.failIndex = seg, idx
	s.mu.Unlock()
}

// rpCfg is one configuration of the read path.
type rpCfg struct {
	Cache      string // "off" | "large" | "small"
	Interval   int32  // SegmentWriterConfig.IndexIntervalMessages
	ReadAhead  int    // PartitionLogConfig.ReadAheadSegments
	MaxBatches int    // WriteBufferConfig.MaxBatches (0: only explicit flushes)
}

func (c rpCfg) String() string {
	return fmt.Sprintf("cache=%s/interval=%d/readahead=%d/maxbatches=%d", c.Cache, c.Interval, c.ReadAhead, c.MaxBatches)
}

func (c rpCfg) newCache() *cache.SegmentCache {
	switch c.Cache {
	case "large":
		return cache.NewSegmentCache(1 << 22)
	case "small":
		return cache.NewSegmentCache(400) // holds about one or two small segments: evictions happen
	}
	return nil
}

// rpBatch is one appended batch of the reference model.
type rpBatch struct {
	Base, Last int64
	Bytes      []byte // as sent, with the base offset field patched to Base
}

// rpPart is one partition: the real log plus its reference.
type rpPart struct {
	Topic     string
	Part      int32
	Tag       string
	log       *PartitionLog
	ref       []rpBatch
	durable   int   // ref[:durable] are in committed segments
	inflight  int   // ref[:inflight] were drained by the parked flush
	published int64 // last offset handed to onFlush
	seq       int
	skipTo    int64               // gap layouts: the log was re-opened at this later start offset
	ever      map[int64][]rpBatch // every batch ever appended, by base offset (across restarts)
	cat       []byte
	pos       []int
}

func (p *rpPart) end() int64 {
	e := int64(0)
	if n := len(p.ref); n > 0 {
		e = p.ref[n-1].Last + 1
	}
	if p.skipTo > e {
		e = p.skipTo
	}
	return e
}

// concat returns the reference log bytes and the batch boundaries (memoised; every
// mutation of ref resets cat).
func (p *rpPart) concat() ([]byte, []int) {
	if p.cat != nil && len(p.pos) == len(p.ref)+1 {
		return p.cat, p.pos
	}
	out := []byte{}
	pos := make([]int, 0, len(p.ref)+1)
	for _, b := range p.ref {
		pos = append(pos, len(out))
		out = append(out, b.Bytes...)
	}
	pos = append(pos, len(out))
	p.cat, p.pos = out, pos
	return out, pos
}

// rpSys is a set of partitions sharing one S3 fake and one cache (like one broker).
type rpSys struct {
	cfg     rpCfg
	s3      *rpS3
	cache   *cache.SegmentCache
	parts   []*rpPart
	blocked bool
	done    chan error
	logCfg  *PartitionLogConfig // override (broker configuration layouts)
	// followAssigned: an append that is assigned a base offset beyond the reference's end
	// (the log skipped offsets) is not a harness error; the reference takes the assigned
	// base offset ("apart from the assigned base offset") and has a hole. Set by C03 only.
	followAssigned bool
	offsetGaps     int
}

var rpDiscard = slog.New(slog.NewTextHandler(io.Discard, nil))

func (s *rpSys) plogConfig() PartitionLogConfig {
	if s.logCfg != nil {
		return *s.logCfg
	}
	return PartitionLogConfig{
		Buffer:            WriteBufferConfig{MaxBatches: s.cfg.MaxBatches},
		Segment:           SegmentWriterConfig{IndexIntervalMessages: s.cfg.Interval},
		ReadAheadSegments: s.cfg.ReadAhead,
		CacheEnabled:      s.cfg.Cache != "off",
		Logger:            rpDiscard,
	}
}

func (s *rpSys) open(p *rpPart, start int64) {
	pp := p
	p.log = NewPartitionLog("default", p.Topic, p.Part, start, s.s3, s.cache, s.plogConfig(),
		func(ctx context.Context, a *SegmentArtifact) { pp.published = a.LastOffset }, nil, nil)
}

// rpNewSys builds the partitions: parts[0] is the partition under test, the others are
// decoys (same topic other partition, other topic same partition) that receive mirrored
// operations with different payloads of identical size.
func rpNewSys(cfg rpCfg, decoys bool) *rpSys {
	s := &rpSys{cfg: cfg, s3: rpNewS3(), cache: cfg.newCache()}
	s.parts = []*rpPart{{Topic: "t", Part: 0, Tag: "P", published: -1}}
	if decoys {
		s.parts = append(s.parts, &rpPart{Topic: "t", Part: 1, Tag: "Q", published: -1}, &rpPart{Topic: "u", Part: 0, Tag: "R", published: -1})
	}
	for _, p := range s.parts {
		s.open(p, 0)
	}
	return s
}

// rpMakeBatch builds batch number seq of a partition: class 'a' = 1 short record,
// 'b' = 2 longer records, 'c' = 3 records; payloads name partition and sequence number.
func rpMakeBatch(tag string, seq int, class byte) ([]byte, int) {
	n, vlen := 1, 4
	switch class {
	case 'b':
		n, vlen = 2, 24
	case 'c':
		n, vlen = 3, 9
	}
	recs := make([]enum.Rec, n)
	for i := range recs {
		v := bytes.Repeat([]byte{tag[0]}, vlen)
		recs[i] = enum.Rec{OffsetDelta: int32(i), TimestampDelta: int64(i), Key: []byte(fmt.Sprintf("%s%03d.%d", tag, seq, i)), Value: v}
	}
	return enum.MakeBatch(recs, enum.BatchOpts{BaseTimestamp: 1000}), n
}

// appendRaw appends raw (n records) to every partition (decoys get their own payload via mk).
func (s *rpSys) appendWith(mk func(p *rpPart) ([]byte, int)) error {
	for _, p := range s.parts {
		raw, n := mk(p)
		p.seq++
		rb, err := NewRecordBatchFromBytes(raw)
		if err != nil {
			return fmt.Errorf("NewRecordBatchFromBytes: %w", err)
		}
		base := p.end()
		res, aerr := p.log.AppendBatch(context.Background(), rb)
		// an append-triggered flush may fail (injected): the batch is in the log all the same
		if aerr != nil && !errors.Is(aerr, rpErrInjected) {
			return fmt.Errorf("AppendBatch: %w", aerr)
		}
		if res != nil && res.BaseOffset != base {
			if !s.followAssigned || res.BaseOffset < base {
				return fmt.Errorf("AppendBatch assigned base %d, reference expects %d", res.BaseOffset, base)
			}
			base = res.BaseOffset
			s.offsetGaps++
		}
		patched := append([]byte(nil), raw...)
		binary.BigEndian.PutUint64(patched[0:8], uint64(base))
		nb := rpBatch{Base: base, Last: base + int64(n) - 1, Bytes: patched}
		p.ref = append(p.ref, nb)
		if p.ever == nil {
			p.ever = map[int64][]rpBatch{}
		}
		p.ever[base] = append(p.ever[base], nb)
		p.cat = nil
		if s.cfg.MaxBatches > 0 && aerr == nil && !(s.blocked && p == s.parts[0]) {
			// an append-triggered flush drained everything buffered so far
			if p.log.buffer.Size() == 0 {
				p.durable = len(p.ref)
			}
		}
	}
	return nil
}

func (s *rpSys) appendClass(class byte) error {
	return s.appendWith(func(p *rpPart) ([]byte, int) { return rpMakeBatch(p.Tag, p.seq, class) })
}

// flush flushes every partition; failSeg/failIdx inject an upload failure.
func (s *rpSys) flush(failSeg, failIdx bool) error {
	s.s3.setFail(failSeg, failIdx)
	defer s.s3.setFail(false, false)
	for _, p := range s.parts {
		err := p.log.Flush(context.Background())
		if failSeg || failIdx {
			if err == nil && p.durable < len(p.ref) {
				return fmt.Errorf("flush with injected failure returned nil")
			}
			continue
		}
		if err != nil {
			return fmt.Errorf("Flush: %w", err)
		}
		p.durable = len(p.ref)
	}
	return nil
}

// beginParkedFlush starts Flush of the partition under test in a goroutine whose uploads
// park inside the S3 fake; must run inside a synctest bubble. Decoys flush normally.
func (s *rpSys) beginParkedFlush() error {
	p := s.parts[0]
	s.s3.mu.Lock()
	s.s3.parkPrefix = p.log.segmentPrefix()
	s.s3.release = make(chan error, 2)
	s.s3.parked = 0
	s.s3.mu.Unlock()
	s.done = make(chan error, 1)
	go func() { s.done <- p.log.Flush(context.Background()) }()
	synctest.Wait()
	s.s3.mu.Lock()
	parked := s.s3.parked
	s.s3.mu.Unlock()
	if parked != 2 {
		return fmt.Errorf("expected 2 parked uploads, have %d", parked)
	}
	p.inflight = len(p.ref)
	s.blocked = true
	for _, q := range s.parts[1:] {
		if err := q.log.Flush(context.Background()); err != nil {
			return err
		}
		q.durable = len(q.ref)
	}
	return nil
}

// endParkedFlush releases the parked uploads (fail: the segment upload returns an error).
func (s *rpSys) endParkedFlush(fail bool) error {
	p := s.parts[0]
	s.s3.mu.Lock()
	ch := s.s3.release
	s.s3.parkPrefix = ""
	s.s3.release = nil
	s.s3.mu.Unlock()
	if fail {
		ch <- rpErrInjected
		ch <- rpErrInjected
	} else {
		close(ch)
	}
	err := <-s.done
	synctest.Wait()
	s.blocked = false
	if fail {
		if err == nil {
			return fmt.Errorf("parked flush released with failure returned nil")
		}
		return nil
	}
	if err != nil {
		return fmt.Errorf("parked flush: %w", err)
	}
	p.durable = p.inflight
	return nil
}

// restart replaces every log by a fresh one (fresh cache) restored from the S3 fake.
// Batches that were not in a committed segment leave the reference, unless the restore
// resurrects them: two failed flush attempts (one lost its segment PUT, the other its
// index PUT) can leave a complete segment+index pair of never-acknowledged batches in
// the bucket. Such a tail is re-admitted to the reference only if its bytes are batches
// some producer did append at exactly those offsets (checked against the bucket object,
// not through Read).
func (s *rpSys) restart() error {
	s.cache = s.cfg.newCache()
	for _, p := range s.parts {
		p.ref = p.ref[:p.durable]
		p.cat = nil
		s.open(p, p.published+1)
		if _, err := p.log.RestoreFromS3(context.Background()); err != nil {
			return fmt.Errorf("RestoreFromS3: %w", err)
		}
		durableEnd := p.end()
		p.log.mu.Lock()
		segs := append([]segmentRange(nil), p.log.segments...)
		p.log.mu.Unlock()
		for _, sg := range segs {
			if sg.baseOffset < durableEnd {
				continue
			}
			s.s3.MemoryS3Client.mu.Lock()
			obj := append([]byte(nil), s.s3.MemoryS3Client.data[p.log.segmentKey(sg.baseOffset)]...)
			s.s3.MemoryS3Client.mu.Unlock()
			if len(obj) < 48 {
				return fmt.Errorf("restored segment %d has %d bytes", sg.baseOffset, len(obj))
			}
			body := obj[32 : len(obj)-16]
			cur := sg.baseOffset
			for len(body) > 0 {
				var hit *rpBatch
				for i := range p.ever[cur] {
					c := &p.ever[cur][i]
					if bytes.HasPrefix(body, c.Bytes) {
						hit = c
					}
				}
				if hit == nil {
					return fmt.Errorf("%w: restored segment %d holds bytes at offset %d that no producer appended there", rpErrResurrected, sg.baseOffset, cur)
				}
				p.ref = append(p.ref, *hit)
				body = body[len(hit.Bytes):]
				cur = hit.Last + 1
			}
		}
		p.cat = nil
		p.durable = len(p.ref)
		p.skipTo = 0
		if n := len(p.ref); n == 0 || p.ref[n-1].Last+1 < p.published+1 {
			p.skipTo = p.published + 1
		}
	}
	return nil
}

var rpErrResurrected = errors.New("restored bytes never appended")

// rpRead is the classification of one PartitionLog.Read result against the reference.
type rpRead struct {
	Err      error
	Len      int
	Start    int  // index of the reference batch the returned run starts at (-1: none)
	Target   int  // index of the batch holding o, or of the first batch after o (-1: none)
	Reaches  bool // the run extends past the first byte of the target batch
	Complete int  // number of complete batches in the run
	Problem  string
	Detail   string
}

// rpClassify compares data with the reference log of p.
// Problems (C03): "bytes-never-appended", "other-partition-data", "starts-mid-batch",
// "starts-after-requested-offset".
func rpClassify(s *rpSys, p *rpPart, o int64, data []byte, err error) rpRead {
	r := rpRead{Err: err, Len: len(data), Start: -1, Target: -1}
	for i, b := range p.ref {
		if b.Last >= o {
			r.Target = i
			break
		}
	}
	if err != nil || len(data) == 0 {
		return r
	}
	all, pos := p.concat()
	// candidate starts at batch boundaries; the greatest one not after the target is preferred
	best := -1
	for i := range p.ref {
		if bytes.HasPrefix(all[pos[i]:], data) {
			if best < 0 || (r.Target >= 0 && i <= r.Target) {
				best = i
			}
		}
	}
	if best < 0 {
		if idx := bytes.Index(all, data); idx >= 0 {
			r.Problem = "starts-mid-batch"
			r.Detail = fmt.Sprintf("returned %d bytes are log bytes %d.. which is not a batch boundary (boundaries %v)", len(data), idx, pos)
			return r
		}
		for _, q := range s.parts {
			if q == p {
				continue
			}
			qa, _ := q.concat()
			probe := data
			if len(probe) > 61+8 {
				probe = probe[8:] // skip a base offset field that may coincide
			}
			if len(probe) > 16 && bytes.Contains(qa, probe[:min(len(probe), 80)]) {
				r.Problem = "other-partition-data"
				r.Detail = fmt.Sprintf("returned bytes belong to partition %s/%d", q.Topic, q.Part)
				return r
			}
		}
		// longest common prefix with any boundary, for the report
		bi, bl := -1, 0
		for i := range p.ref {
			n := 0
			for n < len(data) && pos[i]+n < len(all) && all[pos[i]+n] == data[n] {
				n++
			}
			if n > bl {
				bi, bl = i, n
			}
		}
		r.Problem = "bytes-never-appended"
		r.Detail = fmt.Sprintf("returned %d bytes are not a run of the partition's log (longest match: %d bytes from batch %d)", len(data), bl, bi)
		return r
	}
	r.Start = best
	for j := best; j < len(p.ref) && pos[j+1]-pos[best] <= len(data); j++ {
		r.Complete++
	}
	if r.Target >= 0 {
		if best > r.Target {
			r.Problem = "starts-after-requested-offset"
			r.Detail = fmt.Sprintf("offset %d is held by batch %d [%d..%d] but the returned run starts at batch %d (base %d)", o, r.Target, p.ref[r.Target].Base, p.ref[r.Target].Last, best, p.ref[best].Base)
			return r
		}
		r.Reaches = len(data) > pos[r.Target]-pos[best]
	}
	return r
}

// rpInBubble runs f inside a synctest bubble (virtual time, deterministic quiescence).
func rpInBubble(t *testing.T, f func()) {
	synctest.Test(t, func(*testing.T) { f() })
}

// rpMaxBytes is the byte-limit alphabet for a partition state: fixed small values plus
// every distance between two batch boundaries, +-1.
func rpMaxBytes(p *rpPart, all bool) []int32 {
	set := map[int32]bool{}
	var out []int32
	add := func(v int32) {
		if !set[v] {
			set[v] = true
			out = append(out, v)
		}
	}
	_, pos := p.concat()
	for span := 1; span < len(pos); span++ { // whole-batch distances first: 1 batch, 2 batches, ...
		if !all && span > 2 {
			break
		}
		for i := 0; i+span < len(pos); i++ {
			d := int32(pos[i+span] - pos[i])
			add(d)
			add(d - 1)
			add(d + 1)
		}
	}
	for _, v := range []int32{61, 62, 60, 1} {
		add(v)
	}
	add(1 << 20)
	return out
}
