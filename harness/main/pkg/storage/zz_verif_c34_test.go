//go:build verif

package storage

import (
	"fmt"
	"math"
	"testing"
	"time"

	"github.com/KafScale/platform/internal/verif/enum"
	"github.com/KafScale/platform/internal/verif/vh"
)

// TestVerifC34 (main-module half): the point-in-time-restore scanner and the broker's index /
// header / footer readers are run on every element of enum.C34Cases inside a crash-isolated
// worker process (see enum/isolate.go). Oracle: the call returns (value | error); no panic, the
// worker survives, and the call allocates at most 64*len(input)+1MiB.
func TestVerifC34(t *testing.T) {
	cfg, thorough := vC34Config(t)
	if enum.IsoIsChild() {
		enum.IsoChildMain(cfg)
		return
	}
	rep := vh.New(t, "C34")
	defer rep.Finish()
	rep.Rule = "cases = enum.C34Cases: (raw) every byte string <=6 over {00,01,7f,80,ff} as segment and as index; (recarea) the same strings as the record area of a broker-written batch; (prefix) every truncation of valid segments, also with the footer re-attached; (subst) every varint field of every record of valid segments replaced by each boundary value; (hdr) every fixed-width batch/segment header/footer field replaced by boundary values; (combo) every combination of boundary values for record length x key length x value length x header count x header key length x header value length x record count x batch length; (index-*) index header fields x rows present. Signature = target + family + field + outcome class (ok:n / err:<message> / panic / alloc); non-trivial = the input got past the size/magic check at the door"
	rep.Assumptions = []string{
		"allocation per call read from the runtime's cumulative heap-allocation counter (/gc/heap/allocs:bytes, the source of MemStats.TotalAlloc); allowance 64*len(input)+1MiB",
		"a worker death is attributed to the (case, target) written to the progress file immediately before the call",
	}
	res, err := enum.IsoRun(cfg, "TestVerifC34")
	if err != nil {
		t.Fatalf("HARNESS-ERROR %v", err)
	}
	vC34Report(rep, res, "main", thorough)
}

func vC34Report(rep *vh.Report, res *enum.IsoResult, part string, thorough bool) {
	rep.Eval(res.Evals)
	for sig, nt := range res.Sigs {
		rep.Outcome(sig, nt)
	}
	for _, s := range res.Samples {
		rep.Sample(s)
	}
	for k, v := range res.Counters {
		rep.Count(part+"_"+k, v)
	}
	rep.Count(part+"_worker_deaths", int64(res.Restarts))
	for _, c := range res.Caps {
		rep.Cap(c)
	}
	for key, v := range res.Viol {
		for _, ex := range v.Examples {
			rep.Violation(key, ex.Detail, ex.Replay)
		}
		if extra := v.Count - int64(len(v.Examples)); extra > 0 {
			rep.ViolCount[key] += extra
		}
	}
	rep.SetInfo(part+"_max_alloc_per_call_bytes", res.MaxAlloc)
	rep.SetInfo("byte_alphabet", fmt.Sprintf("%x", enum.C34ByteAlphabet))
	rep.SetInfo("varint_values(rem)", enum.C34VarintValues(1000, true))
	rep.SetInfo("combo_values(valid=7,rem=1000)", enum.C34ComboValues(7, 1000, thorough))
}

func vC34Config(t *testing.T) (enum.IsoConfig, bool) {
	thorough := vh.Thorough()
	shard, n := vh.Shard()
	cfg := enum.IsoConfig{
		Tag: "c34main", Shard: shard, NShards: n, Deadline: vh.Deadline(),
		Cases:      func(want func(int) bool, f func(*enum.FuzzCase) bool) { enum.C34Cases(thorough, want, f) },
		TrivialErr: []string{"segment too small", "invalid segment magic", "index too small", "invalid index magic", "footer too small", "header too small", "parse index: index too small", "parse index: invalid index magic"},
	}
	var rp map[string]any
	if ok, err := vh.LoadReplay(&rp); ok {
		if err != nil {
			t.Fatalf("HARNESS-ERROR replay: %v", err)
		}
		cases, _, err := enum.IsoReplayCases(rp)
		if err != nil {
			t.Fatalf("HARNESS-ERROR replay: %v", err)
		}
		cfg.Cases = cases
	}
	cfg.Prepare = func(c *enum.FuzzCase) []byte {
		if c.Batches == nil {
			return c.Data
		}
		// broker-written: the real segment writer wraps the stored client bytes
		bs := make([]RecordBatch, len(c.Batches))
		for i, b := range c.Batches {
			rb, err := NewRecordBatchFromBytes(b)
			if err != nil {
				return c.Data
			}
			bs[i] = rb
		}
		art, err := BuildSegment(SegmentWriterConfig{IndexIntervalMessages: 1}, bs, time.UnixMilli(enum.C34CreatedMs))
		if err != nil {
			return c.Data
		}
		return art.SegmentBytes
	}
	validIndex := enum.RefIndex(1, []enum.IdxEntry{{Offset: 40, Position: 32}})
	var validSeg []byte
	validSeg = enum.BrokerSegment([][]byte{enum.MakeBatch([]enum.Rec{{Key: []byte("k"), Value: []byte("v")}, {OffsetDelta: 1, TimestampDelta: 900, Value: []byte("w")}},
		enum.BatchOpts{BaseOffset: 40, BaseTimestamp: enum.C34BaseTs, MaxTimestamp: enum.I64(enum.C34MaxTs)})}, enum.C34CreatedMs)
	scan := func(cutoff int64) func([]byte) (string, error) {
		return func(b []byte) (string, error) {
			bs, err := collectRecoverableBatches(b, cutoff)
			if err != nil {
				return "", err
			}
			return fmt.Sprintf("ok:%d", min(len(bs), 3)), nil
		}
	}
	plan := func(seg, idx []byte) (string, error) {
		p, err := buildRestorePlan(seg, idx, time.UnixMilli(enum.C34BaseTs+5), time.UnixMilli(enum.C34CreatedMs))
		if err != nil {
			return "", err
		}
		return fmt.Sprintf("ok:keep=%v", p.keep), nil
	}
	cfg.Targets = []enum.IsoTarget{
		{Name: "pitr.collectRecoverableBatches@cutoff=inf", Kind: "segment", Fn: scan(math.MaxInt64)},
		// cutoff between the first and the claimed max timestamp of every generated batch: the record scanner runs
		{Name: "pitr.collectRecoverableBatches@cutoff=mid", Kind: "segment", Fn: scan(enum.C34BaseTs + 5)},
		{Name: "pitr.collectRecoverableBatches@cutoff=early", Kind: "segment", Fn: scan(enum.C34BaseTs - 1)},
		{Name: "pitr.buildRestorePlan", Kind: "segment", Fn: func(b []byte) (string, error) { return plan(b, validIndex) }},
		{Name: "storage.parseSegmentFooter", Kind: "segment", Fn: func(b []byte) (string, error) {
			if len(b) > segmentFooterLen {
				b = b[len(b)-segmentFooterLen:]
			}
			_, err := parseSegmentFooter(b)
			return "ok", err
		}},
		{Name: "storage.parseSegmentHeaderCreatedAt", Kind: "segment", Fn: func(b []byte) (string, error) {
			_, err := parseSegmentHeaderCreatedAt(b)
			return "ok", err
		}},
		{Name: "storage.ParseIndex", Kind: "index", Fn: func(b []byte) (string, error) {
			e, err := ParseIndex(b)
			if err != nil {
				return "", err
			}
			return fmt.Sprintf("ok:%d", min(len(e), 3)), nil
		}},
		{Name: "pitr.buildRestorePlan(index)", Kind: "index", Fn: func(b []byte) (string, error) { return plan(validSeg, b) }},
	}
	return cfg, thorough
}
