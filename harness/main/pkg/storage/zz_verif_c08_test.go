//go:build verif

package storage

// C08 — point-in-time restore copies an exact, valid prefix or nothing.
//
// Bounded-exhaustive enumeration of source histories (segments x batches x records with
// createdAt / record timestamps around the cutoff T, partition filters, one batch whose
// maxTimestamp header may lie) built with the real BuildSegment, run through the real
// RecoverTopicToTimestamp against an in-package S3Client fake, once fault-free and once for
// EVERY single failing S3 call of the copy (puts additionally in the "error returned but the
// object was written" mode), each of those again with every (thorough: every <=2) failing
// clean-up delete(s). The oracle is a reference model written from the property statement.
// The order in which overlapping S3 requests take effect is the second part of the check
// (zz_verif_c08_conc_test.go), which shares the fake, the model and the oracle below.

import (
	"bytes"
	"context"
	"encoding/binary"
	"errors"
	"fmt"
	"hash/crc32"
	"runtime"
	"runtime/debug"
	"sort"
	"strconv"
	"strings"
	"sync"
	"testing"
	"time"

	"github.com/KafScale/platform/internal/verif/enum"
	"github.com/KafScale/platform/internal/verif/sched"
	"github.com/KafScale/platform/internal/verif/vh"
)

const (
	c08NS  = "default"
	c08Src = "orders"
	c08Dst = "orders-restored"
	c08T   = int64(1_700_000_000_000) // cutoff T in ms (plus Cfg.FracUs microseconds)
)

// ---------------------------------------------------------------- case description (replayable)

type c08Batch struct {
	Ts     []int `json:"ts"`                // record timestamps relative to T in ms (-1,0,+1); first = base timestamp
	MaxLie *int  `json:"max_lie,omitempty"` // header maxTimestamp = T+*MaxLie although the true maximum differs
}

type c08Seg struct {
	Created int        `json:"created"` // segment createdAt relative to T in ms
	Batches []c08Batch `json:"batches"`
}

type c08Part struct {
	Segs []c08Seg `json:"segs"`
}

type c08Cfg struct {
	FracUs   int   `json:"t_frac_us"`      // T = c08T ms + FracUs us (RFC3339 cutoffs may carry fractions)
	Interval int32 `json:"index_interval"` // IndexIntervalMessages of the source segments
	Start    int64 `json:"start_offset"`   // first offset of every source partition
}

type c08Fault struct {
	Call    int   `json:"call"`     // index (0-based, issue order) of the copy-phase S3 call that fails; -1 none
	Applied bool  `json:"applied"`  // failing put: the object IS written, then the error is returned
	DelFail []int `json:"del_fail"` // indices (issue order) of clean-up delete calls that fail (object stays)
}

type c08Case struct {
	Cfg    c08Cfg    `json:"cfg"`
	Parts  []c08Part `json:"parts"`  // index = partition id
	Filter []int32   `json:"filter"` // nil = all partitions
	Fault  c08Fault  `json:"fault"`
}

func c08Key(topic string, p int, base int64, ext string) string {
	return fmt.Sprintf("%s/%s/%d/segment-%020d.%s", c08NS, topic, p, base, ext)
}

// ---------------------------------------------------------------- in-package S3 fake

var errC08Injected = errors.New("verif: injected s3 failure")

// c08S3 is a single-keyspace bucket (like a real bucket: segments and indexes share it, listing
// is lexicographic and returns every object under the prefix). Copy-phase calls are numbered in
// issue order; clean-up deletes are numbered separately. Like a real S3 client it is safe for
// concurrent use (one mutex around every operation); the sequential enumeration never contends.
//
// Two ways of injecting failures: by position (fault, sequential enumeration) or, with points set
// (schedule harness, TestVerifC08Conc), every call first parks at a scheduling point of the
// controlled scheduler - the call takes effect when the scheduler lets it continue - and whether it
// fails is an explorer decision taken at that moment.
type c08S3 struct {
	mu        sync.Mutex
	obj       map[string][]byte
	fault     c08Fault
	points    bool
	calls     int
	trace     []string
	dels      int
	failedDel map[string]bool
	delFail   []int
	failedOp  string
	failedKey string
	failedK   int
	applied   bool
	injected  bool
	ninjected int
	// bookkeeping for the mechanism classifier of leftovers (schedule harness)
	returned bool              // the restore call has returned
	deleted  map[string]bool   // a clean-up delete of the key has taken effect
	late     map[string]string // key -> how its last write is ordered against the clean-up
	ops      []string          // every call in effect order (replay output)
}

func c08NewS3(src map[string][]byte, f c08Fault) *c08S3 {
	m := make(map[string][]byte, len(src)+8)
	for k, v := range src {
		m[k] = v
	}
	return &c08S3{obj: m, fault: f, failedDel: map[string]bool{}, trace: make([]string, 0, 32), failedK: -1}
}

// point is the scheduling point + failure decision of one call in the schedule harness:
// -1 = not in that mode, 0 = succeed, 1 = fail without effect, 2 = (puts) written but error returned.
func (s *c08S3) point(op string, alternatives int) int {
	if !s.points {
		return -1
	}
	sched.Env("s3." + op)
	return sched.Choose(alternatives, "fail "+op)
}

// hit numbers a copy-phase call and says whether it fails (and, for a put, is written anyway).
func (s *c08S3) hit(op, key string, mode int) (fail, applied bool) {
	i := s.calls
	s.calls++
	s.trace = append(s.trace, op)
	if mode < 0 {
		fail, applied = i == s.fault.Call, s.fault.Applied
	} else {
		fail, applied = mode != 0, mode == 2
	}
	if fail {
		s.ninjected++
		if !s.injected {
			s.failedOp, s.failedKey, s.failedK, s.applied, s.injected = op, key, i, applied, true
		}
	}
	if s.points {
		s.ops = append(s.ops, fmt.Sprintf("%s %s fail=%v applied=%v", op, key, fail, fail && applied))
	}
	return fail, applied
}

func (s *c08S3) put(op, key string, body []byte) error {
	mode := s.point(op, 3)
	s.mu.Lock()
	defer s.mu.Unlock()
	fail, applied := s.hit(op, key, mode)
	if !fail || applied {
		s.obj[key] = append([]byte(nil), body...)
		if s.points {
			switch {
			case s.deleted[key]:
				s.late[key] = "put-completed-after-its-clean-up-delete"
			case s.returned:
				s.late[key] = "put-completed-after-restore-returned"
			default:
				delete(s.late, key)
			}
		}
	}
	if fail {
		return fmt.Errorf("%s %s: %w", op, key, errC08Injected)
	}
	return nil
}

func (s *c08S3) UploadSegment(ctx context.Context, key string, body []byte) error {
	return s.put("PutSegment", key, body)
}

func (s *c08S3) UploadIndex(ctx context.Context, key string, body []byte) error {
	return s.put("PutIndex", key, body)
}

func (s *c08S3) del(op, key string) error {
	mode := s.point(op, 2)
	s.mu.Lock()
	defer s.mu.Unlock()
	j := s.dels
	s.dels++
	fail := mode > 0
	if mode < 0 {
		for _, x := range s.fault.DelFail {
			if x == j {
				fail = true
			}
		}
	}
	if s.points {
		s.ops = append(s.ops, fmt.Sprintf("%s %s fail=%v", op, key, fail))
	}
	if fail {
		s.failedDel[key] = true
		s.delFail = append(s.delFail, j)
		return fmt.Errorf("delete %s: %w", key, errC08Injected)
	}
	delete(s.obj, key)
	if s.points {
		s.deleted[key] = true
		delete(s.late, key)
	}
	return nil
}

func (s *c08S3) DeleteSegment(ctx context.Context, key string) error {
	return s.del("DeleteSegment", key)
}
func (s *c08S3) DeleteIndex(ctx context.Context, key string) error { return s.del("DeleteIndex", key) }

func (s *c08S3) DownloadSegment(ctx context.Context, key string, rng *ByteRange) ([]byte, error) {
	op := "Get"
	if rng != nil {
		op = "GetRange"
	}
	mode := s.point(op, 2)
	s.mu.Lock()
	defer s.mu.Unlock()
	if fail, _ := s.hit(op, key, mode); fail {
		return nil, fmt.Errorf("%s %s: %w", op, key, errC08Injected)
	}
	data, ok := s.obj[key]
	if !ok {
		return nil, fmt.Errorf("get %s: %w", key, ErrNotFound)
	}
	if rng == nil {
		return append([]byte(nil), data...), nil
	}
	start, end := rng.Start, rng.End
	if start < 0 {
		start = 0
	}
	if end >= int64(len(data)) {
		end = int64(len(data)) - 1
	}
	if start > end || start >= int64(len(data)) {
		return nil, fmt.Errorf("get %s: range %d-%d not satisfiable", key, rng.Start, rng.End)
	}
	return append([]byte(nil), data[start:end+1]...), nil
}

func (s *c08S3) DownloadIndex(ctx context.Context, key string) ([]byte, error) {
	mode := s.point("GetIndex", 2)
	s.mu.Lock()
	defer s.mu.Unlock()
	if fail, _ := s.hit("GetIndex", key, mode); fail {
		return nil, fmt.Errorf("GetIndex %s: %w", key, errC08Injected)
	}
	data, ok := s.obj[key]
	if !ok {
		return nil, fmt.Errorf("get %s: %w", key, ErrNotFound)
	}
	return append([]byte(nil), data...), nil
}

func (s *c08S3) ListSegments(ctx context.Context, prefix string) ([]S3Object, error) {
	mode := s.point("List", 2)
	s.mu.Lock()
	defer s.mu.Unlock()
	if fail, _ := s.hit("List", prefix, mode); fail {
		return nil, fmt.Errorf("List %s: %w", prefix, errC08Injected)
	}
	keys := c08KeysUnder(s.obj, prefix)
	out := make([]S3Object, 0, len(keys))
	for _, k := range keys {
		out = append(out, S3Object{Key: k, Size: int64(len(s.obj[k]))})
	}
	return out, nil
}

func (s *c08S3) EnsureBucket(ctx context.Context) error { return nil }

// judge applies the oracle to what the execution left behind. The lock is held throughout, so a
// request that a changed RecoverTopicToTimestamp left in flight cannot write while the oracle reads
// (the view shares the fake's maps).
func (s *c08S3) judge(src *c08Source, c *c08Case, out *TopicRecoveryResult, err error, panicked *c08Problem) (c08Result, c08Obs) {
	s.mu.Lock()
	defer s.mu.Unlock()
	o := c08Obs{obj: s.obj, calls: s.calls, trace: s.trace, dels: s.dels, failedDel: s.failedDel, failedOp: s.failedOp,
		injected: s.injected, applied: s.applied, k: s.failedK, delFail: s.delFail, ninjected: s.ninjected, late: s.late, ops: s.ops}
	if !s.points {
		// position mode: the signature names the requested fault also when it was not reached
		o.applied, o.delFail = s.fault.Applied, s.fault.DelFail
	}
	return c08Judge(src, c, o, out, err, panicked), o
}

func c08KeysUnder(obj map[string][]byte, prefix string) []string {
	var keys []string
	for k := range obj {
		if strings.HasPrefix(k, prefix) {
			keys = append(keys, k)
		}
	}
	sort.Strings(keys)
	return keys
}

// ---------------------------------------------------------------- source construction + reference model

type c08Rec struct {
	Offset int64
	TsMs   int64
	Raw    []byte // the record exactly as encoded in the batch (length prefix included)
}

type c08SrcSeg struct {
	CreatedMs int64
	Recs      []c08Rec
}

type c08Source struct {
	obj  map[string][]byte
	segs [][]c08SrcSeg // by partition
	lie  string        // "", "low", "high": header maxTimestamp below / above the true maximum
}

func c08BuildSource(c *c08Case) (*c08Source, error) {
	src := &c08Source{obj: map[string][]byte{}}
	for p, part := range c.Parts {
		off := c.Cfg.Start
		var segs []c08SrcSeg
		for _, sg := range part.Segs {
			ss := c08SrcSeg{CreatedMs: c08T + int64(sg.Created)}
			base := off
			var batches []RecordBatch
			for _, b := range sg.Batches {
				recs := make([]enum.Rec, len(b.Ts))
				trueMax := b.Ts[0]
				for i, ts := range b.Ts {
					o := off + int64(i)
					r := enum.Rec{TimestampDelta: int64(ts - b.Ts[0]), OffsetDelta: int32(i)}
					if o%3 != 2 {
						r.Key = []byte("k" + strconv.FormatInt(o%2, 10))
					}
					r.Value = bytes.Repeat([]byte(fmt.Sprintf("p%d-o%d;", p, o)), int(o%3)+1)
					if o%4 == 1 {
						r.Headers = []enum.Header{{Key: "h", Value: []byte{byte(o)}}}
					}
					recs[i] = r
					ss.Recs = append(ss.Recs, c08Rec{Offset: o, TsMs: c08T + int64(ts), Raw: enum.EncodeRecord(r)})
					if ts > trueMax {
						trueMax = ts
					}
				}
				opts := enum.BatchOpts{BaseOffset: off, BaseTimestamp: c08T + int64(b.Ts[0])}
				if b.MaxLie != nil {
					opts.MaxTimestamp = enum.I64(c08T + int64(*b.MaxLie))
					if *b.MaxLie < trueMax {
						src.lie = "low"
					} else if *b.MaxLie > trueMax {
						src.lie = "high"
					}
				}
				rb, err := NewRecordBatchFromBytes(enum.MakeBatch(recs, opts))
				if err != nil {
					return nil, err
				}
				batches = append(batches, rb)
				off += int64(len(b.Ts))
			}
			art, err := BuildSegment(SegmentWriterConfig{IndexIntervalMessages: c.Cfg.Interval}, batches, time.UnixMilli(ss.CreatedMs).UTC())
			if err != nil {
				return nil, err
			}
			src.obj[c08Key(c08Src, p, base, "kfs")] = art.SegmentBytes
			src.obj[c08Key(c08Src, p, base, "index")] = art.IndexBytes
			segs = append(segs, ss)
		}
		src.segs = append(src.segs, segs)
	}
	return src, nil
}

func c08Allowed(filter []int32, p int) bool {
	if len(filter) == 0 {
		return true
	}
	for _, x := range filter {
		if int(x) == p {
			return true
		}
	}
	return false
}

// c08Model is the reference written from the statement: per selected partition, whole segments
// before the final candidate (= first segment created after T, else the last segment), then the
// final candidate's records up to (excluding) its first record later than T.
func c08Model(src *c08Source, c *c08Case) map[int][]c08Rec {
	tUs := c08T*1000 + int64(c.Cfg.FracUs)
	out := map[int][]c08Rec{}
	for p, segs := range src.segs {
		if !c08Allowed(c.Filter, p) || len(segs) == 0 {
			continue
		}
		final := len(segs) - 1
		for i, sg := range segs {
			if sg.CreatedMs*1000 > tUs {
				final = i
				break
			}
		}
		var recs []c08Rec
		for i := 0; i < final; i++ {
			recs = append(recs, segs[i].Recs...)
		}
		for _, r := range segs[final].Recs {
			if r.TsMs*1000 > tUs {
				break
			}
			recs = append(recs, r)
		}
		if len(recs) > 0 {
			out[p] = recs
		}
	}
	return out
}

// ---------------------------------------------------------------- independent decoding of the target

type c08Problem struct{ Key, Detail string }

var c08Castagnoli = crc32.MakeTable(crc32.Castagnoli)

func c08RawRecords(batch []byte, n int) ([][]byte, error) {
	p := batch[61:]
	out := make([][]byte, 0, n)
	for i := 0; i < n; i++ {
		var u uint64
		var shift uint
		j := 0
		for {
			if j >= len(p) || j >= 10 {
				return nil, fmt.Errorf("record %d: bad length varint", i)
			}
			b := p[j]
			j++
			u |= uint64(b&0x7f) << shift
			if b < 0x80 {
				break
			}
			shift += 7
		}
		l := int64(u>>1) ^ -int64(u&1)
		if l < 0 || int(l) > len(p)-j {
			return nil, fmt.Errorf("record %d: bad length %d", i, l)
		}
		out = append(out, p[:j+int(l)])
		p = p[j+int(l):]
	}
	return out, nil
}

// c08DecodeTarget parses every object under the target prefix and returns the decoded records per
// partition plus everything that is structurally wrong.
func c08DecodeTarget(obj map[string][]byte) (map[int][]c08Rec, []c08Problem) {
	prefix := c08NS + "/" + c08Dst + "/"
	var probs []c08Problem
	bad := func(key, format string, a ...any) {
		probs = append(probs, c08Problem{key, fmt.Sprintf(format, a...)})
	}
	type segref struct {
		base int64
		key  string
	}
	byPart := map[int][]segref{}
	var keys []string
	for k := range obj {
		if strings.HasPrefix(k, prefix) {
			keys = append(keys, k)
		}
	}
	sort.Strings(keys)
	for _, k := range keys {
		rest := strings.Split(strings.TrimPrefix(k, prefix), "/")
		ok := len(rest) == 2 && strings.HasPrefix(rest[1], "segment-")
		var p int
		var base int64
		var ext string
		if ok {
			var err1, err2 error
			p, err1 = strconv.Atoi(rest[0])
			name := strings.TrimPrefix(rest[1], "segment-")
			dot := strings.IndexByte(name, '.')
			if dot != 20 {
				ok = false
			} else {
				base, err2 = strconv.ParseInt(name[:dot], 10, 64)
				ext = name[dot+1:]
				ok = err1 == nil && err2 == nil && (ext == "kfs" || ext == "index")
			}
		}
		if !ok {
			bad("target-unexpected-object", "object %q under the target prefix is neither segment nor index", k)
			continue
		}
		if ext == "kfs" {
			byPart[p] = append(byPart[p], segref{base, k})
			if _, has := obj[c08Key(c08Dst, p, base, "index")]; !has {
				bad("target-index-missing", "segment %q has no index object", k)
			}
		} else if _, has := obj[c08Key(c08Dst, p, base, "kfs")]; !has {
			bad("target-index-orphan", "index %q has no segment object", k)
		}
	}
	out := map[int][]c08Rec{}
	for p, segs := range byPart {
		sort.Slice(segs, func(i, j int) bool { return segs[i].base < segs[j].base })
		next := int64(-1)
		for _, sr := range segs {
			data := obj[sr.key]
			if len(data) < 48 || string(data[:4]) != "KAFS" || string(data[len(data)-4:]) != "END!" {
				bad("target-segment-frame-invalid", "%s: bad magic/size (%d bytes)", sr.key, len(data))
				continue
			}
			if v := binary.BigEndian.Uint16(data[4:6]); v != 1 {
				bad("target-segment-frame-invalid", "%s: version %d", sr.key, v)
			}
			hdrBase := int64(binary.BigEndian.Uint64(data[8:16]))
			hdrCount := int32(binary.BigEndian.Uint32(data[16:20]))
			body := data[32 : len(data)-16]
			foot := data[len(data)-16:]
			if crc := binary.BigEndian.Uint32(foot[0:4]); crc != crc32.Checksum(body, c08Castagnoli) {
				bad("target-segment-body-crc-invalid", "%s: footer crc %08x != crc32c(body)", sr.key, crc)
			}
			footLast := int64(binary.BigEndian.Uint64(foot[4:12]))
			batches, err := enum.DecodeBatches(body)
			if err != nil {
				bad("batch-length-invalid", "%s: %v", sr.key, err)
			}
			if len(batches) == 0 {
				bad("target-segment-empty", "%s: no decodable batch", sr.key)
				continue
			}
			if hdrBase != sr.base || batches[0].BaseOffset != sr.base {
				bad("target-segment-base-offset-invalid", "%s: header base %d, first batch base %d", sr.key, hdrBase, batches[0].BaseOffset)
			}
			starts := map[int32]int64{}
			pos := int32(32)
			total := int32(0)
			for bi, d := range batches {
				starts[pos] = d.BaseOffset
				pos += int32(len(d.Raw))
				if d.Magic != 2 {
					bad("batch-magic-invalid", "%s batch %d: magic %d", sr.key, bi, d.Magic)
				}
				if !d.CRCValid {
					bad("batch-crc-invalid", "%s batch %d (base %d): stored crc %08x does not match the batch bytes", sr.key, bi, d.BaseOffset, d.CRC)
				}
				if d.RecordCount <= 0 || int(d.RecordCount) != len(d.Records) {
					bad("batch-count-invalid", "%s batch %d: recordCount %d, decoded %d", sr.key, bi, d.RecordCount, len(d.Records))
					continue
				}
				if d.LastOffsetDelta != d.RecordCount-1 {
					bad("batch-last-offset-delta-invalid", "%s batch %d: lastOffsetDelta %d with %d records", sr.key, bi, d.LastOffsetDelta, d.RecordCount)
				}
				raws, rerr := c08RawRecords(d.Raw, int(d.RecordCount))
				if rerr != nil {
					bad("batch-length-invalid", "%s batch %d: %v", sr.key, bi, rerr)
					continue
				}
				for i, r := range d.Records {
					if next >= 0 && r.Offset != next {
						bad("offset-gap", "partition %d: offset %d follows %d", p, r.Offset, next-1)
					}
					next = r.Offset + 1
					out[p] = append(out[p], c08Rec{Offset: r.Offset, TsMs: r.Timestamp, Raw: raws[i]})
				}
				total += d.RecordCount
			}
			if hdrCount != total {
				bad("target-segment-header-count-invalid", "%s: header messageCount %d, %d records decoded", sr.key, hdrCount, total)
			}
			if footLast != next-1 {
				bad("target-segment-footer-last-offset-invalid", "%s: footer lastOffset %d, last record %d", sr.key, footLast, next-1)
			}
			// index
			idx, has := obj[c08Key(c08Dst, p, sr.base, "index")]
			if !has {
				continue
			}
			if len(idx) < 16 || string(idx[:4]) != "IDX\x00" || binary.BigEndian.Uint16(idx[4:6]) != 1 {
				bad("target-index-invalid", "%s: bad index header", sr.key)
				continue
			}
			n := int(int32(binary.BigEndian.Uint32(idx[6:10])))
			if n < 1 || len(idx) != 16+12*n {
				bad("target-index-invalid", "%s: %d entries in %d bytes", sr.key, n, len(idx))
				continue
			}
			prev := int64(-1)
			for i := 0; i < n; i++ {
				e := idx[16+12*i:]
				eo := int64(binary.BigEndian.Uint64(e[0:8]))
				ep := int32(binary.BigEndian.Uint32(e[8:12]))
				if b, ok := starts[ep]; !ok || b != eo {
					bad("target-index-invalid", "%s: entry %d (offset %d, position %d) does not point at the start of the batch with that base offset", sr.key, i, eo, ep)
				}
				if eo <= prev {
					bad("target-index-invalid", "%s: entry offsets not strictly increasing", sr.key)
				}
				prev = eo
			}
		}
	}
	return out, probs
}

// c08Compare classifies the difference between the expected prefix and what was restored.
func c08Compare(p int, exp, got []c08Rec, tUs int64) (string, string) {
	n := len(exp)
	if len(got) < n {
		n = len(got)
	}
	for i := 0; i < n; i++ {
		e, g := exp[i], got[i]
		switch {
		case e.Offset != g.Offset:
			return "offset-mismatch", fmt.Sprintf("partition %d record #%d: offset %d, source prefix has %d", p, i, g.Offset, e.Offset)
		case !bytes.Equal(e.Raw, g.Raw):
			return "record-bytes-differ", fmt.Sprintf("partition %d offset %d: restored record %x, source %x", p, e.Offset, g.Raw, e.Raw)
		case e.TsMs != g.TsMs:
			return "record-timestamp-differs", fmt.Sprintf("partition %d offset %d: restored timestamp T%+d, source T%+d", p, e.Offset, g.TsMs-c08T, e.TsMs-c08T)
		}
	}
	if len(got) < len(exp) {
		return "prefix-cut-too-early", fmt.Sprintf("partition %d: %d records restored, the prefix up to the final segment's first record later than T has %d (first missing offset %d, timestamp T%+d)",
			p, len(got), len(exp), exp[len(got)].Offset, exp[len(got)].TsMs-c08T)
	}
	if len(got) > len(exp) {
		x := got[len(exp)]
		if x.TsMs*1000 > tUs {
			return "late-record-restored", fmt.Sprintf("partition %d: offset %d with timestamp T%+dms is later than T but was restored (%d records restored, %d expected)", p, x.Offset, x.TsMs-c08T, len(got), len(exp))
		}
		return "restored-beyond-cut", fmt.Sprintf("partition %d: offset %d restored although it follows the cut (%d records restored, %d expected)", p, x.Offset, len(got), len(exp))
	}
	return "", ""
}

// ---------------------------------------------------------------- one execution + oracle

type c08Result struct {
	probs      []c08Problem
	sig        string
	nontrivial bool
	calls      int
	trace      []string
	dels       int
	ok         bool // restore returned success
}

// c08Obs is what one execution left behind, as seen by the oracle.
type c08Obs struct {
	obj       map[string][]byte // final bucket content
	calls     int               // copy-phase calls issued
	trace     []string          // their op names in issue order
	dels      int               // clean-up deletes issued
	failedDel map[string]bool   // keys whose delete was made to fail
	failedOp  string            // op of the (first) injected copy failure
	injected  bool
	applied   bool  // the failing put was written although it returned an error
	k         int   // issue index of the (first) failing copy call, -1 none
	delFail   []int // issue indices of the failing deletes
	// schedule harness only: for objects under the target prefix, how the last write of the key is
	// ordered against the clean-up ("" = ordinary)
	late      map[string]string
	ninjected int      // injected copy failures (the schedule harness may reach more than one when the copy is concurrent)
	ops       []string // schedule harness: every call in effect order
}

func c08Restore(s3 S3Client, c *c08Case) (out *TopicRecoveryResult, err error, panicked *c08Problem) {
	defer func() {
		if r := recover(); r != nil {
			panicked = &c08Problem{"panic", fmt.Sprint(r)}
			err = fmt.Errorf("panic: %v", r)
		}
	}()
	out, err = RecoverTopicToTimestamp(context.Background(), s3, TopicRecoveryConfig{
		SourceNamespace: c08NS, SourceTopic: c08Src, TargetNamespace: c08NS, TargetTopic: c08Dst,
		RestoreTo:  time.UnixMilli(c08T).Add(time.Duration(c.Cfg.FracUs) * time.Microsecond),
		Partitions: c.Filter,
	})
	return
}

func c08Run(src *c08Source, c *c08Case, f c08Fault) (res c08Result) {
	s3 := c08NewS3(src.obj, f)
	out, err, panicked := c08Restore(s3, c)
	res, _ = s3.judge(src, c, out, err, panicked)
	return res
}

// c08Judge is the oracle of the statement applied to the state one restore left behind.
func c08Judge(src *c08Source, c *c08Case, o c08Obs, out *TopicRecoveryResult, err error, panicked *c08Problem) (res c08Result) {
	if panicked != nil {
		res.probs = append(res.probs, *panicked)
	}
	res.calls, res.trace, res.dels = o.calls, o.trace, o.dels
	bad := func(key, format string, a ...any) {
		res.probs = append(res.probs, c08Problem{key, fmt.Sprintf(format, a...)})
	}
	// the source must be left alone in every case
	for k, v := range src.obj {
		if g, ok := o.obj[k]; !ok || !bytes.Equal(g, v) {
			bad("source-modified", "source object %q changed or disappeared", k)
		}
	}
	tUs := c08T*1000 + int64(c.Cfg.FracUs)
	if err == nil && out != nil {
		res.ok = true
		got, probs := c08DecodeTarget(o.obj)
		res.probs = append(res.probs, probs...)
		exp := c08Model(src, c)
		var sb strings.Builder
		sb.WriteString("ok")
		if o.injected {
			fmt.Fprintf(&sb, "|swallowed:%s", o.failedOp)
		}
		cut := false
		for p := range src.segs {
			e, g := exp[p], got[p]
			if !c08Allowed(c.Filter, p) {
				if len(g) > 0 {
					bad("unselected-partition-restored", "partition %d is not in the filter %v but %d records were restored", p, c.Filter, len(g))
				}
				fmt.Fprintf(&sb, "|p%d:skip", p)
				continue
			}
			if key, detail := c08Compare(p, e, g, tUs); key != "" {
				if src.lie != "" {
					key += ":lying-maxts-" + src.lie
				}
				bad(key, "%s", detail)
			}
			nsrc, nseg := 0, 0
			for _, sg := range src.segs[p] {
				nsrc += len(sg.Recs)
				if len(e) >= nsrc {
					nseg++
				}
			}
			if len(e) < nsrc {
				cut = true
			}
			fmt.Fprintf(&sb, "|p%d:segs=%d/%d,recs=%d/%d", p, nseg, len(src.segs[p]), len(e), nsrc)
		}
		for p := range got {
			if p >= len(src.segs) {
				bad("unselected-partition-restored", "partition %d does not exist in the source", p)
			}
		}
		if src.lie != "" {
			sb.WriteString("|lie=" + src.lie)
		}
		res.sig = sb.String()
		res.nontrivial = cut || o.injected || src.lie != ""
		return res
	}
	// failed restore: nothing may remain under the target prefix unless its delete was made to fail
	left := c08KeysUnder(o.obj, c08NS+"/"+c08Dst+"/")
	nleft := 0
	for _, k := range left {
		if o.failedDel[k] {
			continue
		}
		nleft++
		ext := "kfs"
		if strings.HasSuffix(k, ".index") {
			ext = "index"
		}
		why := "without-injected-failure"
		if o.injected {
			why = "after-" + o.failedOp + "-failed"
			if o.applied {
				why = "after-" + o.failedOp + "-error-applied"
			}
		}
		how := ""
		if m := o.late[k]; m != "" {
			why += ":" + m
			how = " (" + m + ")"
		}
		bad("leftover-"+ext+"-"+why, "restore failed (%v) but %q remains under the target prefix%s and no delete of it was made to fail (deletes issued: %d, failed deletes: %v)", err, k, how, o.dels, c08SortedKeys(o.failedDel))
	}
	res.sig = fmt.Sprintf("fail|op=%s|k=%d|applied=%v|dels=%d|delfail=%v|kept=%d|left=%d", o.failedOp, o.k, o.applied, o.dels, o.delFail, len(left)-nleft, nleft)
	res.nontrivial = o.injected
	return res
}

func c08SortedKeys(m map[string]bool) []string {
	out := make([]string, 0, len(m))
	for k := range m {
		out = append(out, k)
	}
	sort.Strings(out)
	return out
}

// ---------------------------------------------------------------- enumeration

// c08Shapes returns every layout of 1..maxRecs records into <=3 segments x <=2 batches x <=3 records,
// simplest first. A shape is a list of segments, each a list of batch sizes.
func c08Shapes(maxRecs int) [][][]int {
	var out [][][]int
	clone := func(s [][]int) [][]int {
		c := make([][]int, len(s))
		for i := range s {
			c[i] = append([]int(nil), s[i]...)
		}
		return c
	}
	var rec func(cur [][]int, total int)
	rec = func(cur [][]int, total int) {
		if total > 0 {
			out = append(out, clone(cur))
		}
		if total == maxRecs {
			return
		}
		if n := len(cur); n > 0 {
			seg := cur[n-1]
			if b := len(seg); seg[b-1] < 3 {
				seg[b-1]++
				rec(cur, total+1)
				seg[b-1]--
			}
			if len(seg) < 2 {
				cur[n-1] = append(seg, 1)
				rec(cur, total+1)
				cur[n-1] = seg
			}
		}
		if len(cur) < 3 {
			rec(append(cur, []int{1}), total+1)
		}
	}
	rec(nil, 0)
	cnt := func(s [][]int) (n, b int) {
		for _, sg := range s {
			b += len(sg)
			for _, x := range sg {
				n += x
			}
		}
		return
	}
	sort.SliceStable(out, func(i, j int) bool {
		ni, bi := cnt(out[i])
		nj, bj := cnt(out[j])
		if ni != nj {
			return ni < nj
		}
		if len(out[i]) != len(out[j]) {
			return len(out[i]) < len(out[j])
		}
		return bi < bj
	})
	return out
}

var c08Rel = []int{-1, 0, 1}

// c08PartHistories enumerates every partition history with minRecs..maxRecs records: shape x record
// timestamps x segment createdAt (x, for histories of <= liesMax records, at most one batch with a
// lying maxTimestamp header).
func c08PartHistories(minRecs, maxRecs, liesMax int, f func(c08Part) bool) {
	for _, shape := range c08Shapes(maxRecs) {
		n, nb := 0, 0
		for _, sg := range shape {
			nb += len(sg)
			for _, x := range sg {
				n += x
			}
		}
		if n < minRecs {
			continue
		}
		dims := make([]int, 0, n+len(shape))
		for i := 0; i < len(shape)+n; i++ {
			dims = append(dims, 3)
		}
		stop := false
		enum.Product(dims, func(idx []int) bool {
			build := func(lieBatch, lieVal int) c08Part {
				var p c08Part
				ri := len(shape)
				bi := 0
				for si, sg := range shape {
					s := c08Seg{Created: c08Rel[idx[si]]}
					for _, sz := range sg {
						b := c08Batch{Ts: make([]int, sz)}
						for k := 0; k < sz; k++ {
							b.Ts[k] = c08Rel[idx[ri]]
							ri++
						}
						if bi == lieBatch {
							v := lieVal
							b.MaxLie = &v
						}
						bi++
						s.Batches = append(s.Batches, b)
					}
					p.Segs = append(p.Segs, s)
				}
				return p
			}
			honest := build(-1, 0)
			if !f(honest) {
				stop = true
				return false
			}
			if n <= liesMax {
				bi := 0
				for _, sg := range honest.Segs {
					for _, b := range sg.Batches {
						mx := b.Ts[0]
						for _, t := range b.Ts {
							if t > mx {
								mx = t
							}
						}
						for _, v := range c08Rel {
							if v == mx {
								continue
							}
							if !f(build(bi, v)) {
								stop = true
								return false
							}
						}
						bi++
					}
				}
			}
			return true
		})
		if stop {
			return
		}
	}
}

type c08Bounds struct {
	FamA, FamALies, FamB, FamBLies, FamCEach, FamCTotal int // record bounds per family
	MaxDelFail                                          int
}

var c08BaseCfg = c08Cfg{FracUs: 0, Interval: 1, Start: 0}

// c08Histories enumerates all fault-free cases (histories) in simplest-first order.
func c08Histories(b c08Bounds, f func(c08Case) bool) {
	ok := true
	// family A: one partition, base configuration, no filter, lying headers included
	c08PartHistories(1, b.FamA, b.FamALies, func(p c08Part) bool {
		ok = f(c08Case{Cfg: c08BaseCfg, Parts: []c08Part{p}})
		return ok
	})
	if !ok {
		return
	}
	// family B: one partition, every secondary configuration x every filter, lying headers included
	for _, frac := range []int{0, 500} {
		for _, iv := range []int32{1, 2, 100} {
			for _, st := range []int64{0, 5} {
				for _, fl := range [][]int32{nil, {0}, {1}} {
					cfg := c08Cfg{FracUs: frac, Interval: iv, Start: st}
					if cfg == c08BaseCfg && fl == nil {
						continue // already in family A
					}
					c08PartHistories(1, b.FamB, b.FamBLies, func(p c08Part) bool {
						ok = f(c08Case{Cfg: cfg, Parts: []c08Part{p}, Filter: fl})
						return ok
					})
					if !ok {
						return
					}
				}
			}
		}
	}
	// family C: two partitions (partition 0 may be empty), honest headers, every filter;
	// n0 <= FamCEach, 1 <= n1 <= FamCEach, n0+n1 <= FamCTotal records
	byN := make([][]c08Part, b.FamCEach+1)
	byN[0] = []c08Part{{}}
	for n := 1; n <= b.FamCEach; n++ {
		c08PartHistories(n, n, 0, func(p c08Part) bool { byN[n] = append(byN[n], p); return true })
	}
	for total := 1; total <= b.FamCTotal; total++ {
		for n1 := 1; n1 <= b.FamCEach && n1 <= total; n1++ {
			n0 := total - n1
			if n0 > b.FamCEach {
				continue
			}
			for _, p0 := range byN[n0] {
				for _, p1 := range byN[n1] {
					for _, fl := range [][]int32{nil, {0}, {1}} {
						if !f(c08Case{Cfg: c08BaseCfg, Parts: []c08Part{p0, p1}, Filter: fl}) {
							return
						}
					}
				}
			}
		}
	}
}

// c08ExploreHistory runs one history fault-free, then once per failing copy call (puts in both
// failure modes), and each failing run again with every subset of <= maxDelFail of the clean-up
// deletes it issued made to fail. visit receives every execution.
func c08ExploreHistory(c *c08Case, maxDelFail int, visit func(f c08Fault, r c08Result)) error {
	src, err := c08BuildSource(c)
	if err != nil {
		return err
	}
	none := c08Fault{Call: -1}
	base := c08Run(src, c, none)
	visit(none, base)
	for k := 0; k < base.calls; k++ {
		modes := []bool{false}
		if strings.HasPrefix(base.trace[k], "Put") {
			modes = []bool{false, true}
		}
		for _, applied := range modes {
			f := c08Fault{Call: k, Applied: applied}
			r := c08Run(src, c, f)
			visit(f, r)
			for j := 0; j < r.dels; j++ {
				f1 := c08Fault{Call: k, Applied: applied, DelFail: []int{j}}
				visit(f1, c08Run(src, c, f1))
				if maxDelFail >= 2 {
					for j2 := j + 1; j2 < r.dels; j2++ {
						f2 := c08Fault{Call: k, Applied: applied, DelFail: []int{j, j2}}
						visit(f2, c08Run(src, c, f2))
					}
				}
			}
		}
	}
	return nil
}

// ---------------------------------------------------------------- test entry point

type c08Found struct {
	idx    int64
	sub    int
	detail string
	replay c08Case
	count  int64
}

func TestVerifC08(t *testing.T) {
	rep := vh.New(t, "C08")
	defer rep.Finish()
	rep.Rule = "case = source history (layout of records into <=3 segments x <=2 batches x <=3 records per partition; every record timestamp and every segment createdAt in {T-1,T,T+1} ms, later records may be earlier than the batch base (negative deltas); at most one batch whose maxTimestamp header lies; 1-2 partitions; filter in {none,{0},{1}}; T with/without a sub-millisecond fraction; index interval; start offset) x fault (none | k-th S3 call of the copy fails, puts also in 'written but error returned' mode) x failing clean-up deletes. Non-trivial = a failure was injected, or the model cuts the source (restored prefix shorter than the source), or a header lies."
	rep.Assumptions = []string{
		"S3 is an in-package single-keyspace fake (lexicographic listing of all objects, inclusive clamped ranges like MemoryS3Client; safe for concurrent use); in this part every S3 call completes before the next is issued and a request still in flight when the restore returns is not waited for (orderings of overlapping requests: schedule part TestVerifC08Conc)",
		"the first record of a batch carries delta 0 (base timestamp = first record's timestamp), as Kafka producers build batches",
		"only uncompressed batches (the code rejects compressed batches that need a cut)",
		"metadata side of the CLI (etcd topic creation / offsets) is not exercised; the check observes target S3 objects",
		"a fault-free restore returning an error is not judged (statement is conditional on success); such cases are counted and cap exhaustiveness",
	}
	// replay of a single case
	var rc c08Case
	if ok, err := vh.LoadReplay(&rc); ok {
		if err != nil {
			t.Fatalf("HARNESS-ERROR replay: %v", err)
		}
		if len(rc.Parts) == 0 {
			return // a replay of the schedule part (TestVerifC08Conc), not of this enumeration
		}
		src, err := c08BuildSource(&rc)
		if err != nil {
			t.Fatalf("HARNESS-ERROR replay build: %v", err)
		}
		r := c08Run(src, &rc, rc.Fault)
		rep.Eval(1)
		rep.Outcome(r.sig, r.nontrivial)
		rep.Sample(map[string]any{"case": rc, "outcome": r.sig})
		for _, p := range r.probs {
			rep.Violation(p.Key, p.Detail, rc)
		}
		return
	}

	b := c08Bounds{FamA: 4, FamALies: 3, FamB: 3, FamBLies: 2, FamCEach: 2, FamCTotal: 4, MaxDelFail: 1}
	if vh.Thorough() {
		b = c08Bounds{FamA: 5, FamALies: 4, FamB: 3, FamBLies: 3, FamCEach: 3, FamCTotal: 4, MaxDelFail: 2}
	}
	rep.SetInfo("records_per_partition_max", map[string]int{
		"familyA_single_partition_base_cfg_honest": b.FamA, "familyA_with_one_lying_header": b.FamALies,
		"familyB_single_partition_all_cfg_x_filters_honest": b.FamB, "familyB_with_one_lying_header": b.FamBLies,
		"familyC_two_partitions_each_honest": b.FamCEach, "familyC_two_partitions_total": b.FamCTotal})
	rep.SetInfo("layout", "<=3 segments x <=2 batches x <=3 records per partition")
	rep.SetInfo("timestamps", "segment createdAt and every record timestamp in {T-1,T,T+1} ms; T in {exact ms, +500us}")
	rep.SetInfo("lying_header", "at most one batch per history with maxTimestamp header in {T-1,T,T+1} != true maximum (families A,B up to the stated record bound)")
	rep.SetInfo("faults", fmt.Sprintf("every single failing copy call (List/GetRange/Get/GetIndex/PutSegment/PutIndex; puts also error-after-write) x every subset of <=%d failing clean-up deletes", b.MaxDelFail))
	rep.SetInfo("secondary", "index interval {1,2,100}, start offset {0,5}, filter {none,{0},{1}}")

	defer debug.SetGCPercent(debug.SetGCPercent(800)) // allocation-heavy, tiny live heap
	deadline := vh.Deadline()
	shard, nshards := vh.Shard()
	type job struct {
		idx int64
		c   c08Case
	}
	jobs := make(chan job, 1024)
	var capped bool
	var histories int64
	go func() {
		defer close(jobs)
		var idx int64
		c08Histories(b, func(c c08Case) bool {
			i := idx
			idx++
			if int(i%int64(nshards)) != shard {
				return true
			}
			if i%512 == 0 && time.Now().After(deadline) {
				capped = true
				return false
			}
			histories++
			jobs <- job{i, c}
			return true
		})
	}()

	var mu sync.Mutex
	found := map[string]*c08Found{}
	var faultFreeErrors, successes, failures, maxCalls int64
	var wg sync.WaitGroup
	workers := runtime.GOMAXPROCS(0)
	for w := 0; w < workers; w++ {
		wg.Add(1)
		go func() {
			defer wg.Done()
			seen := map[string]bool{}
			var evals, ffe, succ, fail, mc int64
			for j := range jobs {
				c := j.c
				sub := 0
				err := c08ExploreHistory(&c, b.MaxDelFail, func(f c08Fault, r c08Result) {
					evals++
					sub++
					if r.ok {
						succ++
					} else {
						fail++
						if f.Call < 0 {
							ffe++
						}
					}
					if int64(r.calls) > mc {
						mc = int64(r.calls)
					}
					if !seen[r.sig] {
						seen[r.sig] = true
						rep.Outcome(r.sig, r.nontrivial)
						if r.nontrivial && len(seen)%11 == 3 && rep.WantSample() {
							cc := c
							cc.Fault = f
							rep.Sample(map[string]any{"case": cc, "outcome": r.sig})
						}
					}
					if len(r.probs) > 0 {
						mu.Lock()
						for _, p := range r.probs {
							fd := found[p.Key]
							if fd == nil {
								fd = &c08Found{idx: -1}
								found[p.Key] = fd
							}
							fd.count++
							if fd.idx < 0 || j.idx < fd.idx || (j.idx == fd.idx && sub < fd.sub) {
								cc := c
								cc.Fault = f
								fd.idx, fd.sub, fd.detail, fd.replay = j.idx, sub, p.Detail, cc
							}
						}
						mu.Unlock()
					}
				})
				if err != nil {
					t.Errorf("HARNESS-ERROR building source %+v: %v", c, err)
					return
				}
			}
			rep.Eval(evals)
			mu.Lock()
			faultFreeErrors += ffe
			successes += succ
			failures += fail
			if mc > maxCalls {
				maxCalls = mc
			}
			mu.Unlock()
		}()
	}
	wg.Wait()
	rep.Count("histories", histories)
	rep.Count("restores_succeeded", successes)
	rep.Count("restores_failed", failures)
	rep.SetInfo("max_copy_calls_in_one_restore", maxCalls)
	if capped {
		rep.Cap("deadline reached before the history enumeration finished")
	}
	if faultFreeErrors > 0 {
		rep.Count("fault_free_errors", faultFreeErrors)
		rep.Cap(fmt.Sprintf("%d fault-free restores returned an error; the success oracle was not exercised on them", faultFreeErrors))
	}
	keys := make([]string, 0, len(found))
	for k := range found {
		keys = append(keys, k)
	}
	sort.Slice(keys, func(i, j int) bool {
		a, c := found[keys[i]], found[keys[j]]
		if a.idx != c.idx {
			return a.idx < c.idx
		}
		return keys[i] < keys[j]
	})
	for _, k := range keys {
		fd := found[k]
		rep.Violation(k, fd.detail, fd.replay)
		rep.ViolCount[k] = fd.count
	}
}
