//go:build verif

package storage

import (
	"context"
	"fmt"
	"math"
	"strings"
	"time"

	"github.com/KafScale/platform/internal/verif/enum"
)

// C07, main half, two additions:
//
//  1. vC07WideCorpus: the record timestamp delta is a Kafka varlong (zig-zag, 1..10 bytes). The
//     shared corpus (enum.C07Corpus) reaches 5-byte deltas in the quick tier; this family walks
//     every encoded width: for n = 1..9 the largest n-byte and the smallest (n+1)-byte delta of
//     either sign, the 32-bit edges and the two 64-bit extremes, in every position of a batch of
//     <= 2 (thorough <= 3) records, over two batch base timestamps.
//  2. vC07Restore: the point-in-time restore as a whole (RecoverTopicToTimestamp) is one more
//     reader of the segment; with a cut-off that lies at or after every produced record it must
//     write a target segment holding exactly the produced records.

// vC07WideBaseTs are the batch base timestamps of the wide family (a current-time batch and the
// epoch, from which every int64 delta is reachable without overflow).
var vC07WideBaseTs = []int64{1700000000000, 0}

// vC07WideDeltas is the wide timestamp-delta alphabet, shortest encoding first.
func vC07WideDeltas() []int64 {
	d := []int64{0}
	for n := uint(1); n <= 9; n++ {
		p := int64(1) << (7*n - 1) // zig-zag(p-1) is the largest n-byte varlong, zig-zag(p) needs n+1 bytes
		d = append(d, p-1, p, -p, -p-1)
		if n == 4 {
			// inside the 5-byte range: the int32 edges (a reader that narrows the delta to 32 bits)
			d = append(d, 1<<31-1, 1<<31, -(1 << 31), -(1<<31)-1)
		}
	}
	return append(d, math.MaxInt64, math.MinInt64)
}

// vC07WideCorpus enumerates the wide family with indices startIdx, startIdx+1, ... in a fixed
// order: base timestamp x every sequence of 1..maxRecs records over the wide delta alphabet
// (record i = key "k", value "v<i>", timestamp delta d). Sequences in which base timestamp + delta
// leaves the int64 range are not well-formed record timestamps and are skipped.
func vC07WideCorpus(thorough bool, startIdx int, f func(c *enum.SegCase) bool) {
	deltas := vC07WideDeltas()
	maxRecs := 2
	if thorough {
		maxRecs = 3
	}
	idx := startIdx
	for bi, baseTs := range vC07WideBaseTs {
		stop := false
		enum.Sequences(len(deltas), maxRecs, func(seq []int) bool {
			if len(seq) == 0 {
				return true
			}
			recs := make([]enum.Rec, len(seq))
			labels := make([]string, len(seq))
			for i, s := range seq {
				d := deltas[s]
				if (d > 0 && baseTs > math.MaxInt64-d) || (d < 0 && baseTs < math.MinInt64-d) {
					return true
				}
				recs[i] = enum.Rec{OffsetDelta: int32(i), TimestampDelta: d, Key: []byte("k"), Value: []byte(fmt.Sprintf("v%d", i))}
				labels[i] = fmt.Sprintf("d%d", s)
			}
			c := &enum.SegCase{
				Idx:       idx,
				Family:    "wide",
				Name:      fmt.Sprintf("ts%d.%s", bi, strings.Join(labels, "+")),
				Batches:   []enum.SegBatch{{Recs: recs, Opts: enum.BatchOpts{BaseOffset: 0, BaseTimestamp: baseTs}}},
				CreatedMs: 1700000000123,
				Interval:  1,
			}
			idx++
			if !f(c) {
				stop = true
				return false
			}
			return true
		})
		if stop {
			return
		}
	}
}

func vC07ErrSlug(err error) string {
	var sb strings.Builder
	digits := false
	for _, r := range err.Error() {
		switch {
		case r >= '0' && r <= '9':
			if !digits {
				sb.WriteByte('N')
			}
			digits = true
			continue
		case (r >= 'a' && r <= 'z') || (r >= 'A' && r <= 'Z'):
			sb.WriteRune(r)
		default:
			sb.WriteByte('-')
		}
		digits = false
	}
	s := sb.String()
	if len(s) > 48 {
		s = s[:48]
	}
	return strings.Trim(s, "-")
}

// vC07Restore stores the segment and index the segment writer produced under a source topic of an
// in-memory S3, runs the real RecoverTopicToTimestamp into a fresh target topic and requires the
// target segment to hold exactly the produced records. Two cut-offs, both "after all records":
// the tightest one (the latest of all record timestamps and batch base timestamps - the restore
// cuts at the first record later than T, so nothing may be cut) and the far future.
func vC07Restore(c *enum.SegCase, seg, index []byte, want []enum.DecodedRecord, fail func(key, format string, a ...any)) {
	tight := int64(math.MinInt64)
	for _, b := range c.Batches {
		if b.Opts.BaseTimestamp > tight {
			tight = b.Opts.BaseTimestamp
		}
	}
	for _, r := range want {
		if r.Timestamp > tight {
			tight = r.Timestamp
		}
	}
	cutoffs := []struct {
		name string
		ms   int64
	}{{"latest-record", tight}, {"far-future", math.MaxInt64}}
	starts := c.BatchStarts()
	for ci, co := range cutoffs {
		if ci > 0 && co.ms == cutoffs[0].ms {
			continue
		}
		restoreTo := time.UnixMilli(co.ms)
		if restoreTo.UnixMilli() != co.ms {
			panic("HARNESS-ERROR restore cut-off does not round-trip through time.Time")
		}
		if restoreTo.IsZero() {
			continue // the API reserves the zero time for "no cut-off given"
		}
		ctx := context.Background()
		s3 := NewMemoryS3Client()
		if err := s3.UploadSegment(ctx, segmentObjectKey("default", "src", 0, c.BaseOffset()), seg); err != nil {
			panic(fmt.Sprintf("HARNESS-ERROR memory s3 upload: %v", err))
		}
		if err := s3.UploadIndex(ctx, segmentIndexKey("default", "src", 0, c.BaseOffset()), index); err != nil {
			panic(fmt.Sprintf("HARNESS-ERROR memory s3 upload: %v", err))
		}
		res, err := RecoverTopicToTimestamp(ctx, s3, TopicRecoveryConfig{
			SourceNamespace: "default", SourceTopic: "src",
			TargetNamespace: "default", TargetTopic: "dst",
			RestoreTo: restoreTo,
		})
		if err != nil {
			fail("restore-error:"+vC07ErrSlug(err), "RecoverTopicToTimestamp(cut-off %s = %d ms): %v", co.name, co.ms, err)
			continue
		}
		if res.SegmentsCopied != 1 || len(res.Partitions) != 1 || res.Partitions[0].Partition != 0 ||
			res.Partitions[0].SegmentsCopied != 1 || len(res.Partitions[0].Segments) != 1 {
			fail("restore-result-segments", "cut-off %s: result reports %d segments / %d partitions for one source segment", co.name, res.SegmentsCopied, len(res.Partitions))
			continue
		}
		if p := res.Partitions[0]; p.LastOffset != c.LastOffset() || p.Segments[0].BaseOffset != c.BaseOffset() || p.Segments[0].LastOffset != c.LastOffset() {
			fail("restore-result-offsets", "cut-off %s: result base/last = %d/%d (partition last %d), produced %d/%d", co.name, p.Segments[0].BaseOffset, p.Segments[0].LastOffset, p.LastOffset, c.BaseOffset(), c.LastOffset())
		}
		got, err := s3.DownloadSegment(ctx, segmentObjectKey("default", "dst", 0, c.BaseOffset()), nil)
		if err != nil {
			fail("restore-target-segment-missing", "cut-off %s: %v", co.name, err)
			continue
		}
		si, err := enum.ParseSegment(got)
		if err != nil {
			fail("restore-target-segment-too-short", "cut-off %s: %v", co.name, err)
			continue
		}
		if si.Magic != "KAFS" || si.Version != 1 || si.FooterMagic != "END!" || si.CRC != si.BodyCRC ||
			si.BaseOffset != c.BaseOffset() || si.LastOffset != c.LastOffset() || si.MessageCount != c.MessageCount() {
			fail("restore-target-segment-frame", "cut-off %s: magic %q/%q version %d crc %08x/%08x base %d last %d count %d; produced base %d last %d count %d",
				co.name, si.Magic, si.FooterMagic, si.Version, si.CRC, si.BodyCRC, si.BaseOffset, si.LastOffset, si.MessageCount, c.BaseOffset(), c.LastOffset(), c.MessageCount())
		}
		dec, err := enum.DecodeBatches(si.Body)
		if err != nil {
			fail("restore-target-not-decodable", "cut-off %s: %v", co.name, err)
			continue
		}
		i := 0
		for bi, b := range dec {
			if !b.CRCValid {
				fail("restore-batch-crc", "cut-off %s: restored batch %d has an invalid CRC", co.name, bi)
			}
			for _, r := range b.Records {
				if i < len(want) {
					hk, hv := vC07Hdrs(r.Headers)
					if f := enum.SameRecord(r.Offset, r.Timestamp, r.Key, r.Value, hk, hv, want[i]); f != "" {
						fail("restore-record-"+f, "cut-off %s: restored record %d differs in %s (offset %d timestamp %d; produced offset %d timestamp %d)", co.name, i, f, r.Offset, r.Timestamp, want[i].Offset, want[i].Timestamp)
					}
				}
				i++
			}
		}
		if i != len(want) {
			fail("restore-record-count", "cut-off %s = %d ms: restored %d records of %d", co.name, co.ms, i, len(want))
			continue
		}
		// the index written next to it still points at batch starts in increasing offset order
		ib, err := s3.DownloadIndex(ctx, segmentIndexKey("default", "dst", 0, c.BaseOffset()))
		if err != nil {
			fail("restore-target-index-missing", "cut-off %s: %v", co.name, err)
			continue
		}
		xi, err := enum.ParseIndexRef(ib)
		if err != nil || xi.Magic != "IDX\x00" || xi.Version != 1 || int(xi.Count) != len(xi.Entries) || xi.Trailing != 0 {
			fail("restore-target-index-header", "cut-off %s: %v / %+v", co.name, err, xi)
			continue
		}
		for ri, e := range xi.Entries {
			ok := ri == 0 || e.Offset > xi.Entries[ri-1].Offset
			found := false
			for _, s := range starts {
				if s.Position == e.Position && s.Offset == e.Offset {
					found = true
				}
			}
			if !ok || !found {
				fail("restore-target-index-row", "cut-off %s: row %d = %+v is not a batch start in increasing order (batch starts %v)", co.name, ri, e, starts)
			}
		}
	}
}
