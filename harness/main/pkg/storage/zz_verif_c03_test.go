//go:build verif

package storage

// C03 — a fetch returns exactly the acknowledged bytes, in order.
//
// E2 (explicit histories, no state merging): every history over
// {append a|b, flush, failed flush, parked flush begin/end, restart, warm-up reads} up to
// a depth is replayed on fresh real PartitionLog objects (partition under test plus two
// decoy partitions sharing bucket and cache) in two worlds (plain bucket; bucket that
// already holds sibling logs with textually neighbouring keys, see
// zz_verif_c03_siblings_test.go); in the reached state *every* read
// (offset in -1..end+1 x byte-limit alphabet) is issued, twice when a cache is present,
// and compared with the reference log.

import (
	"context"
	"errors"
	"fmt"
	"hash/fnv"
	"runtime"
	"runtime/debug"
	"sort"
	"strings"
	"sync"
	"testing"
	"testing/synctest"
	"time"

	"github.com/KafScale/platform/internal/verif/vh"
)

type c03Job struct {
	World string `json:"world"` // "plain" | "siblings" (see zz_verif_c03_siblings_test.go)
	Cfg   rpCfg  `json:"cfg"`
	Hist  string `json:"history"` // a b: append; F: flush; X/Y: flush whose segment/index upload fails; B: begin parked flush; E/Z: release it (ok/fail); S: restart; R: read every offset once
	seq   int64
}

type c03Viol struct{ key, detail string }

// c03Histories enumerates the histories for cfg up to depth, shortest first.
func c03Histories(cfg rpCfg, depth int, thorough bool) []string {
	type st struct {
		hist    string
		buf     int // batches in the write buffer of the partition under test
		fl      int // batches drained by the parked flush
		segs    int
		blocked bool
		cold    bool // a restart happened (cache cold)
	}
	var out []string
	frontier := []st{{}}
	for d := 0; d < depth; d++ {
		var next []st
		for _, s := range frontier {
			last := byte(0)
			if len(s.hist) > 0 {
				last = s.hist[len(s.hist)-1]
			}
			add := func(op byte, n st) {
				n.hist = s.hist + string(op)
				next = append(next, n)
				out = append(out, n.hist)
			}
			for _, op := range []byte{'a', 'b'} {
				n := s
				n.buf++
				if cfg.MaxBatches > 0 && n.buf >= cfg.MaxBatches && !s.blocked {
					n.buf = 0
					n.segs++
				}
				add(op, n)
			}
			if s.buf > 0 && !s.blocked {
				n := s
				n.buf = 0
				n.segs++
				add('F', n)
				add('X', s)
				if thorough {
					add('Y', s)
				}
				n2 := s
				n2.fl, n2.buf, n2.blocked = s.buf, 0, true
				add('B', n2)
			}
			if s.blocked {
				n := s
				n.blocked, n.fl = false, 0
				n.segs++
				add('E', n)
				n2 := s
				n2.blocked, n2.buf, n2.fl = false, s.buf+s.fl, 0
				add('Z', n2)
			}
			if !s.blocked && last != 'S' && len(s.hist) > 0 && s.segs > 0 {
				n := s
				n.buf = 0
				n.cold = true
				add('S', n)
			}
			if cfg.Cache != "off" && !s.blocked && last != 'R' && s.segs > 0 && (s.cold || cfg.Cache == "small") {
				add('R', s)
			}
		}
		frontier = next
	}
	return out
}

// c03Layout describes the real log's state in terms of reference batches.
func c03Layout(p *rpPart) string {
	l := p.log
	l.mu.Lock()
	defer l.mu.Unlock()
	var b strings.Builder
	size := func(base int64) string {
		for _, r := range p.ref {
			if r.Base == base {
				return fmt.Sprint(len(r.Bytes))
			}
		}
		return "?"
	}
	for _, s := range l.segments {
		fmt.Fprintf(&b, "seg[%d..%d;idx=%d]", s.baseOffset, s.lastOffset, len(l.indexEntries[s.baseOffset]))
	}
	b.WriteString("fl[")
	for _, rb := range l.flushingBatches {
		b.WriteString(size(rb.BaseOffset) + ",")
	}
	b.WriteString("]buf[")
	l.buffer.mu.Lock()
	for _, rb := range l.buffer.batches {
		b.WriteString(size(rb.BaseOffset) + ",")
	}
	l.buffer.mu.Unlock()
	b.WriteString("]ref[")
	for _, r := range p.ref {
		b.WriteString(fmt.Sprint(len(r.Bytes)) + ",")
	}
	b.WriteString("]")
	return b.String()
}

type c03Out struct {
	sig      string
	nontriv  bool
	viol     *c03Viol
	harness  string
	reads    int64
	events   int64
	restoreE bool
	gaps     int64 // appends that were assigned a base offset beyond the reference's end
}

// c03Run replays one history in a fresh bubble and issues every read in the reached state.
func c03Run(t *testing.T, job *c03Job) (out c03Out) {
	rpInBubble(t, func() {
		defer func() {
			if r := recover(); r != nil {
				out.viol = &c03Viol{"panic", fmt.Sprintf("panic in storage code: %v\n%s", r, debug.Stack())}
			}
		}()
		s, sibs, serr := c03NewSys(job.Cfg, job.World)
		if serr != nil {
			out.harness = "building the world: " + serr.Error()
			return
		}
		p := s.parts[0]
		s.followAssigned = true
		defer func() {
			out.gaps = int64(s.offsetGaps)
			if s.blocked {
				_ = s.endParkedFlush(false)
			}
			synctest.Wait()
		}()
		readAll := func(pass string, h hashWriter) bool {
			mbs := append(rpMaxBytes(p, false), 0, -1)
			offs := make([]int64, 0, p.end()+3)
			for o := int64(0); o <= p.end()+1; o++ {
				offs = append(offs, o)
			}
			offs = append(offs, -1)
			for _, o := range offs {
				for _, mb := range mbs {
					data, err := p.log.Read(context.Background(), o, mb)
					synctest.Wait() // let prefetch goroutines finish: deterministic cache state
					out.reads++
					if err != nil && !errors.Is(err, ErrOffsetOutOfRange) {
						out.viol = &c03Viol{"read-error-without-fault", fmt.Sprintf("%s Read(%d,%d) = %v", pass, o, mb, err)}
						return false
					}
					r := rpClassify(s, p, o, data, err)
					c03Refine(&r, p, sibs, data)
					fmt.Fprintf(h, "%d,%d:%d+%d/%d e=%v;", o, mb, r.Start, r.Complete, r.Len, err != nil)
					if r.Problem != "" {
						key := r.Problem
						if key == "starts-after-requested-offset" && s.blocked && r.Target < p.inflight && r.Start >= p.inflight {
							key = "flush-window-batches-hidden-by-write-buffer"
						}
						out.viol = &c03Viol{key, fmt.Sprintf("%s Read(offset=%d, maxBytes=%d) returned %d bytes: %s; log state %s", pass, o, mb, len(data), r.Detail, c03Layout(p))}
						return false
					}
				}
			}
			return true
		}
		for i := 0; i < len(job.Hist); i++ {
			var err error
			out.events++
			switch job.Hist[i] {
			case 'a', 'b':
				err = s.appendClass(job.Hist[i])
			case 'F':
				err = s.flush(false, false)
			case 'X':
				err = s.flush(true, false)
			case 'Y':
				err = s.flush(false, true)
			case 'B':
				err = s.beginParkedFlush()
			case 'E':
				err = s.endParkedFlush(false)
			case 'Z':
				err = s.endParkedFlush(true)
			case 'S':
				err = s.restart()
				if errors.Is(err, rpErrResurrected) {
					out.viol = &c03Viol{"restored-bytes-never-appended", err.Error()}
					return
				}
				if err != nil {
					// a partition that cannot be reopened is C06's subject, not C03's
					out.restoreE = true
					out.sig = job.World + "|" + job.Cfg.String() + "|restore-error"
					return
				}
			case 'R':
				h := fnv.New64a()
				for o := int64(0); o < p.end(); o++ {
					data, rerr := p.log.Read(context.Background(), o, 1<<20)
					synctest.Wait()
					out.reads++
					if rerr != nil && !errors.Is(rerr, ErrOffsetOutOfRange) {
						err = rerr
						break
					}
					r := rpClassify(s, p, o, data, rerr)
					c03Refine(&r, p, sibs, data)
					if r.Problem != "" {
						out.viol = &c03Viol{r.Problem, fmt.Sprintf("warm-up Read(offset=%d, maxBytes=1MiB) returned %d bytes: %s; log state %s", o, len(data), r.Detail, c03Layout(p))}
						return
					}
				}
				_ = h
			}
			synctest.Wait()
			if err != nil {
				out.harness = fmt.Sprintf("event %d (%c): %v", i, job.Hist[i], err)
				return
			}
		}
		layout := c03Layout(p)
		h := fnv.New64a()
		if !readAll("pass 1", h) {
			return
		}
		if job.Cfg.Cache != "off" {
			if !readAll("pass 2", h) {
				return
			}
		}
		out.nontriv = strings.ContainsAny(job.Hist, "FXYBS") && len(p.ref) >= 1
		out.sig = fmt.Sprintf("%s|%s|%s|%x|full=%d,range=%d", job.World, job.Cfg, layout, h.Sum64(), s.s3.FullGets, s.s3.RangeGets)
	})
	return
}

type hashWriter interface{ Write([]byte) (int, error) }

func c03Configs(thorough bool) []rpCfg {
	var out []rpCfg
	for _, iv := range []int32{1, 2, 3, 100} {
		out = append(out, rpCfg{Cache: "off", Interval: iv})
		for _, c := range []string{"large", "small"} {
			for _, ra := range []int{0, 1} {
				out = append(out, rpCfg{Cache: c, Interval: iv, ReadAhead: ra})
			}
		}
	}
	if thorough {
		for _, iv := range []int32{1, 100} {
			out = append(out, rpCfg{Cache: "off", Interval: iv, MaxBatches: 2}, rpCfg{Cache: "large", Interval: iv, ReadAhead: 1, MaxBatches: 2})
		}
	}
	return out
}

func TestVerifC03(t *testing.T) {
	rep := vh.New(t, "C03")
	defer rep.Finish()
	rep.Rule = "state = one history over {a,b: append 1-/2-record batch; F: flush; X/Y: flush whose segment/index upload fails; B..E/Z: flush parked inside the S3 upload, released ok/failed; S: restart (fresh log+cache, RestoreFromS3); R: warm-up reads} replayed on fresh real PartitionLogs (partition under test + 2 decoy partitions, shared bucket and cache) in one world (plain: t/0 with decoys t/1,u/0 | siblings: t/1 with decoys t/2,u/1 in a bucket that already holds the flushed segments of the static sibling logs t/10, t/11, t1/0, tt/1 written by real PartitionLogs with other contents and sizes at coinciding segment base offsets) under one configuration (cache off|large|small x index interval x read-ahead); in every reached state every Read(o in -1..end+1, maxBytes in {0,-1,1,60,61,62, batch-boundary distances +-1, 1MiB}) is executed (twice with a cache) and compared with the reference log; outcome signature = world + configuration + segment/flush-window/buffer layout + hash of all read results + S3 GET counts; non-trivial = the history contains a flush, failed/parked flush or restart"
	rep.Assumptions = []string{
		"S3 stands behind storage.MemoryS3Client semantics (atomic PUT, range GET) wrapped to fail or park uploads",
		"each history runs in a testing/synctest bubble; after every event and read the bubble is quiesced so read-ahead goroutines have finished (deterministic cache contents)",
		"the reference contains every appended batch (an append whose triggered flush failed is still in the log); batches not in a committed segment leave the reference at a restart",
		"handleFetch's watermark bound is not part of this check (PartitionLog.Read level)",
		"sibling logs are static background: written and flushed once before the history starts, never appended to, restored or read afterwards",
		"the reference takes the base offset the log assigned to an append; an assignment beyond the reference's end leaves a hole in the reference and is counted (append_offset_gaps_followed)",
	}
	thorough := vh.Thorough()
	depth := 5
	if thorough {
		depth = 6
	}
	cfgs := c03Configs(thorough)
	rep.SetInfo("depth", depth)
	rep.SetInfo("configurations", len(cfgs))
	rep.SetInfo("worlds", strings.Join(c03Worlds, " "))
	if n, err := c03SiblingObjects(); err != nil {
		t.Fatalf("HARNESS-ERROR sibling world: %v", err)
	} else {
		rep.SetInfo("sibling_segment_objects", n)
	}
	rep.SetInfo("ops", "a b F X Y(thorough) B E Z S R")

	var rp c03Job
	if ok, err := vh.LoadReplay(&rp); ok {
		if err != nil {
			t.Fatalf("HARNESS-ERROR load replay: %v", err)
		}
		o := c03Run(t, &rp)
		rep.Eval(1)
		rep.Outcome(o.sig, true)
		rep.Cap("replay of one history")
		if o.harness != "" {
			t.Fatalf("HARNESS-ERROR %s", o.harness)
		}
		if o.viol != nil {
			rep.Violation(o.viol.key, o.viol.detail, rp)
		}
		return
	}

	defer debug.SetGCPercent(debug.SetGCPercent(400))
	// jobs ordered by history length, then configuration, then history
	var jobs []*c03Job
	for _, world := range c03Worlds {
		for _, cfg := range cfgs {
			for _, h := range c03Histories(cfg, depth, thorough) {
				jobs = append(jobs, &c03Job{World: world, Cfg: cfg, Hist: h})
			}
		}
	}
	sort.SliceStable(jobs, func(i, j int) bool { return len(jobs[i].Hist) < len(jobs[j].Hist) })
	for i, j := range jobs {
		j.seq = int64(i)
	}
	rep.SetInfo("histories_x_configurations", len(jobs))
	deadline := vh.Deadline()
	shard, nshards := vh.Shard()
	type found struct {
		job *c03Job
		v   *c03Viol
	}
	var mu sync.Mutex
	best := map[string][]found{}
	counts := map[string]int64{}
	harnessErr := ""
	capped := false
	ch := make(chan *c03Job, 256)
	var wg sync.WaitGroup
	for w := 0; w < runtime.GOMAXPROCS(0); w++ {
		wg.Add(1)
		go func() {
			defer wg.Done()
			for job := range ch {
				o := c03Run(t, job)
				rep.Eval(1)
				rep.Count("states", 1)
				rep.Count("transitions", o.events+o.reads)
				rep.Count("reads", o.reads)
				if o.gaps > 0 {
					rep.Count("append_offset_gaps_followed", o.gaps)
				}
				if o.restoreE {
					rep.Count("restore_errors_skipped", 1)
				}
				if o.harness != "" {
					mu.Lock()
					if harnessErr == "" {
						harnessErr = fmt.Sprintf("%s in world %s %s %q", o.harness, job.World, job.Cfg, job.Hist)
					}
					mu.Unlock()
					continue
				}
				if o.viol != nil {
					rep.Outcome(job.World+"|"+job.Cfg.String()+"|"+job.Hist+"|VIOL:"+o.viol.key, true)
					mu.Lock()
					counts[o.viol.key]++
					l := append(best[o.viol.key], found{job, o.viol})
					sort.Slice(l, func(i, j int) bool { return l[i].job.seq < l[j].job.seq })
					if len(l) > 3 {
						l = l[:3]
					}
					best[o.viol.key] = l
					mu.Unlock()
					continue
				}
				rep.Outcome(o.sig, o.nontriv)
				if o.nontriv && len(job.Hist) == depth && job.seq%997 == 0 {
					rep.Sample(map[string]any{"world": job.World, "cfg": job.Cfg.String(), "history": job.Hist, "reads": o.reads, "outcome": o.sig})
				}
			}
		}()
	}
	for i, job := range jobs {
		if i%nshards != shard {
			continue
		}
		if i%64 == 0 && time.Now().After(deadline) {
			capped = true
			break
		}
		ch <- job
	}
	close(ch)
	wg.Wait()
	if capped {
		rep.Cap("deadline hit during history enumeration")
	}
	if harnessErr != "" {
		t.Fatalf("HARNESS-ERROR %s", harnessErr)
	}
	keys := make([]string, 0, len(best))
	for k := range best {
		keys = append(keys, k)
	}
	sort.Strings(keys)
	for _, k := range keys {
		rep.Count("violating_states_"+k, counts[k])
		for _, f := range best[k] {
			rep.Violation(k, fmt.Sprintf("world %s %s history %q: %s", f.job.World, f.job.Cfg, f.job.Hist, f.v.detail), f.job)
		}
	}
}
