//go:build verif

package broker

// Common harness of the consumer-group checks C12 C13 C14 C15 C43.
//
// One closed system: the real GroupCoordinator over the real metadata.InMemoryStore
// (store mode "mem") or over the same store with consumer-group blobs round-tripped
// through the real metadata.EncodeConsumerGroup/DecodeConsumerGroup exactly as
// EtcdStore does (store mode "codec"). Every history is replayed on fresh objects
// inside its own testing/synctest bubble, so time.Now/time.NewTicker in coordinator.go
// run on a virtual clock: "advance d" is an event and the coordinator's own
// cleanupLoop goroutine does the expiring. Member ids come from rand.Int63 in
// newMemberID and the coordinator orders members with sort.Strings, so
// coordinator.go is built with math/rand -> internal/verif/vrand and the rank of every
// new id among the live ids is an explicit choice of the explorer.
//
// The search (engine xstate) is a BFS over event histories with states merged by
// coordWorld.Canon. Each check (zz_verif_c12_test.go ...) contributes only its oracle
// (coordOracle); the exploration is the same for all of them.

import (
	"context"
	"encoding/binary"
	"encoding/json"
	"fmt"
	"os"
	"runtime/debug"
	"sort"
	"strconv"
	"strings"
	"sync"
	"testing"
	"testing/synctest"
	"time"

	"github.com/twmb/franz-go/pkg/kmsg"

	"github.com/KafScale/platform/internal/verif/vh"
	"github.com/KafScale/platform/internal/verif/vrand"
	"github.com/KafScale/platform/internal/verif/xstate"
	metadatapb "github.com/KafScale/platform/pkg/gen/metadata"
	"github.com/KafScale/platform/pkg/metadata"
	"github.com/KafScale/platform/pkg/protocol"
)

const (
	coordGroup      = "g"
	coordTickEvery  = 1 * time.Second // CoordinatorConfig.CleanupInterval
	coordSessionTO  = 3 * time.Second // session timeout every member asks for
	coordSessionAlt = 5 * time.Second // the other session timeout a (re)join may ask for (session-change run of C43 only)
	coordRebalTO    = 2 * time.Second // rebalance timeout every member asks for
	coordGhostID    = "g-ghost"       // a member id the coordinator never issued
	coordIDLo       = int64(1000000000000000000)
	coordIDHi       = int64(9000000000000000000) // all ids have 19 digits: string order == numeric order
)

var (
	coordSubsAlphabet = [][]string{{}, {"a"}, {"b"}, {"a", "b"}}
	coordTopicParts   = map[string]int32{"a": 2, "b": 1}
	coordAllTPs       = []string{"a:0", "a:1", "b:0"}
)

// ---------------------------------------------------------------- configuration

type coordCfg struct {
	Store         string          // "mem" | "codec"
	MaxLive       int             // members in the group at one time
	MaxIssued     int             // member ids issued in one history
	Deltas        []time.Duration // advance events
	CommitTPs     []string        // partitions offered to commit events
	Resub         bool            // offer rejoin with a changed subscription
	StoreFaults   bool            // timing run only: an event arms ONE failing PutConsumerGroup (transient metadata-store write error)
	Timing        bool            // timing run: reduced request alphabet (join{a}/rejoin/sync/heartbeat/leave, current generation only), finer advances
	SessionChange bool            // timing alphabet only (C43): every join/rejoin exists in two variants asking for session coordSessionTO or coordSessionAlt
	AnonIDs       bool            // C13 only: commit/heartbeat/sync also with the EMPTY member id (generation -1 = Kafka's "simple consumer" shape; commit also with the current generation)
	Depth         int
}

// coordAnonM is the event member number of the empty member id; coordGenNone as generation offset means the
// absolute generation -1 (what a client without group membership sends).
const (
	coordAnonM   int8 = -2
	coordGenNone int8 = -128
)

// coordTimingCfg: irregular heartbeat spacing. Advances from a quarter of a cleanup interval (1/12 of the
// session) upwards, on and off the tick grid, so that accepted heartbeats close to the previous refresh, and
// ticks falling between "previous refresh + session" and "last heartbeat + session", are all produced.
func coordTimingCfg(depth, live, issued int) *coordCfg {
	return &coordCfg{
		Store: "mem", MaxLive: live, MaxIssued: issued, Depth: depth, Timing: true,
		Deltas:    []time.Duration{250 * time.Millisecond, 500 * time.Millisecond, 1000 * time.Millisecond, 1500 * time.Millisecond, 2000 * time.Millisecond, 2500 * time.Millisecond, 3000 * time.Millisecond, 3500 * time.Millisecond},
		CommitTPs: []string{"a:0"},
	}
}

// coordSessionCfg: the session timeout a member asks for changes between its joins. Timing alphabet in which
// every join and rejoin asks for 3 s or for 5 s; advances on and off the tick grid up to beyond the longer
// session, so that ticks between the two sessions and beyond both are produced for every (old, new) pair.
func coordSessionCfg(depth, live, issued int) *coordCfg {
	return &coordCfg{
		Store: "mem", MaxLive: live, MaxIssued: issued, Depth: depth, Timing: true, SessionChange: true,
		Deltas:    []time.Duration{250 * time.Millisecond, 500 * time.Millisecond, 1000 * time.Millisecond, 1500 * time.Millisecond, 2000 * time.Millisecond, 2500 * time.Millisecond, 3000 * time.Millisecond, 3500 * time.Millisecond, 4000 * time.Millisecond, 5000 * time.Millisecond, 5500 * time.Millisecond},
		CommitTPs: []string{"a:0"},
	}
}

func coordDefaultCfg(store string, depth int) *coordCfg {
	return &coordCfg{
		Store: store, MaxLive: 3, MaxIssued: 3, Depth: depth,
		// rebalance-eps, rebalance, rebalance+eps == session-eps, session, session+eps (eps = tick/2)
		Deltas:    []time.Duration{1500 * time.Millisecond, 2000 * time.Millisecond, 2500 * time.Millisecond, 3000 * time.Millisecond, 3500 * time.Millisecond},
		CommitTPs: []string{"a:0"},
	}
}

// ---------------------------------------------------------------- events

// coordEv is one event of a history (JSON form is the replay artefact).
//
//	join    new member: S = index into coordSubsAlphabet, R = rank of the new id among the live ids
//	rejoin  member M joins again with its member id (S = -1: same subscription, else new subscription index)
//	        join/rejoin: D = session timeout asked for in milliseconds, 0 = coordSessionTO
//	sync / hb / commit   member M (issue number 1.., or -1 = never issued id) with generation current+G (G in {0,-1})
//	leave   member M
//	adv     D milliseconds of virtual time pass
//	failover  the coordinator is stopped and a new one is created over the same store
type coordEv struct {
	K coordKind
	M int8  // member issue number (1..), -1 = ghost
	G int8  // generation offset: 0 or -1
	S int8  // subscription index; -1 = unchanged (rejoin)
	R int8  // rank of the new id
	T int8  // index into coordAllTPs
	D int16 // milliseconds (adv: time that passes; join/rejoin: session timeout asked for, 0 = coordSessionTO)
}

// sess is the session timeout a join/rejoin event asks for.
func (e coordEv) sess() time.Duration {
	if e.D > 0 {
		return time.Duration(e.D) * time.Millisecond
	}
	return coordSessionTO
}

func (e coordEv) sessSuffix() string {
	if e.D > 0 {
		return fmt.Sprintf(",session=%.1fs", float64(e.D)/1000)
	}
	return ""
}

type coordKind uint8

const (
	coordKJoin coordKind = iota + 1
	coordKRejoin
	coordKSync
	coordKHb
	coordKCommit
	coordKLeave
	coordKAdv
	coordKFailover
	coordKFailPut // the next PutConsumerGroup of the metadata store fails once
)

var coordKindNames = map[coordKind]string{coordKJoin: "join", coordKRejoin: "rejoin", coordKSync: "sync", coordKHb: "hb", coordKCommit: "commit",
	coordKLeave: "leave", coordKAdv: "adv", coordKFailover: "failover", coordKFailPut: "failput"}

func (k coordKind) String() string { return coordKindNames[k] }

// coordEvJSON is the replay form of an event (the struct itself is kept pointer-free
// because millions of event menus are allocated).
type coordEvJSON struct {
	K string `json:"k"`
	M int    `json:"m,omitempty"`
	G int    `json:"g,omitempty"`
	S *int   `json:"s,omitempty"`
	R int    `json:"r,omitempty"`
	D int    `json:"d,omitempty"`
	T string `json:"t,omitempty"`
}

func (e coordEv) MarshalJSON() ([]byte, error) {
	j := coordEvJSON{K: e.K.String(), M: int(e.M), G: int(e.G), R: int(e.R), D: int(e.D)}
	if e.K == coordKJoin || (e.K == coordKRejoin && e.S >= 0) {
		s := int(e.S)
		j.S = &s
	}
	if e.K == coordKCommit {
		j.T = coordAllTPs[e.T]
	}
	return json.Marshal(j)
}

func (e *coordEv) UnmarshalJSON(b []byte) error {
	var j coordEvJSON
	if err := json.Unmarshal(b, &j); err != nil {
		return err
	}
	*e = coordEv{M: int8(j.M), G: int8(j.G), R: int8(j.R), D: int16(j.D), S: -1}
	for k, n := range coordKindNames {
		if n == j.K {
			e.K = k
		}
	}
	if e.K == 0 {
		return fmt.Errorf("unknown event kind %q", j.K)
	}
	if j.S != nil {
		e.S = int8(*j.S)
	} else if e.K == coordKJoin {
		e.S = 0
	}
	for i, tp := range coordAllTPs {
		if tp == j.T {
			e.T = int8(i)
		}
	}
	return nil
}

func coordMemberName(m int8) string {
	if m == -1 {
		return "ghost"
	}
	if m == coordAnonM {
		return "empty-id"
	}
	return fmt.Sprintf("m%d", m)
}

func (e coordEv) String() string {
	gen := "cur"
	if e.G == coordGenNone {
		gen = "-1(absolute)"
	} else if e.G != 0 {
		gen = fmt.Sprintf("cur%+d", e.G)
	}
	switch e.K {
	case coordKJoin:
		return fmt.Sprintf("join(new,subs=%v,rank=%d%s)", coordSubsAlphabet[e.S], e.R, e.sessSuffix())
	case coordKRejoin:
		if e.S >= 0 {
			return fmt.Sprintf("rejoin(%s,subs=%v%s)", coordMemberName(e.M), coordSubsAlphabet[e.S], e.sessSuffix())
		}
		return fmt.Sprintf("rejoin(%s%s)", coordMemberName(e.M), e.sessSuffix())
	case coordKSync, coordKHb:
		return fmt.Sprintf("%s(%s,gen=%s)", e.K, coordMemberName(e.M), gen)
	case coordKCommit:
		return fmt.Sprintf("commit(%s,gen=%s,%s)", coordMemberName(e.M), gen, coordAllTPs[e.T])
	case coordKLeave:
		return fmt.Sprintf("leave(%s)", coordMemberName(e.M))
	case coordKAdv:
		return fmt.Sprintf("adv(%.1fs)", float64(e.D)/1000)
	case coordKFailPut:
		return "next-group-write-fails"
	}
	return e.K.String()
}

// ---------------------------------------------------------------- responses

type coordRespMember struct {
	ID   string
	Subs []string
}

// coordResp is the decoded, comparable form of a coordinator response.
type coordResp struct {
	Kind      string
	Err       int16
	Gen       int32             // join
	Leader    string            // join
	Member    string            // join
	Members   []coordRespMember // join
	Assign    map[string][]int32
	AssignErr string  // sync: MemberAssignment could not be decoded
	PartErrs  []int16 // commit: per partition
	GoErr     string
	Panic     string
}

func coordErrName(c int16) string {
	switch c {
	case protocol.NONE:
		return "NONE"
	case protocol.UNKNOWN_SERVER_ERROR:
		return "UNKNOWN_SERVER_ERROR"
	case protocol.ILLEGAL_GENERATION:
		return "ILLEGAL_GENERATION"
	case protocol.UNKNOWN_MEMBER_ID:
		return "UNKNOWN_MEMBER_ID"
	case protocol.REBALANCE_IN_PROGRESS:
		return "REBALANCE_IN_PROGRESS"
	}
	return fmt.Sprintf("ERR%d", c)
}

func coordAssignString(a map[string][]int32) string {
	names := make([]string, 0, len(a))
	for n := range a {
		names = append(names, n)
	}
	sort.Strings(names)
	var b strings.Builder
	b.WriteByte('{')
	for i, n := range names {
		if i > 0 {
			b.WriteByte(' ')
		}
		fmt.Fprintf(&b, "%s%v", n, a[n])
	}
	b.WriteByte('}')
	return b.String()
}

// ok reports whether the response carries no error at all.
func (r *coordResp) ok() bool {
	if r == nil || r.Panic != "" || r.GoErr != "" || r.Err != protocol.NONE {
		return false
	}
	for _, c := range r.PartErrs {
		if c != protocol.NONE {
			return false
		}
	}
	return true
}

// str renders the response with member ids renamed by name().
func (r *coordResp) str(name func(string) string) string {
	if r == nil {
		return "-"
	}
	if r.Panic != "" {
		return "PANIC(" + r.Panic + ")"
	}
	if r.GoErr != "" {
		return "error(" + r.GoErr + ")"
	}
	switch r.Kind {
	case "join", "rejoin":
		var ms []string
		for _, m := range r.Members {
			ms = append(ms, fmt.Sprintf("%s%v", name(m.ID), m.Subs))
		}
		return fmt.Sprintf("%s gen=%d leader=%s member=%s members=%v", coordErrName(r.Err), r.Gen, name(r.Leader), name(r.Member), ms)
	case "sync":
		if r.AssignErr != "" {
			return coordErrName(r.Err) + " assignment-undecodable(" + r.AssignErr + ")"
		}
		if r.Err == protocol.NONE {
			return coordErrName(r.Err) + " " + coordAssignString(r.Assign)
		}
		return coordErrName(r.Err)
	case "commit":
		var cs []string
		for _, c := range r.PartErrs {
			cs = append(cs, coordErrName(c))
		}
		return strings.Join(cs, ",")
	}
	return coordErrName(r.Err)
}

// coordDecodeAssignment is an independent decoder of the consumer protocol assignment.
func coordDecodeAssignment(b []byte) (map[string][]int32, error) {
	out := map[string][]int32{}
	pos := 0
	need := func(n int) error {
		if pos+n > len(b) {
			return fmt.Errorf("short at %d need %d of %d", pos, n, len(b))
		}
		return nil
	}
	if err := need(6); err != nil {
		return nil, err
	}
	pos += 2
	nt := int(int32(binary.BigEndian.Uint32(b[pos:])))
	pos += 4
	if nt < 0 || nt > 1000 {
		return nil, fmt.Errorf("topic count %d", nt)
	}
	for i := 0; i < nt; i++ {
		if err := need(2); err != nil {
			return nil, err
		}
		l := int(binary.BigEndian.Uint16(b[pos:]))
		pos += 2
		if err := need(l + 4); err != nil {
			return nil, err
		}
		name := string(b[pos : pos+l])
		pos += l
		np := int(int32(binary.BigEndian.Uint32(b[pos:])))
		pos += 4
		if np < 0 || np > 1000 {
			return nil, fmt.Errorf("partition count %d", np)
		}
		if _, dup := out[name]; dup {
			return nil, fmt.Errorf("topic %q listed twice", name)
		}
		ps := make([]int32, 0, np)
		for j := 0; j < np; j++ {
			if err := need(4); err != nil {
				return nil, err
			}
			ps = append(ps, int32(binary.BigEndian.Uint32(b[pos:])))
			pos += 4
		}
		out[name] = ps
	}
	if err := need(4); err != nil {
		return nil, err
	}
	return out, nil
}

// ---------------------------------------------------------------- in-package projection

type coordMemberProj struct {
	Subs    []string
	JoinGen int32
	LastHB  time.Time
	Sess    time.Duration
	Assign  map[string][]int32 // nil when the member has no entry
}

// coordProj is what a request would find: the in-memory group when the coordinator has
// it loaded, else the group as restoreGroupState would build it from the store now.
type coordProj struct {
	Exists   bool
	Loaded   bool
	Gen      int32
	Phase    groupPhase
	Leader   string
	IDs      []string // sorted
	Members  map[string]*coordMemberProj
	Deadline time.Time
	RebTO    time.Duration
}

func (p *coordProj) has(id string) bool { _, ok := p.Members[id]; return ok }

func (p *coordProj) rank(id string) int {
	for i, x := range p.IDs {
		if x == id {
			return i
		}
	}
	return -1
}

func coordProjectState(gs *groupState, loaded bool) coordProj {
	p := coordProj{Exists: true, Loaded: loaded, Gen: gs.generationID, Phase: gs.state, Leader: gs.leaderID,
		Members: map[string]*coordMemberProj{}, Deadline: gs.rebalanceDeadline, RebTO: gs.rebalanceTimeout}
	for id, m := range gs.members {
		mp := &coordMemberProj{Subs: append([]string(nil), m.topics...), JoinGen: m.joinGeneration, LastHB: m.lastHeartbeat, Sess: m.sessionTimeout}
		sort.Strings(mp.Subs)
		if as, ok := gs.assignments[id]; ok && len(as) > 0 {
			mp.Assign = map[string][]int32{}
			for _, a := range as {
				mp.Assign[a.Name] = append(mp.Assign[a.Name], a.Partitions...)
			}
		}
		p.Members[id] = mp
		p.IDs = append(p.IDs, id)
	}
	sort.Strings(p.IDs)
	return p
}

func coordProject(c *GroupCoordinator, store metadata.Store) coordProj {
	c.mu.Lock()
	gs := c.groups[coordGroup]
	if gs != nil {
		p := coordProjectState(gs, true)
		c.mu.Unlock()
		return p
	}
	c.mu.Unlock()
	g, err := store.FetchConsumerGroup(context.Background(), coordGroup)
	if err != nil || g == nil {
		return coordProj{Members: map[string]*coordMemberProj{}}
	}
	return coordProjectState(restoreGroupState(g), false)
}

func coordPhaseName(p groupPhase) string { return groupPhaseString(p) }

// ---------------------------------------------------------------- store modes

// coordCodecStore keeps consumer groups the way EtcdStore does: as the bytes produced by
// the real codec (metadata.EncodeConsumerGroup on put, DecodeConsumerGroup on fetch).
// Everything else is the embedded real InMemoryStore.
type coordCodecStore struct {
	*metadata.InMemoryStore
	mu     sync.Mutex
	groups map[string][]byte
}

func (s *coordCodecStore) PutConsumerGroup(ctx context.Context, g *metadatapb.ConsumerGroup) error {
	if g == nil || g.GroupId == "" {
		return fmt.Errorf("consumer group id required")
	}
	b, err := metadata.EncodeConsumerGroup(g)
	if err != nil {
		return err
	}
	s.mu.Lock()
	s.groups[g.GroupId] = b
	s.mu.Unlock()
	return nil
}

func (s *coordCodecStore) FetchConsumerGroup(ctx context.Context, id string) (*metadatapb.ConsumerGroup, error) {
	s.mu.Lock()
	b, ok := s.groups[id]
	s.mu.Unlock()
	if !ok {
		return nil, nil
	}
	return metadata.DecodeConsumerGroup(b)
}

func (s *coordCodecStore) ListConsumerGroups(ctx context.Context) ([]*metadatapb.ConsumerGroup, error) {
	s.mu.Lock()
	defer s.mu.Unlock()
	ids := make([]string, 0, len(s.groups))
	for id := range s.groups {
		ids = append(ids, id)
	}
	sort.Strings(ids)
	out := make([]*metadatapb.ConsumerGroup, 0, len(ids))
	for _, id := range ids {
		g, err := metadata.DecodeConsumerGroup(s.groups[id])
		if err != nil {
			return nil, err
		}
		out = append(out, g)
	}
	return out, nil
}

func (s *coordCodecStore) DeleteConsumerGroup(ctx context.Context, id string) error {
	s.mu.Lock()
	delete(s.groups, id)
	s.mu.Unlock()
	return nil
}

func coordClusterMeta() metadata.ClusterMetadata {
	var topics []protocol.MetadataTopic
	names := make([]string, 0, len(coordTopicParts))
	for n := range coordTopicParts {
		names = append(names, n)
	}
	sort.Strings(names)
	for _, n := range names {
		t := protocol.MetadataTopic{Topic: kmsg.StringPtr(n)}
		for p := int32(0); p < coordTopicParts[n]; p++ {
			t.Partitions = append(t.Partitions, protocol.MetadataPartition{Partition: p, Leader: 1, Replicas: []int32{1}, ISR: []int32{1}})
		}
		topics = append(topics, t)
	}
	return metadata.ClusterMetadata{Brokers: []protocol.MetadataBroker{{NodeID: 1, Host: "h", Port: 9092}}, ControllerID: 1, Topics: topics}
}

var coordClusterMetaOnce = coordClusterMeta()

// coordFaultStore fails exactly one PutConsumerGroup after it was armed (a transient write error of
// the metadata store); everything else is the wrapped store.
type coordFaultStore struct {
	metadata.Store
	armed bool
	fails int
}

func (s *coordFaultStore) PutConsumerGroup(ctx context.Context, g *metadatapb.ConsumerGroup) error {
	if s.armed {
		s.armed = false
		s.fails++
		return fmt.Errorf("verif: injected metadata-store write failure")
	}
	return s.Store.PutConsumerGroup(ctx, g)
}

func coordNewStore(mode string) metadata.Store {
	mem := metadata.NewInMemoryStore(coordClusterMetaOnce)
	if mode == "codec" {
		return &coordCodecStore{InMemoryStore: mem, groups: map[string][]byte{}}
	}
	return mem
}

func coordSplitTP(tp string) (string, int32) {
	i := strings.IndexByte(tp, ':')
	p := int32(0)
	for _, c := range tp[i+1:] {
		p = p*10 + int32(c-'0')
	}
	return tp[:i], p
}

func coordReadOffsets(store metadata.Store) map[string]int64 {
	out := map[string]int64{}
	for _, tp := range coordAllTPs {
		t, p := coordSplitTP(tp)
		off, _, err := store.FetchConsumerOffset(context.Background(), coordGroup, t, p)
		if err != nil {
			off = -999
		}
		out[tp] = off
	}
	return out
}

func coordTPIndex(tp string) int8 {
	for i, x := range coordAllTPs {
		if x == tp {
			return int8(i)
		}
	}
	return 0
}

// coordCopyStore builds a second store with the same contents (through the public
// Store API) for the failover differential of C15.
func coordCopyStore(mode string, src metadata.Store) metadata.Store {
	dst := coordNewStore(mode)
	ctx := context.Background()
	if g, err := src.FetchConsumerGroup(ctx, coordGroup); err == nil && g != nil {
		_ = dst.PutConsumerGroup(ctx, g)
	}
	for _, tp := range coordAllTPs {
		t, p := coordSplitTP(tp)
		off, meta, err := src.FetchConsumerOffset(ctx, coordGroup, t, p)
		if err == nil && (off != 0 || meta != "") {
			_ = dst.CommitConsumerOffset(ctx, coordGroup, t, p, off, meta)
		}
	}
	return dst
}

// ---------------------------------------------------------------- reference ledger

// coordLedMember is what the reference model knows about a current member, taken from
// the requests it sent, the replies it got and the virtual clock.
type coordLedMember struct {
	Subs        []string  // subscription of its last join request
	JoinedGen   int32     // generation in the reply to its last join
	LastRefresh time.Time // last join, or heartbeat answered NONE
	HasSync     bool      // it has a successful sync reply ...
	SyncGen     int32     // ... in this generation ...
	SyncAssign  map[string][]int32
	FoSinceJoin bool          // a failover happened after its last join
	Sess        time.Duration // session timeout asked for in its last join request (0 = coordSessionTO)
	ResubGen    int32         // generation in which it re-joined with a different subscription and no new generation was started (0 = none)
}

// session is the session timeout the member is judged by: the one of its latest join.
func (m *coordLedMember) session() time.Duration {
	if m == nil || m.Sess == 0 {
		return coordSessionTO
	}
	return m.Sess
}

// coordLedger is the reference state shared by the oracles. Membership itself is read
// from the implementation (in-package): an entry disappears when the member disappears
// from the group, and C43 judges at that moment whether the removal was allowed.
type coordLedger struct {
	M               map[string]*coordLedMember
	HasGen          bool  // a generation was reported since the group (re)appeared
	MaxGen          int32 // highest generation reported to a member since then
	LeaderNamed     string
	InReb           bool      // the group is in PreparingRebalance
	RebStart        time.Time // since when (generation bump observed)
	LastBump        time.Time // last join during this rebalance (the implementation restarts the timeout on every join)
	LeaderSyncedGen int32     // generation in which {all joined, leader synced successfully} was observed
	Failovers       int
}

// ---------------------------------------------------------------- steps

type coordShadow struct {
	PreProj  coordProj // the group as a fresh coordinator restores it before the event
	Resp     *coordResp
	PostProj coordProj
	PostOff  map[string]int64
}

// coordStep is one executed request/failover event with everything the oracles may look at.
type coordStep struct {
	Ev        coordEv
	K         string // Ev.K.String()
	At        time.Time
	Pre, Post coordProj
	PreOff    map[string]int64
	PostOff   map[string]int64
	ReqMember string
	ReqGen    int32
	ReqSubs   []string
	ReqSess   time.Duration // join/rejoin: session timeout asked for
	CommitOff int64
	Reissued  int // a JoinGroup without member id was answered with an id issued before in this history (issue number), 0 = fresh
	Resp      *coordResp
	Shadow    *coordShadow
}

// coordTick is one firing of the coordinator's cleanup ticker inside an advance event.
type coordTick struct {
	At        time.Time
	Pre, Post coordProj
}

// coordOracle is the per-property part. Check/CheckTick are called for the judged (last)
// event of a history only, before the ledger is updated with that event (w.led is the
// reference state before the event).
type coordOracle interface {
	NeedShadow() bool
	Check(w *coordWorld, st *coordStep) []xstate.Violation
	CheckTick(w *coordWorld, tk *coordTick) []xstate.Violation
}

// ---------------------------------------------------------------- the world

type coordWorld struct {
	cfg        *coordCfg
	orc        coordOracle
	store      metadata.Store
	c          *GroupCoordinator
	coordStart time.Time
	ids        []string // issued member ids, index+1 = issue number
	vals       map[string]int64
	departed   int // issue number of the member that left the group last (0 = none)
	nextVal    int64
	nextValSet bool
	dead       string
	led        coordLedger
	cur        coordProj
	curOff     map[string]int64
	panics     int
	kept       map[string]*coordKeptSync // only when the oracle asks for it (C12): member id -> its latest successful SyncGroup reply bytes as returned
}

// coordKeptSync: the MemberAssignment slice of a successful SyncGroup reply exactly as the coordinator
// returned it (Raw, not copied) and a copy taken at reply time.
type coordKeptSync struct {
	Gen  int32
	Raw  []byte
	Copy []byte
}

// coordSyncKeeper is implemented by an oracle that wants the world to retain the reply slices (C12 only).
type coordSyncKeeper interface{ KeepSyncBytes() bool }

// The shimmed rand.Int63 has no arguments and replays run on parallel workers, so the
// value for "this" replay is handed over under a global mutex: a JoinGroup call that will
// reach newMemberID locks coordJoinMu and arms the hook; the hook takes the value and
// releases the mutex (newMemberID is called early in JoinGroup, before the expensive
// persist step, so the critical section is short). Calls that cannot need a new id (a
// current member rejoining) do not arm the hook.
var (
	coordJoinMu    sync.Mutex
	coordJoinVal   int64
	coordJoinArmed bool
	coordJoinTaken *bool
)

func init() {
	vrand.Int63Hook = func() (int64, bool) {
		if !coordJoinArmed {
			return 0, false
		}
		v := coordJoinVal
		coordJoinArmed = false
		*coordJoinTaken = true
		coordJoinMu.Unlock()
		return v, true
	}
}

var coordBrokerInfo = protocol.MetadataBroker{NodeID: 1, Host: "h", Port: 9092}

func coordNewWorld(cfg *coordCfg, orc coordOracle) *coordWorld {
	w := &coordWorld{cfg: cfg, orc: orc, vals: map[string]int64{}}
	w.led.M = map[string]*coordLedMember{}
	w.store = coordNewStore(cfg.Store)
	if cfg.StoreFaults {
		w.store = &coordFaultStore{Store: w.store}
	}
	w.startCoordinator()
	w.cur = coordProject(w.c, w.store)
	w.curOff = coordReadOffsets(w.store)
	return w
}

func (w *coordWorld) startCoordinator() {
	w.c = NewGroupCoordinator(w.store, coordBrokerInfo, &CoordinatorConfig{CleanupInterval: coordTickEvery})
	w.coordStart = time.Now()
	synctest.Wait() // cleanupLoop has created its ticker at coordStart
}

func (w *coordWorld) Close() {
	w.c.Stop()
	synctest.Wait()
}

func (w *coordWorld) name(id string) string {
	if id == "" {
		return "-"
	}
	if id == coordGhostID {
		return "ghost"
	}
	for i, x := range w.ids {
		if x == id {
			return fmt.Sprintf("m%d", i+1)
		}
	}
	return "?" + id
}

func (w *coordWorld) idOf(m int) string {
	if m == -1 {
		return coordGhostID
	}
	if m == int(coordAnonM) {
		return ""
	}
	if m >= 1 && m <= len(w.ids) {
		return w.ids[m-1]
	}
	return fmt.Sprintf("g-unissued-%d", m)
}

func (w *coordWorld) issueNo(id string) int {
	for i, x := range w.ids {
		if x == id {
			return i + 1
		}
	}
	return 0
}

// pickVal chooses the numeric part of the next member id so that it sorts at position
// rank among the ids of the current members and differs from every id issued before.
func (w *coordWorld) pickVal(rank int) int64 {
	live := make([]int64, 0, len(w.cur.IDs))
	for _, id := range w.cur.IDs {
		live = append(live, w.vals[id])
	}
	sort.Slice(live, func(i, j int) bool { return live[i] < live[j] })
	if rank > len(live) {
		rank = len(live)
	}
	lo, hi := coordIDLo, coordIDHi
	if rank > 0 {
		lo = live[rank-1]
	}
	if rank < len(live) {
		hi = live[rank]
	}
	return lo + (hi-lo)/2 + int64(len(w.ids))
}

// Enabled lists the events offered in the current state, simplest first.
func (w *coordWorld) Enabled() []coordEv {
	if w.dead != "" {
		return nil
	}
	evs := make([]coordEv, 0, 64)
	p := &w.cur
	if w.cfg.Timing {
		if len(p.IDs) < w.cfg.MaxLive && len(w.ids) < w.cfg.MaxIssued {
			evs = append(evs, coordEv{K: coordKJoin, S: 1, R: int8(len(p.IDs))})
			if w.cfg.SessionChange {
				evs = append(evs, coordEv{K: coordKJoin, S: 1, R: int8(len(p.IDs)), D: int16(coordSessionAlt / time.Millisecond)})
			}
		}
		for i, id := range w.ids {
			if p.has(id) {
				m := int8(i + 1)
				evs = append(evs, coordEv{K: coordKSync, M: m}, coordEv{K: coordKHb, M: m}, coordEv{K: coordKRejoin, M: m, S: -1}, coordEv{K: coordKLeave, M: m})
				if w.cfg.SessionChange {
					evs = append(evs, coordEv{K: coordKRejoin, M: m, S: -1, D: int16(coordSessionAlt / time.Millisecond)})
				}
			}
		}
		if p.Exists {
			for _, d := range w.cfg.Deltas {
				evs = append(evs, coordEv{K: coordKAdv, D: int16(d / time.Millisecond)})
			}
			if fs, ok := w.store.(*coordFaultStore); ok && !fs.armed && fs.fails == 0 {
				evs = append(evs, coordEv{K: coordKFailPut})
			}
		}
		return evs
	}
	if len(p.IDs) < w.cfg.MaxLive && len(w.ids) < w.cfg.MaxIssued {
		for s := range coordSubsAlphabet {
			for r := 0; r <= len(p.IDs); r++ {
				evs = append(evs, coordEv{K: coordKJoin, S: int8(s), R: int8(r)})
			}
		}
	}
	var live []int8
	for i, id := range w.ids {
		if p.has(id) {
			live = append(live, int8(i+1))
		}
	}
	for _, m := range live {
		evs = append(evs, coordEv{K: coordKSync, M: m}, coordEv{K: coordKSync, M: m, G: -1})
	}
	for _, m := range live {
		evs = append(evs, coordEv{K: coordKHb, M: m}, coordEv{K: coordKHb, M: m, G: -1})
	}
	for _, m := range live {
		evs = append(evs, coordEv{K: coordKRejoin, M: m, S: -1})
		if w.cfg.Resub {
			cur := w.led.M[w.ids[m-1]]
			for s, subs := range coordSubsAlphabet {
				if cur != nil && strings.Join(cur.Subs, ",") == strings.Join(subs, ",") {
					continue
				}
				evs = append(evs, coordEv{K: coordKRejoin, M: m, S: int8(s)})
			}
		}
	}
	for _, m := range live {
		for _, tp := range w.cfg.CommitTPs {
			evs = append(evs, coordEv{K: coordKCommit, M: m, T: coordTPIndex(tp)}, coordEv{K: coordKCommit, M: m, G: -1, T: coordTPIndex(tp)})
		}
	}
	for _, m := range live {
		evs = append(evs, coordEv{K: coordKLeave, M: m})
	}
	if p.Exists {
		for _, d := range w.cfg.Deltas {
			evs = append(evs, coordEv{K: coordKAdv, D: int16(d / time.Millisecond)})
		}
		evs = append(evs, coordEv{K: coordKFailover})
	}
	// members that are not (or no longer) in the group
	stale := []int8{}
	if w.departed != 0 && !p.has(w.idOf(w.departed)) {
		stale = append(stale, int8(w.departed))
	}
	stale = append(stale, -1)
	for _, m := range stale {
		evs = append(evs, coordEv{K: coordKCommit, M: m, T: coordTPIndex(w.cfg.CommitTPs[0])}, coordEv{K: coordKHb, M: m}, coordEv{K: coordKSync, M: m})
		if m != -1 {
			evs = append(evs, coordEv{K: coordKCommit, M: m, G: -1, T: coordTPIndex(w.cfg.CommitTPs[0])})
		}
	}
	evs = append(evs, coordEv{K: coordKLeave, M: -1})
	if w.cfg.AnonIDs {
		// requests without a member id: generation -1 (a client that is not a group member), commit also at the current generation
		tp := coordTPIndex(w.cfg.CommitTPs[0])
		evs = append(evs, coordEv{K: coordKCommit, M: coordAnonM, G: coordGenNone, T: tp}, coordEv{K: coordKCommit, M: coordAnonM, T: tp},
			coordEv{K: coordKHb, M: coordAnonM, G: coordGenNone}, coordEv{K: coordKSync, M: coordAnonM, G: coordGenNone})
	}
	return evs
}

func (w *coordWorld) Apply(e coordEv) (string, []xstate.Violation) { return w.step(e, true) }

func (w *coordWorld) Replay(e coordEv) string {
	obs, _ := w.step(e, false)
	return obs
}

func (w *coordWorld) joinRequest(memberID string, subs []string, sess time.Duration) *kmsg.JoinGroupRequest {
	req := kmsg.NewPtrJoinGroupRequest()
	req.Group = coordGroup
	req.MemberID = memberID
	req.ProtocolType = "consumer"
	req.SessionTimeoutMillis = int32(sess / time.Millisecond)
	req.RebalanceTimeoutMillis = int32(coordRebalTO / time.Millisecond)
	pr := kmsg.NewJoinGroupRequestProtocol()
	pr.Name = "range"
	pr.Metadata = w.c.encodeSubscription(subs)
	req.Protocols = []kmsg.JoinGroupRequestProtocol{pr}
	return req
}

// call executes the request of st on coordinator c and decodes the reply. A panic in the
// code under test is recovered (and c.mu released so that Stop/cleanup cannot hang).
func (w *coordWorld) call(c *GroupCoordinator, st *coordStep) (r *coordResp) {
	ctx := context.Background()
	kind := st.K
	defer func() {
		if p := recover(); p != nil {
			r = &coordResp{Kind: kind, Panic: fmt.Sprint(p)}
			if !c.mu.TryLock() {
				c.mu.Unlock()
			} else {
				c.mu.Unlock()
			}
		}
	}()
	r = &coordResp{Kind: kind}
	switch kind {
	case "join", "rejoin":
		req := w.joinRequest(st.ReqMember, st.ReqSubs, st.ReqSess)
		needID := w.nextValSet && (st.ReqMember == "" || !st.Pre.has(st.ReqMember))
		resp, err := func() (*kmsg.JoinGroupResponse, error) {
			if needID {
				coordJoinMu.Lock()
				consumed := false
				coordJoinVal, coordJoinArmed, coordJoinTaken = w.nextVal, true, &consumed
				defer func() {
					if !consumed { // the hook was not reached: the mutex is still ours
						coordJoinArmed = false
						coordJoinMu.Unlock()
					}
				}()
			}
			return c.JoinGroup(ctx, req)
		}()
		if err != nil {
			r.GoErr = err.Error()
			return r
		}
		r.Err, r.Gen, r.Leader, r.Member = resp.ErrorCode, resp.Generation, resp.LeaderID, resp.MemberID
		for _, m := range resp.Members {
			subs := c.parseSubscriptionTopics([]kmsg.JoinGroupRequestProtocol{{Metadata: m.ProtocolMetadata}})
			sort.Strings(subs)
			r.Members = append(r.Members, coordRespMember{ID: m.MemberID, Subs: subs})
		}
	case "sync":
		req := kmsg.NewPtrSyncGroupRequest()
		req.Group, req.MemberID, req.Generation = coordGroup, st.ReqMember, st.ReqGen
		resp, err := c.SyncGroup(ctx, req)
		if err != nil {
			r.GoErr = err.Error()
			return r
		}
		r.Err = resp.ErrorCode
		if resp.ErrorCode == protocol.NONE {
			a, derr := coordDecodeAssignment(resp.MemberAssignment)
			if derr != nil {
				r.AssignErr = derr.Error()
			}
			r.Assign = a
			if k, ok := w.orc.(coordSyncKeeper); ok && k.KeepSyncBytes() && c == w.c {
				if w.kept == nil {
					w.kept = map[string]*coordKeptSync{}
				}
				w.kept[st.ReqMember] = &coordKeptSync{Gen: st.ReqGen, Raw: resp.MemberAssignment, Copy: append([]byte(nil), resp.MemberAssignment...)}
			}
		}
	case "hb":
		req := kmsg.NewPtrHeartbeatRequest()
		req.Group, req.MemberID, req.Generation = coordGroup, st.ReqMember, st.ReqGen
		r.Err = c.Heartbeat(ctx, req).ErrorCode
	case "leave":
		req := kmsg.NewPtrLeaveGroupRequest()
		req.Group, req.MemberID = coordGroup, st.ReqMember
		r.Err = c.LeaveGroup(ctx, req).ErrorCode
	case "commit":
		req := kmsg.NewPtrOffsetCommitRequest()
		req.Group, req.MemberID, req.Generation = coordGroup, st.ReqMember, st.ReqGen
		t, p := coordSplitTP(coordAllTPs[st.Ev.T])
		rt := kmsg.NewOffsetCommitRequestTopic()
		rt.Topic = t
		rp := kmsg.NewOffsetCommitRequestTopicPartition()
		rp.Partition, rp.Offset = p, st.CommitOff
		rt.Partitions = append(rt.Partitions, rp)
		req.Topics = append(req.Topics, rt)
		resp, err := c.OffsetCommit(ctx, req)
		if err != nil {
			r.GoErr = err.Error()
			return r
		}
		for _, tr := range resp.Topics {
			for _, pr := range tr.Partitions {
				r.PartErrs = append(r.PartErrs, pr.ErrorCode)
			}
		}
		if len(r.PartErrs) == 0 {
			r.GoErr = "empty commit response"
		}
	}
	return r
}

func (w *coordWorld) step(e coordEv, judged bool) (string, []xstate.Violation) {
	if w.dead != "" {
		return "dead", nil
	}
	if e.K == coordKAdv {
		return w.advance(e, judged)
	}
	if e.K == coordKFailPut {
		if fs, ok := w.store.(*coordFaultStore); ok {
			fs.armed = true
		}
		return "failput armed#trivial", nil
	}
	st := &coordStep{Ev: e, K: e.K.String(), At: time.Now(), Pre: w.cur, PreOff: w.curOff}
	var viol []xstate.Violation
	if e.K == coordKFailover {
		w.c.Stop()
		synctest.Wait()
		w.startCoordinator()
	} else {
		switch e.K {
		case coordKJoin:
			st.ReqMember = ""
			st.ReqSubs = coordSubsAlphabet[e.S]
			st.ReqSess = e.sess()
			w.nextVal, w.nextValSet = w.pickVal(int(e.R)), true
		case coordKRejoin:
			st.ReqMember = w.idOf(int(e.M))
			st.ReqSess = e.sess()
			if e.S >= 0 {
				st.ReqSubs = coordSubsAlphabet[e.S]
			} else if lm := w.led.M[st.ReqMember]; lm != nil {
				st.ReqSubs = lm.Subs
			}
			// a member the coordinator no longer knows gets a new id placed last
			w.nextVal, w.nextValSet = w.pickVal(len(w.cur.IDs)), true
		default:
			st.ReqMember = w.idOf(int(e.M))
		}
		st.ReqGen = st.Pre.Gen + int32(e.G)
		if e.G == coordGenNone {
			st.ReqGen = -1
		}
		if e.K == coordKCommit {
			st.CommitOff = 5
			if st.PreOff[coordAllTPs[e.T]] == 5 {
				st.CommitOff = 7
			}
		}
		var shadowC *GroupCoordinator
		var shadowStore metadata.Store
		if judged && w.orc != nil && w.orc.NeedShadow() {
			shadowStore = coordCopyStore(w.cfg.Store, w.store)
			shadowC = NewGroupCoordinator(shadowStore, coordBrokerInfo, &CoordinatorConfig{CleanupInterval: coordTickEvery})
			synctest.Wait()
			st.Shadow = &coordShadow{PreProj: coordProject(shadowC, shadowStore)}
		}
		st.Resp = w.call(w.c, st)
		if shadowC != nil {
			st.Shadow.Resp = w.call(shadowC, st)
			st.Shadow.PostProj = coordProject(shadowC, shadowStore)
			st.Shadow.PostOff = coordReadOffsets(shadowStore)
			shadowC.Stop()
			synctest.Wait()
		}
		w.nextValSet = false
		if st.Resp.Panic != "" {
			w.panics++
		}
		if e.K == coordKJoin && st.Resp.Panic == "" && st.Resp.GoErr == "" && st.Resp.Err == 0 && st.Resp.Member != "" {
			st.Reissued = w.issueNo(st.Resp.Member)
		}
		if (e.K == coordKJoin || e.K == coordKRejoin) && st.Resp.Panic == "" && st.Resp.GoErr == "" && st.Resp.Member != "" && w.issueNo(st.Resp.Member) == 0 {
			w.ids = append(w.ids, st.Resp.Member)
			w.vals[st.Resp.Member] = w.nextVal
		}
	}
	st.Post = coordProject(w.c, w.store)
	if judged || e.K == coordKCommit { // only an OffsetCommit can write offsets; when judging, look anyway
		st.PostOff = coordReadOffsets(w.store)
	} else {
		st.PostOff = st.PreOff
	}
	w.cur, w.curOff = st.Post, st.PostOff
	if judged && w.orc != nil {
		viol = w.orc.Check(w, st)
	}
	w.led.update(w, st)
	w.noteDeparted(&st.Pre, &st.Post)
	obs := ""
	if judged { // prefix events are replayed without building the trace text
		obs = w.obsStep(st)
	}
	if st.Resp != nil && st.Resp.Panic != "" {
		w.dead = "panic in " + st.K
	}
	return obs, viol
}

func (w *coordWorld) noteDeparted(pre, post *coordProj) {
	best := 0
	for _, id := range pre.IDs {
		if !post.has(id) {
			if n := w.issueNo(id); n > best {
				best = n
			}
		}
	}
	if best != 0 {
		w.departed = best
	}
}

// advance lets d of virtual time pass, observing the group after every firing of the
// coordinator's cleanup ticker (the cleanupLoop goroutine itself does the work).
func (w *coordWorld) advance(e coordEv, judged bool) (string, []xstate.Violation) {
	var viol []xstate.Violation
	start := time.Now()
	end := start.Add(time.Duration(e.D) * time.Millisecond)
	pre := w.cur
	var notes []string
	for {
		now := time.Now()
		k := now.Sub(w.coordStart)/coordTickEvery + 1
		next := w.coordStart.Add(k * coordTickEvery)
		if next.After(end) {
			if end.After(now) {
				time.Sleep(end.Sub(now))
				synctest.Wait()
			}
			break
		}
		time.Sleep(next.Sub(now))
		synctest.Wait()
		tk := &coordTick{At: next, Pre: w.cur, Post: coordProject(w.c, w.store)}
		w.cur = tk.Post
		if judged && w.orc != nil {
			viol = append(viol, w.orc.CheckTick(w, tk)...)
		}
		w.led.updateTick(w, tk)
		w.noteDeparted(&tk.Pre, &tk.Post)
		for _, id := range tk.Pre.IDs {
			if judged && !tk.Post.has(id) {
				notes = append(notes, fmt.Sprintf("-%s@%.1fs", w.name(id), next.Sub(start).Seconds()))
			}
		}
	}
	if judged {
		w.curOff = coordReadOffsets(w.store)
	}
	if !judged {
		return "", nil
	}
	obs := fmt.Sprintf("%s: %s %s", e, strings.Join(notes, " "), w.obsDelta(&pre, &w.cur))
	if w.obsState(&pre) == w.obsState(&w.cur) {
		obs += " #trivial"
	}
	return obs, viol
}

func (w *coordWorld) obsState(p *coordProj) string {
	if !p.Exists {
		return "nogroup"
	}
	var ms []string
	for _, id := range p.IDs {
		m := p.Members[id]
		j := ""
		if m.JoinGen != p.Gen {
			j = "!"
		}
		ms = append(ms, w.name(id)+j)
	}
	l := ""
	if !p.Loaded {
		l = "(unloaded)"
	}
	return fmt.Sprintf("%s%s gen=%d leader=%s [%s]", coordPhaseName(p.Phase), l, p.Gen, w.name(p.Leader), strings.Join(ms, " "))
}

func (w *coordWorld) obsDelta(pre, post *coordProj) string {
	a, b := w.obsState(pre), w.obsState(post)
	if a == b {
		return "| = " + b
	}
	return "| " + a + " -> " + b
}

func (w *coordWorld) obsStep(st *coordStep) string {
	r := "-"
	if st.Resp != nil {
		r = st.Resp.str(w.name)
	}
	off := ""
	for _, tp := range coordAllTPs {
		if st.PreOff[tp] != st.PostOff[tp] {
			off += fmt.Sprintf(" %s:%d->%d", tp, st.PreOff[tp], st.PostOff[tp])
		}
	}
	tag := ""
	if off == "" && (st.Resp == nil || st.Resp.ok()) && w.obsState(&st.Pre) == w.obsState(&st.Post) {
		tag = " #trivial"
	}
	return fmt.Sprintf("%s: %s%s %s%s", st.Ev, r, off, w.obsDelta(&st.Pre, &st.Post), tag)
}

// ---------------------------------------------------------------- ledger maintenance

func (l *coordLedger) reconcile(at time.Time, pre, post *coordProj) {
	for id := range l.M {
		if !post.has(id) {
			delete(l.M, id)
		}
	}
	if !post.Exists {
		l.HasGen, l.MaxGen, l.LeaderNamed, l.InReb, l.LeaderSyncedGen = false, 0, "", false, 0
		return
	}
	if !pre.Exists || post.Gen != pre.Gen {
		l.LeaderSyncedGen = 0
		if post.Phase == groupStatePreparingRebalance {
			l.InReb, l.RebStart, l.LastBump = true, at, at
		}
	}
	if post.Phase != groupStatePreparingRebalance {
		l.InReb = false
	}
}

func (l *coordLedger) update(w *coordWorld, st *coordStep) {
	r := st.Resp
	switch st.K {
	case "failover":
		l.Failovers++
		for _, m := range l.M {
			m.FoSinceJoin = true
		}
	case "join", "rejoin":
		if r.Panic == "" && r.GoErr == "" && r.Err != protocol.UNKNOWN_SERVER_ERROR && r.Member != "" {
			m := l.M[r.Member]
			if m == nil {
				m = &coordLedMember{}
				l.M[r.Member] = m
			}
			if m.JoinedGen == r.Gen && r.Gen != 0 && strings.Join(m.Subs, ",") != strings.Join(st.ReqSubs, ",") {
				m.ResubGen = r.Gen
			}
			m.Subs = append([]string(nil), st.ReqSubs...)
			m.JoinedGen = r.Gen
			m.LastRefresh = st.At
			m.Sess = st.ReqSess
			m.FoSinceJoin = false
			l.LeaderNamed = r.Leader
			if !l.HasGen || r.Gen > l.MaxGen {
				l.HasGen, l.MaxGen = true, r.Gen
			}
			l.LastBump = st.At
		}
	case "hb":
		if r.ok() {
			if m := l.M[st.ReqMember]; m != nil {
				m.LastRefresh = st.At
			}
		}
	case "sync":
		if r.ok() && r.AssignErr == "" {
			if m := l.M[st.ReqMember]; m != nil {
				m.HasSync, m.SyncGen, m.SyncAssign = true, st.ReqGen, r.Assign
			}
		}
	}
	l.reconcile(st.At, &st.Pre, &st.Post)
	if st.K == "sync" && r.ok() && st.Post.Exists && st.ReqMember == l.LeaderNamed && l.allJoined(&st.Post, st.ReqGen) {
		l.LeaderSyncedGen = st.ReqGen
	}
}

func (l *coordLedger) updateTick(w *coordWorld, tk *coordTick) {
	l.reconcile(tk.At, &tk.Pre, &tk.Post)
}

// allJoined: every current member's last join was answered with generation gen.
func (l *coordLedger) allJoined(p *coordProj, gen int32) bool {
	for _, id := range p.IDs {
		m := l.M[id]
		if m == nil || m.JoinedGen != gen {
			return false
		}
	}
	return len(p.IDs) > 0
}

// ---------------------------------------------------------------- canonical key

func coordCapAge(now, at time.Time, cap time.Duration) string {
	if at.IsZero() {
		return "z"
	}
	a := now.Sub(at)
	if a > cap {
		return "X"
	}
	return fmt.Sprintf("%d", a/time.Millisecond)
}

// Canon is the canonical key of the current state.
//
// Why states with equal keys have equal futures (same enabled events up to a renaming of
// members, same replies, same oracle verdicts, equal successor keys):
//
//   - The coordinator uses member ids only as map keys and through sort.Strings, so any
//     order-preserving renaming of ids is an automorphism of the implementation. The key
//     lists the current members in id order with all their fields, hence identifies the
//     group up to such a renaming (issue numbers and the numeric ids are not in the key).
//     Ids that are not members (departed members, the ghost id) are all treated alike by
//     the implementation; the key keeps whether a departed id exists and how many ids were
//     issued, because these bound the event menu.
//   - Generations are compared only for equality with the request's generation and with
//     joinGeneration, and requests carry current or current-1, so only "joinGeneration ==
//     generation" per member is kept, not the number. For the C13 monotonicity oracle the
//     key keeps max(0, highest reported generation - current generation).
//   - Time enters through now-lastHeartbeat (vs the member's session timeout),
//     rebalanceDeadline-now, and the phase of the cleanup ticker. These are kept exactly
//     (ms), saturated where the exact value cannot matter any more: an age beyond the
//     session timeout ("X": removed at the next tick unless refreshed first), a deadline
//     that has passed ("due"). Absolute time is not observable by the coordinator.
//   - Committed offsets are kept exactly (commit events write 5, or 7 over 5).
//   - The reference ledger is part of the key (relative to the current generation and
//     clock, saturated the same way), so merged states also agree on what every oracle
//     will demand. A store that is not loaded by the coordinator (after failover) is
//     projected through restoreGroupState, which is exactly what the next request sees.
//
// The thorough tier re-runs a smaller depth without merging and requires the same set of
// canonical keys and the same violation keys.
func (w *coordWorld) Canon() string {
	if w.dead != "" {
		return "DEAD " + w.dead
	}
	now := time.Now()
	p := &w.cur
	var b strings.Builder
	fmt.Fprintf(&b, "%s i%d d%t f%t tick%d|", w.cfg.Store, len(w.ids), w.departed != 0 && !p.has(w.idOf(w.departed)), w.led.Failovers > 0,
		now.Sub(w.coordStart)%coordTickEvery/time.Millisecond)
	for _, tp := range coordAllTPs {
		fmt.Fprintf(&b, "%d,", w.curOff[tp])
	}
	if fs, ok := w.store.(*coordFaultStore); ok {
		// after a failed write the store and the coordinator's memory differ: never merge such a state
		// with one where they agree
		fmt.Fprintf(&b, "sf%t/%d,", fs.armed, fs.fails)
	}
	if !p.Exists {
		b.WriteString("|nogroup")
		return b.String()
	}
	dl := "-"
	if !p.Deadline.IsZero() {
		if rem := p.Deadline.Sub(now); rem <= 0 {
			dl = "due"
		} else {
			dl = fmt.Sprintf("%d", rem/time.Millisecond)
		}
	}
	l := &w.led
	dgen := int32(0)
	if l.HasGen && l.MaxGen > p.Gen {
		dgen = l.MaxGen - p.Gen
	}
	fmt.Fprintf(&b, "|L%t %s lead%d dl%s rto%d|led dg%d hg%t ln%d ls%t", p.Loaded, coordPhaseName(p.Phase), p.rank(p.Leader), dl, p.RebTO/time.Millisecond,
		dgen, l.HasGen, p.rank(l.LeaderNamed), l.LeaderSyncedGen == p.Gen && l.LeaderSyncedGen != 0)
	if l.InReb {
		fmt.Fprintf(&b, " reb%s bump%s", coordCapAge(now, l.RebStart, coordRebalTO), coordCapAge(now, l.LastBump, coordRebalTO))
	}
	for _, id := range p.IDs {
		m := p.Members[id]
		as := "-"
		if m.Assign != nil {
			as = coordAssignString(m.Assign)
		}
		fmt.Fprintf(&b, "|%v j%t a%s hb%s st%d", m.Subs, m.JoinGen == p.Gen, as, coordCapAge(now, m.LastHB, m.Sess), m.Sess/time.Millisecond)
		if lm := l.M[id]; lm != nil {
			sy := "-"
			if lm.HasSync && lm.SyncGen == p.Gen {
				sy = coordAssignString(lm.SyncAssign)
			}
			// the reference age saturates at the session of the member's latest join (== coordSessionTO in every run without SessionChange)
			fmt.Fprintf(&b, " ~%v j%t r%s s%s f%t c%t", lm.Subs, lm.JoinedGen == p.Gen, coordCapAge(now, lm.LastRefresh, lm.session()), sy, lm.FoSinceJoin, lm.ResubGen == p.Gen && p.Gen != 0)
			if w.cfg.SessionChange {
				fmt.Fprintf(&b, " q%d", lm.session()/time.Millisecond)
			}
		} else {
			b.WriteString(" ~none")
		}
	}
	return b.String()
}

// ---------------------------------------------------------------- runner

type coordReplay struct {
	Store  string    `json:"store"`
	Events []coordEv `json:"events"`
	Trace  []string  `json:"trace,omitempty"`
}

func coordBubble(t *testing.T) func(func()) {
	return func(f func()) {
		synctest.Test(t, func(*testing.T) { f() })
	}
}

type coordTierPlan struct {
	Runs        []*coordCfg
	NoMergeRuns []*coordCfg // cross-check of the canonicalisation (thorough)
}

func coordPlan() coordTierPlan {
	// VERIF_COORD_PLAN="mem:5,codec:4" overrides the tier plan (experiments only)
	if v := os.Getenv("VERIF_COORD_PLAN"); v != "" {
		var plan coordTierPlan
		for _, part := range strings.Split(v, ",") {
			f := strings.Split(part, ":")
			d, _ := strconv.Atoi(f[1])
			c := coordDefaultCfg(f[0], d)
			c.Resub = len(f) > 2 && f[2] == "resub"
			plan.Runs = append(plan.Runs, c)
		}
		return plan
	}
	if vh.Thorough() {
		deep := coordDefaultCfg("mem", 7)
		deep.MaxIssued = 4
		deep.CommitTPs = []string{"a:0", "b:0"}
		codec := coordDefaultCfg("codec", 6)
		resub := coordDefaultCfg("mem", 5)
		resub.Resub = true
		return coordTierPlan{Runs: []*coordCfg{deep, codec, resub}, NoMergeRuns: []*coordCfg{coordDefaultCfg("mem", 4)}}
	}
	resub := coordDefaultCfg("mem", 4)
	resub.Resub = true
	return coordTierPlan{Runs: []*coordCfg{coordDefaultCfg("mem", 6), coordDefaultCfg("codec", 5), resub}}
}

// coordRunCheck runs the shared exploration with one property's oracle.
func coordRunCheck(t *testing.T, id string, mk func() coordOracle, rule string, assumptions []string) {
	rep := vh.New(t, id)
	defer rep.Finish()
	rep.Rule = rule
	rep.Assumptions = append([]string{
		"virtual time (testing/synctest): the coordinator's own cleanupLoop goroutine and ticker run on the bubble's fake clock",
		"member ids: coordinator.go built with math/rand -> vrand; the rank of each new id among the live ids is an explorer choice; ids are 19-digit so string order equals numeric order",
		"store failures are not injected (the metadata store always succeeds)",
	}, assumptions...)
	rep.SetInfo("timeouts", map[string]any{"session_ms": coordSessionTO / time.Millisecond, "rebalance_ms": coordRebalTO / time.Millisecond, "cleanup_interval_ms": coordTickEvery / time.Millisecond})
	rep.SetInfo("topics", coordTopicParts)
	rep.SetInfo("subscriptions", coordSubsAlphabet)

	var rp coordReplay
	if isReplay, err := vh.LoadReplay(&rp); isReplay {
		if err != nil {
			t.Fatalf("HARNESS-ERROR load replay: %v", err)
		}
		coordRunReplay(t, rep, mk, rp)
		return
	}

	defer debug.SetGCPercent(debug.SetGCPercent(coordGOGC())) // replays are allocation-heavy and short-lived
	deadline := vh.Deadline().Add(-10 * time.Second)
	plan := coordPlan()
	if (id == "C43" || id == "C12" || id == "C13" || id == "C14") && os.Getenv("VERIF_COORD_PLAN") == "" {
		// the depth bound is never reached: the canonical state space of the timing alphabet is finite and the
		// search runs to its fixpoint (last entry of new_states_per_depth is 0)
		d, live, issued := 40, 2, 3
		if vh.Thorough() {
			live, issued = 3, 4
		}
		if v, err := strconv.Atoi(os.Getenv("VERIF_C43_TIMING_DEPTH")); err == nil {
			d = v
		}
		plan.Runs = append([]*coordCfg{coordTimingCfg(d, live, issued)}, plan.Runs...)
		if id == "C43" {
			// the session timeout asked for changes between the joins of one member id
			sd, slive, sissued := 40, 2, 2
			if vh.Thorough() {
				sissued = 3
			}
			if v, err := strconv.Atoi(os.Getenv("VERIF_C43_SESSION_DEPTH")); err == nil {
				sd = v
			}
			if v, err := strconv.Atoi(os.Getenv("VERIF_C43_SESSION_ISSUED")); err == nil {
				sissued = v
			}
			plan.Runs = append(plan.Runs[:1:1], append([]*coordCfg{coordSessionCfg(sd, slive, sissued)}, plan.Runs[1:]...)...)
			if vh.Thorough() { // the canonical key has one more component in this run: cross-check it as well
				plan.NoMergeRuns = append(plan.NoMergeRuns, coordSessionCfg(4, 2, 2))
			}
		}
		if id == "C13" {
			// the same alphabet plus one transient failure of a group write of the metadata store
			sf := coordTimingCfg(d, 2, 2)
			sf.StoreFaults = true
			plan.Runs = append([]*coordCfg{sf}, plan.Runs...)
		}
	}
	if id == "C13" {
		for _, cfg := range append(append([]*coordCfg{}, plan.Runs...), plan.NoMergeRuns...) {
			if !cfg.Timing {
				cfg.AnonIDs = true
			}
		}
	}
	var runsInfo []map[string]any
	for _, cfg := range plan.NoMergeRuns { // first, so that a deadline cannot skip it (shard 0 only, small)
		coordCrossCheck(t, rep, cfg, mk, deadline)
	}
	for _, cfg := range plan.Runs {
		res := coordExplore(t, rep, cfg, mk, deadline)
		info := map[string]any{"store": cfg.Store, "depth": cfg.Depth, "max_live": cfg.MaxLive, "max_issued": cfg.MaxIssued, "resubscribe": cfg.Resub, "timing_alphabet": cfg.Timing, "store_write_fault": cfg.StoreFaults,
			"commit_partitions": cfg.CommitTPs, "deltas_ms": coordDeltasMs(cfg), "new_states_per_depth": res.Levels}
		if cfg.SessionChange {
			info["session_change"] = true
			info["sessions_ms"] = []int{int(coordSessionTO / time.Millisecond), int(coordSessionAlt / time.Millisecond)}
			rep.Count("session_change_states", int64(res.States))
			rep.Count("session_change_transitions", int64(res.Transitions))
		}
		if res.Capped != "" {
			rep.Cap(fmt.Sprintf("%s depth %d: %s", cfg.Store, cfg.Depth, res.Capped))
			info["capped"] = res.Capped
		}
		runsInfo = append(runsInfo, info)
		n := 0
		for i := len(res.Examples) - 1; i >= 0 && n < 2; i-- {
			ex := res.Examples[i]
			rep.Sample(map[string]any{"store": cfg.Store, "history": coordEvStrings(ex.History), "trace": coordTrace(t, cfg, ex.History), "canonical_key": ex.Key})
			n++
		}
	}
	rep.SetInfo("runs", runsInfo)
}

func coordDeltasMs(cfg *coordCfg) []int {
	var out []int
	for _, d := range cfg.Deltas {
		out = append(out, int(d/time.Millisecond))
	}
	return out
}

func coordEvStrings(h []coordEv) []string {
	out := make([]string, len(h))
	for i, e := range h {
		out[i] = e.String()
	}
	return out
}

// coordNontrivial: a transition is trivial when the event was answered without error and
// neither the observable group state (phase, generation, leader, members, joined flags)
// nor a committed offset changed. Observation strings contain no absolute times or raw ids.
func coordNontrivial(obs string) bool { return !strings.HasSuffix(obs, "#trivial") }

func coordExplore(t *testing.T, rep *vh.Report, cfg *coordCfg, mk func() coordOracle, deadline time.Time) xstate.Result[coordEv] {
	nviol := map[string]int{}
	res := xstate.Run(xstate.Options[coordEv]{
		Config: coordShardCfg(xstate.Config{MaxDepth: cfg.Depth, Deadline: deadline}, fmt.Sprintf("%s-d%d-r%t-t%t-sf%t%s", cfg.Store, cfg.Depth, cfg.Resub, cfg.Timing, cfg.StoreFaults, map[bool]string{true: "-sc"}[cfg.SessionChange])),
		Build:  func() xstate.System[coordEv] { return coordNewWorld(cfg, mk()) },
		Wrap:   coordBubble(t),
		Found: func(f xstate.Found[coordEv]) {
			nviol[f.Key]++
			if nviol[f.Key] > 3 { // vh keeps three replays per key; only count the rest
				rep.Violation(f.Key, "", nil)
				return
			}
			trace := coordTrace(t, cfg, f.History)
			rep.Violation(f.Key, fmt.Sprintf("[%s store] %s | history: %s", cfg.Store, f.Detail, strings.Join(trace, " ; ")),
				coordReplay{Store: cfg.Store, Events: f.History, Trace: trace})
		},
		Transition: func(hist []coordEv, obs []string, key string, newState bool) {
			last := obs[len(obs)-1]
			rep.Outcome(cfg.Store+"|"+last, coordNontrivial(last))
		},
		Examples: 1,
	})
	rep.Eval(int64(res.Transitions))
	rep.Count("states", int64(res.States))
	rep.Count("transitions", int64(res.Transitions))
	rep.Count("traces_validated_against_impl", int64(res.Transitions))
	rep.Count("events_executed", res.Events)
	res.Stats.Outcomes = nil
	return res
}

// coordShardCfg: with "shards": n in the registry vcheck starts n processes; they
// cooperate through files in VERIF_SCRATCH (xstate ExchangeDir) as one BFS.
func coordShardCfg(c xstate.Config, tag string) xstate.Config {
	i, n := vh.Shard()
	if dir := os.Getenv("VERIF_SCRATCH"); n > 1 && dir != "" {
		c.Shard, c.NShards, c.ExchangeDir, c.ExchangeTag = i, n, dir, tag
	}
	return c
}

// coordCrossCheck explores cfg twice, with and without merging, and requires the same
// canonical key set and the same violation keys. A difference is a harness error, never
// a verdict.
func coordCrossCheck(t *testing.T, rep *vh.Report, cfg *coordCfg, mk func() coordOracle, deadline time.Time) {
	if i, _ := vh.Shard(); i != 0 {
		return // runs unsharded in shard 0
	}
	if time.Now().After(deadline) {
		rep.Cap("no-merge cross-check skipped: deadline")
		return
	}
	collect := func(noMerge bool) (map[string]int, map[string]int, xstate.Stats) {
		var vmu sync.Mutex
		vkeys := map[string]int{}
		res := xstate.Run(xstate.Options[coordEv]{
			Config:      xstate.Config{MaxDepth: cfg.Depth, Deadline: deadline, NoMerge: noMerge},
			Build:       func() xstate.System[coordEv] { return coordNewWorld(cfg, mk()) },
			Wrap:        coordBubble(t),
			Found:       func(f xstate.Found[coordEv]) { vmu.Lock(); vkeys[f.Key]++; vmu.Unlock() },
			CollectKeys: true,
		})
		return res.Keys, vkeys, res.Stats
	}
	mk1, mv, ms := collect(false)
	uk, uv, us := collect(true)
	if ms.Capped != "" || us.Capped != "" {
		rep.Cap("no-merge cross-check cut by deadline: " + ms.Capped + us.Capped)
		return
	}
	onlyM, onlyU := 0, 0
	var ex string
	for k := range mk1 {
		if _, ok := uk[k]; !ok {
			onlyM++
			ex = k
		}
	}
	for k := range uk {
		if _, ok := mk1[k]; !ok {
			onlyU++
			ex = k
		}
	}
	var vdiff []string
	for k := range mv {
		if uv[k] == 0 {
			vdiff = append(vdiff, "merged-only:"+k)
		}
	}
	for k := range uv {
		if mv[k] == 0 {
			vdiff = append(vdiff, "unmerged-only:"+k)
		}
	}
	sort.Strings(vdiff)
	rep.SetInfo("nomerge_crosscheck"+map[bool]string{true: "_session_change"}[cfg.SessionChange], map[string]any{"store": cfg.Store, "depth": cfg.Depth, "merged_states": ms.States, "merged_transitions": ms.Transitions,
		"unmerged_histories": us.States, "unmerged_transitions": us.Transitions, "canonical_keys": len(mk1), "keys_only_merged": onlyM, "keys_only_unmerged": onlyU, "violation_key_differences": vdiff})
	rep.Count("nomerge_histories", int64(us.States))
	if onlyM != 0 || onlyU != 0 || len(vdiff) != 0 {
		t.Fatalf("HARNESS-ERROR canonicalisation unsound: depth %d merged-only keys %d, unmerged-only keys %d (e.g. %q), violation key differences %v", cfg.Depth, onlyM, onlyU, ex, vdiff)
	}
}

func coordGOGC() int {
	if v, err := strconv.Atoi(os.Getenv("VERIF_COORD_GOGC")); err == nil {
		return v
	}
	return 100
}

// coordTrace re-executes a history (no oracle) and returns the observation of every step.
func coordTrace(t *testing.T, cfg *coordCfg, hist []coordEv) []string {
	var trace []string
	coordBubble(t)(func() {
		w := coordNewWorld(cfg, nil)
		defer w.Close()
		for _, e := range hist {
			obs, _ := w.Apply(e)
			trace = append(trace, obs)
		}
	})
	return trace
}

// coordRunReplay re-executes one history with every step judged.
func coordRunReplay(t *testing.T, rep *vh.Report, mk func() coordOracle, rp coordReplay) {
	if rp.Store == "" {
		rp.Store = "mem"
	}
	cfg := coordDefaultCfg(rp.Store, len(rp.Events))
	cfg.MaxIssued = 8
	coordBubble(t)(func() {
		w := coordNewWorld(cfg, mk())
		defer w.Close()
		var trace []string
		for i, e := range rp.Events {
			obs, viol := w.Apply(e)
			trace = append(trace, obs)
			t.Logf("step %d %s", i+1, obs)
			rep.Eval(1)
			rep.Outcome(obs, true)
			for _, v := range viol {
				t.Logf("  VIOLATION %s: %s", v.Key, v.Detail)
				rep.Violation(v.Key, v.Detail+" | history: "+strings.Join(trace, " ; "), coordReplay{Store: rp.Store, Events: rp.Events[:i+1], Trace: trace})
			}
		}
		rep.Sample(map[string]any{"replayed": coordEvStrings(rp.Events), "trace": trace})
	})
	rep.Cap("replay of a single history")
}

// coordOffsetsDiff returns the first partition whose committed offset differs.
func coordOffsetsDiff(a, b map[string]int64) string {
	for _, tp := range coordAllTPs {
		if a[tp] != b[tp] {
			return tp
		}
	}
	return ""
}

// coordViol is a small helper for oracles.
func coordViol(key, format string, a ...any) xstate.Violation {
	return xstate.Violation{Key: key, Detail: fmt.Sprintf(format, a...)}
}
