//go:build verif

package broker

import (
	"context"
	"fmt"
	"sort"
	"strings"
	"testing"

	"github.com/KafScale/platform/internal/verif/sched"
	"github.com/KafScale/platform/internal/verif/vh"
	"github.com/KafScale/platform/internal/verif/vrand"
	metadatapb "github.com/KafScale/platform/pkg/gen/metadata"
	"github.com/KafScale/platform/pkg/metadata"
	"github.com/KafScale/platform/pkg/protocol"
	"github.com/twmb/franz-go/pkg/kmsg"
)

// C12, schedule dimension: a completed rebalance assigns each partition to exactly one
// subscriber - under every interleaving of the leader's (or a follower's) SyncGroup with
// the membership request of another member.
//
// Closed system: a real GroupCoordinator over the real InMemoryStore (topics a:2 b:1).
// coordinator.go is built with sync->vsync, so c.mu is a scheduling point, and every call
// of the metadata store the coordinator makes (Metadata, Fetch/Put/DeleteConsumerGroup) is
// a sched.Env point. Set-up (sequential): m1 joins {a} and syncs, m2 joins {a}, both
// rejoin: generation g, CompletingRebalance, leader m1 ("completing" start); for the
// "stable" start the leader has synced as well. Then two or three client threads run one
// scenario concurrently; after quiescence the group is driven to rest sequentially the
// way clients do (everybody syncs; whoever is refused rejoins with its subscription and
// syncs again) and the oracle of C12 is applied to the replies.

type c12cStore struct {
	metadata.Store
}

func (s *c12cStore) Metadata(ctx context.Context, topics []string) (*metadata.ClusterMetadata, error) {
	sched.Env("store.Metadata")
	return s.Store.Metadata(ctx, topics)
}

func (s *c12cStore) FetchConsumerGroup(ctx context.Context, id string) (*metadatapb.ConsumerGroup, error) {
	sched.Env("store.FetchConsumerGroup")
	return s.Store.FetchConsumerGroup(ctx, id)
}

func (s *c12cStore) PutConsumerGroup(ctx context.Context, g *metadatapb.ConsumerGroup) error {
	sched.Env("store.PutConsumerGroup")
	return s.Store.PutConsumerGroup(ctx, g)
}

func (s *c12cStore) DeleteConsumerGroup(ctx context.Context, id string) error {
	sched.Env("store.DeleteConsumerGroup")
	return s.Store.DeleteConsumerGroup(ctx, id)
}

// the value the next newMemberID draws (coordinator.go is built with math/rand->vrand);
// at most one request that needs a new id is in flight at any time in every scenario
var c12cNextID int64

const (
	c12cJoinNew   = iota // T1 sync(leader)   || T2 join(new m3, subs) [; sync(m3)]
	c12cWiden            // T1 sync(leader)   || T2 rejoin(m2, subs)   [; sync(m2)]
	c12cLeave            // T1 sync(leader)   || T2 leave(m2)
	c12cTwoSyncs         // T1 sync(follower) || T2 sync(leader)
	c12cThree            // T1 sync(leader)   || T2 sync(follower) || T3 join(new m3, subs) [; sync(m3)]
	c12cScenarios        // count
)

var c12cScenarioNames = []string{"leaderSync||joinNew", "leaderSync||rejoinChangedSubs", "leaderSync||leave", "followerSync||leaderSync", "leaderSync||followerSync||joinNew"}

// c12cVariant is one closed system.
type c12cVariant struct {
	Scenario int
	Stable   bool     // the leader has already synced when the threads start
	Order    []int    // Order[i] = rank of member m(i+1)'s id among the three ids
	Subs     []string // subscription of the new member / of the rejoining member
}

func (v c12cVariant) String() string {
	ph := "completing"
	if v.Stable {
		ph = "stable"
	}
	return fmt.Sprintf("%s start=%s idRanks=%v subs=%v", c12cScenarioNames[v.Scenario], ph, v.Order, v.Subs)
}

func c12cVariants() []c12cVariant {
	perms3 := [][]int{{0, 1, 2}, {0, 2, 1}, {1, 0, 2}, {1, 2, 0}, {2, 0, 1}, {2, 1, 0}}
	perms2 := [][]int{{0, 1, 2}, {1, 0, 2}}
	var out []c12cVariant
	for sc := 0; sc < c12cScenarios; sc++ {
		perms := perms2
		subs := [][]string{nil}
		switch sc {
		case c12cJoinNew, c12cThree:
			perms = perms3
			subs = [][]string{{"b"}, {"a", "b"}, {"a"}}
		case c12cWiden:
			subs = [][]string{{"a", "b"}, {"b"}}
		}
		for _, st := range []bool{false, true} {
			for _, p := range perms {
				for _, s := range subs {
					out = append(out, c12cVariant{Scenario: sc, Stable: st, Order: p, Subs: s})
				}
			}
		}
	}
	return out
}

type c12cMember struct {
	name string
	id   string
	subs []string // of its last JoinGroup request
	gen  int32    // of its last JoinGroup reply
	join int16    // error code of its last JoinGroup reply
}

type c12cReply struct {
	who    string
	gen    int32
	assign map[string][]int32
	phase  string
}

type c12cRun struct {
	s       *sched.Sched
	c       *GroupCoordinator
	idVals  []int64
	members []*c12cMember // m1, m2, m3
	replies []c12cReply   // every successful SyncGroup reply, in order of arrival
	phase   string
}

func (r *c12cRun) byID(id string) *c12cMember {
	for _, m := range r.members {
		if m.id != "" && m.id == id {
			return m
		}
	}
	return nil
}

// join sends a JoinGroup of m with subs (m.id empty: a new member).
func (r *c12cRun) join(m *c12cMember, subs []string) int16 {
	req := kmsg.NewPtrJoinGroupRequest()
	req.Version = 4
	req.Group = "g"
	req.MemberID = m.id
	req.SessionTimeoutMillis = 30000
	req.RebalanceTimeoutMillis = 30000
	req.ProtocolType = "consumer"
	p := kmsg.NewJoinGroupRequestProtocol()
	p.Name = "range"
	p.Metadata = r.c.encodeSubscription(subs)
	req.Protocols = append(req.Protocols, p)
	if m.id == "" {
		idx := int(m.name[1] - '1')
		c12cNextID = r.idVals[idx]
	}
	m.subs = subs
	resp, err := r.c.JoinGroup(context.Background(), req)
	if err != nil || resp == nil {
		m.join = -1
		return -1
	}
	m.id = resp.MemberID
	m.gen = resp.Generation
	m.join = resp.ErrorCode
	return resp.ErrorCode
}

// sync sends a SyncGroup of m at its generation; a successful reply is judged on its own
// (subscribed topics, existing partitions, no duplicates) and recorded.
func (r *c12cRun) sync(m *c12cMember) int16 {
	req := kmsg.NewPtrSyncGroupRequest()
	req.Version = 3
	req.Group = "g"
	req.MemberID = m.id
	req.Generation = m.gen
	resp, err := r.c.SyncGroup(context.Background(), req)
	if err != nil || resp == nil {
		return -1
	}
	if resp.ErrorCode != protocol.NONE {
		return resp.ErrorCode
	}
	a, derr := coordDecodeAssignment(resp.MemberAssignment)
	if derr != nil {
		r.s.Fail("assignment-undecodable", "sync reply of %s in generation %d: %v", m.name, m.gen, derr)
		return 0
	}
	for topic, parts := range a {
		if !coordSubscribes(m.subs, topic) {
			r.s.Fail("assigned-unsubscribed-topic", "%s subscribed %v but was assigned %s%v in generation %d", m.name, m.subs, topic, parts, m.gen)
		}
		seen := map[int32]bool{}
		for _, p := range parts {
			if n, ok := coordTopicParts[topic]; !ok || p < 0 || p >= n {
				r.s.Fail("assigned-nonexistent-partition", "%s was assigned %s:%d (topic has %d partitions)", m.name, topic, p, coordTopicParts[topic])
			}
			if seen[p] {
				r.s.Fail("partition-listed-twice", "%s was assigned %s:%d twice", m.name, topic, p)
			}
			seen[p] = true
		}
	}
	r.replies = append(r.replies, c12cReply{who: m.name, gen: m.gen, assign: a, phase: r.phase})
	return 0
}

func (r *c12cRun) leave(m *c12cMember) int16 {
	req := kmsg.NewPtrLeaveGroupRequest()
	req.Version = 2
	req.Group = "g"
	req.MemberID = m.id
	return r.c.LeaveGroup(context.Background(), req).ErrorCode
}

// current returns the current members of the group (in-package read), in name order.
func (r *c12cRun) current() []*c12cMember {
	r.c.mu.Lock()
	defer r.c.mu.Unlock()
	st := r.c.groups["g"]
	if st == nil {
		return nil
	}
	var out []*c12cMember
	for id := range st.members {
		if m := r.byID(id); m != nil {
			out = append(out, m)
		} else {
			out = append(out, &c12cMember{name: "unknown(" + id + ")", id: id})
		}
	}
	sort.Slice(out, func(i, j int) bool { return out[i].name < out[j].name })
	return out
}

func c12cAssigns(as map[string]map[string][]int32) string {
	names := make([]string, 0, len(as))
	for n := range as {
		names = append(names, n)
	}
	sort.Strings(names)
	var parts []string
	for _, n := range names {
		parts = append(parts, n+"="+coordAssignString(as[n]))
	}
	return strings.Join(parts, " ")
}

func c12cBody(v c12cVariant) func(s *sched.Sched) {
	return func(s *sched.Sched) {
		inner := metadata.NewInMemoryStore(coordClusterMeta())
		c := NewGroupCoordinator(&c12cStore{inner}, protocol.MetadataBroker{NodeID: 1, Host: "h", Port: 1}, nil)
		defer c.Stop()
		r := &c12cRun{s: s, c: c, phase: "setup"}
		base := []int64{2000000000000000000, 4000000000000000000, 6000000000000000000} // 19 digits: string order == numeric order
		for i := 0; i < 3; i++ {
			r.idVals = append(r.idVals, base[v.Order[i]])
			r.members = append(r.members, &c12cMember{name: fmt.Sprintf("m%d", i+1)})
		}
		m1, m2, m3 := r.members[0], r.members[1], r.members[2]
		// set-up: m1 joins and syncs alone, m2 joins, both rejoin -> CompletingRebalance, leader m1
		ok := r.join(m1, []string{"a"}) == 0 && r.sync(m1) == 0
		r.join(m2, []string{"a"})
		ok = ok && r.join(m1, []string{"a"}) == 0 && r.join(m2, []string{"a"}) == 0 && m1.gen == m2.gen
		if v.Stable {
			ok = ok && r.sync(m1) == 0
		}
		if !ok || c12cNextID != 0 {
			s.Fail("harness", "set-up did not reach the start state (m1 join=%d gen=%d, m2 join=%d gen=%d)", m1.join, m1.gen, m2.join, m2.gen)
			return
		}
		g0 := m1.gen
		res := map[string]string{}
		r.phase = "concurrent"
		joinNew := func() {
			code := r.join(m3, v.Subs)
			res["join(m3)"] = coordErrName(code)
			if code == 0 {
				res["sync(m3)"] = coordErrName(r.sync(m3))
			}
		}
		switch v.Scenario {
		case c12cJoinNew:
			s.Go("T1", func() { res["sync(m1)"] = coordErrName(r.sync(m1)) })
			s.Go("T2", joinNew)
		case c12cWiden:
			s.Go("T1", func() { res["sync(m1)"] = coordErrName(r.sync(m1)) })
			s.Go("T2", func() {
				code := r.join(m2, v.Subs)
				res["rejoin(m2)"] = coordErrName(code)
				if code == 0 {
					res["sync(m2)"] = coordErrName(r.sync(m2))
				}
			})
		case c12cLeave:
			s.Go("T1", func() { res["sync(m1)"] = coordErrName(r.sync(m1)) })
			s.Go("T2", func() { res["leave(m2)"] = coordErrName(r.leave(m2)) })
		case c12cTwoSyncs:
			s.Go("T1", func() { res["sync(m2)"] = coordErrName(r.sync(m2)) })
			s.Go("T2", func() { res["sync(m1)"] = coordErrName(r.sync(m1)) })
		case c12cThree:
			s.Go("T1", func() { res["sync(m1)"] = coordErrName(r.sync(m1)) })
			s.Go("T2", func() { res["sync(m2)"] = coordErrName(r.sync(m2)) })
			s.Go("T3", joinNew)
		}
		s.Run()
		if s.Deadlock {
			s.Fail("deadlock", "blocked: %s", s.Blocked())
			return
		}
		// drive the group to rest, sequentially, with client behaviour only
		r.phase = "rest"
		var final map[string]map[string][]int32
		var cur []*c12cMember
		var restGen int32
		atRest := false
		for round := 0; round < 6 && !atRest; round++ {
			cur = r.current()
			if len(cur) == 0 {
				break
			}
			final = map[string]map[string][]int32{}
			var refused []*c12cMember
			for _, m := range cur {
				n := len(r.replies)
				if r.sync(m) == 0 && len(r.replies) > n {
					final[m.name] = r.replies[n].assign
				} else {
					refused = append(refused, m)
				}
			}
			if len(refused) == 0 {
				atRest = true
				restGen = cur[0].gen
				for _, m := range cur {
					if m.gen != restGen {
						atRest = false
						refused = cur // cannot happen: SyncGroup checks the generation
					}
				}
				if atRest {
					break
				}
			}
			for _, m := range refused {
				r.join(m, m.subs)
			}
			for _, m := range refused {
				if m.join != 0 {
					r.join(m, m.subs)
				}
			}
		}
		var keys []string
		for k := range res {
			keys = append(keys, k)
		}
		sort.Strings(keys)
		var rs []string
		for _, k := range keys {
			rs = append(rs, k+"="+res[k])
		}
		if !atRest {
			if len(cur) == 0 {
				s.Note("%s -> group empty", strings.Join(rs, " "))
			} else {
				// not a statement of C12 (nobody received an assignment); counted by the driver
				s.Note("NOT-AT-REST %s", strings.Join(rs, " "))
			}
			return
		}
		// oracle 1: all members of the rest generation have a reply: pairwise disjoint, owners
		// subscribe, and every partition of every subscribed topic has exactly one owner
		subsOf := func(name string) []string {
			for _, m := range r.members {
				if m.name == name {
					return m.subs
				}
			}
			return nil
		}
		names := make([]string, 0, len(cur))
		for _, m := range cur {
			names = append(names, m.name)
		}
		owner := map[string]string{}
		for _, n := range names {
			for t, ps := range final[n] {
				for _, p := range ps {
					tp := fmt.Sprintf("%s:%d", t, p)
					if prev, dup := owner[tp]; dup && prev != n {
						a, b := prev, n
						if b < a {
							a, b = b, a
						}
						s.Fail("partition-assigned-to-two-members", "generation g0+%d, all %d members synced: %s owned by %s and %s (%s)", restGen-g0, len(cur), tp, a, b, c12cAssigns(final))
					}
					owner[tp] = n
				}
			}
		}
		for _, t := range []string{"a", "b"} {
			wanted := false
			for _, n := range names {
				if coordSubscribes(subsOf(n), t) {
					wanted = true
				}
			}
			if !wanted {
				continue
			}
			for p := int32(0); p < coordTopicParts[t]; p++ {
				if _, has := owner[fmt.Sprintf("%s:%d", t, p)]; !has {
					s.Fail("partition-unassigned", "generation g0+%d: all %d current members joined and synced successfully in this generation (%s) but %s:%d has no owner although a member subscribes to %s (concurrent phase: %s)", restGen-g0, len(cur), c12cAssigns(final), t, p, t, strings.Join(rs, " "))
				}
			}
		}
		// oracle 2: one consistent assignment per generation: replies of one generation (whenever
		// they were sent) are the same for the same member and disjoint between members
		for i, a := range r.replies {
			for _, b := range r.replies[i+1:] {
				if a.gen != b.gen {
					continue
				}
				if a.who == b.who {
					if coordAssignString(a.assign) != coordAssignString(b.assign) {
						s.Fail("assignment-changed-within-generation", "%s got %s (%s phase) and later %s (%s phase) in generation g0+%d", a.who, coordAssignString(a.assign), a.phase, coordAssignString(b.assign), b.phase, a.gen-g0)
					}
					continue
				}
				for t, ps := range a.assign {
					for _, p := range ps {
						for _, q := range b.assign[t] {
							if p == q {
								s.Fail("partition-assigned-to-two-members", "generation g0+%d: %s:%d was sent to %s (%s phase) and to %s (%s phase)", a.gen-g0, t, p, a.who, a.phase, b.who, b.phase)
							}
						}
					}
				}
			}
		}
		s.Note("%s -> rest at g0+%d: %s", strings.Join(rs, " "), restGen-g0, c12cAssigns(final))
	}
}

func TestVerifC12Conc(t *testing.T) {
	rep := vh.New(t, "C12")
	defer rep.Finish()
	rep.Rule = "schedule half: for every variant (5 scenarios of 2-3 client threads racing on one group: leader SyncGroup || JoinGroup of a new member | rejoin with a changed subscription | LeaveGroup | follower SyncGroup (+ new member); start state CompletingRebalance or Stable; every order of the member ids; subscriptions {b},{a,b},{a} of the newcomer) DFS over all interleavings (preemption bound) on a real GroupCoordinator whose mutex and metadata-store calls are scheduling points; then the group is driven to rest sequentially and C12's oracle is applied to the SyncGroup replies; distinct = distinct (variant, thread results, rest assignment) outcomes; non-trivial = >=1 thread switch away from the default order"
	rep.Assumptions = []string{"subscriptions of a member are those of its last JoinGroup request; partition counts are a:2 b:1 and do not change"}
	P := 3
	if vh.Thorough() {
		P = 4
	}
	rep.SetInfo("conc_preemption_bound", P)
	old := vrand.Int63Hook
	vrand.Int63Hook = func() (int64, bool) {
		if c12cNextID == 0 {
			return 0, false
		}
		v := c12cNextID
		c12cNextID = 0
		return v, true
	}
	defer func() { vrand.Int63Hook = old }()
	var rp struct {
		Variant *c12cVariant
		Choices []int
	}
	if ok, err := vh.LoadReplay(&rp); ok {
		if err != nil {
			t.Fatalf("HARNESS-ERROR %v", err)
		}
		if rp.Variant == nil || len(rp.Variant.Order) != 3 {
			return // a replay of the history half
		}
		x := sched.RunOnce(t, sched.Config{}, rp.Choices, true, c12cBody(*rp.Variant))
		fmt.Printf("REPLAY variant=%s choices=%v steps=%v notes=%v fails=%+v\n", rp.Variant, rp.Choices, x.Steps, x.Notes, x.Fails)
		rep.Eval(1)
		for _, f := range x.Fails {
			rep.Violation("concurrent:"+f.Key, f.Detail, rp)
		}
		rep.Cap("replay of a single schedule")
		return
	}
	variants := c12cVariants()
	rep.SetInfo("conc_variants", len(variants))
	shard, nshards := vh.Shard()
	var execs, notAtRest int64
	for vi, v := range variants {
		if vi%nshards != shard {
			continue
		}
		v := v
		st := sched.Explore(t, sched.Config{MaxPreempt: P, Deadline: vh.Deadline()}, c12cBody(v), func(x *sched.Exec) {
			rep.Eval(1)
			sw, _ := x.NonDefault()
			rep.Outcome(fmt.Sprintf("conc %s %v", v, x.Notes), sw > 0)
			if sw > 0 && (vi%9 == 0) {
				rep.Sample(map[string]any{"half": "schedules", "variant": v.String(), "choices": x.Choices, "outcome": x.Notes})
			}
			for _, n := range x.Notes {
				if strings.HasPrefix(n, "NOT-AT-REST") {
					notAtRest++
				}
			}
			for _, f := range x.Fails {
				rep.Violation("concurrent:"+f.Key, "["+v.String()+"] "+f.Detail, map[string]any{"Variant": v, "Choices": x.Choices})
			}
		})
		execs += int64(st.Execs)
		if st.Capped {
			rep.Cap("deadline in the schedule half")
		}
	}
	rep.Count("concurrent_executions", execs)
	rep.Count("concurrent_not_at_rest", notAtRest)
}
