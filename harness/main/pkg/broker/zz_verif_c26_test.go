//go:build verif

package broker

// C26 — PROXY protocol parsing preserves the stream exactly.
//
// Every generated connection byte stream (valid v1/v2 headers x trailers, malformed header-like
// streams, streams without a header) is delivered to the real ReadProxyProtocol through an
// in-memory net.Conn under every chunking of the bound, then the returned conn is drained.
// Oracle (from the statement): valid header => exactly the encoded addresses (or none for
// UNKNOWN/LOCAL/UNSPEC) and the drained bytes equal the trailer; no header => info==nil, no
// error, drained bytes equal the stream; header-like but malformed => error or anything that
// neither panics nor invents/duplicates bytes.

import (
	"bytes"
	"encoding/binary"
	"encoding/hex"
	"fmt"
	"io"
	"net"
	"runtime"
	"sort"
	"strconv"
	"strings"
	"sync"
	"testing"
	"time"

	"github.com/KafScale/platform/internal/verif/vh"
)

// ---- in-memory connection ----

// c26Conn delivers data in chunks. mode 0: as much as the caller asks for; -1: one byte per
// Read; k>0: the first Read returns at most k bytes, later Reads are unrestricted.
type c26Conn struct {
	data  []byte
	pos   int
	mode  int
	reads int
}

func (c *c26Conn) Read(p []byte) (int, error) {
	c.reads++
	if c.pos >= len(c.data) {
		return 0, io.EOF
	}
	if len(p) == 0 {
		return 0, nil
	}
	n := len(c.data) - c.pos
	if c.mode == -1 {
		n = 1
	} else if c.mode > 0 && c.pos < c.mode && c.mode-c.pos < n {
		n = c.mode - c.pos
	}
	if n > len(p) {
		n = len(p)
	}
	copy(p, c.data[c.pos:c.pos+n])
	c.pos += n
	return n, nil
}
func (c *c26Conn) Write(p []byte) (int, error)      { return len(p), nil }
func (c *c26Conn) Close() error                     { return nil }
func (c *c26Conn) LocalAddr() net.Addr              { return &net.TCPAddr{IP: net.IPv4(127, 0, 0, 1), Port: 9092} }
func (c *c26Conn) RemoteAddr() net.Addr             { return &net.TCPAddr{IP: net.IPv4(127, 0, 0, 1), Port: 40000} }
func (c *c26Conn) SetDeadline(time.Time) error      { return nil }
func (c *c26Conn) SetReadDeadline(time.Time) error  { return nil }
func (c *c26Conn) SetWriteDeadline(time.Time) error { return nil }

// ---- cases ----

const (
	c26Valid     = "valid"     // a valid header followed by a trailer
	c26NoHeader  = "noheader"  // does not begin with a header signature
	c26Malformed = "malformed" // begins like a header but is not a valid one
)

type c26Expect struct {
	Addr    bool   `json:"addr"`    // header encodes addresses that must be reported
	Lenient bool   `json:"lenient"` // valid but optional to support (DGRAM): error / no address allowed, wrong address is not
	Src     string `json:"src,omitempty"`
	Dst     string `json:"dst,omitempty"`
	SPort   int    `json:"sport,omitempty"`
	DPort   int    `json:"dport,omitempty"`
}

type c26Case struct {
	Class   string    `json:"class"`
	Variant string    `json:"variant"`
	Header  []byte    `json:"-"`
	Trailer []byte    `json:"-"`
	TrKind  string    `json:"trailer_kind"`
	Exp     c26Expect `json:"expect"`
}

type c26Replay struct {
	c26Case
	HeaderHex  string `json:"header_hex"`
	TrailerHex string `json:"trailer_hex"`
	Mode       int    `json:"mode"`
	Buf        int    `json:"buf"`
}

var c26V2Sig = []byte{0x0D, 0x0A, 0x0D, 0x0A, 0x00, 0x0D, 0x0A, 0x51, 0x55, 0x49, 0x54, 0x0A}

func c26V1(proto, src, dst string, sport, dport int) []byte {
	return []byte(fmt.Sprintf("PROXY %s %s %s %d %d\r\n", proto, src, dst, sport, dport))
}

// c26V2 builds a v2 header: signature, version/command, family/transport, length, block.
func c26V2(verCmd, fam byte, block []byte) []byte {
	h := append([]byte{}, c26V2Sig...)
	h = append(h, verCmd, fam, byte(len(block)>>8), byte(len(block)))
	return append(h, block...)
}

func c26AddrBlock(src, dst net.IP, sport, dport int, v6 bool) []byte {
	var b []byte
	if v6 {
		b = append(b, src.To16()...)
		b = append(b, dst.To16()...)
	} else {
		b = append(b, src.To4()...)
		b = append(b, dst.To4()...)
	}
	return append(b, byte(sport>>8), byte(sport), byte(dport>>8), byte(dport))
}

// c26TLV returns n bytes of well-formed TLVs (n==0 or n>=3): one PP2_TYPE_NOOP of length n-3.
func c26TLV(n int) []byte {
	if n < 3 {
		return nil
	}
	b := []byte{0x04, byte((n - 3) >> 8), byte(n - 3)}
	for i := 0; i < n-3; i++ {
		b = append(b, byte(0xA0+i%16))
	}
	return b
}

func c26Trailers() (out [][]byte, kinds []string) {
	kafka := []byte{0, 0, 0, 16, 0, 18, 0, 3, 0, 0, 0, 7, 0, 1, 'c', 0, 2, 'v', 2, '1'} // ApiVersions v3
	kafka[3] = byte(len(kafka) - 4)
	big := make([]byte, 4096)
	for i := range big {
		big[i] = byte((i*7 + 3) % 251)
	}
	add := func(k string, b []byte) { out = append(out, b); kinds = append(kinds, k) }
	add("empty", nil)
	add("1byte", []byte{0x00})
	add("newline", []byte{'\n'})
	add("kafka-frame", kafka)
	add("second-v1-header", []byte("PROXY TCP4 9.9.9.9 8.8.8.8 9 8\r\n\x00\x00\x00\x01\x2a"))
	add("second-v2-header", append(c26V2(0x20, 0x00, nil), 0x2a))
	add("4KiB", big)
	return
}

func c26ValidHeaders(thorough bool) []c26Case {
	var cs []c26Case
	ports := []int{0, 1, 9092, 65535}
	v4 := []string{"0.0.0.0", "1.2.3.4", "10.0.0.1", "255.255.255.255"}
	v6 := []string{"::", "::1", "2001:db8::1", "ffff:ffff:ffff:ffff:ffff:ffff:ffff:ffff"}
	if thorough {
		ports = []int{0, 1, 80, 255, 256, 9092, 32768, 65535}
		v4 = append(v4, "127.0.0.1", "192.168.255.1", "8.8.8.8")
		v6 = append(v6, "fe80::1", "2001:db8:0:1:2:3:4:5", "1::")
	}
	addr := func(variant string, hdr []byte, s, d string, sp, dp int) {
		cs = append(cs, c26Case{Class: c26Valid, Variant: variant, Header: hdr, Exp: c26Expect{Addr: true, Src: s, Dst: d, SPort: sp, DPort: dp}})
	}
	none := func(variant string, hdr []byte) {
		cs = append(cs, c26Case{Class: c26Valid, Variant: variant, Header: hdr})
	}
	// v1, simplest first
	none("v1-unknown", []byte("PROXY UNKNOWN\r\n"))
	none("v1-unknown", []byte("PROXY UNKNOWN 1.2.3.4 5.6.7.8 1 2\r\n"))
	long := "PROXY UNKNOWN ffff:ffff:ffff:ffff:ffff:ffff:ffff:ffff ffff:ffff:ffff:ffff:ffff:ffff:ffff:ffff 65535 65535\r\n"
	none("v1-unknown-107", []byte(long)) // the longest line the specification allows
	for _, s := range v4 {
		for _, d := range v4 {
			for _, sp := range ports {
				for _, dp := range ports {
					addr("v1-tcp4", c26V1("TCP4", s, d, sp, dp), s, d, sp, dp)
				}
			}
		}
	}
	for _, s := range v6 {
		for _, d := range v6 {
			for _, sp := range ports {
				for _, dp := range ports {
					addr("v1-tcp6", c26V1("TCP6", s, d, sp, dp), s, d, sp, dp)
				}
			}
		}
	}
	// v2
	tlvs := []int{0, 3, 12, 36, 64}
	if thorough {
		tlvs = append(tlvs, 4, 255, 256, 4000, 65535-36)
	}
	for _, n := range tlvs {
		none("v2-local"+c26TLVTag(n), c26V2(0x20, 0x00, c26TLV(n)))
	}
	none("v2-local-with-inet-block", c26V2(0x20, 0x11, c26AddrBlock(net.ParseIP("1.2.3.4"), net.ParseIP("5.6.7.8"), 1, 2, false)))
	none("v2-local-with-inet6-block", c26V2(0x20, 0x21, c26AddrBlock(net.ParseIP("::1"), net.ParseIP("::2"), 1, 2, true)))
	for _, n := range tlvs {
		none("v2-proxy-unspec"+c26TLVTag(n), c26V2(0x21, 0x00, c26TLV(n)))
	}
	// equal-sized cases: the most legible values first, so the first counterexample reads well
	v2ports := []int{9092, 0, 65535}
	v2v4 := []string{"1.2.3.4", "0.0.0.0", "255.255.255.255"}
	v2v6 := []string{"2001:db8::1", "::1", "ffff:ffff:ffff:ffff:ffff:ffff:ffff:ffff"}
	if thorough {
		merge := func(first []string, rest []string) []string {
			out := append([]string{}, first...)
			for _, r := range rest {
				dup := false
				for _, f := range out {
					dup = dup || f == r
				}
				if !dup {
					out = append(out, r)
				}
			}
			return out
		}
		v2v4, v2v6 = merge(v2v4, v4), merge(v2v6, append(v6, "::ffff:1.2.3.4"))
		v2ports = []int{9092, 0, 1, 80, 255, 256, 32768, 65535}
	}
	for _, fam := range []struct {
		b    byte
		name string
		v6   bool
	}{{0x11, "v2-inet-stream", false}, {0x21, "v2-inet6-stream", true}} {
		ips := v2v4
		if fam.v6 {
			ips = v2v6
		}
		for _, n := range tlvs {
			for _, s := range ips {
				for _, d := range ips {
					for _, sp := range v2ports {
						for _, dp := range v2ports {
							blk := append(c26AddrBlock(net.ParseIP(s), net.ParseIP(d), sp, dp, fam.v6), c26TLV(n)...)
							addr(fam.name+c26TLVTag(n), c26V2(0x21, fam.b, blk), s, d, sp, dp)
						}
					}
				}
			}
		}
	}
	// DGRAM transports are valid headers a TCP receiver may decline (falls back / rejects), but
	// it must not report different addresses.
	for _, fam := range []struct {
		b    byte
		name string
		v6   bool
	}{{0x12, "v2-inet-dgram", false}, {0x22, "v2-inet6-dgram", true}} {
		s, d := "1.2.3.4", "5.6.7.8"
		if fam.v6 {
			s, d = "2001:db8::1", "2001:db8::2"
		}
		for _, n := range []int{0, 12} {
			blk := append(c26AddrBlock(net.ParseIP(s), net.ParseIP(d), 1234, 9092, fam.v6), c26TLV(n)...)
			cs = append(cs, c26Case{Class: c26Valid, Variant: fam.name + c26TLVTag(n), Header: c26V2(0x21, fam.b, blk),
				Exp: c26Expect{Addr: true, Lenient: true, Src: s, Dst: d, SPort: 1234, DPort: 9092}})
		}
	}
	return cs
}

func c26TLVTag(n int) string {
	if n == 0 {
		return ""
	}
	return "+tlv"
}

// c26HeaderLike reports whether a stream starts with one of the two 5-byte signatures the
// parser has to look at (a stream shorter than 5 bytes cannot hold a header).
func c26HeaderLike(s []byte) bool {
	return len(s) >= 5 && (bytes.Equal(s[:5], []byte("PROXY")) || bytes.Equal(s[:5], c26V2Sig[:5]))
}

// c26OtherStreams: malformed header-like streams and streams without a header. The class is
// computed from the bytes (c26HeaderLike), never assumed.
func c26OtherStreams(thorough bool) []c26Case {
	var cs []c26Case
	add := func(variant string, stream []byte) {
		class := c26NoHeader
		if c26HeaderLike(stream) {
			class = c26Malformed
		}
		cs = append(cs, c26Case{Class: class, Variant: variant, Header: stream})
	}
	// all short strings over a 6-symbol alphabet
	alpha := []byte{'P', 'R', '\r', '\n', 0x00, 0xff}
	maxLen := 3
	if thorough {
		maxLen = 4
	}
	var rec func(prefix []byte)
	rec = func(prefix []byte) {
		add("short-string", append([]byte{}, prefix...))
		if len(prefix) == maxLen {
			return
		}
		for _, a := range alpha {
			rec(append(prefix, a))
		}
	}
	rec(nil)
	kafka := []byte{0, 0, 0, 16, 0, 18, 0, 3, 0, 0, 0, 7, 0, 1, 'c', 0, 2, 'v', 2, '1'}
	add("kafka-frame-only", kafka)
	v1 := c26V1("TCP4", "1.2.3.4", "5.6.7.8", 1111, 2222)
	v2 := c26V2(0x21, 0x11, c26AddrBlock(net.ParseIP("1.2.3.4"), net.ParseIP("5.6.7.8"), 1111, 2222, false))
	v26 := c26V2(0x21, 0x21, c26AddrBlock(net.ParseIP("::1"), net.ParseIP("::2"), 1111, 2222, true))
	// every single-byte substitution of the signatures inside otherwise valid headers
	for _, h := range [][]byte{v1, v2} {
		sigLen := 5
		if h[0] == 0x0D {
			sigLen = 12
		}
		for i := 0; i < sigLen; i++ {
			for _, nb := range []byte{h[i] ^ 0x20, h[i] + 1, h[i] - 1, 0x00, 0xff} {
				if nb == h[i] {
					continue
				}
				m := append([]byte{}, h...)
				m[i] = nb
				add(fmt.Sprintf("signature-byte-%d-substituted", i), m)
			}
		}
	}
	// every prefix of valid headers (connection closed mid-header)
	for _, h := range [][]byte{v1, v2, v26, []byte("PROXY UNKNOWN\r\n"), c26V2(0x20, 0x00, nil)} {
		for cut := 1; cut < len(h); cut++ {
			add("truncated-header", append([]byte{}, h[:cut]...))
		}
	}
	// v1 malformations
	for _, l := range []string{
		"PROXY TCP4 1.2.3.4 5.6.7.8 1111 2222\n", "PROXY\r\n", "PROXY \r\n", "PROXYX TCP4 1.2.3.4 5.6.7.8 1 2\r\n",
		"PROXY TCP4\r\n", "PROXY TCP4 1.2.3.4\r\n", "PROXY TCP4 1.2.3.4 5.6.7.8 1111\r\n", "PROXY TCP4 1.2.3.4 5.6.7.8 99999 -1\r\n",
		"PROXY TCP4 1.2.3.4 5.6.7.8 a b\r\n", "PROXY  TCP4  1.2.3.4  5.6.7.8  1  2\r\n", "PROXY\tTCP4\t1.2.3.4\t5.6.7.8\t1\t2\r\n",
		"PROXY TCP5 1.2.3.4 5.6.7.8 1 2\r\n", "PROXY tcp4 1.2.3.4 5.6.7.8 1 2\r\n", "PROXY TCP4 1.2.3.4 5.6.7.8 1 2 extra\r\n",
		"PROXY TCP4 999.2.3.4 5.6.7.8 1 2\r\n", "PROXY TCP6 1.2.3.4 ::1 1 2\r\n", "PROXY unknown\r\n", "PROXY TCP4 1.2.3.4 5.6.7.8 1 2\r",
		"proxy TCP4 1.2.3.4 5.6.7.8 1 2\r\n",
	} {
		add("v1-malformed", []byte(l))
	}
	for _, n := range []int{106, 107, 108, 109, 254, 255, 256, 257, 258, 300, 5000} { // total line length incl. CRLF
		pad := n - len("PROXY UNKNOWN ") - 2
		add(fmt.Sprintf("v1-line-%d", n), []byte("PROXY UNKNOWN "+strings.Repeat("x", pad)+"\r\n"))
		add(fmt.Sprintf("v1-noeol-%d", n), []byte("PROXY UNKNOWN "+strings.Repeat("x", pad+2)))
	}
	// v2 malformations
	blk4 := c26AddrBlock(net.ParseIP("1.2.3.4"), net.ParseIP("5.6.7.8"), 1111, 2222, false)
	blk6 := c26AddrBlock(net.ParseIP("::1"), net.ParseIP("::2"), 1111, 2222, true)
	for _, n := range []int{0, 1, 11} {
		add("v2-inet-short-block", c26V2(0x21, 0x11, blk4[:n]))
	}
	for _, n := range []int{0, 12, 35} {
		add("v2-inet6-short-block", c26V2(0x21, 0x21, blk6[:n]))
	}
	for _, vc := range []byte{0x00, 0x01, 0x11, 0x31, 0x22, 0x2f, 0xff} {
		add(fmt.Sprintf("v2-bad-vercmd-%02x", vc), c26V2(vc, 0x11, blk4))
	}
	for _, fam := range []byte{0x10, 0x13, 0x01, 0x02, 0x20, 0x30, 0x41, 0xff} {
		add(fmt.Sprintf("v2-bad-family-%02x", fam), c26V2(0x21, fam, blk6))
	}
	unix := make([]byte, 216)
	copy(unix, "/var/run/src.sock")
	copy(unix[108:], "/var/run/dst.sock")
	add("v2-unix-stream", c26V2(0x21, 0x31, unix))
	add("v2-unix-dgram", c26V2(0x21, 0x32, unix))
	add("v2-tlv-1-stray-byte", c26V2(0x21, 0x11, append(append([]byte{}, blk4...), 0x04)))
	add("v2-local-1-stray-byte", c26V2(0x20, 0x00, []byte{0x04}))
	for _, declared := range []int{13, 100, 65535} { // declared block longer than the stream
		h := c26V2(0x21, 0x11, blk4)
		h[14], h[15] = byte(declared>>8), byte(declared)
		add("v2-declared-length-beyond-stream", h)
	}
	return cs
}

// ---- execution ----

type c26Result struct {
	Info     *ProxyInfo
	Err      error
	Rest     []byte
	Stalled  bool
	PanicKey string
	PanicMsg string
}

func c26Classify(p any) (string, string) {
	msg := fmt.Sprint(p)
	class := "other"
	switch {
	case strings.Contains(msg, "slice bounds out of range"):
		class = "slice-bounds"
	case strings.Contains(msg, "index out of range"):
		class = "index-range"
	case strings.Contains(msg, "nil pointer"):
		class = "nil-deref"
	case strings.Contains(msg, "makeslice"):
		class = "makeslice"
	case strings.Contains(msg, "negative"):
		class = "negative-count"
	}
	pcs := make([]uintptr, 64)
	n := runtime.Callers(2, pcs)
	frames := runtime.CallersFrames(pcs[:n])
	var fns []string
	seenPanic := false
	for {
		f, more := frames.Next()
		name := f.Function
		switch {
		case !seenPanic:
			if name == "runtime.gopanic" {
				seenPanic = true
			}
		case strings.HasPrefix(name, "runtime."):
		default:
			if len(fns) < 2 {
				if i := strings.LastIndexByte(name, '/'); i >= 0 {
					name = name[i+1:]
				}
				fns = append(fns, strings.NewReplacer("(*", "", ")", "").Replace(name))
			}
		}
		if !more || len(fns) == 2 {
			break
		}
	}
	return "panic:" + class + "@" + strings.Join(fns, "<-"), msg
}

// c26Run hands the stream to ReadProxyProtocol and drains the returned connection with a read
// buffer of bufSize bytes.
func c26Run(stream []byte, mode, bufSize int) (res c26Result) {
	defer func() {
		if p := recover(); p != nil {
			res.PanicKey, res.PanicMsg = c26Classify(p)
		}
	}()
	conn := &c26Conn{data: stream, mode: mode}
	wrapped, info, err := ReadProxyProtocol(conn)
	res.Info, res.Err = info, err
	if err != nil {
		return
	}
	if wrapped == nil {
		res.PanicKey, res.PanicMsg = "nil-conn-without-error", "ReadProxyProtocol returned a nil conn and a nil error"
		return
	}
	buf := make([]byte, bufSize)
	limit := 2*len(stream) + 64
	for i := 0; ; i++ {
		if i > limit {
			res.Stalled = true
			return
		}
		n, rerr := wrapped.Read(buf)
		res.Rest = append(res.Rest, buf[:n]...)
		if rerr != nil {
			if rerr != io.EOF {
				res.Err = fmt.Errorf("drain: %w", rerr)
			}
			return
		}
		if len(res.Rest) > len(stream)+16 {
			return // more bytes than were ever sent: reported by the oracle
		}
	}
}

func c26StreamDiff(got, want []byte) string {
	switch {
	case bytes.Equal(got, want):
		return ""
	case len(got) < len(want) && bytes.HasSuffix(want, got):
		return fmt.Sprintf("lost-leading-bytes(%d)", len(want)-len(got))
	case len(got) < len(want) && bytes.HasPrefix(want, got):
		return fmt.Sprintf("lost-trailing-bytes(%d)", len(want)-len(got))
	case len(got) > len(want) && bytes.HasSuffix(got, want):
		return "extra-leading-bytes"
	case len(got) > len(want):
		return "extra-bytes"
	}
	return "altered-bytes"
}

func c26StripNums(s string) string {
	out := make([]byte, 0, len(s))
	for i := 0; i < len(s); i++ {
		if s[i] >= '0' && s[i] <= '9' {
			if len(out) == 0 || out[len(out)-1] != '#' {
				out = append(out, '#')
			}
			continue
		}
		out = append(out, s[i])
	}
	return string(out)
}

func c26SameIP(reported, want string) bool {
	a, b := net.ParseIP(reported), net.ParseIP(want)
	return a != nil && b != nil && a.Equal(b)
}

func c26SameHostPort(reported, wantIP string, wantPort int) bool {
	h, p, err := net.SplitHostPort(reported)
	return err == nil && c26SameIP(h, wantIP) && p == strconv.Itoa(wantPort)
}

func c26HasAddr(i *ProxyInfo) bool {
	return i != nil && (i.SourceAddr != "" || i.DestAddr != "" || i.SourceIP != "" || i.DestIP != "" || i.SourcePort != 0 || i.DestPort != 0)
}

// c26Judge returns (violation key, detail) or ("", "") and the outcome signature.
func c26Judge(c *c26Case, stream []byte, res *c26Result) (key, detail, outcome string) {
	base := strings.TrimSuffix(c.Variant, "+tlv") // address mechanisms do not depend on the TLVs that follow
	if res.PanicKey != "" {
		return res.PanicKey, res.PanicMsg, res.PanicKey
	}
	if res.Stalled {
		return "drain-never-ends:" + c.Variant, "reading the returned conn never reached EOF", "stalled"
	}
	infoKind := "nil"
	if res.Info != nil {
		infoKind = "addr"
		if res.Info.Local {
			infoKind = "local"
		} else if !c26HasAddr(res.Info) {
			infoKind = "empty"
		}
	}
	if res.Err != nil {
		outcome = "err:" + c26StripNums(res.Err.Error())
	} else {
		outcome = "ok:" + infoKind
	}
	switch c.Class {
	case c26Valid:
		if res.Err != nil {
			if c.Exp.Lenient {
				return "", "", outcome + ":declined"
			}
			return "valid-header-rejected:" + c.Variant, fmt.Sprintf("error %q for a valid header", res.Err), outcome
		}
		if c.Exp.Addr {
			i := res.Info
			switch {
			case i == nil || i.Local || !c26HasAddr(i):
				if !c.Exp.Lenient {
					return "missing-address:" + base, fmt.Sprintf("header encodes %s:%d -> %s:%d, reported %s", c.Exp.Src, c.Exp.SPort, c.Exp.Dst, c.Exp.DPort, infoKind), outcome
				}
			case !c26SameIP(i.SourceIP, c.Exp.Src) || !c26SameIP(i.DestIP, c.Exp.Dst) || i.SourcePort != c.Exp.SPort || i.DestPort != c.Exp.DPort ||
				!c26SameHostPort(i.SourceAddr, c.Exp.Src, c.Exp.SPort) || !c26SameHostPort(i.DestAddr, c.Exp.Dst, c.Exp.DPort):
				return "wrong-address:" + base, fmt.Sprintf("header encodes %s:%d -> %s:%d, reported %+v", c.Exp.Src, c.Exp.SPort, c.Exp.Dst, c.Exp.DPort, *i), outcome + ":wrong"
			}
		} else if c26HasAddr(res.Info) && !res.Info.Local {
			return "spurious-address:" + base, fmt.Sprintf("header encodes no addresses, reported %+v", *res.Info), outcome
		}
		if d := c26StreamDiff(res.Rest, c.Trailer); d != "" {
			return "trailer-corrupted:" + c26StripNums(d), fmt.Sprintf("%s: %d trailer bytes sent after a %s header, %d bytes read (%s)", c.Variant, len(c.Trailer), c.Variant, len(res.Rest), d), outcome + ":" + c26StripNums(d)
		}
	case c26NoHeader:
		if res.Err != nil {
			return "passthrough-error", fmt.Sprintf("error %q for a stream without a PROXY header", res.Err), outcome
		}
		if res.Info != nil {
			return "passthrough-spurious-info", fmt.Sprintf("ProxyInfo %+v for a stream without a PROXY header", *res.Info), outcome
		}
		if d := c26StreamDiff(res.Rest, stream); d != "" {
			return "passthrough-corrupted:" + c26StripNums(d), fmt.Sprintf("%d bytes sent without a header, %d bytes read (%s)", len(stream), len(res.Rest), d), outcome + ":" + c26StripNums(d)
		}
	case c26Malformed:
		if res.Err == nil && !bytes.HasSuffix(stream, res.Rest) {
			return "malformed-stream-corrupted", fmt.Sprintf("%s: bytes read from the conn (%d) are not a suffix of the %d bytes sent", c.Variant, len(res.Rest), len(stream)), outcome + ":corrupt"
		}
		if res.Err == nil {
			outcome += fmt.Sprintf(":consumed-%v", len(res.Rest) < len(stream))
		}
	}
	return "", "", outcome
}

// ---- violations, smallest first ----

type c26Viol struct {
	Size   int
	Ord    int64
	Detail string
	Replay c26Replay
}

type c26Agg struct {
	mu    sync.Mutex
	count map[string]int64
	ex    map[string][]c26Viol
}

func (a *c26Agg) add(key string, v c26Viol) {
	a.mu.Lock()
	defer a.mu.Unlock()
	a.count[key]++
	l := append(a.ex[key], v)
	sort.SliceStable(l, func(i, j int) bool {
		if l[i].Size != l[j].Size {
			return l[i].Size < l[j].Size
		}
		return l[i].Ord < l[j].Ord
	})
	if len(l) > 3 {
		l = l[:3]
	}
	a.ex[key] = l
}

func c26Modes(hdrLen, streamLen int) []int {
	modes := []int{0, -1}
	seen := map[int]bool{}
	for k := 1; k <= 40; k++ {
		seen[k] = true
		modes = append(modes, k)
	}
	for _, k := range []int{hdrLen - 1, hdrLen, hdrLen + 1, 4095, 4096, 4097} {
		if k > 0 && k < streamLen && !seen[k] {
			seen[k] = true
			modes = append(modes, k)
		}
	}
	return modes
}

func c26ModeKind(mode, hdrLen int) string {
	switch {
	case mode == 0:
		return "all"
	case mode == -1:
		return "1byte"
	case mode < 5:
		return "split<5"
	case mode < 12:
		return "split<12"
	case mode < 16:
		return "split<16"
	case mode < hdrLen:
		return "split-in-header"
	case mode == hdrLen:
		return "split-at-header-end"
	}
	return "split-after-header"
}

func TestVerifC26(t *testing.T) {
	rep := vh.New(t, "C26")
	defer rep.Finish()
	rep.Rule = "cases = stream x chunking x read-buffer size. Streams: (valid) v1 TCP4/TCP6 lines over address and port alphabets incl. 0/65535 and the 107-byte UNKNOWN line, v2 LOCAL/PROXY x AF_INET/AF_INET6 STREAM (and DGRAM, lenient) / AF_UNSPEC x TLV block lengths {0,3,12,36,64}, each followed by every trailer of {empty, 1 byte, newline, Kafka frame, a second v1 header, a second v2 header, 4 KiB pattern}; (noheader/malformed, classified from the bytes) all strings of length <=3 over {P,R,CR,LF,NUL,0xff}, every single-byte substitution of either signature, every prefix of valid headers, v1 lines of 106..5000 bytes, bad fields/separators/terminators, v2 short blocks, bad version/command/family, AF_UNIX, declared length beyond the stream. Chunkings: all at once, 1 byte per read, split at every position <=40 and at header end -1/0/+1 and around 4096; read buffers 4096 (all chunkings), 1 and 7 (three chunkings). Outcome signature = class, header variant, trailer kind, chunking kind, buffer, result (info kind / error text / stream verdict). Non-trivial = the stream begins with a header signature, or is >=5 bytes long (the signature comparison is reached)."
	rep.Assumptions = []string{
		"PROXY protocol specification v1/v2 (haproxy proxy-protocol.txt 2.x) defines 'valid header'; header encoders are written from it, independent of the code under test",
		"streams that begin with a header signature but are not valid headers may be rejected or consumed (reading that does not flag correct behaviour); only panics and invented/duplicated bytes are judged there",
		"DGRAM transports and AF_UNSPEC under the PROXY command are valid headers the receiver may decline; reporting different addresses is still a violation",
	}
	agg := &c26Agg{count: map[string]int64{}, ex: map[string][]c26Viol{}}
	emit := func() {
		keys := make([]string, 0, len(agg.ex))
		for k := range agg.ex {
			keys = append(keys, k)
		}
		sort.Strings(keys)
		for _, k := range keys {
			for _, v := range agg.ex[k] {
				rep.Violation(k, v.Detail, v.Replay)
			}
			for i := int64(len(agg.ex[k])); i < agg.count[k]; i++ {
				rep.Violation(k, "", nil)
			}
		}
	}
	runOne := func(c *c26Case, mode, buf int, ord int64, sigs map[string]bool) {
		stream := append(append([]byte{}, c.Header...), c.Trailer...)
		res := c26Run(stream, mode, buf)
		key, detail, outcome := c26Judge(c, stream, &res)
		nontriv := c.Class != c26NoHeader || len(stream) >= 5
		sig := c.Class + "|" + c.Variant + "|" + c.TrKind + "|" + c26ModeKind(mode, len(c.Header)) + "|buf" + strconv.Itoa(buf) + "|" + outcome
		if !sigs[sig] {
			sigs[sig] = true
			rep.Outcome(sig, nontriv)
		}
		if key != "" {
			agg.add(key, c26Viol{Size: len(stream), Ord: ord, Detail: detail + fmt.Sprintf(" [chunking=%s(%d) buf=%d trailer=%s]", c26ModeKind(mode, len(c.Header)), mode, buf, c.TrKind),
				Replay: c26Replay{c26Case: *c, HeaderHex: hex.EncodeToString(c.Header), TrailerHex: hex.EncodeToString(c.Trailer), Mode: mode, Buf: buf}})
		}
	}

	var rp c26Replay
	if ok, err := vh.LoadReplay(&rp); ok {
		if err != nil {
			t.Fatalf("HARNESS-ERROR replay: %v", err)
		}
		c := rp.c26Case
		c.Header, _ = hex.DecodeString(rp.HeaderHex)
		c.Trailer, _ = hex.DecodeString(rp.TrailerHex)
		runOne(&c, rp.Mode, rp.Buf, 0, map[string]bool{})
		rep.Eval(1)
		emit()
		return
	}

	thorough := vh.Thorough()
	deadline := vh.Deadline()
	trailers, tkinds := c26Trailers()
	valid := c26ValidHeaders(thorough)
	other := c26OtherStreams(thorough)
	rep.SetInfo("valid_headers", len(valid))
	rep.SetInfo("other_streams", len(other))
	rep.SetInfo("trailers", tkinds)
	// the full work list, simplest first; malformed/noheader streams also get trailers
	// appended where that keeps their class (a noheader prefix stays noheader)
	var work []c26Case
	for _, c := range valid {
		for ti, tr := range trailers {
			cc := c
			cc.Trailer, cc.TrKind = tr, tkinds[ti]
			work = append(work, cc)
		}
	}
	for _, c := range other {
		for ti, tr := range trailers {
			if ti != 0 && ti != 3 && ti != 6 { // empty, Kafka frame, 4 KiB
				continue
			}
			cc := c
			cc.Header = append(append([]byte{}, c.Header...), tr...)
			cc.TrKind = tkinds[ti]
			cc.Class = c26NoHeader
			if c26HeaderLike(cc.Header) {
				cc.Class = c26Malformed
			}
			work = append(work, cc)
		}
	}
	rep.SetInfo("streams", len(work))
	nw := runtime.GOMAXPROCS(0)
	if nw > 8 {
		nw = 8
	}
	var wg sync.WaitGroup
	var capped bool
	var capMu sync.Mutex
	sampled := map[string]bool{}
	for w := 0; w < nw; w++ {
		wg.Add(1)
		go func(w int) {
			defer wg.Done()
			sigs := map[string]bool{}
			var evals int64
			for i := w; i < len(work); i += nw {
				if i%64 == w && time.Now().After(deadline) {
					capMu.Lock()
					capped = true
					capMu.Unlock()
					break
				}
				c := &work[i]
				hdrLen := len(c.Header)
				streamLen := len(c.Header) + len(c.Trailer)
				ord := int64(i) * 256
				for mi, m := range c26Modes(hdrLen, streamLen) {
					runOne(c, m, 4096, ord+int64(mi), sigs)
					evals++
				}
				for bi, b := range []int{1, 7} {
					for mi, m := range []int{0, -1, hdrLen} {
						if m > 0 && m >= streamLen {
							continue
						}
						runOne(c, m, b, ord+128+int64(bi*8+mi), sigs)
						evals++
					}
				}
				capMu.Lock()
				if c.Class != c26NoHeader && !sampled[c.Class+c.Variant] && len(sampled) < 6 && c.TrKind == "kafka-frame" {
					sampled[c.Class+c.Variant] = true
					stream := append(append([]byte{}, c.Header...), c.Trailer...)
					res := c26Run(stream, 0, 4096)
					_, _, outcome := c26Judge(c, stream, &res)
					rep.Sample(map[string]any{"class": c.Class, "variant": c.Variant, "header_hex": hex.EncodeToString(c.Header), "trailer": c.TrKind, "expect": c.Exp, "outcome": outcome})
				}
				capMu.Unlock()
			}
			rep.Eval(evals)
			rep.Count("runs", evals)
		}(w)
	}
	wg.Wait()
	if capped {
		rep.Cap("deadline hit")
	}
	var nv, nn, nm int64
	for i := range work {
		switch work[i].Class {
		case c26Valid:
			nv++
		case c26NoHeader:
			nn++
		default:
			nm++
		}
	}
	rep.Count("streams_valid", nv)
	rep.Count("streams_noheader", nn)
	rep.Count("streams_malformed", nm)
	emit()
	_ = binary.BigEndian
}
