//go:build verif

package broker

import (
	"testing"
	"time"

	"github.com/KafScale/platform/internal/verif/xstate"
)

// C43: group members expire exactly when their session lapses.
//
// Reference clock per member: lastRefresh = time of its last JoinGroup or of its last
// heartbeat answered NONE (a heartbeat answered REBALANCE_IN_PROGRESS tells the member
// to rejoin and is not counted as "keeps heartbeating"; see level_note). S = the session
// timeout it asked for in its LATEST JoinGroup (a member may ask for a different session
// every time it joins; the session-change run does), R = the rebalance timeout, I = the
// cleanup interval. The group
// is observed after every firing of the coordinator's cleanup ticker (time T).
//
// Never early: a member may disappear at tick T only if
//
//	(a) T - lastRefresh > S                                  (session lapsed), or
//	(b) the group has been in PreparingRebalance since time ts, T >= ts + R and the
//	    member has not rejoined the generation being formed   (rebalance timeout);
//
// a request other than the member's own LeaveGroup never removes a member. When members
// were removed and others remain, the group must be rebalancing in a higher generation.
//
// Never late (the rebalance-lagger half only while no failover happened in the history; the
// session half also after a failover, once the replacement coordinator has loaded the group:
// heartbeat times are persisted with every heartbeat): after tick T no member with
// T - lastRefresh > S is left, i.e. removal at the first tick after the lapse (< S + I);
// and no member that has not rejoined is left when T >= tb + R, where tb is the last time
// any member joined during this rebalance (the implementation restarts the rebalance
// timeout on every join; the statement's "once the rebalance timeout passes" is read that
// way so that this is not flagged).
type coordC43 struct{}

func (coordC43) NeedShadow() bool { return false }

func (coordC43) Check(w *coordWorld, st *coordStep) []xstate.Violation {
	var out []xstate.Violation
	r := st.Resp
	if r != nil && r.Panic != "" && (st.K == "hb" || st.K == "join" || st.K == "rejoin") {
		return []xstate.Violation{coordViol("panic-in-"+st.K, "%s panicked: %s", st.Ev, r.Panic)}
	}
	if st.K == "failover" {
		return nil
	}
	for _, id := range st.Pre.IDs {
		if st.Post.has(id) {
			continue
		}
		if st.K == "leave" && id == st.ReqMember {
			continue
		}
		out = append(out, coordViol("member-removed-by-request", "%s removed member %s (no timeout involved; last refresh %.1fs ago)", st.Ev, w.name(id), coordSince(st.At, w.led.M[id])))
	}
	return out
}

func coordSince(at time.Time, m *coordLedMember) float64 {
	if m == nil {
		return -1
	}
	return at.Sub(m.LastRefresh).Seconds()
}

func (coordC43) CheckTick(w *coordWorld, tk *coordTick) []xstate.Violation {
	var out []xstate.Violation
	l := &w.led
	T := tk.At
	rejoined := func(id string) bool {
		m := l.M[id]
		return m != nil && tk.Pre.Exists && m.JoinedGen == tk.Pre.Gen
	}
	removed := 0
	for _, id := range tk.Pre.IDs {
		m := l.M[id]
		if tk.Post.has(id) {
			continue
		}
		removed++
		if m == nil {
			continue // a member the reference never saw join: nothing to demand
		}
		age := T.Sub(m.LastRefresh)
		S := m.session() // the session timeout asked for in the member's latest join
		if age > S {
			continue // (a)
		}
		lagger := l.InReb && !rejoined(id)
		if lagger && !T.Before(l.RebStart.Add(coordRebalTO)) {
			continue // (b)
		}
		switch {
		case l.InReb && rejoined(id) && !T.Before(l.RebStart.Add(coordRebalTO)):
			out = append(out, coordViol("rejoined-member-dropped-at-rebalance-deadline", "tick at +%.1fs: %s had rejoined generation %d (last refresh %.1fs ago, session %.0fs) but was removed", T.Sub(w.coordStart).Seconds(), w.name(id), tk.Pre.Gen, age.Seconds(), S.Seconds()))
		case lagger:
			out = append(out, coordViol("lagger-dropped-before-rebalance-timeout", "tick at +%.1fs: %s removed %.1fs after the rebalance began (timeout %.0fs), last refresh %.1fs ago (session %.0fs)", T.Sub(w.coordStart).Seconds(), w.name(id), T.Sub(l.RebStart).Seconds(), coordRebalTO.Seconds(), age.Seconds(), S.Seconds()))
		case age == S:
			out = append(out, coordViol("removed-at-exact-session-boundary", "tick at +%.1fs: %s removed exactly %.0fs after its last refresh: the session timeout (%.0fs) has not passed yet", T.Sub(w.coordStart).Seconds(), w.name(id), age.Seconds(), S.Seconds()))
		default:
			out = append(out, coordViol("removed-within-session", "tick at +%.1fs: %s removed %.1fs after its last join/successful heartbeat, session timeout %.0fs", T.Sub(w.coordStart).Seconds(), w.name(id), age.Seconds(), S.Seconds()))
		}
	}
	if removed > 0 && tk.Post.Exists && len(tk.Post.IDs) > 0 {
		if !(tk.Post.Gen > tk.Pre.Gen && tk.Post.Phase == groupStatePreparingRebalance) {
			out = append(out, coordViol("no-rebalance-after-expiry", "tick at +%.1fs removed %d member(s) but the group is %s at generation %d (before: %d)", T.Sub(w.coordStart).Seconds(), removed, coordPhaseName(tk.Post.Phase), tk.Post.Gen, tk.Pre.Gen))
		}
	}
	if !tk.Pre.Exists || !tk.Pre.Loaded {
		return out
	}
	for _, id := range tk.Pre.IDs {
		m := l.M[id]
		if m == nil || !tk.Post.has(id) {
			continue
		}
		S := m.session()
		if age := T.Sub(m.LastRefresh); age > S {
			key := "expired-member-not-removed"
			if l.Failovers > 0 {
				// session lapse after a failover: judged once the replacement coordinator has loaded the
				// group (heartbeat times are persisted with every heartbeat, so it knows them)
				key = "expired-member-not-removed-after-failover"
			}
			out = append(out, coordViol(key, "tick at +%.1fs: %s is still a member %.1fs after its last join/successful heartbeat (session timeout %.0fs)", T.Sub(w.coordStart).Seconds(), w.name(id), age.Seconds(), S.Seconds()))
		} else if l.Failovers == 0 && l.InReb && !rejoined(id) && !T.Before(l.LastBump.Add(coordRebalTO)) {
			out = append(out, coordViol("rebalance-lagger-not-dropped", "tick at +%.1fs: %s has not rejoined generation %d, %.1fs after the last join of this rebalance (rebalance timeout %.0fs), and is still a member", T.Sub(w.coordStart).Seconds(), w.name(id), tk.Pre.Gen, T.Sub(l.LastBump).Seconds(), coordRebalTO.Seconds()))
		}
	}
	return out
}

func TestVerifC43(t *testing.T) {
	coordRunCheck(t, "C43", func() coordOracle { return coordC43{} },
		"BFS over all event histories (join/rejoin/sync/heartbeat/commit/leave/failover/stale-member events and advance(d), d in {rebalance-eps, rebalance, rebalance+eps=session-eps, session, session+eps}, eps = half a cleanup interval) up to the depth bound, states merged by canonical key, plus a timing run (irregular heartbeat spacing) and a session-change run (every join/rejoin asks for session 3 s or 5 s, advances up to 5.5 s) on a reduced request alphabet explored to their fixpoints, every transition executed on the real GroupCoordinator whose own cleanupLoop runs on virtual time; the group is observed after every tick: no member disappears unless its session lapsed or the rebalance timeout passed without it rejoining, removals start a rebalance, and (without failover) lapsed members and rebalance laggers are gone at the first tick after the lapse. distinct = distinct (store, event, reply, state change) observations; non-trivial = error code or observable change",
		[]string{"session 3 s, rebalance 2 s, cleanup interval 1 s of virtual time for every member; in the session-change run every join/rejoin asks for a session of 3 s or 5 s and a member is judged by the session of its latest join (any JoinGroup the coordinator answered with a member id, also one answered REBALANCE_IN_PROGRESS)",
			"a heartbeat answered REBALANCE_IN_PROGRESS does not count as heartbeating (the coordinator does not refresh the session on it; Kafka does)",
			"after a failover the never-late half is judged for session lapses only, and only once the replacement coordinator has loaded the group (it loads a group on the first request that names it and does not expire members of groups no request has touched yet); the rebalance-lagger never-late half is judged only in histories without failover (the rebalance timeout restarts on load)"})
}
