//go:build verif

package broker

import (
	"fmt"
	"strings"
	"testing"

	"github.com/KafScale/platform/internal/verif/xstate"
	"github.com/KafScale/platform/pkg/protocol"
)

// C15: group state survives coordinator failover.
//
// Differential oracle, judged for every reached state and every next request event e:
// a second coordinator is created over a copy of the store contents at the same virtual
// time ("the replacement"); then
//
//	(a) the group the replacement restores reports the same generation, state, leader,
//	    members, subscriptions and assignments as the continuing coordinator holds;
//	(b) the replacement's reply to e equals the continuing coordinator's reply to e (a new
//	    member gets the same id from both: the id choice is the explorer's);
//	(c) after e both hold the same generation/state/leader/members/subscriptions/
//	    assignments and the same committed offsets.
//
// Failover is also an event inside histories, so states that are only reachable through
// a restored coordinator are explored (and differenced) as well. Time-advance events are
// not differenced: the statement does not speak about timers of the replacement.
type coordC15 struct{}

func (coordC15) NeedShadow() bool                                     { return true }
func (coordC15) CheckTick(*coordWorld, *coordTick) []xstate.Violation { return nil }

// coordProjDiff returns the first statement-level field in which a and b differ.
func coordProjDiff(w *coordWorld, a, b *coordProj) (field, detail string) {
	if a.Exists != b.Exists {
		return "members", fmt.Sprintf("group exists: %t vs %t", a.Exists, b.Exists)
	}
	if !a.Exists {
		return "", ""
	}
	if a.Gen != b.Gen {
		return "generation", fmt.Sprintf("%d vs %d", a.Gen, b.Gen)
	}
	if a.Phase != b.Phase {
		return "state", fmt.Sprintf("%s vs %s", coordPhaseName(a.Phase), coordPhaseName(b.Phase))
	}
	if strings.Join(a.IDs, ",") != strings.Join(b.IDs, ",") {
		return "members", fmt.Sprintf("%d vs %d members", len(a.IDs), len(b.IDs))
	}
	if a.Leader != b.Leader {
		return "leader", fmt.Sprintf("%s vs %s", w.name(a.Leader), w.name(b.Leader))
	}
	for _, id := range a.IDs {
		x, y := a.Members[id], b.Members[id]
		if strings.Join(x.Subs, ",") != strings.Join(y.Subs, ",") {
			return "subscriptions", fmt.Sprintf("%s: %v vs %v", w.name(id), x.Subs, y.Subs)
		}
		xa, ya := "{}", "{}"
		if x.Assign != nil {
			xa = coordAssignString(x.Assign)
		}
		if y.Assign != nil {
			ya = coordAssignString(y.Assign)
		}
		if xa != ya {
			return "assignments", fmt.Sprintf("%s: %s vs %s", w.name(id), xa, ya)
		}
	}
	return "", ""
}

func (coordC15) Check(w *coordWorld, st *coordStep) []xstate.Violation {
	sh := st.Shadow
	if sh == nil {
		return nil
	}
	var out []xstate.Violation
	if st.Resp != nil && st.Resp.Panic != "" {
		out = append(out, coordViol("panic-in-"+st.K, "%s panicked on the continuing coordinator: %s", st.Ev, st.Resp.Panic))
	}
	if sh.Resp != nil && sh.Resp.Panic != "" {
		out = append(out, coordViol("panic-in-"+st.K+"-after-restore", "%s panicked on the replacement coordinator: %s", st.Ev, sh.Resp.Panic))
	}
	if len(out) > 0 {
		return out
	}
	// (a) what the replacement restores
	if f, d := coordProjDiff(w, &st.Pre, &sh.PreProj); f != "" {
		out = append(out, coordViol("restored-"+f+"-differs", "before %s: continuing coordinator vs restored group differ in %s: %s", st.Ev, f, d))
	}
	// a member the continuing coordinator still waits for (it has not rejoined this generation)
	var waiting []string
	if st.Pre.Exists && st.Pre.Loaded && st.Pre.Phase == groupStatePreparingRebalance {
		for _, id := range st.Pre.IDs {
			if st.Pre.Members[id].JoinGen != st.Pre.Gen && id != st.ReqMember {
				waiting = append(waiting, w.name(id))
			}
		}
	}
	// (b) replies
	ra, rb := st.Resp.str(w.name), sh.Resp.str(w.name)
	joinLike := st.K == "join" || st.K == "rejoin"
	allJoinedPattern := joinLike && len(waiting) > 0 && st.Resp.Err == protocol.REBALANCE_IN_PROGRESS && sh.Resp.Err == protocol.NONE
	if ra != rb {
		key := fmt.Sprintf("failover-reply-differs:%s:%s-vs-%s", st.K, coordErrName(st.Resp.Err), coordErrName(sh.Resp.Err))
		if st.Resp.Err == sh.Resp.Err {
			key = fmt.Sprintf("failover-reply-differs:%s:content", st.K)
		}
		if allJoinedPattern {
			key = "restore-marks-all-joined"
		}
		out = append(out, coordViol(key, "%s: continuing coordinator answers [%s], a coordinator restored from the same store answers [%s] (members the continuing coordinator still waits for: %v)", st.Ev, ra, rb, waiting))
	}
	// (c) state after the event
	if f, d := coordProjDiff(w, &st.Post, &sh.PostProj); f != "" {
		key := "failover-post-" + f + "-differs:" + st.K
		if allJoinedPattern && f == "state" {
			key = "restore-marks-all-joined"
		}
		out = append(out, coordViol(key, "after %s: continuing vs replacement differ in %s: %s", st.Ev, f, d))
	}
	if tp := coordOffsetsDiff(st.PostOff, sh.PostOff); tp != "" {
		out = append(out, coordViol("failover-committed-offset-differs:"+st.K, "after %s: committed offset of %s is %d on the continuing side and %d on the replacement", st.Ev, tp, st.PostOff[tp], sh.PostOff[tp]))
	}
	return out
}

func TestVerifC15(t *testing.T) {
	coordRunCheck(t, "C15", func() coordOracle { return coordC15{} },
		"BFS over all event histories (join/rejoin/sync/heartbeat/commit/leave/advance/failover/stale-member events, every rank of every new member id) up to the depth bound, states merged by canonical key, every transition executed on the real GroupCoordinator; for every reached state and every next request event a second real coordinator is created over a copy of the store at the same virtual time: restored generation/state/leader/members/subscriptions/assignments, its reply to the event, and the state and committed offsets after the event must equal the continuing coordinator's. distinct = distinct (store, event, reply, state change) observations; non-trivial = error code or observable change",
		[]string{"store contents are copied through the public Store API (FetchConsumerGroup/PutConsumerGroup, FetchConsumerOffset/CommitConsumerOffset)",
			"session and rebalance timeouts and timer deadlines of the replacement are not compared (the statement lists generation, state, leader, members, subscriptions, assignments); advance events are not differenced"})
}
