//go:build verif

package broker

// C10, server level: every stream of the corpus written by the pkg/protocol harness is served
// by the real Server.handleConnection over an in-memory net.Conn with a stub Handler. A panic
// leaving handleConnection would terminate the broker process (it runs in a bare goroutine).
// This test is a worker of TestVerifC10 (pkg/protocol); it is skipped when run on its own.

import (
	"bufio"
	"context"
	"encoding/hex"
	"fmt"
	"io"
	"log"
	"net"
	"os"
	"runtime"
	"strings"
	"testing"
	"time"

	"github.com/twmb/franz-go/pkg/kmsg"

	"github.com/KafScale/platform/pkg/protocol"
)

type c10Conn struct {
	data   []byte
	pos    int
	closed bool
}

func (c *c10Conn) Read(p []byte) (int, error) {
	if c.pos >= len(c.data) {
		return 0, io.EOF
	}
	n := copy(p, c.data[c.pos:])
	c.pos += n
	return n, nil
}
func (c *c10Conn) Write(p []byte) (int, error)      { return len(p), nil }
func (c *c10Conn) Close() error                     { c.closed = true; return nil }
func (c *c10Conn) LocalAddr() net.Addr              { return &net.TCPAddr{IP: net.IPv4(127, 0, 0, 1), Port: 9092} }
func (c *c10Conn) RemoteAddr() net.Addr             { return &net.TCPAddr{IP: net.IPv4(127, 0, 0, 1), Port: 40000} }
func (c *c10Conn) SetDeadline(time.Time) error      { return nil }
func (c *c10Conn) SetReadDeadline(time.Time) error  { return nil }
func (c *c10Conn) SetWriteDeadline(time.Time) error { return nil }

type c10StubHandler struct{ handled int }

func (h *c10StubHandler) Handle(ctx context.Context, header *protocol.RequestHeader, req kmsg.Request) ([]byte, error) {
	h.handled++
	return nil, nil
}

func c10ConnClassify(p any) (string, string) {
	msg := fmt.Sprint(p)
	class := "other"
	switch {
	case strings.Contains(msg, "slice bounds out of range"):
		class = "slice-bounds"
	case strings.Contains(msg, "index out of range"):
		class = "index-range"
	case strings.Contains(msg, "nil pointer"):
		class = "nil-deref"
	case strings.Contains(msg, "makeslice"):
		class = "makeslice"
	}
	pcs := make([]uintptr, 64)
	n := runtime.Callers(2, pcs)
	frames := runtime.CallersFrames(pcs[:n])
	var fns []string
	seenPanic := false
	for {
		f, more := frames.Next()
		name := f.Function
		switch {
		case !seenPanic:
			if name == "runtime.gopanic" {
				seenPanic = true
			}
		case strings.HasPrefix(name, "runtime."):
		default:
			if len(fns) < 2 {
				if i := strings.LastIndexByte(name, '/'); i >= 0 {
					name = name[i+1:]
				}
				fns = append(fns, strings.NewReplacer("(*", "", ")", "").Replace(name))
			}
		}
		if !more || len(fns) == 2 {
			break
		}
	}
	return "panic:" + class + "@" + strings.Join(fns, "<-"), msg
}

func c10Serve(s *Server, stream []byte) (verdict string) {
	defer func() {
		if p := recover(); p != nil {
			k, m := c10ConnClassify(p)
			verdict = "panic\t" + k + "\t" + strings.ReplaceAll(m, "\n", " ")
		}
	}()
	s.handleConnection(&c10Conn{data: stream})
	return "ok"
}

func TestVerifC10Conn(t *testing.T) {
	in, out := os.Getenv("C10_CORPUS"), os.Getenv("C10_RESULTS")
	if in == "" || out == "" {
		t.Skip("worker of TestVerifC10 (pkg/protocol)")
	}
	log.SetOutput(io.Discard)
	defer log.SetOutput(os.Stderr)
	f, err := os.Open(in)
	if err != nil {
		t.Fatalf("HARNESS-ERROR %v", err)
	}
	defer f.Close()
	of, err := os.Create(out)
	if err != nil {
		t.Fatalf("HARNESS-ERROR %v", err)
	}
	w := bufio.NewWriter(of)
	sc := bufio.NewScanner(f)
	sc.Buffer(make([]byte, 1<<20), 1<<24)
	h := &c10StubHandler{}
	s := &Server{Handler: h}
	for sc.Scan() {
		stream, err := hex.DecodeString(sc.Text())
		if err != nil {
			t.Fatalf("HARNESS-ERROR corpus line: %v", err)
		}
		w.WriteString(c10Serve(s, stream))
		w.WriteByte('\n')
	}
	if err := sc.Err(); err != nil {
		t.Fatalf("HARNESS-ERROR %v", err)
	}
	if err := w.Flush(); err != nil {
		t.Fatalf("HARNESS-ERROR %v", err)
	}
	of.Close()
}
