//go:build verif

package broker

import (
	"strings"
	"testing"

	"github.com/KafScale/platform/internal/verif/xstate"
	"github.com/KafScale/platform/pkg/protocol"
)

// C14: rebalances complete only when every member has rejoined.
//
// Reference notion of "has joined generation g" (black box): the reply to the member's
// last JoinGroup carried generation g. Current members are read in-package.
//
//	(1) a join reply with error NONE at generation g => every current member has joined g;
//	(2) the leader named in any join reply is a current member;
//	(3) a join reply carries a member list only if it is successful and addressed to the leader;
//	(4) once all current members joined g and the leader's sync at g succeeded, every
//	    current member's sync at g succeeds (until the generation changes).
type coordC14 struct{}

func (coordC14) NeedShadow() bool                                     { return false }
func (coordC14) CheckTick(*coordWorld, *coordTick) []xstate.Violation { return nil }

func (coordC14) Check(w *coordWorld, st *coordStep) []xstate.Violation {
	var out []xstate.Violation
	r := st.Resp
	switch st.K {
	case "join", "rejoin":
		if r.Panic != "" {
			return []xstate.Violation{coordViol("panic-in-joingroup", "%s panicked: %s", st.Ev, r.Panic)}
		}
		if r.GoErr != "" || r.Err == protocol.UNKNOWN_SERVER_ERROR {
			return nil
		}
		if r.Err == protocol.NONE {
			var lag, implKnows, afterFailover []string
			for _, id := range st.Post.IDs {
				if id == r.Member {
					continue
				}
				lm := w.led.M[id]
				if lm != nil && lm.JoinedGen == r.Gen {
					continue
				}
				lag = append(lag, w.name(id))
				if st.Post.Members[id].JoinGen != st.Post.Gen {
					implKnows = append(implKnows, w.name(id))
				}
				if lm != nil && lm.FoSinceJoin {
					afterFailover = append(afterFailover, w.name(id))
				}
			}
			if len(lag) > 0 {
				key := "join-success-before-all-rejoined"
				switch {
				case len(implKnows) > 0:
					key = "join-success-with-member-marked-unjoined"
				case len(afterFailover) == len(lag):
					key = "restore-marks-all-joined"
				}
				out = append(out, coordViol(key, "join reply to %s: NONE at generation %d although %s did not join generation %d (coordinator's own joinGeneration says unjoined: [%s]; joined before the last failover: [%s])",
					w.name(r.Member), r.Gen, strings.Join(lag, ","), r.Gen, strings.Join(implKnows, ","), strings.Join(afterFailover, ",")))
			}
		}
		if !st.Post.has(r.Leader) {
			out = append(out, coordViol("leader-not-a-member", "join reply to %s names leader %s which is not a current member", w.name(r.Member), w.name(r.Leader)))
		}
		if len(r.Members) > 0 {
			if r.Err != protocol.NONE {
				out = append(out, coordViol("member-list-in-unsuccessful-reply", "join reply to %s has error %s but carries %d members", w.name(r.Member), coordErrName(r.Err), len(r.Members)))
			} else if r.Member != r.Leader {
				out = append(out, coordViol("member-list-in-non-leader-reply", "join reply to %s (leader is %s) carries %d members", w.name(r.Member), w.name(r.Leader), len(r.Members)))
			}
		}
	case "sync":
		if r.Panic != "" {
			return []xstate.Violation{coordViol("panic-in-syncgroup", "%s panicked: %s", st.Ev, r.Panic)}
		}
		l := &w.led
		if st.Pre.Exists && st.Pre.has(st.ReqMember) && st.ReqGen == st.Pre.Gen && l.LeaderSyncedGen == st.Pre.Gen && l.LeaderSyncedGen != 0 &&
			l.allJoined(&st.Pre, st.Pre.Gen) && !r.ok() {
			out = append(out, coordViol("sync-fails-after-leader-synced", "all members joined generation %d and the leader %s synced, but sync of %s was answered %s", st.Pre.Gen, w.name(l.LeaderNamed), w.name(st.ReqMember), r.str(w.name)))
		}
	}
	return out
}

func TestVerifC14(t *testing.T) {
	coordRunCheck(t, "C14", func() coordOracle { return coordC14{} },
		"BFS over all event histories (join/rejoin/sync/heartbeat/commit/leave/advance/failover/stale-member events, every rank of every new member id) up to the depth bound, states merged by canonical key, every transition executed on the real GroupCoordinator; judged at every JoinGroup reply (NONE only if every current member's last join reply carried this generation; named leader is a member; member list only in the leader's successful reply) and at every SyncGroup reply (must succeed once all joined and the leader synced in this generation). distinct = distinct (store, event, reply, state change) observations; non-trivial = error code or observable change",
		[]string{"a member 'has joined generation g' when the reply to its last JoinGroup carried g; current members are read in-package"})
}
