//go:build verif

package broker

import (
	"testing"

	"github.com/KafScale/platform/internal/verif/xstate"
	"github.com/KafScale/platform/pkg/protocol"
)

// C13 (histories part): stale or unknown members are fenced; reported generations never
// decrease while the group exists.
//
// "Not in the group's current generation" is read as: the member id is not a member of
// the group, or the request carries a generation other than the group's current one
// (both read in-package before the request; for a coordinator that has not loaded the
// group yet, from the group it will restore). Such a commit / heartbeat / sync must be
// answered with an error code and no committed offset may change. Requests that are not
// accepted commits must never change a committed offset either. The empty member id
// (generation -1: a client that is not a group member; commit also with the current
// generation) is judged like any other id that is not in the group, but only while the
// group has at least one member.
//
// Generations: every JoinGroup reply carries the generation; within one life of the
// group (from its creation until it has no members and is deleted) the sequence of
// reported generations must be non-decreasing, across failovers too.
type coordC13 struct{}

func (coordC13) NeedShadow() bool                                     { return false }
func (coordC13) CheckTick(*coordWorld, *coordTick) []xstate.Violation { return nil }

func (coordC13) Check(w *coordWorld, st *coordStep) []xstate.Violation {
	var out []xstate.Violation
	r := st.Resp
	k := st.K
	if r != nil && r.Panic != "" && (k == "commit" || k == "hb" || k == "sync") {
		return []xstate.Violation{coordViol("panic-in-"+k, "%s panicked: %s", st.Ev, r.Panic)}
	}
	switch k {
	case "commit", "hb", "sync":
		unknown := !st.Pre.Exists || !st.Pre.has(st.ReqMember)
		staleGen := !st.Pre.Exists || st.ReqGen != st.Pre.Gen
		accepted := r.ok()
		if st.ReqMember == "" && (!st.Pre.Exists || len(st.Pre.IDs) == 0) {
			// a request without member id to a group that has no members: there is no current generation to be
			// outside of (Kafka accepts such commits); only "no accepted commit, no offset change" is judged
			if !accepted || k != "commit" {
				if tp := coordOffsetsDiff(st.PreOff, st.PostOff); tp != "" {
					out = append(out, coordViol("offset-changed-without-accepted-commit", "%s answered %s changed the committed offset of %s: %d -> %d", st.Ev, r.str(w.name), tp, st.PreOff[tp], st.PostOff[tp]))
				}
			}
		} else if unknown || staleGen {
			why := "stale-generation"
			desc := "carries generation %d while the group is at %d"
			if unknown {
				why = "unknown-member"
				desc = "is not a member of the group (request generation %d, group generation %d)"
			}
			kind := map[string]string{"commit": "commit", "hb": "heartbeat", "sync": "sync"}[k]
			if accepted {
				out = append(out, coordViol(why+"-"+kind+"-accepted", "%s by %s "+desc+" but was answered %s", st.Ev, w.name(st.ReqMember), st.ReqGen, st.Pre.Gen, r.str(w.name)))
			}
			if tp := coordOffsetsDiff(st.PreOff, st.PostOff); tp != "" {
				out = append(out, coordViol(why+"-"+kind+"-changed-offset", "%s by %s "+desc+"; committed offset of %s went %d -> %d (reply %s)", st.Ev, w.name(st.ReqMember), st.ReqGen, st.Pre.Gen, tp, st.PreOff[tp], st.PostOff[tp], r.str(w.name)))
			}
		} else if m := w.led.M[st.ReqMember]; accepted && m != nil && w.led.Failovers == 0 && st.Pre.Loaded && st.At.Sub(m.LastRefresh) > coordSessionTO+coordTickEvery {
			// session expiries are part of the quantifier: a member whose session lapsed more than a whole
			// cleanup interval ago has been through a cleanup tick after the lapse and is no longer in the
			// group's current generation, so its request must be fenced (judged only without failover: a
			// replacement coordinator restarts expiry when it loads the group)
			kind := map[string]string{"commit": "commit", "hb": "heartbeat", "sync": "sync"}[k]
			out = append(out, coordViol("session-expired-member-"+kind+"-accepted", "%s by %s was answered %s although its last join/successful heartbeat was %.1fs ago (session timeout %.0fs, cleanup interval %.0fs): the member should have been expired and fenced", st.Ev, w.name(st.ReqMember), r.str(w.name), st.At.Sub(m.LastRefresh).Seconds(), coordSessionTO.Seconds(), coordTickEvery.Seconds()))
		} else if !accepted || k != "commit" {
			if tp := coordOffsetsDiff(st.PreOff, st.PostOff); tp != "" {
				out = append(out, coordViol("offset-changed-without-accepted-commit", "%s answered %s changed the committed offset of %s: %d -> %d", st.Ev, r.str(w.name), tp, st.PreOff[tp], st.PostOff[tp]))
			}
		}
	case "join", "rejoin":
		if st.Reissued != 0 {
			// a new client was handed the id of another client of this history: from now on the coordinator
			// cannot tell the two apart, so the earlier one's requests are no longer fenced
			out = append(out, coordViol("member-id-reissued-to-new-client", "%s was answered with member id %s, which was issued before in this history to %s: that member's (id, generation) pairs are accepted again", st.Ev, r.Member, coordMemberName(int8(st.Reissued))))
		}
		if r.Panic == "" && r.GoErr == "" && r.Err != protocol.UNKNOWN_SERVER_ERROR && w.led.HasGen && st.Pre.Exists && r.Gen < w.led.MaxGen {
			key := "generation-decreased"
			if w.led.Failovers > 0 && !st.Pre.Loaded {
				key = "generation-decreased-after-failover"
			}
			out = append(out, coordViol(key, "%s was told generation %d after generation %d had been reported to a member of the same group", w.name(r.Member), r.Gen, w.led.MaxGen))
		}
		fallthrough
	default:
		if tp := coordOffsetsDiff(st.PreOff, st.PostOff); tp != "" {
			out = append(out, coordViol("offset-changed-without-accepted-commit", "%s changed the committed offset of %s: %d -> %d", st.Ev, tp, st.PreOff[tp], st.PostOff[tp]))
		}
	}
	return out
}

func TestVerifC13(t *testing.T) {
	coordRunCheck(t, "C13", func() coordOracle { return coordC13{} },
		"BFS over all event histories (join/rejoin/sync/heartbeat/commit/leave/advance/failover events; commit, heartbeat and sync also from departed and never-issued member ids, with generation current-1, and with the empty member id at generation -1 (commit also at the current generation)) up to the depth bound, states merged by canonical key, every transition executed on the real GroupCoordinator; judged on every transition: a commit/heartbeat/sync whose member id is not in the group or whose generation is not the current one gets an error code and leaves every committed offset unchanged; a commit/heartbeat/sync from a member whose session lapsed more than a cleanup interval ago (no failover in the history) is not accepted; a JoinGroup without member id is never answered with an id issued earlier in the history (across failovers too); generations in JoinGroup replies never decrease within one life of the group. distinct = distinct (store, event, reply, state change) observations; non-trivial = error code or observable change",
		[]string{"sequential histories only: the schedule dimension of C13 (OffsetCommit validating under the lock and writing after it) is a separate check",
			"a member that is in the group and presents the current generation number counts as current even if it has not rejoined yet (Kafka accepts such commits too)"})
}
