//go:build verif

package broker

import (
	"context"
	"fmt"
	"sort"
	"testing"
	"time"

	"github.com/KafScale/platform/internal/verif/enum"
	"github.com/KafScale/platform/internal/verif/fakeetcd"
	"github.com/KafScale/platform/internal/verif/vh"
	"github.com/KafScale/platform/pkg/metadata"
	"github.com/KafScale/platform/pkg/protocol"
	"github.com/twmb/franz-go/pkg/kmsg"
)

// C16: committed offsets read back exactly per (group, topic, partition) whatever
// characters the names contain; never-committed reads -1. Both stores, through the
// real GroupCoordinator.OffsetCommit / OffsetFetch.

type c16Commit struct {
	// Op: "" = offset commit (the fields below); group lifecycle events on group G
	// (lifecycle run only): "join" = one more member joins (JoinGroup, all members
	// re-join until they agree on the generation, then SyncGroup, leader first);
	// "leave" = the most recently joined member sends LeaveGroup (the group becomes
	// empty when it was the last); "expire" = the sessions of all members of G time
	// out and the coordinator's cleanup pass evicts them (the group becomes empty).
	Op   string `json:",omitempty"`
	G, T int // indexes into the name alphabets
	P    int32
	V    int // value variant
	// Pair: a second partition entry in the SAME OffsetCommit request (T2/P2), committed
	// with offset 3 and NULL metadata (the wire distinguishes null from "")
	Pair bool
	T2   int
	P2   int32
}

var c16Groups = []string{"g", "a", "a:b", "a/offsets/b", "g é", "a/"}
var c16Topics = []string{"t", "c", "b:c", "b/offsets/c", "t/0", "./c"}
var c16Parts = []int32{0, 1, 10}

type c16Val struct {
	Off  int64
	Meta string
}

var c16Vals = []c16Val{{0, ""}, {7, "m"}, {0, "m"}, {1 << 62, ""}}

func c16Meta() metadata.ClusterMetadata {
	cid := "verif"
	return metadata.ClusterMetadata{Brokers: []protocol.MetadataBroker{{NodeID: 1, Host: "h", Port: 1}}, ControllerID: 1, ClusterID: &cid}
}

type c16Sys struct {
	kind    string
	coord   *GroupCoordinator
	members map[string]string
	gens    map[string]int32
	mlist   map[string][]string // live member ids per group, in join order
	close   func()
	// rejected counts commits of a live member answered with an error code
	rejected int64
}

func c16New(kind string) *c16Sys {
	s := &c16Sys{kind: kind, members: map[string]string{}, gens: map[string]int32{}, mlist: map[string][]string{}}
	var store metadata.Store
	switch kind {
	case "inmem":
		store = metadata.NewInMemoryStore(c16Meta())
		s.close = func() {}
	case "etcd":
		srv := fakeetcd.NewServer()
		cli := srv.NewClient("b1")
		cli.NoPoints = true
		es := metadata.VerifNewEtcdStore(cli.C, c16Meta(), false)
		store = es
		s.close = func() { _ = es.Close() }
	}
	s.coord = NewGroupCoordinator(store, protocol.MetadataBroker{NodeID: 1, Host: "h", Port: 1}, nil)
	return s
}

func (s *c16Sys) member(group string) (string, int32, error) {
	if m, ok := s.members[group]; ok {
		return m, s.gens[group], nil
	}
	req := kmsg.NewPtrJoinGroupRequest()
	req.Version = 4
	req.Group = group
	req.SessionTimeoutMillis = 30000
	req.RebalanceTimeoutMillis = 30000
	req.ProtocolType = "consumer"
	p := kmsg.NewJoinGroupRequestProtocol()
	p.Name = "range"
	req.Protocols = append(req.Protocols, p)
	resp, err := s.coord.JoinGroup(context.Background(), req)
	if err != nil {
		return "", 0, err
	}
	if resp.ErrorCode != 0 {
		return "", 0, fmt.Errorf("join code %d", resp.ErrorCode)
	}
	s.members[group] = resp.MemberID
	s.gens[group] = resp.Generation
	s.mlist[group] = append(s.mlist[group], resp.MemberID)
	return resp.MemberID, resp.Generation, nil
}

func (s *c16Sys) joinReq(group, member string) *kmsg.JoinGroupRequest {
	req := kmsg.NewPtrJoinGroupRequest()
	req.Version = 4
	req.Group = group
	req.MemberID = member
	req.SessionTimeoutMillis = 30000
	req.RebalanceTimeoutMillis = 30000
	req.ProtocolType = "consumer"
	p := kmsg.NewJoinGroupRequestProtocol()
	p.Name = "range"
	req.Protocols = append(req.Protocols, p)
	return req
}

// settle lets every live member of the group re-join (as clients do on a rebalance)
// until all of them hold the same generation, then SyncGroup, leader first; records
// the committing member (the oldest) and the generation.
func (s *c16Sys) settle(group string) error {
	ms := s.mlist[group]
	if len(ms) == 0 {
		delete(s.members, group)
		delete(s.gens, group)
		delete(s.mlist, group)
		return nil
	}
	var gen int32
	leader := ""
	for round := 0; ; round++ {
		if round == 4 {
			return fmt.Errorf("group %q members do not settle", group)
		}
		ok := true
		for i, m := range ms {
			resp, err := s.coord.JoinGroup(context.Background(), s.joinReq(group, m))
			if err != nil {
				return err
			}
			if resp.MemberID != m {
				return fmt.Errorf("re-join of %q answered member %q", m, resp.MemberID)
			}
			if resp.ErrorCode != 0 || (i > 0 && resp.Generation != gen) {
				ok = false
			}
			gen = resp.Generation
			leader = resp.LeaderID
		}
		if ok {
			break
		}
	}
	order := []string{leader}
	for _, m := range ms {
		if m != leader {
			order = append(order, m)
		}
	}
	for _, m := range order {
		req := kmsg.NewPtrSyncGroupRequest()
		req.Version = 3
		req.Group = group
		req.Generation = gen
		req.MemberID = m
		resp, err := s.coord.SyncGroup(context.Background(), req)
		if err != nil {
			return err
		}
		if resp.ErrorCode != 0 {
			return fmt.Errorf("sync of %q code %d", m, resp.ErrorCode)
		}
	}
	s.members[group] = ms[0]
	s.gens[group] = gen
	return nil
}

// lifecycle applies a group lifecycle event; emptied reports that the group had
// members before and has none after.
func (s *c16Sys) lifecycle(op, group string) (emptied bool, err error) {
	switch op {
	case "join":
		resp, err := s.coord.JoinGroup(context.Background(), s.joinReq(group, ""))
		if err != nil {
			return false, err
		}
		if resp.MemberID == "" {
			return false, fmt.Errorf("join without member id (code %d)", resp.ErrorCode)
		}
		s.mlist[group] = append(s.mlist[group], resp.MemberID)
		return false, s.settle(group)
	case "leave":
		ms := s.mlist[group]
		req := kmsg.NewPtrLeaveGroupRequest()
		req.Version = 2
		req.Group = group
		if len(ms) == 0 {
			// nobody to leave: an unknown member's LeaveGroup must change nothing
			req.MemberID = "nobody"
			_ = s.coord.LeaveGroup(context.Background(), req)
			return false, nil
		}
		req.MemberID = ms[len(ms)-1]
		resp := s.coord.LeaveGroup(context.Background(), req)
		if resp.ErrorCode != 0 {
			return false, fmt.Errorf("leave of %q code %d", req.MemberID, resp.ErrorCode)
		}
		s.mlist[group] = ms[:len(ms)-1]
		return len(ms) == 1, s.settle(group)
	case "expire":
		had := len(s.mlist[group]) > 0
		s.coord.mu.Lock()
		if st := s.coord.groups[group]; st != nil {
			for _, m := range st.members {
				m.lastHeartbeat = time.Time{} // longer ago than any session timeout
			}
		}
		s.coord.mu.Unlock()
		s.coord.cleanupGroups()
		s.mlist[group] = nil
		return had, s.settle(group)
	}
	return false, fmt.Errorf("unknown op %q", op)
}

func (s *c16Sys) commit(c c16Commit) (int16, error) {
	g, t := c16Groups[c.G], c16Topics[c.T]
	m, gen, err := s.member(g)
	if err != nil {
		return 0, err
	}
	req := kmsg.NewPtrOffsetCommitRequest()
	req.Version = 5
	req.Group = g
	req.MemberID = m
	req.Generation = gen
	tp := kmsg.NewOffsetCommitRequestTopic()
	tp.Topic = t
	pp := kmsg.NewOffsetCommitRequestTopicPartition()
	pp.Partition = c.P
	pp.Offset = c16Vals[c.V].Off
	meta := c16Vals[c.V].Meta
	pp.Metadata = &meta
	tp.Partitions = append(tp.Partitions, pp)
	if c.Pair {
		p2 := kmsg.NewOffsetCommitRequestTopicPartition()
		p2.Partition = c.P2
		p2.Offset = 3
		p2.Metadata = nil
		if c.T2 == c.T {
			tp.Partitions = append(tp.Partitions, p2)
			req.Topics = append(req.Topics, tp)
		} else {
			req.Topics = append(req.Topics, tp)
			t2 := kmsg.NewOffsetCommitRequestTopic()
			t2.Topic = c16Topics[c.T2]
			t2.Partitions = append(t2.Partitions, p2)
			req.Topics = append(req.Topics, t2)
		}
	} else {
		req.Topics = append(req.Topics, tp)
	}
	resp, err := s.coord.OffsetCommit(context.Background(), req)
	if err != nil {
		return 0, err
	}
	for _, rt := range resp.Topics {
		for _, rp := range rt.Partitions {
			if rp.ErrorCode != 0 {
				return rp.ErrorCode, nil
			}
		}
	}
	return 0, nil
}

func (s *c16Sys) fetch(g, t string, p int32) (int64, string, int16, error) {
	req := kmsg.NewPtrOffsetFetchRequest()
	req.Version = 5
	req.Group = g
	tp := kmsg.NewOffsetFetchRequestTopic()
	tp.Topic = t
	tp.Partitions = []int32{p}
	req.Topics = append(req.Topics, tp)
	resp, err := s.coord.OffsetFetch(context.Background(), req)
	if err != nil {
		return 0, "", 0, err
	}
	if len(resp.Topics) != 1 || len(resp.Topics[0].Partitions) != 1 {
		return 0, "", 0, fmt.Errorf("reply shape")
	}
	pr := resp.Topics[0].Partitions[0]
	meta := ""
	if pr.Metadata != nil {
		meta = *pr.Metadata
	}
	return pr.Offset, meta, pr.ErrorCode, nil
}

type c16Key struct {
	G, T string
	P    int32
}

// c16Alias reports whether some committed tuple other than k maps to the same flat key
// as k under the store's key scheme (the mechanism behind cross-talk between names).
func c16Alias(kind string, k c16Key, ref map[c16Key]c16Val) bool {
	flat := func(x c16Key) string {
		if kind == "etcd" {
			return fmt.Sprintf("%s/offsets/%s/%d", x.G, x.T, x.P)
		}
		return fmt.Sprintf("%s:%s:%d", x.G, x.T, x.P)
	}
	for o := range ref {
		if o != k && flat(o) == flat(k) {
			return true
		}
	}
	return false
}

func c16Run(rep *vh.Report, kind string, hist []c16Commit) {
	s := c16New(kind)
	defer func() {
		s.coord.Stop()
		s.close()
	}()
	ref := map[c16Key]c16Val{}
	// emptiedAfter: the key's group lost its last member after the key's last commit
	emptiedAfter := map[c16Key]bool{}
	life, emptiedCommitted := false, false
	for _, c := range hist {
		if c.Op != "" {
			life = true
			emptied, err := s.lifecycle(c.Op, c16Groups[c.G])
			if err != nil {
				rep.Violationf("harness", hist, "%s %s %q: %v", kind, c.Op, c16Groups[c.G], err)
				return
			}
			if emptied {
				for k := range ref {
					if k.G == c16Groups[c.G] {
						emptiedAfter[k] = true
						emptiedCommitted = true
					}
				}
			}
			continue
		}
		code, err := s.commit(c)
		if err != nil {
			rep.Violationf("harness", hist, "%s commit %+v: %v", kind, c, err)
			return
		}
		if code == 0 {
			ref[c16Key{c16Groups[c.G], c16Topics[c.T], c.P}] = c16Vals[c.V]
			delete(emptiedAfter, c16Key{c16Groups[c.G], c16Topics[c.T], c.P})
			if c.Pair {
				ref[c16Key{c16Groups[c.G], c16Topics[c.T2], c.P2}] = c16Val{3, ""}
				delete(emptiedAfter, c16Key{c16Groups[c.G], c16Topics[c.T2], c.P2})
			}
		} else {
			s.rejected++
		}
	}
	if s.rejected > 0 {
		rep.Count("commits_rejected", s.rejected)
	}
	distinctKeys := map[c16Key]bool{}
	for _, c := range hist {
		if c.Op != "" {
			continue
		}
		distinctKeys[c16Key{c16Groups[c.G], c16Topics[c.T], c.P}] = true
		if c.Pair {
			distinctKeys[c16Key{c16Groups[c.G], c16Topics[c.T2], c.P2}] = true
		}
	}
	var sig []string
	for _, g := range c16Groups {
		for _, t := range c16Topics {
			for _, p := range c16Parts {
				off, meta, code, err := s.fetch(g, t, p)
				if err != nil || code != 0 {
					rep.Violationf(kind+":fetch-error", hist, "fetch(%q,%q,%d): err=%v code=%d", g, t, p, err, code)
					continue
				}
				want, ok := ref[c16Key{g, t, p}]
				if !ok {
					if off != -1 && c16Alias(kind, c16Key{g, t, p}, ref) {
						rep.Violationf(kind+":separator-in-name-key-aliasing", hist, "fetch(%q,%q,%d) with no commit returned (%d,%q): another tuple's commit under the same flat key; committed=%v", g, t, p, off, meta, ref)
					} else if off != -1 {
						key := kind + ":never-committed-reads-" + fmt.Sprint(off)
						if len(ref) > 0 && off != 0 {
							key = kind + ":uncommitted-partition-sees-other-commit"
						} else if len(ref) > 0 {
							// 0 could be the store's "missing" answer or another key's commit at offset 0
							for k2, v2 := range ref {
								if v2.Off == off && v2.Meta == meta && (k2.G != g || k2.T != t || k2.P != p) && meta != "" {
									key = kind + ":uncommitted-partition-sees-other-commit"
								}
							}
						}
						rep.Violationf(key, hist, "fetch(%q,%q,%d) with no commit returned offset %d meta %q (want -1); committed=%v", g, t, p, off, meta, ref)
					} else if meta != "" {
						rep.Violationf(kind+":uncommitted-partition-sees-other-commit", hist, "fetch(%q,%q,%d) with no commit returned metadata %q", g, t, p, meta)
					}
					continue
				}
				if (off != want.Off || meta != want.Meta) && c16Alias(kind, c16Key{g, t, p}, ref) {
					rep.Violationf(kind+":separator-in-name-key-aliasing", hist, "fetch(%q,%q,%d) = (%d,%q), last commit was (%d,%q): overwritten through another tuple with the same flat key; all=%v", g, t, p, off, meta, want.Off, want.Meta, ref)
				} else if (off != want.Off || meta != want.Meta) && emptiedAfter[c16Key{g, t, p}] {
					rep.Violationf(kind+":commit-lost-when-group-became-empty", hist, "fetch(%q,%q,%d) = (%d,%q), last successful commit was (%d,%q); the group's last member left/expired after that commit - committed offsets must outlive the members; all=%v", g, t, p, off, meta, want.Off, want.Meta, ref)
				} else if off != want.Off || meta != want.Meta {
					rep.Violationf(kind+":name-aliasing-or-lost-commit", hist, "fetch(%q,%q,%d) = (%d,%q), last commit was (%d,%q); all=%v", g, t, p, off, meta, want.Off, want.Meta, ref)
				}
				sig = append(sig, fmt.Sprintf("%d/%s", off, meta))
			}
		}
	}
	sort.Strings(sig)
	rep.Eval(1)
	if life {
		// lifecycle run: non-trivial = a group with a committed offset became empty
		rep.Outcome(kind+fmt.Sprint(hist), emptiedCommitted)
		rep.Count("lifecycle_histories", 1)
		if emptiedCommitted {
			rep.Count("lifecycle_histories_emptying_a_committed_group", 1)
		}
		return
	}
	rep.Outcome(kind+fmt.Sprint(hist), len(distinctKeys) >= 2)
	if len(distinctKeys) >= 2 && rep.WantSample() {
		rep.Sample(map[string]any{"store": kind, "history": hist, "committed": fmt.Sprint(ref)})
	}
}

func TestVerifC16(t *testing.T) {
	rep := vh.New(t, "C16")
	defer rep.Finish()
	rep.Rule = "every history of <=2 (thorough 3 over a reduced alphabet) successful commits over groups x topics x partitions x (offset,metadata) variants, names chosen to collide under ':' and '/offsets/' key schemes, through real GroupCoordinator.OffsetCommit; then OffsetFetch of every (group,topic,partition) of the alphabet vs a tuple-keyed reference map; both stores (InMemoryStore, EtcdStore over fake etcd); distinct = distinct histories; non-trivial = history touches >= 2 distinct keys. Lifecycle run: every history of <=4 events over commits (2 groups (thorough 3) x 2 topics x 2 values) and group lifecycle events per group (member joins + SyncGroup, newest member leaves, all sessions expire + cleanup pass), at least one lifecycle event, same fetch sweep and reference map (membership does not change committed offsets); non-trivial there = a group holding a committed offset became empty"
	rep.Assumptions = []string{"fake etcd stands for etcd (plain Put/Get/prefix Get/Delete)", "session expiry is produced by zeroing the members' lastHeartbeat and calling the coordinator's own cleanupGroups pass (no wall-clock wait)", "DeleteGroups is not enumerated (Kafka removes offsets with an explicitly deleted group)"}
	var rp []c16Commit
	if ok, err := vh.LoadReplay(&rp); ok {
		if err != nil {
			t.Fatalf("HARNESS-ERROR %v", err)
		}
		for _, k := range []string{"inmem", "etcd"} {
			c16Run(rep, k, rp)
		}
		return
	}
	var events []c16Commit
	for g := range c16Groups {
		for tp := range c16Topics {
			for _, p := range []int32{0, 1} {
				for v := range c16Vals {
					events = append(events, c16Commit{G: g, T: tp, P: p, V: v})
				}
			}
		}
	}
	// multi-partition requests: first entry with/without metadata, second entry (other
	// partition of the same topic, or another topic) with null metadata
	for _, g := range []int{0, 2} {
		for _, v := range []int{0, 1} {
			events = append(events, c16Commit{G: g, T: 0, P: 0, V: v, Pair: true, T2: 0, P2: 1})
			events = append(events, c16Commit{G: g, T: 0, P: 1, V: v, Pair: true, T2: 1, P2: 0})
		}
	}
	rep.SetInfo("commit_alphabet", len(events))
	depth := 2
	deadline := vh.Deadline()
	shard, n := vh.Shard()
	cnt := 0
	enum.Sequences(len(events), depth, func(idx []int) bool {
		cnt++
		if cnt%n != shard {
			return true
		}
		if cnt%512 == 0 && !deadline.IsZero() && deadlinePassed(deadline) {
			rep.Cap("deadline")
			return false
		}
		hist := make([]c16Commit, len(idx))
		for i, v := range idx {
			hist[i] = events[v]
		}
		for _, k := range []string{"inmem", "etcd"} {
			c16Run(rep, k, hist)
		}
		return true
	})
	// Lifecycle run: commits interleaved with membership changes of the committing
	// group. Committed offsets must outlive the members (the statement: a fetch
	// returns the last successful commit), so the reference map ignores membership.
	lifeGroups := []int{0, 3}
	lifeDepth := 4
	if vh.Thorough() {
		lifeGroups = []int{0, 1, 3}
	}
	var life []c16Commit
	for _, g := range lifeGroups {
		for _, tp := range []int{0, 1} {
			for _, v := range []int{1, 0} {
				life = append(life, c16Commit{G: g, T: tp, P: 0, V: v})
			}
		}
	}
	for _, op := range []string{"leave", "expire", "join"} {
		for _, g := range lifeGroups {
			life = append(life, c16Commit{Op: op, G: g})
		}
	}
	rep.SetInfo("lifecycle_alphabet", len(life))
	rep.SetInfo("lifecycle_depth", lifeDepth)
	enum.Sequences(len(life), lifeDepth, func(idx []int) bool {
		hasOp := false
		for _, v := range idx {
			if life[v].Op != "" {
				hasOp = true
			}
		}
		if !hasOp {
			return true // pure commit histories belong to the run above
		}
		cnt++
		if cnt%n != shard {
			return true
		}
		if cnt%512 == 0 && !deadline.IsZero() && deadlinePassed(deadline) {
			rep.Cap("deadline (lifecycle run)")
			return false
		}
		hist := make([]c16Commit, len(idx))
		for i, v := range idx {
			hist[i] = life[v]
		}
		for _, k := range []string{"inmem", "etcd"} {
			c16Run(rep, k, hist)
		}
		return true
	})
	if vh.Thorough() {
		// depth 3 over the colliding names only
		var small []c16Commit
		for _, e := range events {
			if (e.G == 1 || e.G == 2 || e.G == 3) && (e.T == 1 || e.T == 2 || e.T == 3) && e.P == 0 && e.V < 2 {
				small = append(small, e)
			}
		}
		enum.Sequences(len(small), 3, func(idx []int) bool {
			if len(idx) < 3 {
				return true
			}
			cnt++
			if cnt%n != shard {
				return true
			}
			hist := make([]c16Commit, len(idx))
			for i, v := range idx {
				hist[i] = small[v]
			}
			for _, k := range []string{"inmem", "etcd"} {
				c16Run(rep, k, hist)
			}
			return true
		})
	}
}

func deadlinePassed(d time.Time) bool { return time.Now().After(d) }
