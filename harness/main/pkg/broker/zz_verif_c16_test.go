//go:build verif

package broker

import (
	"context"
	"fmt"
	"sort"
	"testing"
	"time"

	"github.com/KafScale/platform/internal/verif/enum"
	"github.com/KafScale/platform/internal/verif/fakeetcd"
	"github.com/KafScale/platform/internal/verif/vh"
	"github.com/KafScale/platform/pkg/metadata"
	"github.com/KafScale/platform/pkg/protocol"
	"github.com/twmb/franz-go/pkg/kmsg"
)

// C16: committed offsets read back exactly per (group, topic, partition) whatever
// characters the names contain; never-committed reads -1. Both stores, through the
// real GroupCoordinator.OffsetCommit / OffsetFetch.

type c16Commit struct {
	G, T int // indexes into the name alphabets
	P    int32
	V    int // value variant
	// Pair: a second partition entry in the SAME OffsetCommit request (T2/P2), committed
	// with offset 3 and NULL metadata (the wire distinguishes null from "")
	Pair bool
	T2   int
	P2   int32
}

var c16Groups = []string{"g", "a", "a:b", "a/offsets/b", "g é", "a/"}
var c16Topics = []string{"t", "c", "b:c", "b/offsets/c", "t/0", "./c"}
var c16Parts = []int32{0, 1, 10}

type c16Val struct {
	Off  int64
	Meta string
}

var c16Vals = []c16Val{{0, ""}, {7, "m"}, {0, "m"}, {1 << 62, ""}}

func c16Meta() metadata.ClusterMetadata {
	cid := "verif"
	return metadata.ClusterMetadata{Brokers: []protocol.MetadataBroker{{NodeID: 1, Host: "h", Port: 1}}, ControllerID: 1, ClusterID: &cid}
}

type c16Sys struct {
	kind    string
	coord   *GroupCoordinator
	members map[string]string
	gens    map[string]int32
	close   func()
}

func c16New(kind string) *c16Sys {
	s := &c16Sys{kind: kind, members: map[string]string{}, gens: map[string]int32{}}
	var store metadata.Store
	switch kind {
	case "inmem":
		store = metadata.NewInMemoryStore(c16Meta())
		s.close = func() {}
	case "etcd":
		srv := fakeetcd.NewServer()
		cli := srv.NewClient("b1")
		cli.NoPoints = true
		es := metadata.VerifNewEtcdStore(cli.C, c16Meta(), false)
		store = es
		s.close = func() { _ = es.Close() }
	}
	s.coord = NewGroupCoordinator(store, protocol.MetadataBroker{NodeID: 1, Host: "h", Port: 1}, nil)
	return s
}

func (s *c16Sys) member(group string) (string, int32, error) {
	if m, ok := s.members[group]; ok {
		return m, s.gens[group], nil
	}
	req := kmsg.NewPtrJoinGroupRequest()
	req.Version = 4
	req.Group = group
	req.SessionTimeoutMillis = 30000
	req.RebalanceTimeoutMillis = 30000
	req.ProtocolType = "consumer"
	p := kmsg.NewJoinGroupRequestProtocol()
	p.Name = "range"
	req.Protocols = append(req.Protocols, p)
	resp, err := s.coord.JoinGroup(context.Background(), req)
	if err != nil {
		return "", 0, err
	}
	if resp.ErrorCode != 0 {
		return "", 0, fmt.Errorf("join code %d", resp.ErrorCode)
	}
	s.members[group] = resp.MemberID
	s.gens[group] = resp.Generation
	return resp.MemberID, resp.Generation, nil
}

func (s *c16Sys) commit(c c16Commit) (int16, error) {
	g, t := c16Groups[c.G], c16Topics[c.T]
	m, gen, err := s.member(g)
	if err != nil {
		return 0, err
	}
	req := kmsg.NewPtrOffsetCommitRequest()
	req.Version = 5
	req.Group = g
	req.MemberID = m
	req.Generation = gen
	tp := kmsg.NewOffsetCommitRequestTopic()
	tp.Topic = t
	pp := kmsg.NewOffsetCommitRequestTopicPartition()
	pp.Partition = c.P
	pp.Offset = c16Vals[c.V].Off
	meta := c16Vals[c.V].Meta
	pp.Metadata = &meta
	tp.Partitions = append(tp.Partitions, pp)
	if c.Pair {
		p2 := kmsg.NewOffsetCommitRequestTopicPartition()
		p2.Partition = c.P2
		p2.Offset = 3
		p2.Metadata = nil
		if c.T2 == c.T {
			tp.Partitions = append(tp.Partitions, p2)
			req.Topics = append(req.Topics, tp)
		} else {
			req.Topics = append(req.Topics, tp)
			t2 := kmsg.NewOffsetCommitRequestTopic()
			t2.Topic = c16Topics[c.T2]
			t2.Partitions = append(t2.Partitions, p2)
			req.Topics = append(req.Topics, t2)
		}
	} else {
		req.Topics = append(req.Topics, tp)
	}
	resp, err := s.coord.OffsetCommit(context.Background(), req)
	if err != nil {
		return 0, err
	}
	for _, rt := range resp.Topics {
		for _, rp := range rt.Partitions {
			if rp.ErrorCode != 0 {
				return rp.ErrorCode, nil
			}
		}
	}
	return 0, nil
}

func (s *c16Sys) fetch(g, t string, p int32) (int64, string, int16, error) {
	req := kmsg.NewPtrOffsetFetchRequest()
	req.Version = 5
	req.Group = g
	tp := kmsg.NewOffsetFetchRequestTopic()
	tp.Topic = t
	tp.Partitions = []int32{p}
	req.Topics = append(req.Topics, tp)
	resp, err := s.coord.OffsetFetch(context.Background(), req)
	if err != nil {
		return 0, "", 0, err
	}
	if len(resp.Topics) != 1 || len(resp.Topics[0].Partitions) != 1 {
		return 0, "", 0, fmt.Errorf("reply shape")
	}
	pr := resp.Topics[0].Partitions[0]
	meta := ""
	if pr.Metadata != nil {
		meta = *pr.Metadata
	}
	return pr.Offset, meta, pr.ErrorCode, nil
}

type c16Key struct {
	G, T string
	P    int32
}

// c16Alias reports whether some committed tuple other than k maps to the same flat key
// as k under the store's key scheme (the mechanism behind cross-talk between names).
func c16Alias(kind string, k c16Key, ref map[c16Key]c16Val) bool {
	flat := func(x c16Key) string {
		if kind == "etcd" {
			return fmt.Sprintf("%s/offsets/%s/%d", x.G, x.T, x.P)
		}
		return fmt.Sprintf("%s:%s:%d", x.G, x.T, x.P)
	}
	for o := range ref {
		if o != k && flat(o) == flat(k) {
			return true
		}
	}
	return false
}

func c16Run(rep *vh.Report, kind string, hist []c16Commit) {
	s := c16New(kind)
	defer func() {
		s.coord.Stop()
		s.close()
	}()
	ref := map[c16Key]c16Val{}
	for _, c := range hist {
		code, err := s.commit(c)
		if err != nil {
			rep.Violationf("harness", hist, "%s commit %+v: %v", kind, c, err)
			return
		}
		if code == 0 {
			ref[c16Key{c16Groups[c.G], c16Topics[c.T], c.P}] = c16Vals[c.V]
			if c.Pair {
				ref[c16Key{c16Groups[c.G], c16Topics[c.T2], c.P2}] = c16Val{3, ""}
			}
		}
	}
	distinctKeys := map[c16Key]bool{}
	for _, c := range hist {
		distinctKeys[c16Key{c16Groups[c.G], c16Topics[c.T], c.P}] = true
		if c.Pair {
			distinctKeys[c16Key{c16Groups[c.G], c16Topics[c.T2], c.P2}] = true
		}
	}
	var sig []string
	for _, g := range c16Groups {
		for _, t := range c16Topics {
			for _, p := range c16Parts {
				off, meta, code, err := s.fetch(g, t, p)
				if err != nil || code != 0 {
					rep.Violationf(kind+":fetch-error", hist, "fetch(%q,%q,%d): err=%v code=%d", g, t, p, err, code)
					continue
				}
				want, ok := ref[c16Key{g, t, p}]
				if !ok {
					if off != -1 && c16Alias(kind, c16Key{g, t, p}, ref) {
						rep.Violationf(kind+":separator-in-name-key-aliasing", hist, "fetch(%q,%q,%d) with no commit returned (%d,%q): another tuple's commit under the same flat key; committed=%v", g, t, p, off, meta, ref)
					} else if off != -1 {
						key := kind + ":never-committed-reads-" + fmt.Sprint(off)
						if len(ref) > 0 && off != 0 {
							key = kind + ":uncommitted-partition-sees-other-commit"
						} else if len(ref) > 0 {
							// 0 could be the store's "missing" answer or another key's commit at offset 0
							for k2, v2 := range ref {
								if v2.Off == off && v2.Meta == meta && (k2.G != g || k2.T != t || k2.P != p) && meta != "" {
									key = kind + ":uncommitted-partition-sees-other-commit"
								}
							}
						}
						rep.Violationf(key, hist, "fetch(%q,%q,%d) with no commit returned offset %d meta %q (want -1); committed=%v", g, t, p, off, meta, ref)
					} else if meta != "" {
						rep.Violationf(kind+":uncommitted-partition-sees-other-commit", hist, "fetch(%q,%q,%d) with no commit returned metadata %q", g, t, p, meta)
					}
					continue
				}
				if (off != want.Off || meta != want.Meta) && c16Alias(kind, c16Key{g, t, p}, ref) {
					rep.Violationf(kind+":separator-in-name-key-aliasing", hist, "fetch(%q,%q,%d) = (%d,%q), last commit was (%d,%q): overwritten through another tuple with the same flat key; all=%v", g, t, p, off, meta, want.Off, want.Meta, ref)
				} else if off != want.Off || meta != want.Meta {
					rep.Violationf(kind+":name-aliasing-or-lost-commit", hist, "fetch(%q,%q,%d) = (%d,%q), last commit was (%d,%q); all=%v", g, t, p, off, meta, want.Off, want.Meta, ref)
				}
				sig = append(sig, fmt.Sprintf("%d/%s", off, meta))
			}
		}
	}
	sort.Strings(sig)
	rep.Eval(1)
	rep.Outcome(kind+fmt.Sprint(hist), len(distinctKeys) >= 2)
	if len(distinctKeys) >= 2 && rep.WantSample() {
		rep.Sample(map[string]any{"store": kind, "history": hist, "committed": fmt.Sprint(ref)})
	}
}

func TestVerifC16(t *testing.T) {
	rep := vh.New(t, "C16")
	defer rep.Finish()
	rep.Rule = "every history of <=2 (thorough 3 over a reduced alphabet) successful commits over groups x topics x partitions x (offset,metadata) variants, names chosen to collide under ':' and '/offsets/' key schemes, through real GroupCoordinator.OffsetCommit; then OffsetFetch of every (group,topic,partition) of the alphabet vs a tuple-keyed reference map; both stores (InMemoryStore, EtcdStore over fake etcd); distinct = distinct histories; non-trivial = history touches >= 2 distinct keys"
	rep.Assumptions = []string{"fake etcd stands for etcd (plain Put/Get/prefix Get)"}
	var rp []c16Commit
	if ok, err := vh.LoadReplay(&rp); ok {
		if err != nil {
			t.Fatalf("HARNESS-ERROR %v", err)
		}
		for _, k := range []string{"inmem", "etcd"} {
			c16Run(rep, k, rp)
		}
		return
	}
	var events []c16Commit
	for g := range c16Groups {
		for tp := range c16Topics {
			for _, p := range []int32{0, 1} {
				for v := range c16Vals {
					events = append(events, c16Commit{G: g, T: tp, P: p, V: v})
				}
			}
		}
	}
	// multi-partition requests: first entry with/without metadata, second entry (other
	// partition of the same topic, or another topic) with null metadata
	for _, g := range []int{0, 2} {
		for _, v := range []int{0, 1} {
			events = append(events, c16Commit{G: g, T: 0, P: 0, V: v, Pair: true, T2: 0, P2: 1})
			events = append(events, c16Commit{G: g, T: 0, P: 1, V: v, Pair: true, T2: 1, P2: 0})
		}
	}
	rep.SetInfo("commit_alphabet", len(events))
	depth := 2
	deadline := vh.Deadline()
	shard, n := vh.Shard()
	cnt := 0
	enum.Sequences(len(events), depth, func(idx []int) bool {
		cnt++
		if cnt%n != shard {
			return true
		}
		if cnt%512 == 0 && !deadline.IsZero() && deadlinePassed(deadline) {
			rep.Cap("deadline")
			return false
		}
		hist := make([]c16Commit, len(idx))
		for i, v := range idx {
			hist[i] = events[v]
		}
		for _, k := range []string{"inmem", "etcd"} {
			c16Run(rep, k, hist)
		}
		return true
	})
	if vh.Thorough() {
		// depth 3 over the colliding names only
		var small []c16Commit
		for _, e := range events {
			if (e.G == 1 || e.G == 2 || e.G == 3) && (e.T == 1 || e.T == 2 || e.T == 3) && e.P == 0 && e.V < 2 {
				small = append(small, e)
			}
		}
		enum.Sequences(len(small), 3, func(idx []int) bool {
			if len(idx) < 3 {
				return true
			}
			cnt++
			if cnt%n != shard {
				return true
			}
			hist := make([]c16Commit, len(idx))
			for i, v := range idx {
				hist[i] = small[v]
			}
			for _, k := range []string{"inmem", "etcd"} {
				c16Run(rep, k, hist)
			}
			return true
		})
	}
}

func deadlinePassed(d time.Time) bool { return time.Now().After(d) }
