//go:build verif

package broker

import (
	"context"
	"fmt"
	"sort"
	"testing"

	"github.com/KafScale/platform/internal/verif/sched"
	"github.com/KafScale/platform/internal/verif/vh"
	"github.com/KafScale/platform/pkg/metadata"
	"github.com/KafScale/platform/pkg/protocol"
)

// C15, schedule dimension: whatever the interleaving of two requests on one group, the
// state persisted in the metadata store at quiescence is the state the coordinator holds,
// so a coordinator that takes over reports the same generation, state, leader and members.
//
// Closed system: stable group {A, B}; T1 = one request of member A, T2 = one membership
// change (leave of B / join of a new member C / heartbeat of B); the coordinator mutex and
// every store call are scheduling points. After both finish a fresh coordinator is
// restored from the store and compared with the continuing one.

func c15cProjection(c *GroupCoordinator) string {
	c.mu.Lock()
	defer c.mu.Unlock()
	st, err := c.loadGroupIfMissing(context.Background(), "g")
	if err != nil || st == nil {
		return fmt.Sprintf("nogroup(%v)", err)
	}
	ids := make([]string, 0, len(st.members))
	for id := range st.members {
		ids = append(ids, id)
	}
	sort.Strings(ids)
	return fmt.Sprintf("gen=%d state=%v leader=%s members=%v", st.generationID, st.state, st.leaderID, ids)
}

func c15cBody(variant int) func(s *sched.Sched) {
	return func(s *sched.Sched) {
		cid := "verif"
		name := "a"
		meta := metadata.ClusterMetadata{Brokers: []protocol.MetadataBroker{{NodeID: 1, Host: "h", Port: 1}}, ControllerID: 1, ClusterID: &cid,
			Topics: []protocol.MetadataTopic{{Topic: &name, Partitions: []protocol.MetadataPartition{{Partition: 0, Leader: 1, Replicas: []int32{1}, ISR: []int32{1}}}}}}
		inner := metadata.NewInMemoryStore(meta)
		br := protocol.MetadataBroker{NodeID: 1, Host: "h", Port: 1}
		c := NewGroupCoordinator(&c13cStore{inner}, br, nil)
		defer c.Stop()
		ja, _ := c13cJoin(c, "")
		_, _ = c13cSync(c, ja.MemberID, ja.Generation)
		jb, _ := c13cJoin(c, "")
		ja2, _ := c13cJoin(c, ja.MemberID)
		if ja2 == nil || jb == nil || ja2.ErrorCode != 0 {
			s.Fail("harness", "setup")
			return
		}
		gen := ja2.Generation
		_, _ = c13cSync(c, ja.MemberID, gen)
		_, _ = c13cSync(c, jb.MemberID, gen)
		a, b := ja.MemberID, jb.MemberID
		s.Go("T1", func() {
			switch variant % 2 {
			case 0:
				_ = c13cHeartbeat(c, a, gen)
			case 1:
				_, _ = c13cCommit(c, a, gen, 5)
			}
		})
		s.Go("T2", func() {
			switch variant / 2 {
			case 0:
				c13cLeave(c, b)
			case 1:
				_, _ = c13cJoin(c, "")
			case 2:
				_ = c13cHeartbeat(c, b, gen)
			}
		})
		s.Run()
		if s.Deadlock {
			s.Fail("deadlock", "blocked: %s", s.Blocked())
			return
		}
		cont := c15cProjection(c)
		c2 := NewGroupCoordinator(inner, br, nil)
		defer c2.Stop()
		rest := c15cProjection(c2)
		if cont != rest {
			s.Fail("persisted-state-stale-after-concurrent-requests", "continuing coordinator: %s; restored from the store: %s", cont, rest)
		}
		s.Note("%s", cont)
	}
}

func TestVerifC15Conc(t *testing.T) {
	rep := vh.New(t, "C15")
	defer rep.Finish()
	rep.Rule = "schedule half: for each pair (request of member A in {heartbeat, commit}) x (membership change in {leave B, join C, heartbeat B}) on a stable group: DFS over all interleavings (preemption bound; coordinator mutex and store calls are scheduling points); at quiescence a coordinator restored from the store must equal the continuing one (generation, state, leader, members); distinct = distinct final projections per pair; non-trivial = >=1 thread switch"
	P := 3
	if vh.Thorough() {
		P = 4
	}
	var rp struct {
		Variant int
		Choices []int
	}
	if ok, err := vh.LoadReplay(&rp); ok {
		if err != nil || rp.Choices == nil {
			return
		}
		x := sched.RunOnce(t, sched.Config{}, rp.Choices, true, c15cBody(rp.Variant))
		fmt.Printf("REPLAY variant=%d choices=%v steps=%v notes=%v fails=%+v\n", rp.Variant, rp.Choices, x.Steps, x.Notes, x.Fails)
		rep.Eval(1)
		for _, f := range x.Fails {
			rep.Violation("concurrent:"+f.Key, f.Detail, rp)
		}
		return
	}
	total := 0
	for variant := 0; variant < 6; variant++ {
		variant := variant
		st := sched.Explore(t, sched.Config{MaxPreempt: P, Deadline: vh.Deadline()}, c15cBody(variant), func(x *sched.Exec) {
			rep.Eval(1)
			sw, _ := x.NonDefault()
			rep.Outcome(fmt.Sprint("c15conc", variant, x.Notes), sw > 0)
			if sw > 1 {
				rep.Sample(map[string]any{"half": "schedules", "variant": variant, "choices": x.Choices, "outcome": x.Notes})
			}
			for _, f := range x.Fails {
				rep.Violation("concurrent:"+f.Key, f.Detail, map[string]any{"Variant": variant, "Choices": x.Choices})
			}
		})
		total += st.Execs
		if st.Capped {
			rep.Cap("deadline in the schedule half")
		}
	}
	rep.Count("concurrent_executions", int64(total))
}
