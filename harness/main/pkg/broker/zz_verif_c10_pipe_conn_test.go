//go:build verif

package broker

// C10, server level, pipelined streams: every stream of several request frames listed by the
// pkg/protocol harness (zz_verif_c10_pipe_test.go) is served by the real
// Server.handleConnection over an in-memory net.Conn whose Read hands the bytes out in every
// chunking of the bounded family: the whole pipelined stream available at once (the client
// flushed it with ONE write), one write per frame, one byte at a time, and a split at every
// single offset. The stub Handler records what it is given and answers with the request's
// correlation id. Oracle: the handler sees exactly the requests that were encoded, in order
// (api key, version, correlation id, client id, body), and the connection carries one response
// frame per request, in order, with the matching correlation id; no panic, also with a
// trailing partial frame before EOF. Worker of TestVerifC10 (pkg/protocol); skipped on its own.

import (
	"bytes"
	"context"
	"encoding/binary"
	"encoding/hex"
	"encoding/json"
	"fmt"
	"io"
	"log"
	"net"
	"os"
	"strings"
	"testing"
	"time"

	"github.com/twmb/franz-go/pkg/kmsg"

	"github.com/KafScale/platform/pkg/protocol"
)

type c10pSpec struct {
	Key      int16   `json:"key"`
	Version  int16   `json:"version"`
	Variant  int     `json:"variant"`
	ClientID *string `json:"client_id"`
	Corr     int32   `json:"corr"`
}

type c10pChunk struct {
	Mode string `json:"mode"`
	Cuts []int  `json:"cuts,omitempty"`
}

type c10pConnFrame struct {
	Name     string   `json:"name"`
	Spec     c10pSpec `json:"spec"`
	BodyHex  string   `json:"body_hex"`
	FrameHex string   `json:"frame_hex"`
	body     []byte
	frame    []byte
}

type c10pConnCase struct {
	Frames  []int  `json:"frames"`
	TailHex string `json:"tail_hex,omitempty"`
	Every   bool   `json:"every_offset"`
}

type c10pConnInput struct {
	Frames []*c10pConnFrame `json:"frames"`
	Cases  []c10pConnCase   `json:"cases"`
}

type c10pConnViol struct {
	Key    string    `json:"key"`
	Detail string    `json:"detail"`
	Case   int       `json:"case"`
	Chunk  c10pChunk `json:"chunk"`
}

type c10pConnOutput struct {
	Capped     string           `json:"capped,omitempty"`
	Evals      int64            `json:"evals"`
	Sigs       map[string]bool  `json:"sigs"`
	Counts     map[string]int64 `json:"counts"`
	Violations []c10pConnViol   `json:"violations"`
}

// c10pConn: the client side is a fixed byte stream handed out according to a chunking; what
// the server writes is collected.
type c10pConn struct {
	data    []byte
	pos     int
	cuts    []int
	ci      int
	byteway bool
	out     bytes.Buffer
}

func (c *c10pConn) Read(p []byte) (int, error) {
	if c.pos >= len(c.data) {
		return 0, io.EOF
	}
	if len(p) == 0 {
		return 0, nil
	}
	end := len(c.data)
	if c.byteway {
		end = c.pos + 1
	} else {
		for c.ci < len(c.cuts) && c.cuts[c.ci] <= c.pos {
			c.ci++
		}
		if c.ci < len(c.cuts) && c.cuts[c.ci] < end {
			end = c.cuts[c.ci]
		}
	}
	n := copy(p, c.data[c.pos:end])
	c.pos += n
	return n, nil
}
func (c *c10pConn) Write(p []byte) (int, error) { return c.out.Write(p) }
func (c *c10pConn) Close() error                { return nil }
func (c *c10pConn) LocalAddr() net.Addr         { return &net.TCPAddr{IP: net.IPv4(127, 0, 0, 1), Port: 9092} }
func (c *c10pConn) RemoteAddr() net.Addr {
	return &net.TCPAddr{IP: net.IPv4(127, 0, 0, 1), Port: 40000}
}
func (c *c10pConn) SetDeadline(time.Time) error      { return nil }
func (c *c10pConn) SetReadDeadline(time.Time) error  { return nil }
func (c *c10pConn) SetWriteDeadline(time.Time) error { return nil }

type c10pSeen struct {
	key, version int16
	corr         int32
	cid          *string
	body         []byte
}

type c10pHandler struct{ seen []c10pSeen }

func (h *c10pHandler) Handle(ctx context.Context, header *protocol.RequestHeader, req kmsg.Request) ([]byte, error) {
	s := c10pSeen{key: header.APIKey, version: header.APIVersion, corr: header.CorrelationID, body: req.AppendTo(nil)}
	if header.ClientID != nil {
		v := *header.ClientID
		s.cid = &v
	}
	h.seen = append(h.seen, s)
	// response payload: correlation id first (as every Kafka response), then key, version, index
	resp := make([]byte, 12)
	binary.BigEndian.PutUint32(resp[0:], uint32(header.CorrelationID))
	binary.BigEndian.PutUint16(resp[4:], uint16(header.APIKey))
	binary.BigEndian.PutUint16(resp[6:], uint16(header.APIVersion))
	binary.BigEndian.PutUint32(resp[8:], uint32(len(h.seen)))
	return resp, nil
}

// c10pServe runs one stream through handleConnection and judges it. key "" = holds.
func c10pServe(frames []*c10pConnFrame, stream []byte, ch c10pChunk) (key, detail, last string) {
	h := &c10pHandler{}
	conn := &c10pConn{data: stream, cuts: ch.Cuts, byteway: ch.Mode == "byte"}
	func() {
		defer func() {
			if p := recover(); p != nil {
				k, m := c10ConnClassify(p)
				key, detail = "server-"+k, "Server.handleConnection panicked: "+strings.ReplaceAll(m, "\n", " ")
			}
		}()
		(&Server{Handler: h}).handleConnection(conn)
	}()
	if key != "" {
		return
	}
	pos := func(i int) string {
		if i == 0 {
			return "first"
		}
		return "later"
	}
	for i, f := range frames {
		if i >= len(h.seen) {
			return "conn-pipelined-request-lost@" + pos(i) + "-frame",
				fmt.Sprintf("the handler was given %d of the %d pipelined requests; request #%d (%s) never arrived", len(h.seen), len(frames), i, f.Name), ""
		}
		s, g := f.Spec, h.seen[i]
		what := ""
		switch {
		case g.key != s.Key:
			what = fmt.Sprintf("api-key: got %d sent %d", g.key, s.Key)
		case g.version != s.Version:
			what = fmt.Sprintf("version: got %d sent %d", g.version, s.Version)
		case g.corr != s.Corr:
			what = fmt.Sprintf("correlation-id: got %d sent %d", g.corr, s.Corr)
		case (g.cid == nil) != (s.ClientID == nil):
			what = fmt.Sprintf("client-id-nullness: got null=%v sent null=%v", g.cid == nil, s.ClientID == nil)
		case g.cid != nil && *g.cid != *s.ClientID:
			what = fmt.Sprintf("client-id: got %q sent %q", *g.cid, *s.ClientID)
		case !bytes.Equal(g.body, f.body):
			what = fmt.Sprintf("body: re-encoded %d bytes, sent %d bytes", len(g.body), len(f.body))
		}
		if what != "" {
			return "conn-pipelined-request-mismatch:" + strings.SplitN(what, ":", 2)[0] + "@" + pos(i) + "-frame",
				fmt.Sprintf("request #%d (%s) reached the handler changed (%s)", i, f.Name, what), ""
		}
	}
	if len(h.seen) > len(frames) {
		last = "extra-request-handled"
	}
	// responses: one frame per request, in order, matching correlation id
	out := conn.out.Bytes()
	for i, f := range frames {
		if len(out) < 4 {
			return "conn-pipelined-response-missing@" + pos(i) + "-frame",
				fmt.Sprintf("no response frame for request #%d (%s); %d response bytes left", i, f.Name, len(out)), ""
		}
		n := int(binary.BigEndian.Uint32(out))
		if n < 4 || len(out) < 4+n {
			return "conn-pipelined-response-misframed@" + pos(i) + "-frame",
				fmt.Sprintf("response #%d declares %d bytes, %d present", i, n, len(out)-4), ""
		}
		if c := int32(binary.BigEndian.Uint32(out[4:])); c != f.Spec.Corr {
			return "conn-pipelined-response-order@" + pos(i) + "-frame",
				fmt.Sprintf("response #%d carries correlation id %d, request #%d had %d", i, c, i, f.Spec.Corr), ""
		}
		out = out[4+n:]
	}
	if len(out) > 0 && last == "" {
		last = "extra-response-bytes"
	}
	if last == "" {
		last = "answered-all"
	}
	return "", "", last
}

func TestVerifC10PipeConn(t *testing.T) {
	in, outp := os.Getenv("C10_PIPE_CASES"), os.Getenv("C10_PIPE_RESULTS")
	if in == "" || outp == "" {
		t.Skip("worker of TestVerifC10 (pkg/protocol)")
	}
	log.SetOutput(io.Discard)
	defer log.SetOutput(os.Stderr)
	b, err := os.ReadFile(in)
	if err != nil {
		t.Fatalf("HARNESS-ERROR %v", err)
	}
	var input c10pConnInput
	if err := json.Unmarshal(b, &input); err != nil {
		t.Fatalf("HARNESS-ERROR %v", err)
	}
	for _, f := range input.Frames {
		if f.body, err = hex.DecodeString(f.BodyHex); err != nil {
			t.Fatalf("HARNESS-ERROR %v", err)
		}
		if f.frame, err = hex.DecodeString(f.FrameHex); err != nil {
			t.Fatalf("HARNESS-ERROR %v", err)
		}
	}
	res := c10pConnOutput{Sigs: map[string]bool{}, Counts: map[string]int64{}}
	// violation budget as in the parser-level phase (a mis-framed stream makes ReadFrame
	// allocate whatever length the request bytes spell)
	const maxViolPerCase, maxViolCases = 6, 8
	violCases := 0
	for ci, c := range input.Cases {
		if violCases >= maxViolCases {
			res.Capped = fmt.Sprintf("server-level pipelined phase stopped after %d violating streams (stream %d of %d)", maxViolCases, ci, len(input.Cases))
			break
		}
		violHere := 0
		var frames []*c10pConnFrame
		var stream []byte
		var bounds []int
		shape := ""
		for _, fi := range c.Frames {
			if fi < 0 || fi >= len(input.Frames) {
				t.Fatalf("HARNESS-ERROR case %d names frame %d", ci, fi)
			}
			f := input.Frames[fi]
			frames = append(frames, f)
			stream = append(stream, f.frame...)
			bounds = append(bounds, len(stream))
			shape += fmt.Sprint(len(f.body) > 0)[:1]
		}
		tail, err := hex.DecodeString(c.TailHex)
		if err != nil {
			t.Fatalf("HARNESS-ERROR %v", err)
		}
		if len(tail) == 0 {
			bounds = bounds[:len(bounds)-1]
		} else {
			shape += "+partial"
		}
		stream = append(stream, tail...)
		chunks := []c10pChunk{{Mode: "all"}, {Mode: "byte"}, {Mode: "frames", Cuts: bounds}}
		if c.Every {
			for k := 1; k < len(stream); k++ {
				chunks = append(chunks, c10pChunk{Mode: "split", Cuts: []int{k}})
			}
		}
		for _, ch := range chunks {
			res.Evals++
			key, detail, last := c10pServe(frames, stream, ch)
			r := "same"
			if key != "" {
				r = key
			}
			res.Sigs[shape+"|"+ch.Mode+"|"+r+"|"+last] = true
			if key != "" {
				res.Counts[key]++
				if res.Counts[key] <= 3 { // cases arrive simplest first
					res.Violations = append(res.Violations, c10pConnViol{Key: key, Detail: detail, Case: ci, Chunk: ch})
				}
				if violHere++; violHere >= maxViolPerCase {
					break
				}
			}
		}
		if violHere > 0 {
			violCases++
		}
	}
	ob, err := json.Marshal(res)
	if err == nil {
		err = os.WriteFile(outp, ob, 0o644)
	}
	if err != nil {
		t.Fatalf("HARNESS-ERROR %v", err)
	}
}
