//go:build verif

package broker

import (
	"fmt"
	"sort"
	"testing"

	"github.com/KafScale/platform/internal/verif/xstate"
)

// C12: a completed rebalance assigns each partition to exactly one subscriber.
//
// Judged at every successful SyncGroup reply (the observation point of the property):
//   - the reply's MemberAssignment decodes, names only topics the member subscribed to in
//     its last join, only partitions that exist, none twice;
//   - a member that syncs again in the same generation gets the same assignment;
//   - the latest successful replies of the members of this generation are pairwise
//     disjoint, and once every current member has one they cover every partition of
//     every topic subscribed by at least one current member exactly once;
//   - (in-package, so that coverage is judged at the first successful sync rather than
//     only after all members synced) the coordinator's assignment map equals what the
//     reply carried and is an exact cover over the current members.
type coordC12 struct{}

func (coordC12) NeedShadow() bool                                     { return false }
func (coordC12) CheckTick(*coordWorld, *coordTick) []xstate.Violation { return nil }

func coordSubscribes(subs []string, topic string) bool {
	for _, s := range subs {
		if s == topic {
			return true
		}
	}
	return false
}

func (coordC12) KeepSyncBytes() bool { return true }

// coordRetainedCheck re-reads, after every event, the MemberAssignment slices of the successful
// SyncGroup replies of the current generation exactly as they were returned (a client may read its
// reply at any later time): (a) the bytes must still be what they were at reply time; (b) once
// every current member holds a reply of this generation, the retained replies are judged like the
// decoded ones: subscribed topics only, pairwise disjoint, every partition exactly one owner.
func coordRetainedCheck(w *coordWorld, st *coordStep) []xstate.Violation {
	var out []xstate.Violation
	retained := map[string]map[string][]int32{}
	for _, id := range st.Post.IDs {
		k := w.kept[id]
		if k == nil || k.Gen != st.Post.Gen {
			continue
		}
		if string(k.Raw) != string(k.Copy) {
			out = append(out, coordViol("sync-reply-bytes-changed-after-later-sync", "the MemberAssignment bytes handed to %s in generation %d were %x at reply time and read %x after the later %s event", w.name(id), k.Gen, k.Copy, k.Raw, st.K))
		}
		a, err := coordDecodeAssignment(k.Raw)
		if err != nil {
			out = append(out, coordViol("retained-sync-reply-undecodable", "the retained sync reply of %s (generation %d) no longer decodes after %s: %v", w.name(id), k.Gen, st.K, err))
			continue
		}
		retained[id] = a
	}
	// unchanged bytes decode to exactly the replies that checkSync judges (with its own keys): the
	// cover over the retained slices only says something new when some slice changed
	if len(out) == 0 || st.K != "sync" || st.Resp == nil || !st.Resp.ok() || len(retained) != len(st.Post.IDs) {
		return out
	}
	subsOf := func(id string) []string {
		if m := w.led.M[id]; m != nil {
			return m.Subs
		}
		return nil
	}
	return append(out, coordCoverCheck(w, "retained reply", retained, st.Post.IDs, subsOf, true)...)
}

func (c12 coordC12) Check(w *coordWorld, st *coordStep) []xstate.Violation {
	out := coordRetainedCheck(w, st)
	return append(out, c12.checkSync(w, st)...)
}

func (coordC12) checkSync(w *coordWorld, st *coordStep) []xstate.Violation {
	if st.K != "sync" {
		return nil
	}
	r := st.Resp
	if r.Panic != "" {
		return []xstate.Violation{coordViol("panic-in-syncgroup", "SyncGroup(%s) panicked: %s", w.name(st.ReqMember), r.Panic)}
	}
	if !r.ok() {
		return nil
	}
	var out []xstate.Violation
	me := st.ReqMember
	who := w.name(me)
	if r.AssignErr != "" {
		return []xstate.Violation{coordViol("assignment-undecodable", "sync reply of %s: %s", who, r.AssignErr)}
	}
	lm := w.led.M[me]
	if lm == nil || !st.Post.has(me) {
		return []xstate.Violation{coordViol("sync-success-for-non-member", "%s is not a member but its sync succeeded with %s", who, coordAssignString(r.Assign))}
	}
	// 1. own reply: subscribed topics, existing partitions, no duplicates
	for topic, parts := range r.Assign {
		if !coordSubscribes(lm.Subs, topic) {
			out = append(out, coordViol("assigned-unsubscribed-topic", "%s subscribed %v but was assigned %s%v", who, lm.Subs, topic, parts))
		}
		seen := map[int32]bool{}
		for _, p := range parts {
			if n, ok := coordTopicParts[topic]; !ok || p < 0 || p >= n {
				out = append(out, coordViol("assigned-nonexistent-partition", "%s was assigned %s:%d (topic has %d partitions)", who, topic, p, coordTopicParts[topic]))
			}
			if seen[p] {
				out = append(out, coordViol("partition-listed-twice", "%s was assigned %s:%d twice", who, topic, p))
			}
			seen[p] = true
		}
	}
	// 2. same generation, same member, same answer
	if lm.HasSync && lm.SyncGen == st.ReqGen && coordAssignString(lm.SyncAssign) != coordAssignString(r.Assign) {
		out = append(out, coordViol("assignment-changed-within-generation", "%s got %s and later %s in generation %d", who, coordAssignString(lm.SyncAssign), coordAssignString(r.Assign), st.ReqGen))
	}
	// 3. the replies of this generation, over the current members
	replies := map[string]map[string][]int32{me: r.Assign}
	for _, id := range st.Post.IDs {
		if id == me {
			continue
		}
		if o := w.led.M[id]; o != nil && o.HasSync && o.SyncGen == st.ReqGen {
			replies[id] = o.SyncAssign
		}
	}
	subsOf := func(id string) []string {
		if m := w.led.M[id]; m != nil {
			if id == me {
				return lm.Subs
			}
			return m.Subs
		}
		return nil
	}
	out = append(out, coordCoverCheck(w, "reply", replies, st.Post.IDs, subsOf, len(replies) == len(st.Post.IDs))...)
	// 4. in-package: the stored map
	stored := map[string]map[string][]int32{}
	for _, id := range st.Post.IDs {
		a := st.Post.Members[id].Assign
		if a == nil {
			a = map[string][]int32{}
		}
		stored[id] = a
	}
	if coordAssignString(stored[me]) != coordAssignString(r.Assign) {
		out = append(out, coordViol("reply-differs-from-stored-assignment", "%s was sent %s but the coordinator stores %s", who, coordAssignString(r.Assign), coordAssignString(stored[me])))
	}
	out = append(out, coordCoverCheck(w, "stored", stored, st.Post.IDs, subsOf, true)...)
	// mechanism: a member re-joined with another subscription, was answered NONE in the same
	// generation, and the old assignment is still handed out
	if len(out) > 0 {
		var resub []string
		for _, id := range st.Post.IDs {
			if m := w.led.M[id]; m != nil && m.ResubGen == st.ReqGen && st.ReqGen != 0 {
				resub = append(resub, w.name(id))
			}
		}
		if len(resub) > 0 {
			for i := range out {
				out[i].Detail = "[" + out[i].Key + "] " + out[i].Detail + fmt.Sprintf(" (members that changed their subscription in generation %d without a rebalance: %v)", st.ReqGen, resub)
				out[i].Key = "resubscribe-without-rebalance"
			}
		}
	}
	return out
}

// coordCoverCheck: owners are pairwise disjoint and subscribe to what they own; when
// complete, every partition of every topic subscribed by a current member has an owner.
func coordCoverCheck(w *coordWorld, what string, as map[string]map[string][]int32, members []string, subsOf func(string) []string, complete bool) []xstate.Violation {
	var out []xstate.Violation
	owner := map[string]string{}
	ids := make([]string, 0, len(as))
	for id := range as {
		ids = append(ids, id)
	}
	sort.Strings(ids)
	for _, id := range ids {
		topics := make([]string, 0, len(as[id]))
		for t := range as[id] {
			topics = append(topics, t)
		}
		sort.Strings(topics)
		for _, t := range topics {
			for _, p := range as[id][t] {
				tp := fmt.Sprintf("%s:%d", t, p)
				if prev, ok := owner[tp]; ok && prev != id {
					out = append(out, coordViol("partition-assigned-to-two-members", "%s assignments: %s owned by %s and %s", what, tp, w.name(prev), w.name(id)))
				}
				owner[tp] = id
				if !coordSubscribes(subsOf(id), t) {
					out = append(out, coordViol("assigned-unsubscribed-topic", "%s assignments: %s owns %s but subscribed %v", what, w.name(id), tp, subsOf(id)))
				}
			}
		}
	}
	if !complete {
		return out
	}
	topics := make([]string, 0, len(coordTopicParts))
	for t := range coordTopicParts {
		topics = append(topics, t)
	}
	sort.Strings(topics)
	for _, t := range topics {
		wanted := false
		for _, id := range members {
			if coordSubscribes(subsOf(id), t) {
				wanted = true
			}
		}
		if !wanted {
			continue
		}
		for p := int32(0); p < coordTopicParts[t]; p++ {
			if _, ok := owner[fmt.Sprintf("%s:%d", t, p)]; !ok {
				out = append(out, coordViol("partition-unassigned", "%s assignments of all %d members: %s:%d has no owner although a member subscribes to %s", what, len(members), t, p, t))
			}
		}
	}
	return out
}

func TestVerifC12(t *testing.T) {
	coordRunCheck(t, "C12", func() coordOracle { return coordC12{} },
		"BFS over all event histories (join/rejoin/sync/heartbeat/commit/leave/advance/failover/stale-member events, every rank of every new member id) up to the depth bound, states merged by canonical key; every transition is executed on the real GroupCoordinator; judged at every successful SyncGroup reply: subscribed topics only, existing partitions, consistent within the generation, pairwise disjoint, exact cover once all members have an assignment (replies and the in-package assignment map). distinct = distinct (store, event, reply, state change) observations; non-trivial = the event got an error code or changed the observable group state or a committed offset",
		[]string{"subscriptions of a member are those of its last JoinGroup request; partition counts are a:2 b:1 and do not change"})
}
