//go:build verif

package broker

import (
	"context"
	"fmt"
	"testing"

	"github.com/KafScale/platform/internal/verif/sched"
	"github.com/KafScale/platform/internal/verif/vh"
	metadatapb "github.com/KafScale/platform/pkg/gen/metadata"
	"github.com/KafScale/platform/pkg/metadata"
	"github.com/KafScale/platform/pkg/protocol"
	"github.com/twmb/franz-go/pkg/kmsg"
)

// C13, schedule dimension: a commit from a member that is no longer in the current
// generation changes no committed offset - under every interleaving of the commit with
// the membership operations that fence the member.
//
// Closed system: a stable single-member group (m1, generation g) on a real
// GroupCoordinator over the real InMemoryStore (every store write is a scheduling
// point; coordinator.go's mutex is a vsync lock). Thread T1 commits offset 5 as m1 at g.
// Thread T2 fences m1 and lets a successor commit: leave(m1); join(new m2); sync(m2);
// commit(m2, g', 9). Oracle (linearizability, specialised): T2's commit is issued after
// m1 has left, so if it is acknowledged the committed offset at the end must be 9,
// whatever T1's commit returned: an acknowledged T1 commit linearises before the leave.

type c13cStore struct {
	metadata.Store
}

func (s *c13cStore) CommitConsumerOffset(ctx context.Context, group, topic string, partition int32, offset int64, meta string) error {
	sched.Env("store.CommitConsumerOffset")
	return s.Store.CommitConsumerOffset(ctx, group, topic, partition, offset, meta)
}

func (s *c13cStore) FetchConsumerGroup(ctx context.Context, id string) (*metadatapb.ConsumerGroup, error) {
	sched.Env("store.FetchConsumerGroup")
	return s.Store.FetchConsumerGroup(ctx, id)
}

func (s *c13cStore) PutConsumerGroup(ctx context.Context, g *metadatapb.ConsumerGroup) error {
	sched.Env("store.PutConsumerGroup")
	return s.Store.PutConsumerGroup(ctx, g)
}

func c13cJoin(c *GroupCoordinator, member string) (*kmsg.JoinGroupResponse, error) {
	req := kmsg.NewPtrJoinGroupRequest()
	req.Version = 4
	req.Group = "g"
	req.MemberID = member
	req.SessionTimeoutMillis = 30000
	req.RebalanceTimeoutMillis = 30000
	req.ProtocolType = "consumer"
	p := kmsg.NewJoinGroupRequestProtocol()
	p.Name = "range"
	req.Protocols = append(req.Protocols, p)
	return c.JoinGroup(context.Background(), req)
}

func c13cSync(c *GroupCoordinator, member string, gen int32) (int16, error) {
	req := kmsg.NewPtrSyncGroupRequest()
	req.Version = 3
	req.Group = "g"
	req.MemberID = member
	req.Generation = gen
	resp, err := c.SyncGroup(context.Background(), req)
	if err != nil {
		return 0, err
	}
	return resp.ErrorCode, nil
}

func c13cCommit(c *GroupCoordinator, member string, gen int32, off int64) (int16, error) {
	req := kmsg.NewPtrOffsetCommitRequest()
	req.Version = 5
	req.Group = "g"
	req.MemberID = member
	req.Generation = gen
	tp := kmsg.NewOffsetCommitRequestTopic()
	tp.Topic = "a"
	pp := kmsg.NewOffsetCommitRequestTopicPartition()
	pp.Partition = 0
	pp.Offset = off
	tp.Partitions = append(tp.Partitions, pp)
	req.Topics = append(req.Topics, tp)
	resp, err := c.OffsetCommit(context.Background(), req)
	if err != nil {
		return 0, err
	}
	return resp.Topics[0].Partitions[0].ErrorCode, nil
}

func c13cLeave(c *GroupCoordinator, member string) {
	req := kmsg.NewPtrLeaveGroupRequest()
	req.Version = 2
	req.Group = "g"
	req.MemberID = member
	_ = c.LeaveGroup(context.Background(), req)
}

func c13cBody(variant int) func(s *sched.Sched) {
	return func(s *sched.Sched) {
		cid := "verif"
		name := "a"
		meta := metadata.ClusterMetadata{Brokers: []protocol.MetadataBroker{{NodeID: 1, Host: "h", Port: 1}}, ControllerID: 1, ClusterID: &cid,
			Topics: []protocol.MetadataTopic{{Topic: &name, Partitions: []protocol.MetadataPartition{{Partition: 0, Leader: 1, Replicas: []int32{1}, ISR: []int32{1}}}}}}
		inner := metadata.NewInMemoryStore(meta)
		c := NewGroupCoordinator(&c13cStore{inner}, protocol.MetadataBroker{NodeID: 1, Host: "h", Port: 1}, nil)
		defer c.Stop()
		j, err := c13cJoin(c, "")
		if err != nil || j.ErrorCode != 0 {
			s.Fail("harness", "setup join: %v", err)
			return
		}
		m1, g1 := j.MemberID, j.Generation
		if code, err := c13cSync(c, m1, g1); err != nil || code != 0 {
			s.Fail("harness", "setup sync: %v code %d", err, code)
			return
		}
		var res1, res2 int16 = -100, -100
		s.Go("T1", func() {
			res1, _ = c13cCommit(c, m1, g1, 5)
		})
		s.Go("T2", func() {
			if variant == 0 {
				c13cLeave(c, m1)
			}
			j2, err := c13cJoin(c, "")
			if err != nil || j2.ErrorCode != 0 {
				if variant == 0 {
					return
				}
				// variant 1: m1 is still a member, so the join of m2 only starts a rebalance;
				// the successor cannot commit in this scenario
				return
			}
			if code, err := c13cSync(c, j2.MemberID, j2.Generation); err != nil || code != 0 {
				return
			}
			res2, _ = c13cCommit(c, j2.MemberID, j2.Generation, 9)
		})
		s.Run()
		if s.Deadlock {
			s.Fail("deadlock", "blocked: %s", s.Blocked())
			return
		}
		off, _, _ := inner.FetchConsumerOffset(context.Background(), "g", "a", 0)
		committed, _ := inner.HasConsumerOffset(context.Background(), "g", "a", 0)
		if res2 == 0 && off != 9 {
			s.Fail("stale-commit-lands-after-successor-commit", "T2's commit of 9 (after leave(m1)) was acknowledged, T1's commit of 5 as m1 returned code %d, final committed offset is %d", res1, off)
		}
		if res1 != 0 && res2 != 0 && committed {
			s.Fail("rejected-commit-changed-offset", "both commits were rejected (codes %d, %d) but an offset %d is stored", res1, res2, off)
		}
		if res1 == 0 && res2 != 0 && off != 5 {
			s.Fail("acknowledged-commit-not-stored", "T1's commit was acknowledged, T2's was not (code %d), final offset %d", res2, off)
		}
		s.Note("r1=%d r2=%d off=%d", res1, res2, off)
	}
}

func c13cHeartbeat(c *GroupCoordinator, member string, gen int32) int16 {
	req := kmsg.NewPtrHeartbeatRequest()
	req.Version = 3
	req.Group = "g"
	req.MemberID = member
	req.Generation = gen
	return c.Heartbeat(context.Background(), req).ErrorCode
}

// c13cColdBody: a group persisted by a previous coordinator (members A and B, stable) is
// served by a fresh coordinator whose cache is cold. T1: old member A heartbeats and
// commits at the persisted generation. T2: a new member C joins (which starts a
// rebalance and moves the generation on). Whatever the interleaving of the two first
// loads of the group: the generation reported to members never decreases, C is not
// forgotten, and once C's join has moved the generation on, A's stale commit is fenced.
func c13cColdBody(s *sched.Sched) {
	cid := "verif"
	name := "a"
	meta := metadata.ClusterMetadata{Brokers: []protocol.MetadataBroker{{NodeID: 1, Host: "h", Port: 1}}, ControllerID: 1, ClusterID: &cid,
		Topics: []protocol.MetadataTopic{{Topic: &name, Partitions: []protocol.MetadataPartition{{Partition: 0, Leader: 1, Replicas: []int32{1}, ISR: []int32{1}}}}}}
	inner := metadata.NewInMemoryStore(meta)
	br := protocol.MetadataBroker{NodeID: 1, Host: "h", Port: 1}
	c0 := NewGroupCoordinator(inner, br, nil)
	ja, _ := c13cJoin(c0, "")
	_, _ = c13cSync(c0, ja.MemberID, ja.Generation)
	jb, _ := c13cJoin(c0, "")
	ja2, _ := c13cJoin(c0, ja.MemberID)
	if ja2 == nil || jb == nil || ja2.ErrorCode != 0 {
		c0.Stop()
		s.Fail("harness", "setup: rejoin code")
		return
	}
	gen := ja2.Generation
	_, _ = c13cSync(c0, ja.MemberID, gen)
	_, _ = c13cSync(c0, jb.MemberID, gen)
	_, _ = c13cCommit(c0, ja.MemberID, gen, 10)
	c0.Stop()
	a := ja.MemberID
	c := NewGroupCoordinator(&c13cStore{inner}, br, nil)
	defer c.Stop()
	var hb, cm int16 = -100, -100
	var jc *kmsg.JoinGroupResponse
	s.Go("T1", func() {
		hb = c13cHeartbeat(c, a, gen)
		cm, _ = c13cCommit(c, a, gen, 99)
	})
	s.Go("T2", func() {
		jc, _ = c13cJoin(c, "")
	})
	s.Run()
	if s.Deadlock {
		s.Fail("deadlock", "blocked: %s", s.Blocked())
		return
	}
	if jc == nil {
		s.Fail("harness", "join of C failed")
		return
	}
	// sequential probes after both threads finished (nothing else happens in between)
	hbC := c13cHeartbeat(c, jc.MemberID, jc.Generation)
	if hbC == protocol.UNKNOWN_MEMBER_ID {
		s.Fail("member-forgotten-after-concurrent-cold-load", "C joined (generation %d) and is unknown to the coordinator afterwards", jc.Generation)
	} else if hbC == protocol.ILLEGAL_GENERATION {
		s.Fail("generation-changed-after-concurrent-cold-load", "C was told generation %d, which the coordinator no longer accepts", jc.Generation)
	}
	off, _, _ := inner.FetchConsumerOffset(context.Background(), "g", "a", 0)
	late, _ := c13cCommit(c, a, gen, 77)
	if jc.Generation > gen && late == 0 {
		s.Fail("stale-commit-accepted-after-concurrent-cold-load", "generation moved %d -> %d but A's commit at %d is still accepted", gen, jc.Generation, gen)
	}
	s.Note("hb=%d cm=%d joinC=%d/gen%d off=%d late=%d", hb, cm, jc.ErrorCode, jc.Generation, off, late)
}

func TestVerifC13Conc(t *testing.T) {
	rep := vh.New(t, "C13")
	defer rep.Finish()
	rep.Rule = "schedule half: DFS over all interleavings (preemption bound) of {commit(m1,g,5)} with {leave(m1); join(m2); sync(m2); commit(m2,g',9)} on a real GroupCoordinator (mutex and every store write are scheduling points); specialised linearizability oracle on the final committed offset; distinct = distinct (codes, final offset) outcomes; non-trivial = >=1 thread switch"
	P := 3
	if vh.Thorough() {
		P = 4
	}
	rep.SetInfo("conc_preemption_bound", P)
	var rp struct {
		Variant int
		Choices []int
	}
	if ok, err := vh.LoadReplay(&rp); ok {
		if err != nil {
			t.Fatalf("HARNESS-ERROR %v", err)
		}
		if rp.Choices == nil {
			return // a replay of the history half
		}
		body := c13cBody(rp.Variant)
		if rp.Variant == 2 {
			body = c13cColdBody
		}
		x := sched.RunOnce(t, sched.Config{}, rp.Choices, true, body)
		fmt.Printf("REPLAY variant=%d choices=%v steps=%v notes=%v fails=%+v\n", rp.Variant, rp.Choices, x.Steps, x.Notes, x.Fails)
		rep.Eval(1)
		for _, f := range x.Fails {
			rep.Violation("concurrent:"+f.Key, f.Detail, rp)
		}
		return
	}
	st := sched.Explore(t, sched.Config{MaxPreempt: P, Deadline: vh.Deadline()}, c13cBody(0), func(x *sched.Exec) {
		rep.Eval(1)
		sw, _ := x.NonDefault()
		rep.Outcome("conc"+fmt.Sprint(x.Notes), sw > 0)
		if sw > 1 {
			rep.Sample(map[string]any{"half": "schedules", "choices": x.Choices, "outcome": x.Notes})
		}
		for _, f := range x.Fails {
			rep.Violation("concurrent:"+f.Key, f.Detail, map[string]any{"Variant": 0, "Choices": x.Choices})
		}
	})
	rep.Count("concurrent_executions", int64(st.Execs))
	if st.Capped {
		rep.Cap("deadline in the schedule half")
	}
	st2 := sched.Explore(t, sched.Config{MaxPreempt: P, Deadline: vh.Deadline()}, c13cColdBody, func(x *sched.Exec) {
		rep.Eval(1)
		sw, _ := x.NonDefault()
		rep.Outcome("cold"+fmt.Sprint(x.Notes), sw > 0)
		if sw > 1 {
			rep.Sample(map[string]any{"half": "schedules-cold-load", "choices": x.Choices, "outcome": x.Notes})
		}
		for _, f := range x.Fails {
			rep.Violation("concurrent:"+f.Key, f.Detail, map[string]any{"Variant": 2, "Choices": x.Choices})
		}
	})
	rep.Count("concurrent_executions", int64(st2.Execs))
	if st2.Capped {
		rep.Cap("deadline in the cold-load schedule half")
	}
}
