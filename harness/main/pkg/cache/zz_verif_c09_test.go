//go:build verif

package cache

import (
	"bytes"
	"fmt"
	"sync/atomic"
	"testing"
	"time"

	"github.com/KafScale/platform/internal/verif/enum"
	"github.com/KafScale/platform/internal/verif/sched"
	"github.com/KafScale/platform/internal/verif/vh"
)

// C09: the segment cache never holds more bytes than its capacity after any operation;
// a lookup returns exactly the bytes most recently stored under that key, or a miss;
// bytes already handed to a reader never change afterwards.
//
// Part 1 (histories): every operation sequence up to a depth over 3 keys (two differ
// only in partition, two only in base offset) x 5 sizes around the capacity, on the
// real SegmentCache; after every operation the internal size is recomputed and every
// slice ever returned by GetSegment is compared with a private copy taken at the time.
// Part 2 (schedules): 2-3 threads of set/get on colliding keys under the controlled
// scheduler (segment_cache.go's mutex is a scheduling point); every complete
// interleaving's call/return history must be linearizable against "get returns the
// latest set of the key or a miss", and handed-out bytes must not change.

type c09Key struct {
	topic string
	part  int32
	base  int64
}

var c09Keys = []c09Key{{"t", 0, 0}, {"t", 1, 0}, {"t", 0, 5}}

type c09Op struct {
	Set  bool
	Key  int
	Size int
}

func (o c09Op) String() string {
	if o.Set {
		return fmt.Sprintf("set(k%d,%dB)", o.Key, o.Size)
	}
	return fmt.Sprintf("get(k%d)", o.Key)
}

type c09Held struct {
	slice []byte
	copy  []byte
	op    int
	key   int
}

func c09Payload(tag byte, size int) []byte {
	b := make([]byte, size)
	for i := range b {
		b[i] = tag
	}
	return b
}

// c09Seq runs one history and reports the first violation.
func c09Seq(capacity int, ops []c09Op) (key, detail string) {
	c := NewSegmentCache(capacity)
	last := map[int][]byte{}
	var held []c09Held
	for i, o := range ops {
		k := c09Keys[o.Key]
		if o.Set {
			data := c09Payload(byte(i+1), o.Size)
			c.SetSegment(k.topic, k.part, k.base, data)
			last[o.Key] = append([]byte{}, data...)
			// the caller may reuse its buffer: the cache must have copied it
			for j := range data {
				data[j] = 0xEE
			}
		} else {
			got, ok := c.GetSegment(k.topic, k.part, k.base)
			if ok {
				want, have := last[o.Key]
				if !have {
					return "get-returns-never-stored-key", fmt.Sprintf("op %d %v returned %d bytes for a key never set", i, o, len(got))
				}
				if !bytes.Equal(got, want) {
					return "get-returns-stale-or-foreign-bytes", fmt.Sprintf("op %d %v returned %v, latest set stored %v", i, o, got, want)
				}
				held = append(held, c09Held{slice: got, copy: append([]byte{}, got...), op: i, key: o.Key})
			}
		}
		// invariant: accounted size == real size <= capacity
		sum := 0
		for e := c.ll.Front(); e != nil; e = e.Next() {
			sum += len(e.Value.(*cacheEntry).data)
		}
		if sum != c.size {
			return "size-accounting-drift", fmt.Sprintf("after op %d %v: accounted size %d, entries hold %d bytes", i, o, c.size, sum)
		}
		if sum > c.capacity {
			return "over-capacity", fmt.Sprintf("after op %d %v: %d bytes cached, capacity %d", i, o, sum, c.capacity)
		}
		if len(c.items) != c.ll.Len() {
			return "index-list-mismatch", fmt.Sprintf("after op %d %v: %d map entries, %d list entries", i, o, len(c.items), c.ll.Len())
		}
		for _, h := range held {
			if !bytes.Equal(h.slice, h.copy) {
				return "handed-out-bytes-changed", fmt.Sprintf("bytes returned by op %d (get k%d) were %v and read %v after op %d %v", h.op, h.key, h.copy, h.slice, i, o)
			}
		}
	}
	return "", ""
}

type c09Call struct {
	thread     int
	op         c09Op
	tag        byte
	start, end int64
	hit        bool
	val        byte // tag read (payload byte) when hit and size>0
	size       int
}

// c09Linearizable brute-forces a linearization of calls against the sequential model.
func c09Linearizable(calls []c09Call) bool {
	n := len(calls)
	used := make([]bool, n)
	state := map[int][2]int{} // key -> (tag, size)
	var rec func(done int) bool
	rec = func(done int) bool {
		if done == n {
			return true
		}
		for i := 0; i < n; i++ {
			if used[i] {
				continue
			}
			// real-time order: i may go next only if no unused call ended before i started
			ok := true
			for j := 0; j < n; j++ {
				if !used[j] && j != i && calls[j].end < calls[i].start {
					ok = false
					break
				}
			}
			if !ok {
				continue
			}
			c := calls[i]
			prev, had := state[c.op.Key]
			if c.op.Set {
				state[c.op.Key] = [2]int{int(c.tag), c.op.Size}
			} else if c.hit {
				if !had || prev[1] != c.size || (c.size > 0 && prev[0] != int(c.val)) {
					continue
				}
			}
			used[i] = true
			if rec(done + 1) {
				return true
			}
			used[i] = false
			if c.op.Set {
				if had {
					state[c.op.Key] = prev
				} else {
					delete(state, c.op.Key)
				}
			}
		}
		return false
	}
	return rec(0)
}

func c09Concurrent(capacity int, threads [][]c09Op) func(s *sched.Sched) {
	return func(s *sched.Sched) {
		c := NewSegmentCache(capacity)
		var clock atomic.Int64
		var calls []c09Call
		var held []c09Held
		results := make([][]c09Call, len(threads))
		heldBy := make([][]c09Held, len(threads))
		for ti, ops := range threads {
			ti, ops := ti, ops
			s.Go(fmt.Sprintf("T%d", ti), func() {
				for oi, o := range ops {
					k := c09Keys[o.Key]
					call := c09Call{thread: ti, op: o, tag: byte(ti*16 + oi + 1)}
					call.start = clock.Add(1)
					if o.Set {
						c.SetSegment(k.topic, k.part, k.base, c09Payload(call.tag, o.Size))
					} else {
						got, ok := c.GetSegment(k.topic, k.part, k.base)
						call.hit = ok
						call.size = len(got)
						if ok && len(got) > 0 {
							call.val = got[0]
							for _, b := range got {
								if b != got[0] {
									call.val = 0xFF // torn
								}
							}
						}
						if ok {
							heldBy[ti] = append(heldBy[ti], c09Held{slice: got, copy: append([]byte{}, got...), op: oi, key: o.Key})
						}
					}
					call.end = clock.Add(1)
					results[ti] = append(results[ti], call)
				}
			})
		}
		s.Run()
		if s.Deadlock {
			s.Fail("deadlock", "blocked: %s", s.Blocked())
			return
		}
		for ti := range threads {
			calls = append(calls, results[ti]...)
			held = append(held, heldBy[ti]...)
		}
		if !c09Linearizable(calls) {
			s.Fail("not-linearizable", "history %+v", calls)
		}
		for _, h := range held {
			if !bytes.Equal(h.slice, h.copy) {
				s.Fail("handed-out-bytes-changed", "bytes handed to a reader (get k%d) were %v and read %v at the end", h.key, h.copy, h.slice)
			}
		}
		sum := 0
		for e := c.ll.Front(); e != nil; e = e.Next() {
			sum += len(e.Value.(*cacheEntry).data)
		}
		if sum != c.size || sum > c.capacity {
			s.Fail("over-capacity", "final: accounted %d, real %d, capacity %d", c.size, sum, c.capacity)
		}
		var sig string
		for _, cl := range calls {
			sig += fmt.Sprintf("%v:%v/%d/%d;", cl.op, cl.hit, cl.size, cl.val)
		}
		s.Note("%s", sig)
	}
}

func TestVerifC09(t *testing.T) {
	rep := vh.New(t, "C09")
	defer rep.Finish()
	rep.Rule = "part 1: every sequence of <= depth operations over {set(k,size), get(k)} for 3 colliding keys and sizes {0,1,cap-1,cap,cap+1}, capacities {1,4}, invariants after every operation; part 2: every interleaving (preemption bound) of 2-3 threads of set/get on colliding keys, brute-force linearizability + handed-out bytes; distinct = distinct (history, verdict) / interleaving outcomes; non-trivial = history with a get after >= 2 sets, or an execution with a thread switch"
	shard, nsh := vh.Shard()
	deadline := vh.Deadline()
	type rpT struct {
		Capacity int
		Ops      []c09Op
		Threads  [][]c09Op
		Choices  []int
	}
	var rp rpT
	if ok, err := vh.LoadReplay(&rp); ok {
		if err != nil {
			t.Fatalf("HARNESS-ERROR %v", err)
		}
		if rp.Threads == nil {
			k, d := c09Seq(rp.Capacity, rp.Ops)
			fmt.Printf("REPLAY cap=%d %v => %s %s\n", rp.Capacity, rp.Ops, k, d)
			rep.Eval(1)
			if k != "" {
				rep.Violation(k, d, rp)
			}
		} else {
			x := sched.RunOnce(t, sched.Config{}, rp.Choices, true, c09Concurrent(rp.Capacity, rp.Threads))
			fmt.Printf("REPLAY cap=%d threads=%v choices=%v steps=%v fails=%+v\n", rp.Capacity, rp.Threads, rp.Choices, x.Steps, x.Fails)
			rep.Eval(1)
			for _, f := range x.Fails {
				rep.Violation(f.Key, f.Detail, rp)
			}
		}
		return
	}
	depth := 5
	if vh.Thorough() {
		depth = 6
	}
	rep.SetInfo("depth", depth)
	cnt := 0
	for _, capacity := range []int{1, 4} {
		sizes := []int{0, 1, capacity - 1, capacity, capacity + 1}
		sizes = uniqInts(sizes)
		var alphabet []c09Op
		for k := range c09Keys {
			alphabet = append(alphabet, c09Op{Set: false, Key: k})
			for _, sz := range sizes {
				alphabet = append(alphabet, c09Op{Set: true, Key: k, Size: sz})
			}
		}
		enum.Sequences(len(alphabet), depth, func(idx []int) bool {
			cnt++
			if cnt%nsh != shard {
				return true
			}
			if cnt%4096 == 0 && time.Now().After(deadline) {
				rep.Cap("deadline in sequential part")
				return false
			}
			ops := make([]c09Op, len(idx))
			sets, getAfter := 0, false
			for i, v := range idx {
				ops[i] = alphabet[v]
				if ops[i].Set {
					sets++
				} else if sets >= 2 {
					getAfter = true
				}
			}
			k, d := c09Seq(capacity, ops)
			rep.Eval(1)
			if len(ops) <= 3 {
				rep.Outcome(fmt.Sprint(capacity, ops, k), getAfter)
			} else if getAfter && cnt%64 == 0 {
				rep.Outcome(fmt.Sprint(capacity, ops, k), true)
			}
			if k != "" {
				rep.Violation(k, fmt.Sprintf("cap=%d %v: %s", capacity, ops, d), rpT{Capacity: capacity, Ops: append([]c09Op{}, ops...)})
			} else if getAfter && rep.WantSample() {
				rep.Sample(fmt.Sprintf("cap=%d %v", capacity, ops))
			}
			return true
		})
	}
	rep.Count("sequential_histories", int64(cnt))
	// part 2
	P := 2
	if vh.Thorough() {
		P = 3
	}
	rep.SetInfo("preemption_bound", P)
	scen := [][][]c09Op{
		{{{true, 0, 2}, {false, 0, 0}}, {{true, 0, 3}, {false, 0, 0}}},
		{{{true, 0, 2}, {true, 0, 2}}, {{false, 0, 0}, {false, 0, 0}}},
		{{{true, 0, 4}, {false, 0, 0}}, {{true, 1, 4}, {false, 1, 0}}},
		{{{true, 0, 2}, {false, 2, 0}}, {{true, 2, 2}, {false, 0, 0}}},
		{{{true, 0, 2}}, {{false, 0, 0}, {false, 0, 0}}, {{true, 0, 2}}},
		{{{true, 0, 3}, {false, 0, 0}}, {{true, 1, 3}}, {{false, 0, 0}, {true, 0, 1}}},
	}
	execs := 0
	for si, threads := range scen {
		if si%nsh != shard {
			continue
		}
		threads := threads
		st := sched.Explore(t, sched.Config{MaxPreempt: P, Deadline: deadline}, c09Concurrent(4, threads), func(x *sched.Exec) {
			rep.Eval(1)
			sw, _ := x.NonDefault()
			rep.Outcome(fmt.Sprint("conc", si, x.Notes), sw > 0)
			for _, f := range x.Fails {
				rep.Violation("concurrent:"+f.Key, fmt.Sprintf("threads=%v: %s", threads, f.Detail), rpT{Capacity: 4, Threads: threads, Choices: x.Choices})
			}
		})
		execs += st.Execs
		if st.Capped {
			rep.Cap("deadline in concurrent part")
		}
	}
	rep.Count("concurrent_executions", int64(execs))
}

func uniqInts(in []int) []int {
	seen := map[int]bool{}
	var out []int
	for _, v := range in {
		if v < 0 || seen[v] {
			continue
		}
		seen[v] = true
		out = append(out, v)
	}
	return out
}
